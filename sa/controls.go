package main

// Negative controls (thorough tier): mutations of go-debian's own source applied
// through packages.Config.Overlay. Filled in per property in controls_*.go.

func runControls(prop string, rp *Report) {}

func runControl(prop, name string) int { return 2 }
