package main

// Negative controls (thorough tier): single realistic edits of go-debian's own
// source, applied in memory through packages.Config.Overlay (no scratch copy of
// the repository, nothing written to /repo). Each control must still type-check
// and must make the named rule report a violation. A control whose rule stays
// silent fails the thorough check: the checker, not the library, is broken.
//
// Controls come from two places: the substitution table below (the repaired
// defects re-introduced, plus edits from DESIGN.md Appendix B) and every seeded
// change under /verif/seeded/<id>/patch.diff.

import (
	"encoding/json"
	"fmt"
	"os"
	"os/exec"
	"path/filepath"
	"sort"
	"strings"
	"sync"
)

type control struct {
	Prop string
	Name string
	File string // relative to /repo
	Old  string
	New  string
	Rule string // expected rule prefix ("" = any rule of the property)
}

var controlTable = []control{
	// C01 / C02
	{"C01", "drop-punct-bias", "version/version.go", "return int(r) + 256", "return int(r)", "C01-"},
	{"C01", "tilde-weighs-zero", "version/version.go", "if r == '~' {\n\t\treturn -1", "if r == '~' {\n\t\treturn 0", "C01-"},
	{"C01", "no-zero-skipping", "version/version.go", "for i < len(a) && a[i] == '0' {\n\t\t\ti++\n\t\t}", "", "C01-RUN"},
	{"C01", "last-difference-wins", "version/version.go", "if first_diff == 0 {\n\t\t\t\tfirst_diff = int(rune(a[i]) - rune(b[j]))\n\t\t\t}", "first_diff = int(rune(a[i]) - rune(b[j]))", "C01-RUN"},
	{"C01", "longer-run-rule-dropped", "version/version.go", "if i < len(a) && cisdigit(rune(a[i])) {\n\t\t\treturn 1\n\t\t}", "", "C01-RUN"},
	{"C01", "revision-before-upstream", "version/version.go", "rc := verrevcmp(a.Version, b.Version)\n\tif rc != 0 {\n\t\treturn rc\n\t}\n\n\treturn verrevcmp(a.Revision, b.Revision)", "rc := verrevcmp(a.Revision, b.Revision)\n\tif rc != 0 {\n\t\treturn rc\n\t}\n\n\treturn verrevcmp(a.Version, b.Version)", "C01-SEQ"},
	{"C01", "epoch-ignored", "version/version.go", "if a.Epoch > b.Epoch {\n\t\treturn 1\n\t}", "", "C01-SEQ"},
	{"C02", "exhausted-second-operand-weighs-minus-one", "version/version.go", "bc := 0\n\t\t\tif j < len(b) {", "bc := -1\n\t\t\tif j < len(b) {", "C02-EQUIV"},
	{"C02", "less-is-not-strict", "version/version.go", "return Compare(a[i], a[j]) < 0", "return Compare(a[i], a[j]) <= 0", "C02-SORT"},
	{"C02", "swap-assigns-one-way", "version/version.go", "a[i], a[j] = a[j], a[i]", "a[i] = a[j]", "C02-SORT"},
	// C03
	{"C03", "json-quoted-marshaltext", "version/version.go", "return []byte(version.String()), nil", "return []byte(\"\\\"\" + version.String() + \"\\\"\"), nil", "C03-CODEC"},
	{"C03", "signed-epoch-accepted-again", "version/version.go", "if strings.IndexFunc(trimmed[:colon], func(c rune) bool { return c < '0' || c > '9' }) != -1 {\n\t\t\treturn fmt.Errorf(\"epoch is not an unsigned number\")\n\t\t}\n", "", "C03-TABLE"},
	{"C03", "epoch-not-reset", "version/version.go", "result.Epoch = 0\n\tresult.Revision = \"\"\n", "result.Revision = \"\"\n", "C03-RESET"},
	{"C03", "empty-upstream-accepted", "version/version.go", "if len(result.Version) == 0 {\n\t\treturn fmt.Errorf(\"version number is empty\")\n\t}\n\tif !unicode.IsDigit(rune(result.Version[0])) {", "if len(result.Version) > 0 && !unicode.IsDigit(rune(result.Version[0])) {", "C03-TABLE"},
	// (removing the embedded-white-space test of the version parser is an equivalent mutant: the alphabet tests and the
	// epoch's integer parse reject every such string anyway; it is not a control)
	{"C03", "epoch-at-last-colon", "version/version.go", "colon := strings.Index(trimmed, \":\")", "colon := strings.LastIndex(trimmed, \":\")", "C03-TABLE"},
	{"C03", "underscore-admitted", "version/version.go", "c != '.' && c != '-' && c != '+' && c != '~' && c != ':'", "c != '.' && c != '-' && c != '+' && c != '~' && c != ':' && c != '_'", "C03-ALPHA"},
	{"C03", "ambiguous-render-again", "version/version.go", "if v.Epoch > 0 || strings.Contains(v.Version, \":\") {", "if v.Epoch > 0 {", "C03-RENDER"},
	{"C03", "epoch-64-bits-again", "version/version.go", "strconv.ParseInt(trimmed[:colon], 10, strconv.IntSize)", "strconv.ParseInt(trimmed[:colon], 10, 64)", "C03-EPOCHWIDTH"},
	// C04
	{"C04", "newline-not-a-name-terminator", "dependency/parser.go", "case ' ', '\\t', '\\r', '\\n', '(':\n\t\t\terr := parsePossibilityControllers(input, ret)", "case ' ', '\\t', '\\r', '(':\n\t\t\terr := parsePossibilityControllers(input, ret)", "C04-TOKENS"},
	{"C04", "byte-after-dollar-skipped-unseen", "dependency/parser.go", "if input.Peek() != '{' {\n\t\treturn errors.New(\"Expected '{' after the '$' of a substvar\")\n\t}\n", "", "C04-LANG"},
	{"C04", "anything-after-substvar", "dependency/parser.go", "default:\n\t\t\t\treturn fmt.Errorf(\"Trailing garbage after a substvar: %c\", peek)", "default:\n\t\t\t\trelation.Possibilities = append(relation.Possibilities, *ret)\n\t\t\t\treturn nil", "C04-LANG"},
	{"C04", "second-version-guard-removed", "dependency/parser.go", "if possi.Version != nil {", "if false {", "C04-LANG"},
	{"C04", "second-arch-guard-removed", "dependency/parser.go", "if len(possi.Architectures.Architectures) != 0 {", "if false {", "C04-LANG"},
	{"C04", "mixed-negation-accepted", "dependency/parser.go", "} else if possi.Architectures.Not != hasNot {", "} else if false {", "C04-LANG"},
	{"C04", "eof-in-version-accepted", "dependency/parser.go", "return errors.New(\"Oh no. Reached EOF before Number finished\")", "return nil", "C04-LANG"},
	{"C04", "blank-before-paren-in-number", "dependency/parser.go", "case ' ', '\\t', '\\r', '\\n':\n\t\t\teatWhitespace(input)\n\t\t\tif input.Peek() != ')' {\n\t\t\t\treturn errors.New(\"Trailing garbage after a Version number\")\n\t\t\t}\n\t\t\treturn nil\n", "", "C04-TOKENS"},
	{"C04", "error-of-relation-dropped", "dependency/parser.go", "err := parseRelation(input, ret)\n\t\tif err != nil {\n\t\t\treturn err\n\t\t}", "parseRelation(input, ret)", "C04-"},
	// C05
	{"C05", "empty-cpu-rendered-as-nothing-again", "dependency/string.go", "a.CPU != \"any\" && a.CPU != \"all\" && a.CPU != \"\" {", "a.CPU != \"any\" && a.CPU != \"all\" {", "C05-FIXPOINT"},
	{"C05", "substvar-flag-ignored", "dependency/string.go", "if possi.Substvar {\n\t\treturn \"${\" + possi.Name + \"}\"\n\t}\n", "", "C05-"},
	{"C05", "qualifier-not-rendered", "dependency/string.go", "if possi.Arch != nil {\n\t\tstr += \":\" + possi.Arch.String()\n\t}\n", "", "C05-"},
	{"C05", "stage-negation-not-rendered", "dependency/string.go", "if stage.Not {\n\t\treturn \"!\" + stage.Name\n\t}\n", "", "C05-"},
	{"C05", "linux-elided-again", "dependency/string.go", "if a.ABI == \"any\" {\n\t\t\treturn a.OS + \"-\" + a.CPU\n\t\t}", "if a.ABI == \"any\" {\n\t\t\tif a.OS == \"linux\" {\n\t\t\t\treturn a.CPU\n\t\t\t}\n\t\t\treturn a.OS + \"-\" + a.CPU\n\t\t}", "C05-ARCH"},
	{"C05", "byte-re-encoded-again", "dependency/parser.go", "ret.Name += string([]byte{input.Next()})\n\t}\n}\n\nfunc parseSubstvar", "ret.Name += string(input.Next())\n\t}\n}\n\nfunc parseSubstvar", "C05-BYTES"},
	{"C05", "empty-relation-stored-again", "dependency/parser.go", "if len(ret.Possibilities) > 0 {\n\t\t\t\tdependency.Relations = append(dependency.Relations, *ret)\n\t\t\t}", "dependency.Relations = append(dependency.Relations, *ret)", "C05-"},
	// C06
	{"C06", "ge-becomes-gt", "dependency/dependency.go", "case \">=\":\n\t\treturn q >= 0", "case \">=\":\n\t\treturn q > 0", "C06-SAT"},
	{"C06", "compare-operands-swapped", "dependency/dependency.go", "q := version.Compare(ver, vVer)", "q := version.Compare(vVer, ver)", "C06-SAT"},
	{"C06", "matches-returns-not-on-hit", "dependency/arch.go", "return !not\n\t\t}", "return not\n\t\t}", "C06-SET"},
	{"C06", "empty-list-admits-nothing", "dependency/arch.go", "/* We're not a thing. Always true. */\n\t\treturn true", "return false", "C06-SET"},
	{"C06", "no-break-after-first-admitted", "dependency/dependency.go", "possies = append(possies, possibility)\n\t\t\t\tbreak", "possies = append(possies, possibility)", "C06-SELECT"},
	{"C06", "substvars-not-skipped", "dependency/dependency.go", "if possibility.Substvar {\n\t\t\t\tcontinue\n\t\t\t}\n\n\t\t\tif possibility.Architectures.Matches(&arch) {", "if possibility.Architectures.Matches(&arch) {", "C06-SELECT"},
	{"C06", "is-drops-os-conjunct", "dependency/arch.go", "(arch.OS == other.OS || other.OS == \"any\") &&\n", "", "C06-IS"},
	{"C06", "all-matches-any-cpu", "dependency/arch.go", "(arch.CPU == other.CPU || (arch.CPU != \"all\" && other.CPU == \"any\"))", "(arch.CPU == other.CPU || other.CPU == \"any\")", "C06-IS"},
	// C07
	{"C07", "comments-not-skipped", "control/parse.go", "if strings.HasPrefix(line, \"#\") {\n\t\t\tcontinue // skip comments\n\t\t}\n", "", "C07-LINES"},
	{"C07", "crlf-not-blank", "control/parse.go", "if line == \"\\n\" || line == \"\\r\\n\" {", "if line == \"\\n\" {", "C07-LINES"},
	{"C07", "tab-not-a-continuation", "control/parse.go", "if strings.HasPrefix(line, \" \") || strings.HasPrefix(line, \"\\t\") {", "if strings.HasPrefix(line, \" \") {", "C07-LINES"},
	{"C07", "field-appended-without-lookup", "control/parse.go", "paragraph.Set(lastKey, value)", "paragraph.Order = append(paragraph.Order, lastKey)\n\t\tparagraph.Values[lastKey] = value", "C07-"},
	{"C07", "orphan-continuation-stored", "control/parse.go", "if len(paragraph.Order) == 0 {\n\t\t\t\treturn nil, fmt.Errorf(\"Bad line: '%s' continues no field\", line)\n\t\t\t}\n", "", "C07-"},
	{"C07", "all-returns-partial-list-with-error", "control/parse.go", "return []Paragraph{}, err", "return ret, err", "C07-ALL"},
	{"C07", "last-line-without-newline-dropped", "control/parse.go", "if err == io.EOF && line != \"\" {\n\t\t\terr = nil\n\t\t\tline = line + \"\\n\"", "if false {\n\t\t\terr = nil\n\t\t\tline = line + \"\\n\"", "C07-LINES"},
	// C08
	{"C08", "terminal-newline-folded-again", "control/parse.go", "strings.Split(strings.TrimSuffix(p.Values[key], \"\\n\"), \"\\n\")", "strings.Split(p.Values[key], \"\\n\")", "C08-"},
	{"C08", "empty-lines-not-dotted", "control/parse.go", "if strings.TrimSpace(lines[i]) == \"\" {\n\t\t\t\tlines[i] = \".\"\n\t\t\t}", "", "C08-"},
	{"C08", "separator-never-written", "control/encode.go", "if e.alreadyWritten {", "if false {", "C08-SEP"},
	{"C08", "flag-never-set", "control/encode.go", "e.alreadyWritten = true\n", "", "C08-SEP"},
	// C09
	{"C09", "uint-case-removed-from-decoder", "control/decode.go", "case reflect.Uint:\n\t\tif value == \"\" {\n\t\t\tfield.SetUint(0)\n\t\t\treturn nil\n\t\t}\n\t\tvalue, err := strconv.ParseUint(value, 10, 0)\n\t\tif err != nil {\n\t\t\treturn err\n\t\t}\n\t\tfield.SetUint(value)\n\t\treturn nil\n", "", "C09-KINDS"},
	{"C09", "nil-guard-removed", "control/encode.go", "if field.IsNil() {\n\t\t\treturn \"\", nil\n\t\t}\n", "", "C09-NOPANIC"},
	{"C09", "encoder-writes-true", "control/encode.go", "return \"yes\", nil", "return \"true\", nil", "C09-KINDS"},
	{"C09", "decoder-ignores-required", "control/decode.go", "if fieldType.Tag.Get(\"required\") == \"true\" {\n\t\t\t\treturn fmt.Errorf(", "if false {\n\t\t\t\treturn fmt.Errorf(", "C09-"},
	{"C09", "update-receiver-and-argument-swapped", "control/encode.go", "para := foundParagraph.Update(Paragraph{Order: order, Values: values})", "np := Paragraph{Order: order, Values: values}\n\tpara := np.Update(foundParagraph)", "C09-MERGE"},
	{"C09", "set-always-appends", "control/parse.go", "if _, found := p.Values[key]; found {", "if _, found := p.Values[key]; found && false {", "C09-MERGE"},
	// C10
	{"C10", "strip-removed-from-dsc-files", "control/dsc.go", "Files           []MD5FileHash    `control:\"Files\" delim:\"\\n\" strip:\"\\n\\r\\t \"`", "Files           []MD5FileHash    `control:\"Files\" delim:\"\\n\"`", "C10-TAGS"},
	{"C10", "build-depends-indep-misspelt", "control/dsc.go", "`control:\"Build-Depends-Indep\"`\n\n\tChecksumsSha1", "`control:\"Build-Depends-InDep\"`\n\n\tChecksumsSha1", "C10-TAGS"},
	{"C10", "changes-binary-split-on-comma", "control/changes.go", "`control:\"Binary\" delim:\" \"`", "`control:\"Binary\" delim:\",\"`", "C10-TAGS"},
	{"C10", "hash-line-columns-swapped", "control/filehash.go", "c.Hash = vals[0]\n\t\tc.Size, err = strconv.ParseInt(vals[1], 10, 64)\n\t\tif err != nil {\n\t\t\treturn err\n\t\t}\n\t\tc.Filename = vals[2]", "c.Filename = vals[0]\n\t\tc.Size, err = strconv.ParseInt(vals[1], 10, 64)\n\t\tif err != nil {\n\t\t\treturn err\n\t\t}\n\t\tc.Hash = vals[2]", "C10-HASHLINE"},
	{"C10", "sha1-type-tags-sha256", "control/filehash.go", "return c.unmarshalControl(\"sha1\", data)", "return c.unmarshalControl(\"sha256\", data)", "C10-"},
	{"C10", "getpredepends-asks-for-depends", "control/index.go", "return index.getOptionalDependencyField(\"Pre-Depends\")", "return index.getOptionalDependencyField(\"Depends\")", "C10-ACCESS"},
	{"C10", "maintainers-omit-maintainer", "control/dsc.go", "return append([]string{d.Maintainer}, d.Uploaders...)", "return append([]string{}, d.Uploaders...)", "C10-ACCESS"},
	{"C10", "dsc-binary-strip-removed-again", "control/dsc.go", "`control:\"Binary\" delim:\",\" strip:\"\\n\\r\\t \"`", "`control:\"Binary\" delim:\",\"`", "C10-TAGS"},
	// C11
	{"C11", "verification-error-ignored", "control/parse.go", "if err != nil {\n\t\treturn err\n\t}\n\n\tp.signer = signer", "_ = err\n\n\tp.signer = signer", "C11-"},
	{"C11", "reader-built-from-raw-input", "control/parse.go", "p.signer = signer\n\tp.reader = bufio.NewReader(bytes.NewBuffer(block.Bytes))", "p.signer = signer\n\tp.reader = bufio.NewReader(bytes.NewBuffer(signedData))", "C11-SAMEBYTES"},
	{"C11", "plaintext-parsed-bytes-verified", "control/parse.go", "p.signer = signer\n\tp.reader = bufio.NewReader(bytes.NewBuffer(block.Bytes))", "p.signer = signer\n\tp.reader = bufio.NewReader(bytes.NewBuffer(block.Plaintext))", "C11-SAMEBYTES"},
	{"C11", "decoder-error-ignored", "control/parse.go", "if err := ret.decodeClearsig(keyring); err != nil {\n\t\treturn nil, err\n\t}", "ret.decodeClearsig(keyring)", "C11-PROP"},
	{"C11", "sniff-length-mismatch", "control/parse.go", "bufioReader.Peek(15)", "bufioReader.Peek(14)", "C11-PROP"},
	// C12
	{"C12", "size-counts-calls", "hashio/hash.go", "dh.size += int64(n)", "dh.size++", "C12-COUNT"},
	{"C12", "sha1-wired-to-sha256", "hashio/hash.go", "return sha1.New(), nil", "_ = sha1.New\n\t\treturn sha256.New(), nil", "C12-ALG"},
	{"C12", "close-always-nil", "control/filehash.go", "return fmt.Errorf(\"invalid hash: got %x, want %x\", got, v.want)", "return nil", "C12-CLOSE"},
	{"C12", "target-left-out-of-multiwriter", "hashio/construct.go", "endWriter := io.MultiWriter(target, hw)", "endWriter := io.MultiWriter(hw)", "C12-FANOUT"},
	{"C12", "sha512-field-typed-sha256-again", "control/index.go", "ChecksumsSha512 []SHA512FileHash", "ChecksumsSha512 []SHA256FileHash", "C12-FIELDTYPE"},
	{"C12", "one-hasher-left-out", "hashio/construct.go", "hashers = append(hashers, hw)\n\t\twriters = append(writers, hw)\n\t}\n\n\tendWriter", "hashers = append(hashers, hw)\n\t\tif len(writers) == 0 {\n\t\t\twriters = append(writers, hw)\n\t\t}\n\t}\n\n\tendWriter", "C12-FANOUT"},
	// C13
	{"C13", "padding-term-dropped", "deb/ar.go", "d.offset += int64(count) + entry.Size + (entry.Size % 2)", "d.offset += int64(count) + entry.Size", "C13-OFFSET"},
	{"C13", "data-starts-one-byte-early", "deb/ar.go", "io.NewSectionReader(d.in, d.offset+int64(count), entry.Size)", "io.NewSectionReader(d.in, d.offset+int64(count)-1, entry.Size)", "C13-OFFSET"},
	{"C13", "size-columns-48-57", "deb/ar.go", "{\"Size\", &entry.Size, line[48:58]}", "{\"Size\", &entry.Size, line[48:57]}", "C13-COLS"},
	{"C13", "trailing-slash-kept", "deb/ar.go", "strings.TrimSuffix(strings.TrimSpace(string(line[0:16])), \"/\")", "strings.TrimSpace(string(line[0:16]))", "C13-NAME"},
	{"C13", "global-magic-seven-bytes", "deb/ar.go", "if string(header) != \"!<arch>\\n\" {", "if string(header[:7]) != \"!<arch>\" {", "C13-MAGIC"},
	{"C13", "section-length-plus-one", "deb/ar.go", "d.offset+int64(count), entry.Size)", "d.offset+int64(count), entry.Size+1)", "C13-OFFSET"},
	// C14
	{"C14", "unknown-format-accepted", "deb/deb.go", "default:\n\t\treturn nil, fmt.Errorf(\"Unknown binary version: '%s'\", version)", "default:\n\t\treturn loadDeb2(contents)", "C14-FORMAT"},
	{"C14", "xz-row-wired-to-gzip", "deb/tarfile.go", "\".xz\":   xzNewReader,", "\".xz\":   gzipNewReader,", "C14-CODECS"},
	{"C14", "control-ext-sliced-at-7", "deb/deb.go", "deb.ControlExt = member.Name[8:len(member.Name)]", "deb.ControlExt = member.Name[7:len(member.Name)]", "C14-EXT"},
	{"C14", "control-lookup-by-raw-name", "deb/deb.go", "if path.Clean(member.Name) == \"control\" {", "if _ = path.Clean; member.Name == \"control\" {", "C14-CONTROL"},
	{"C14", "first-match-selector-again", "deb/deb.go", "if found != nil {\n\t\t\treturn nil, fmt.Errorf(\"More than one .deb member '%s*'\", prefix)\n\t\t}\n\t\tfound = member", "return member, nil", "C14-DET"},
	// C15
	{"C15", "negative-size-accepted-again", "deb/ar.go", "if entry.Size < 0 {\n\t\treturn nil, fmt.Errorf(\"failed to parse entry Size: negative size %d\", entry.Size)\n\t}\n", "", "C15-OFFSET"},
	{"C15", "truncated-member-returned-again", "deb/ar.go", "\tif entry.Size > 0 {\n\t\t// the last byte of the member has to be there, or Data would come up short\n\t\tlast := make([]byte, 1)\n\t\tif n, err := d.in.ReadAt(last, d.offset+int64(count)+entry.Size-1); n != 1 {\n\t\t\treturn nil, fmt.Errorf(\"ar member %q is cut short: %v\", entry.Name, err)\n\t\t}\n\t}\n", "", "C15-TRUNC"},
	{"C13", "probe-one-past-the-data", "deb/ar.go", "d.in.ReadAt(last, d.offset+int64(count)+entry.Size-1); n != 1 {", "d.in.ReadAt(last, d.offset+int64(count)+entry.Size); n != 1 {", "C13-LAST"},
	{"C15", "magic-and-again", "deb/ar.go", "if line[58] != 0x60 || line[59] != 0x0A {", "if line[58] != 0x60 && line[59] != 0x0A {", "C15-HDRMAGIC"},
	// (removing the `count != 60` test of Ar.Next is an equivalent mutant under the io.ReaderAt contract, which the
	// checks trust: n < len(p) comes with a non-nil error, and that error is returned first; it is not a control)
	{"C15", "header-columns-by-map-again", "deb/ar.go", "for _, target := range []entryField{\n\t\t{\"Timestamp\", &entry.Timestamp, line[16:28]},\n\t\t{\"OwnerID\", &entry.OwnerID, line[28:34]},\n\t\t{\"GroupID\", &entry.GroupID, line[34:40]},\n\t\t{\"Size\", &entry.Size, line[48:58]},\n\t} {", "for _, target := range map[int]entryField{\n\t\t0: {\"Timestamp\", &entry.Timestamp, line[16:28]},\n\t\t1: {\"OwnerID\", &entry.OwnerID, line[28:34]},\n\t\t2: {\"GroupID\", &entry.GroupID, line[34:40]},\n\t\t3: {\"Size\", &entry.Size, line[48:58]},\n\t} {", "C15-DET"},
	{"C15", "log-fatal-on-bad-header", "deb/ar.go", "return nil, fmt.Errorf(\"Malformed file entry line endings\")", "panic(\"Malformed file entry line endings\")", "C15-NOFATAL"},
	// C16
	{"C16", "control-left-out-of-signed-stream", "deb/sigcheck.go", "io.MultiReader(whole(binaryFlag), whole(control), whole(data))", "io.MultiReader(whole(binaryFlag), whole(data))\n\t_ = control", "C16-STREAM"},
	{"C16", "data-before-control", "deb/sigcheck.go", "io.MultiReader(whole(binaryFlag), whole(control), whole(data))", "io.MultiReader(whole(binaryFlag), whole(data), whole(control))", "C16-STREAM"},
	{"C16", "shared-member-readers-again", "deb/sigcheck.go", "signedData := io.MultiReader(whole(binaryFlag), whole(control), whole(data))\n\treturn openpgp.CheckDetachedSignature(validKeys, signedData, whole(sig))", "binaryFlag.Data.Seek(0, 0)\n\tcontrol.Data.Seek(0, 0)\n\tdata.Data.Seek(0, 0)\n\t_ = whole\n\tsignedData := io.MultiReader(binaryFlag.Data, control.Data, data.Data)\n\treturn openpgp.CheckDetachedSignature(validKeys, signedData, sig.Data)", "C16-STREAM"},
	{"C16", "member-read-from-its-second-byte", "deb/sigcheck.go", "io.NewSectionReader(entry.Data, 0, entry.Data.Size())", "io.NewSectionReader(entry.Data, 1, entry.Data.Size()-1)", "C16-STREAM"},
	{"C16", "role-ignored", "deb/sigcheck.go", "deb.ArContent[`_gpg`+sigType]", "deb.ArContent[`_gpgorigin`]", "C16-ROLE"},
	{"C16", "duplicate-names-overwrite-again", "deb/deb.go", "if _, dup := contents[member.Name]; dup {\n\t\t\treturn nil, fmt.Errorf(\"Archive contains more than one member '%s'\", member.Name)\n\t\t}\n", "", "C16-SAME"},
	// C17
	{"C17", "unexpected-eof-is-clean-eof-again", "changelog/changelog.go", "return nil, io.ErrUnexpectedEOF", "return nil, io.EOF", "C17-TABLE"},
	{"C17", "every-error-is-eof", "changelog/changelog.go", "if err == io.EOF {\n\t\t\tbreak\n\t\t}\n\t\tif err != nil {\n\t\t\treturn ChangelogEntries{}, err\n\t\t}", "if err != nil {\n\t\t\tbreak\n\t\t}", "C17-"},
	{"C17", "layout-without-numeric-zone", "changelog/changelog.go", "const whenLayout = time.RFC1123Z", "const whenLayout = time.RFC1123", "C17-TABLE"},
	{"C17", "options-never-filled", "changelog/changelog.go", "changeLog.Arguments[trim(key)] = trim(value)", "_, _ = key, value", "C17-TABLE"},
	{"C17", "trailer-split-on-one-blank", "changelog/changelog.go", "whom, when := partition(signoff, \"  \")", "whom, when := partition(signoff, \" \")", "C17-TABLE"},
	{"C17", "last-line-needs-newline-again", "changelog/changelog.go", "if err == io.EOF && line != \"\" {\n\t\t\terr = nil\n\t\t}\n\t\tif err == io.EOF {", "if err == io.EOF {", "C17-TABLE"},
	// C18
	{"C18", "package-level-cache", "version/version.go", "func Parse(input string) (Version, error) {\n\tresult := Version{}", "var parseCache = map[string]Version{}\n\nfunc Parse(input string) (Version, error) {\n\tif v, ok := parseCache[input]; ok {\n\t\treturn v, nil\n\t}\n\tresult := Version{}\n\tdefer func() { parseCache[input] = result }()", "C18-GLOBALS"},
	{"C18", "cursor-not-advanced-in-blank-eater", "dependency/parser.go", "case '\\r', '\\n', ' ', '\\t':\n\t\t\tinput.Next()\n\t\t\tcontinue", "case '\\r', '\\n', ' ', '\\t':\n\t\t\tcontinue", "C18-TERM"},
	{"C18", "length-test-before-first-digit-removed", "version/version.go", "if len(result.Version) == 0 {\n\t\treturn fmt.Errorf(\"version number is empty\")\n\t}\n", "", "C18-BOUNDS"},
	{"C18", "value-returned-with-error-again", "version/version.go", "if err := parseInto(&result, input); err != nil {\n\t\treturn Version{}, err\n\t}\n\treturn result, nil", "err := parseInto(&result, input)\n\treturn result, err", "C18-XOR"},
	{"C18", "five-columns-not-checked", "control/changes.go", "if len(vals) < 5 {", "if len(vals) < 4 {", "C18-BOUNDS"},
	{"C18", "fatal-on-bad-hash-line", "control/filehash.go", "return fmt.Errorf(\"Error: Unknown Debian Hash line: '%s'\", data)", "panic(\"Unknown Debian Hash line\")", "C18-NOPANIC"},
	// C19
	{"C19", "build-depends-indep-dropped", "control/dsc.go", "concreteBuildDepends = append(concreteBuildDepends, dsc.BuildDependsIndep.GetPossibilities(arch)...)\n", "", "C19-FIELDS"},
	{"C19", "edge-direction-swapped", "control/dsc.go", "err := network.AddEdge(val, dsc.Source)", "err := network.AddEdge(dsc.Source, val)", "C19-FIELDS"},
	{"C19", "addedge-error-ignored", "control/dsc.go", "err := network.AddEdge(val, dsc.Source)\n\t\t\t\tif err != nil {\n\t\t\t\t\treturn nil, err\n\t\t\t\t}", "network.AddEdge(val, dsc.Source)", "C19-ERR"},
	{"C19", "all-possibilities-used", "control/dsc.go", "dsc.BuildDepends.GetPossibilities(arch)...", "dsc.BuildDepends.GetAllPossibilities()...", "C19-FIELDS"},
	// C20
	{"C20", "control-file-first", "control/dsc.go", "for _, file := range d.AbsFiles() {\n\t\tdirname := filepath.Base(file.Filename)\n\t\terr := internal.Copy(file.Filename, dest+\"/\"+dirname)\n\t\tif err != nil {\n\t\t\treturn err\n\t\t}\n\t}\n\n\tdirname := filepath.Base(d.Filename)\n\terr := internal.Copy(d.Filename, dest+\"/\"+dirname)", "dirname := filepath.Base(d.Filename)\n\terr := internal.Copy(d.Filename, dest+\"/\"+dirname)\n\tfor _, file := range d.AbsFiles() {\n\t\tdn := filepath.Base(file.Filename)\n\t\tif err := internal.Copy(file.Filename, dest+\"/\"+dn); err != nil {\n\t\t\treturn err\n\t\t}\n\t}\n", "C20-LAST"},
	{"C20", "copy-error-skipped", "control/changes.go", "err := internal.Copy(file.Filename, dest+\"/\"+dirname)\n\t\tif err != nil {\n\t\t\treturn err\n\t\t}", "err := internal.Copy(file.Filename, dest+\"/\"+dirname)\n\t\tif err != nil {\n\t\t\tcontinue\n\t\t}", "C20-LAST"},
	{"C20", "destination-from-listed-name", "control/dsc.go", "err := os.Rename(file.Filename, dest+\"/\"+dirname)", "_ = dirname\n\t\terr := os.Rename(file.Filename, dest+\"/\"+file.Filename)", "C20-DEST"},
	{"C20", "names-not-checked-before-remove", "control/dsc.go", "func (d *DSC) Remove() error {\n\tif err := d.checkFiles(); err != nil {\n\t\treturn err\n\t}\n", "func (d *DSC) Remove() error {\n", "C20-SRC"},
	{"C20", "cleanup-on-failure-removed", "internal/copy.go", "/* Don't leave a partial file behind */\n\t\tos.Remove(dest)\n", "", "C20-CLEAN"},
	{"C20", "filename-field-decodable-again", "control/dsc.go", "Filename string `control:\"-\"`", "Filename string", "C20-HANDLEFIELD"},
}

type controlResult struct {
	Name    string `json:"name"`
	Applied bool   `json:"applied"`
	Fired   bool   `json:"fired"`
	Rule    string `json:"rule"`
	Detail  string `json:"detail"`
}

func controlsFor(prop string) []control {
	var out []control
	for _, c := range controlTable {
		if c.Prop == prop {
			out = append(out, c)
		}
	}
	// seeded changes for this property (their own check must catch them)
	dirs, _ := filepath.Glob(filepath.Join(verifDir(), "seeded", prop+"-*"))
	sort.Strings(dirs)
	for _, d := range dirs {
		if _, err := os.Stat(filepath.Join(d, "patch.diff")); err == nil {
			// a seed that its meta.json assigns to the check of another property (also_check) or to the thorough
			// tier of its own (controls are run in the quick tier) is not a control of this check
			if raw, err := os.ReadFile(filepath.Join(d, "meta.json")); err == nil {
				var meta struct {
					Also []string `json:"also_check"`
					Tier string   `json:"tier"`
				}
				if json.Unmarshal(raw, &meta) == nil && (len(meta.Also) > 0 || meta.Tier == "thorough") {
					continue
				}
			}
			out = append(out, control{Prop: prop, Name: "seeded:" + filepath.Base(d), File: "@patch:" + filepath.Join(d, "patch.diff")})
		}
	}
	return out
}

// overlayFor builds the in-memory file contents for a control.
func overlayFor(c control) (map[string][]byte, string) {
	if strings.HasPrefix(c.File, "@patch:") {
		patch := strings.TrimPrefix(c.File, "@patch:")
		// apply the patch to copies of the touched files in a temp dir
		tmp, err := os.MkdirTemp("", "gdsa-ctl")
		if err != nil {
			return nil, err.Error()
		}
		defer os.RemoveAll(tmp)
		pb, err := os.ReadFile(patch)
		if err != nil {
			return nil, err.Error()
		}
		var files []string
		for _, l := range strings.Split(string(pb), "\n") {
			if strings.HasPrefix(l, "+++ b/") {
				files = append(files, strings.TrimPrefix(l, "+++ b/"))
			}
		}
		for _, f := range files {
			src, err := os.ReadFile(filepath.Join(repoDir(), f))
			if err != nil {
				return nil, err.Error()
			}
			os.MkdirAll(filepath.Dir(filepath.Join(tmp, f)), 0o755)
			os.WriteFile(filepath.Join(tmp, f), src, 0o644)
		}
		cmd := exec.Command("patch", "-p1", "-s", "-i", patch)
		cmd.Dir = tmp
		if out, err := cmd.CombinedOutput(); err != nil {
			return nil, "patch does not apply: " + strings.TrimSpace(string(out))
		}
		ov := map[string][]byte{}
		for _, f := range files {
			b, _ := os.ReadFile(filepath.Join(tmp, f))
			ov[filepath.Join(repoDir(), f)] = b
		}
		return ov, ""
	}
	path := filepath.Join(repoDir(), c.File)
	src, err := os.ReadFile(path)
	if err != nil {
		return nil, err.Error()
	}
	if strings.Count(string(src), c.Old) != 1 {
		return nil, fmt.Sprintf("the text to replace occurs %d times in %s", strings.Count(string(src), c.Old), c.File)
	}
	return map[string][]byte{path: []byte(strings.Replace(string(src), c.Old, c.New, 1))}, ""
}

// runControl runs one control in this process and prints a JSON result.
func runControl(prop, name string) int {
	var ctl *control
	for _, c := range controlsFor(prop) {
		if c.Name == name {
			cc := c
			ctl = &cc
		}
	}
	res := controlResult{Name: name}
	emit := func() int {
		b, _ := json.Marshal(res)
		fmt.Println(string(b))
		return 0
	}
	if ctl == nil {
		res.Detail = "no such control"
		return emit()
	}
	ov, why := overlayFor(*ctl)
	if ov == nil {
		res.Detail = why
		return emit()
	}
	p, err := LoadRepo("", ov)
	if err != nil {
		res.Detail = "does not compile: " + err.Error()
		return emit()
	}
	res.Applied = true
	rp := NewReport(prop, "quick")
	func() {
		defer func() {
			if r := recover(); r != nil {
				rp.Errorf("engine panic: %v", r)
			}
		}()
		// rules that re-load the repository themselves (GOARCH=386 load) must see the overlay too
		activeOverlay = ov
		registry[prop](p, rp)
		reportGlobalMutations(rp, prop)
	}()
	for _, r := range rp.Rules {
		for _, in := range r.Instances {
			if in.Status == "ok" {
				continue
			}
			if ctl.Rule == "" || strings.HasPrefix(r.ID, ctl.Rule) {
				if !res.Fired || (res.Rule != "" && in.Status == "violated") {
					res.Fired = true
					res.Rule = r.ID
					res.Detail = "[" + in.Status + "] " + in.Construct + ": " + in.Detail
				}
			}
		}
		if len(r.Instances) < r.Floor && (ctl.Rule == "" || strings.HasPrefix(r.ID, ctl.Rule)) && !res.Fired {
			res.Fired = true
			res.Rule = r.ID
			res.Detail = "rule went vacuous (instances below the floor)"
		}
	}
	if !res.Fired && len(rp.errors) > 0 {
		res.Fired = true
		res.Rule = "ENGINE"
		res.Detail = rp.errors[0]
	}
	if len(res.Detail) > 400 {
		res.Detail = res.Detail[:400]
	}
	return emit()
}

var activeOverlay map[string][]byte

// runControls (thorough tier): every control in its own subprocess, 8 at a time.
func runControls(prop string, rp *Report) {
	ctls := controlsFor(prop)
	r := rp.Rule(prop+"-CONTROLS", "negative controls: each seeded edit of go-debian's source must make a rule of this property fire", 0)
	exe, err := os.Executable()
	if err != nil {
		rp.Errorf("controls: %v", err)
		return
	}
	results := make([]controlResult, len(ctls))
	var wg sync.WaitGroup
	sem := make(chan struct{}, 8)
	for i, c := range ctls {
		wg.Add(1)
		go func(i int, c control) {
			defer wg.Done()
			sem <- struct{}{}
			defer func() { <-sem }()
			cmd := exec.Command(exe, "control", prop, c.Name)
			cmd.Env = os.Environ()
			out, err := cmd.Output()
			res := controlResult{Name: c.Name}
			if err != nil {
				res.Detail = "subprocess failed: " + err.Error()
			} else {
				lines := strings.Split(strings.TrimSpace(string(out)), "\n")
				if jerr := json.Unmarshal([]byte(lines[len(lines)-1]), &res); jerr != nil {
					res.Detail = "bad output: " + string(out)
				}
			}
			results[i] = res
		}(i, c)
	}
	wg.Wait()
	fired, skipped := 0, 0
	for _, res := range results {
		key := "control:" + res.Name
		switch {
		case !res.Applied:
			skipped++
			r.ok(key, "", "not applicable to the current source (skipped): "+res.Detail)
		case res.Fired:
			fired++
			r.ok(key, "", "fires "+res.Rule+": "+res.Detail)
		default:
			r.bad(key, "", "the edit compiles but no rule of "+prop+" reports it: the check has a blind spot here", nil)
		}
	}
	rp.Extra["negative_controls"] = map[string]int{"total": len(results), "fired": fired, "skipped": skipped}
}

// ---- canary ------------------------------------------------------------------------------

func startCanary(prop string) chan controlResult {
	ch := make(chan controlResult, 1)
	var first *control
	for _, c := range controlTable {
		if c.Prop == prop {
			cc := c
			first = &cc
			break
		}
	}
	if first == nil || os.Getenv("GDSA_NO_CANARY") != "" {
		ch <- controlResult{Name: "(none)"}
		return ch
	}
	exe, err := os.Executable()
	if err != nil {
		ch <- controlResult{Name: first.Name, Detail: err.Error()}
		return ch
	}
	go func() {
		cmd := exec.Command(exe, "control", prop, first.Name)
		cmd.Env = append(os.Environ(), "GDSA_NO_CANARY=1")
		out, err := cmd.Output()
		res := controlResult{Name: first.Name}
		if err != nil {
			res.Detail = "subprocess failed: " + err.Error()
		} else {
			lines := strings.Split(strings.TrimSpace(string(out)), "\n")
			if jerr := json.Unmarshal([]byte(lines[len(lines)-1]), &res); jerr != nil {
				res.Detail = "bad output"
			}
		}
		ch <- res
	}()
	return ch
}

func finishCanary(prop string, rp *Report, ch chan controlResult) {
	res := <-ch
	if res.Name == "(none)" {
		return
	}
	r := rp.Rule(prop+"-CANARY", "a seeded violation (negative control '"+res.Name+"', applied in memory) must be reported on every run", 1)
	switch {
	case !res.Applied:
		r.ok("canary:"+res.Name, "", "not applicable to the current source (the edited text is gone): "+res.Detail)
	case res.Fired:
		r.ok("canary:"+res.Name, "", "fires "+res.Rule+": "+res.Detail)
		r.Canary = "fired"
	default:
		r.Canary = "silent"
		r.ok("canary:"+res.Name, "", "silent")
	}
}
