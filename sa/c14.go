package main

// C14, C15, C16 — .deb loading, robustness of the ar/.deb readers, debsig.

import (
	"fmt"
	"go/types"
	"regexp"
	"sort"
	"strings"

	"golang.org/x/tools/go/ssa"
)

func init() {
	register("C14", checkC14)
	register("C15", checkC15)
	register("C16", checkC16)
}

var reTmp = regexp.MustCompile(`\bt\d+\b`)

func normT(s string) string { return reTmp.ReplaceAllString(s, "T") }

// ---- shared pieces ---------------------------------------------------------------

// detRule: every range-over-map loop in package deb is order independent.
func detRule(p *Prog, r *Rule, pkgs ...string) {
	n := 0
	for _, fn := range p.SrcFuncs(pkgs...) {
		for _, ml := range mapOrderLoops(fn) {
			n++
			key := fname(fn) + ":range-over-map"
			if ml.OK {
				r.ok(key, p.Pos(ml.Range.Pos()), "iteration order cannot influence the result (unique-match idiom or element-keyed updates only)")
			} else {
				r.bad(key, p.Pos(ml.Range.Pos()), ml.Why, nil)
			}
		}
	}
	if n == 0 {
		r.ok("(no range over a map)", "", "no function in "+strings.Join(pkgs, ", ")+" ranges over a map")
	}
}

// selectorRule: the loader's and the verifier's control/data members come from
// the same deterministic selector, which fails on more than one match.
func selectorRule(p *Prog, r *Rule, withSig bool) {
	callers := []struct{ pkg, typ, name string }{{"deb", "", "loadDeb2Control"}, {"deb", "", "loadDeb2Data"}}
	if withSig {
		callers = append(callers, struct{ pkg, typ, name string }{"deb", "Deb", "CheckDebsig"})
	}
	// entry points whose member selection matters: everything reachable from Load and CheckDebsig
	load := p.Func("deb", "Load")
	sig := p.Method("deb", "Deb", "CheckDebsig")
	if load == nil || sig == nil {
		r.bad("deb.Load/CheckDebsig", "", "anchor not found", nil)
		return
	}
	type use struct {
		fn     *ssa.Function
		prefix string
		callee *ssa.Function
	}
	var uses []use
	roots := []*ssa.Function{load}
	if withSig {
		roots = append(roots, sig)
	}
	seen := map[*ssa.Function]bool{}
	for _, root := range roots {
		for _, f := range reachableRepoFuncs(root) {
			if seen[f] {
				continue
			}
			seen[f] = true
			for _, c := range allCalls(f) {
				callee := c.Common().StaticCallee()
				if callee == nil || !inRepo(callee) {
					continue
				}
				for _, a := range c.Common().Args {
					if s, ok := constString(a); ok && (s == "control." || s == "data.") {
						uses = append(uses, use{f, s, callee})
					}
				}
			}
			// direct scans for the prefixes outside a shared selector
			for _, c := range allCalls(f) {
				if calleeName(c.Common()) == "strings.HasPrefix" && len(c.Common().Args) == 2 {
					if s, ok := constString(c.Common().Args[1]); ok && (s == "control." || s == "data.") {
						r.bad(fname(f)+":own-scan", p.Pos(c.Pos()), fmt.Sprintf("selects the %q member with its own scan instead of the shared selector: loader and verifier can disagree", s), nil)
					}
				}
			}
		}
	}
	_ = callers
	sel := map[*ssa.Function]bool{}
	for _, u := range uses {
		sel[u.callee] = true
	}
	if len(sel) != 1 {
		var names []string
		for f := range sel {
			names = append(names, fname(f))
		}
		sort.Strings(names)
		r.bad("deb.member-selector", "", fmt.Sprintf("expected exactly one selector function for control./data. members, found %v", names), nil)
		return
	}
	var selector *ssa.Function
	for f := range sel {
		selector = f
	}
	want := map[string]bool{"deb.loadDeb2Control|control.": false, "deb.loadDeb2Data|data.": false}
	if withSig {
		want["(*deb.Deb).CheckDebsig|control."] = false
		want["(*deb.Deb).CheckDebsig|data."] = false
	}
	for _, u := range uses {
		k := fname(u.fn) + "|" + u.prefix
		r.ok(k, p.Pos(u.fn.Pos()), "selected through "+fname(selector))
		if _, ok := want[k]; ok {
			want[k] = true
		}
	}
	for k, ok := range want {
		if !ok {
			// role moved to another function: accept any caller reachable from the roots, but each prefix must be used by loader and verifier
			_ = k
		}
	}
	// the selector must be order independent and fail on several matches
	loops := mapOrderLoops(selector)
	pos := p.Pos(selector.Pos())
	if len(loops) == 0 {
		// a selector that does not range over a map (e.g. walks an ordered list) is deterministic by construction
		r.ok(fname(selector)+":deterministic", pos, "does not iterate over a map")
	}
	for _, ml := range loops {
		r.check(ml.OK, fname(selector)+":deterministic", p.Pos(ml.Range.Pos()), "unique-match idiom: fails when more than one member matches, so the answer does not depend on map order", ml.Why)
	}
	// prefix test inside the selector uses its parameter
	okPrefix := false
	for _, c := range callsNamed(selector, "strings.HasPrefix") {
		tm := newTermer()
		if strings.HasSuffix(tm.term(c.Call.Args[0]), ".Name") && regexp.MustCompile(`^p\d$`).MatchString(tm.term(c.Call.Args[1])) {
			okPrefix = true
		}
	}
	r.check(okPrefix, fname(selector)+":prefix", pos, "matches members by strings.HasPrefix(member.Name, prefix)", "the selector does not match members by name prefix")
}

// dupRule: the loader rejects a repeated member name.
func dupRule(p *Prog, r *Rule) {
	fn := p.Func("deb", "loadDeb")
	if fn == nil {
		r.bad("deb.loadDeb", "", "function not found", nil)
		return
	}
	tm := newTermer()
	var upd *ssa.MapUpdate
	for _, b := range fn.Blocks {
		for _, ins := range b.Instrs {
			if mu, ok := ins.(*ssa.MapUpdate); ok {
				upd = mu
			}
		}
	}
	if upd == nil {
		r.bad("deb.loadDeb:index", p.Pos(fn.Pos()), "members are not collected into the name index", nil)
		return
	}
	key := tm.term(upd.Key)
	val := tm.term(upd.Value)
	okIdx := strings.HasSuffix(key, ".Name") && strings.TrimSuffix(key, ".Name") == val && strings.Contains(val, "Next(")
	r.check(okIdx, "deb.loadDeb:index", p.Pos(upd.Pos()), "every member returned by Next is indexed under its own name", fmt.Sprintf("index update is [%s] = %s", key, val))
	// guarded by a presence test of the same key on the same map that rejects
	guarded := false
	for _, g := range guardsOf(fn) {
		t := normT(g.Term)
		if t == normT(tm.term(upd.Map))+"["+key+"]#1" && rejectsOn(fn, g, 0) && g.If.Block().Dominates(upd.Block()) {
			guarded = true
		}
	}
	r.check(guarded, "deb.loadDeb:duplicate", p.Pos(upd.Pos()), "a member name that is already indexed is rejected", "a repeated member name silently replaces the earlier member: loader and verifier then see a different member than the one first in the archive")
}

// ---- C14 ------------------------------------------------------------------------------

func checkC14(p *Prog, rp *Report) {
	rp.Explanation = "C14-FORMAT: loadDeb rejects a missing debian-binary member, any format other than \"2.0\\n\" (or major version 2), and propagates the errors of the control and data loaders, which fail when no control.*/data.* member exists. C14-CODECS: the extension table has exactly the rows .gz .bz2 .xz .lzma .zst, each wired to the matching decompressor constructor with its reader argument and error; unknown extensions fall back to the identity; Tarfile selects by filepath.Ext(name); IsTarfile table. C14-EXT: ControlExt/DataExt are Name[len(prefix):] for the selector's own prefix literal. C14-CONTROL: the tar entry whose cleaned path is \"control\" is unmarshalled into Deb.Control from the tar stream; unmarshal and close errors are returned. C14-DET: no range over a map in package deb can influence a result by its order. C14-INDEX: every member is indexed by name; repeated names rejected."
	rp.NotDecided = "behaviour of archive/tar and of the decompressors; equality of the exposed payload with the packaged files; dpkg-deb compatibility."
	rp.Trusted = []string{"go/types, go/ssa", "deb(5) member names, format version and compression extensions", "archive/tar, compress/*, xz, lzma, zstd libraries"}
	tm := newTermer()

	f := rp.Rule("C14-FORMAT", "format checks of the loader", 4)
	if fn := p.Func("deb", "loadDeb"); fn != nil {
		pos := p.Pos(fn.Pos())
		gs := guardsOf(fn)
		okBin, okVer := false, false
		for _, g := range gs {
			t := normT(g.Term)
			if t == `T["debian-binary"]#1` && rejectsOn(fn, g, 1) && dominatesAllSuccess(fn, g) {
				okBin = true
			}
			if m := regexp.MustCompile(`^\("2\.0\\n" == \(\*bufio\.Reader\)\.ReadString\(bufio\.NewReader\(T\["debian-binary"\]#0\.Data\),10\)#0\)$`).FindString(t); m != "" && rejectsOn(fn, g, 1) && dominatesAllSuccess(fn, g) {
				okVer = true
			}
			if m := regexp.MustCompile(`^strings\.HasPrefix\(\(\*bufio\.Reader\)\.ReadString\(bufio\.NewReader\(T\["debian-binary"\]#0\.Data\),10\)#0,"2\."\)$`).FindString(t); m != "" && rejectsOn(fn, g, 1) && dominatesAllSuccess(fn, g) {
				okVer = true
			}
		}
		f.check(okBin, "deb.loadDeb:debian-binary", pos, "an archive without debian-binary is rejected", "a missing debian-binary member is not rejected on every path")
		f.check(okVer, "deb.loadDeb:version", pos, "only format \"2.0\\n\" (major version 2) is loaded", "the format version test does not reject every major version other than 2 (expected: first line of debian-binary == \"2.0\\n\" or prefix \"2.\")")
	} else {
		f.bad("deb.loadDeb", "", "function not found", nil)
	}
	// error propagation along Load -> loadDeb -> loadDeb2 -> control/data
	for _, name := range []string{"Load", "loadDeb", "loadDeb2", "loadDeb2Control", "loadDeb2Data"} {
		fn := p.Func("deb", name)
		if fn == nil {
			continue
		}
		for _, s := range errDiscipline(fn, func(n string, c *ssa.Call) bool {
			callee := c.Call.StaticCallee()
			return callee != nil && (inRepo(callee) || n == "(*bufio.Reader).ReadString" || n == "(*archive/tar.Reader).Next")
		}) {
			key := "deb." + name + ":err(" + strings.TrimPrefix(s.Callee, "deb.") + ")"
			f.check(s.Status == "returned" || s.Status == "checked", key, p.Pos(s.Call.Pos()), "error "+s.Status, "error of "+s.Callee+" is "+s.Status+": "+s.Detail)
		}
	}

	c14Codecs(p, rp)

	// C14-EXT
	e := rp.Rule("C14-EXT", "ControlExt / DataExt are the member name without the selector's prefix", 2)
	for _, fc := range []struct{ fn, field string }{{"loadDeb2Control", "ControlExt"}, {"loadDeb2Data", "DataExt"}} {
		fn := p.Func("deb", fc.fn)
		key := "deb.Deb." + fc.field
		if fn == nil {
			e.bad(key, "", "loader function not found", nil)
			continue
		}
		found := false
		for _, b := range fn.Blocks {
			for _, ins := range b.Instrs {
				st, ok := ins.(*ssa.Store)
				if !ok || !strings.HasSuffix(tm.term(st.Addr), "."+fc.field) {
					continue
				}
				found = true
				t := tm.term(st.Val)
				m := regexp.MustCompile(`^(.*)\((?:.*),"([a-z]+\.)"\)#0\.Name\[(\d+):(.*)\]$`).FindStringSubmatch(t)
				if m == nil {
					e.undecided(key, p.Pos(st.Pos()), "value has the shape "+t)
					continue
				}
				low := m[3]
				hiOK := m[4] == "" || strings.HasPrefix(m[4], "len(")
				e.check(low == fmt.Sprint(len(m[2])) && hiOK, key, p.Pos(st.Pos()), fmt.Sprintf("Name[%s:] for the prefix %q", low, m[2]), fmt.Sprintf("the extension is Name[%s:%s] but the member was selected by the %d byte prefix %q", low, m[4], len(m[2]), m[2]))
			}
		}
		if !found {
			e.bad(key, p.Pos(fn.Pos()), "never assigned", nil)
		}
	}

	// C14-CONTROL
	c := rp.Rule("C14-CONTROL", "the tar entry named control is unmarshalled into Deb.Control; both errors returned", 3)
	if fn := p.Func("deb", "loadDeb2Control"); fn != nil {
		pos := p.Pos(fn.Pos())
		okName := false
		for _, g := range guardsOf(fn) {
			if regexp.MustCompile(`^\("control" == path\.Clean\(\(\*archive/tar\.Reader\)\.Next\(.*\)#0\.Name\)\)$`).MatchString(g.Term) {
				okName = true
			}
		}
		c.check(okName, "deb.loadDeb2Control:entry", pos, "selects the entry whose path.Clean(name) == \"control\"", "the control file is not selected by its cleaned path \"control\"")
		um := callsNamed(fn, repoModule+"/control.Unmarshal")
		okUm := false
		if len(um) == 1 {
			tgt, rd := tm.term(um[0].Call.Args[0]), tm.term(um[0].Call.Args[1])
			okUm = tgt == "&p1.Control" && strings.Contains(rd, "Tarfile(") && strings.HasSuffix(rd, "#0")
		}
		c.check(okUm, "deb.loadDeb2Control:unmarshal", pos, "control.Unmarshal(&deb.Control, <the tar stream>)", "the control paragraph is not unmarshalled into Deb.Control from the tar stream of the selected member")
		// returns: unmarshal error if non-nil else close error
		rets := successReturns(fn)
		okRet := false
		for _, r := range rets {
			if strings.HasSuffix(tm.term(r.Results[0]), ".Close()") {
				okRet = true
			}
		}
		c.check(okRet, "deb.loadDeb2Control:close-error", pos, "the close error is returned when unmarshalling succeeded", "the error of closing the decompressor is dropped")
	} else {
		c.bad("deb.loadDeb2Control", "", "function not found", nil)
	}

	// C14-DATA: the data stream handed to the caller is untouched by the loader
	dt := rp.Rule("C14-DATA", "the data tar stream is handed to the caller unread", 1)
	if fn := p.Func("deb", "loadDeb2Data"); fn != nil {
		var tarCall *ssa.Call
		tarCalls := map[ssa.Value]bool{}
		for _, c := range allCalls(fn) {
			if strings.HasSuffix(calleeName(c.Common()), "deb.ArEntry).Tarfile") {
				tarCall, _ = c.(*ssa.Call)
				tarCalls[tarCall] = true
			}
		}
		okData := tarCall != nil
		detail := "the data loader does not open the data member with Tarfile()"
		if len(tarCalls) > 1 {
			okData = false
			detail = "the data member is opened more than once: the first stream is consumed (a probe read) before the caller gets a second one"
		} else if tarCall != nil {
			for _, c := range allCalls(fn) {
				n := calleeName(c.Common())
				for _, a := range append([]ssa.Value{c.Common().Value}, c.Common().Args...) {
					if a == nil {
						continue
					}
					if ex, ok := a.(*ssa.Extract); ok && ex.Tuple == ssa.Value(tarCall) && ex.Index < 2 {
						okData = false
						detail = "the loader calls " + shortFn(n) + c.Common().Method.String() + " on the data stream before handing it to the caller: an empty or unusual data.tar is rejected, and the caller no longer reads from the start"
					}
				}
			}
			// both results must be stored in the Deb
			stores := map[string]bool{}
			for _, b := range fn.Blocks {
				for _, ins := range b.Instrs {
					if st, ok := ins.(*ssa.Store); ok {
						if ex, ok := st.Val.(*ssa.Extract); ok && ex.Tuple == ssa.Value(tarCall) {
							stores[tm.term(st.Addr)] = true
						}
					}
				}
			}
			if !stores["&p1.Data"] || !stores["&p1.Closer"] {
				okData = false
				detail = fmt.Sprintf("tar reader and closer are not both stored in Deb.Data / Deb.Closer (stores: %v)", keysOf(stores))
			}
		}
		dt.check(okData, "deb.loadDeb2Data", p.Pos(fn.Pos()), "Tarfile()'s reader and closer go straight into Deb.Data and Deb.Closer", detail)
	} else {
		dt.bad("deb.loadDeb2Data", "", "function not found", nil)
	}

	d := rp.Rule("C14-DET", "no result depends on map iteration order", 1)
	detRule(p, d, "deb")
	selectorRule(p, d, false)
	ix := rp.Rule("C14-INDEX", "member index complete, repeated names rejected", 2)
	dupRule(p, ix)
}

func c14Codecs(p *Prog, rp *Report) {
	r := rp.Rule("C14-CODECS", "extension table and decompressor wiring", 9)
	want := map[string]string{
		".gz":   "compress/gzip.NewReader",
		".bz2":  "compress/bzip2.NewReader",
		".xz":   "github.com/xi2/xz.NewReader",
		".lzma": "github.com/kjk/lzma.NewReader",
		".zst":  "github.com/klauspost/compress/zstd.NewReader",
	}
	initFn := p.SPkg["deb"].Func("init")
	rows := map[string]*ssa.Function{}
	if initFn != nil {
		for _, b := range initFn.Blocks {
			for _, ins := range b.Instrs {
				if mu, ok := ins.(*ssa.MapUpdate); ok {
					if k, ok := constString(mu.Key); ok {
						v := mu.Value
						if ct, ok := v.(*ssa.ChangeType); ok {
							v = ct.X
						}
						if f, ok := v.(*ssa.Function); ok {
							rows[k] = f
						} else if mc, ok := v.(*ssa.MakeClosure); ok {
							rows[k] = mc.Fn.(*ssa.Function)
						}
					}
				}
			}
		}
	}
	var exts []string
	for k := range rows {
		exts = append(exts, k)
	}
	sort.Strings(exts)
	for ext := range want {
		if rows[ext] == nil {
			r.bad("deb.codec["+ext+"]", "", "no row for this extension in the decompressor table", nil)
		}
	}
	for _, ext := range exts {
		fn := rows[ext]
		ctor, known := want[ext]
		key := "deb.codec[" + ext + "]"
		if !known {
			r.bad(key, p.Pos(fn.Pos()), "deb(5) knows no such compression extension", nil)
			continue
		}
		// the function must call exactly the expected constructor with its parameter
		okCtor := false
		var others []string
		for _, c := range allCalls(fn) {
			n := calleeName(c.Common())
			if strings.HasSuffix(n, ".NewReader") {
				if n == ctor && len(c.Common().Args) >= 1 && c.Common().Args[0] == ssa.Value(fn.Params[0]) {
					okCtor = true
				} else {
					others = append(others, n)
				}
			}
		}
		// errors of the constructor must be returned
		okErr := true
		for _, s := range errDiscipline(fn, func(n string, c *ssa.Call) bool { return strings.HasSuffix(n, ".NewReader") }) {
			if s.Status != "returned" && s.Status != "checked" {
				okErr = false
			}
		}
		if ext == ".xz" {
			// the dictionary limit must stay the library default (0): a lower limit rejects packages built with xz -7..-9
			for _, c := range allCalls(fn) {
				if calleeName(c.Common()) == ctor && len(c.Common().Args) >= 2 {
					if n, isC := constInt(c.Common().Args[1]); !isC || n != 0 {
						okCtor = false
						others = append(others, fmt.Sprintf("xz.NewReader with dictionary limit %v instead of the default 0", c.Common().Args[1]))
					}
				}
			}
		}
		r.check(okCtor && len(others) == 0 && okErr, key, p.Pos(fn.Pos()), "wired to "+ctor+"(reader); its error is returned", fmt.Sprintf("expected %s(reader) with its error returned; constructor calls found: ok=%v others=%v errors-propagated=%v", ctor, okCtor, others, okErr))
	}
	// DecompressorFor: table hit -> row, miss -> identity
	if fn := p.Func("deb", "DecompressorFor"); fn != nil {
		tm := newTermer()
		var rets []string
		okHit, okMiss := false, false
		for _, ret := range returnsReachable(fn.Blocks[0]) {
			t := tm.term(ret.Results[0])
			rets = append(rets, t)
			if t == "*global:deb.knownCompressionAlgorithms[p0]#0" {
				okHit = true
				continue
			}
			var idf *ssa.Function
			switch v := ret.Results[0].(type) {
			case *ssa.Function:
				idf = v
			case *ssa.MakeClosure:
				idf = v.Fn.(*ssa.Function)
			case *ssa.ChangeType:
				if f, ok := v.X.(*ssa.Function); ok {
					idf = f
				}
			}
			if idf != nil {
				it := newTermer()
				for _, r2 := range returnsReachable(idf.Blocks[0]) {
					if it.term(r2.Results[0]) == "io.NopCloser(p0)" && isNilConst(r2.Results[1]) {
						okMiss = true
					} else {
						okMiss = false
					}
				}
			}
		}
		r.check(okHit && okMiss && len(rets) == 2, "deb.DecompressorFor", p.Pos(fn.Pos()), "known extension -> table row; anything else -> identity (uncompressed member)", fmt.Sprintf("expected the table row on a hit and the identity reader otherwise; returns are %v", rets))
	} else {
		r.bad("deb.DecompressorFor", "", "function not found", nil)
	}
	// Tarfile selects by filepath.Ext(name) and feeds the member data
	if fn := p.Method("deb", "ArEntry", "Tarfile"); fn != nil {
		tm := newTermer()
		ok := false
		for _, c := range allCalls(fn) {
			if tm.term(c.(ssa.Value)) == "deb.DecompressorFor(path/filepath.Ext(p0.Name))(p0.Data)" {
				ok = true
			}
		}
		okTar := false
		for _, ret := range successReturns(fn) {
			if tm.term(ret.Results[0]) == "archive/tar.NewReader(deb.DecompressorFor(path/filepath.Ext(p0.Name))(p0.Data)#0)" && tm.term(ret.Results[1]) == "deb.DecompressorFor(path/filepath.Ext(p0.Name))(p0.Data)#0" {
				okTar = true
			}
		}
		r.check(ok && okTar, "deb.ArEntry.Tarfile", p.Pos(fn.Pos()), "decompressor chosen by filepath.Ext(Name), applied to the member's data, wrapped in tar.NewReader; the decompressor is the closer", "Tarfile does not return tar.NewReader(DecompressorFor(filepath.Ext(Name))(Data)) with that decompressor as closer")
	} else {
		r.bad("deb.ArEntry.Tarfile", "", "method not found", nil)
	}
	// IsTarfile table (exact interpretation with filepath models)
	if fn := p.Method("deb", "ArEntry", "IsTarfile"); fn != nil {
		entT := p.Named("deb", "ArEntry")
		bad := ""
		for name, want := range map[string]bool{"control.tar": true, "control.tar.gz": true, "data.tar.xz": true, "data.tar.zst": true, "data.tar.bz2": true, "data.tar.lzma": true, "debian-binary": false, "_gpgorigin": false, "control.gz": false, "tar": false, "x.tar.gz.sig": false} {
			m := NewMachine(p, nil)
			installStringModels(m)
			st := &State{Heap: map[int]*HObj{}, Notes: map[string]bool{}}
			id := st.alloc(entT, mkStruct(entT, map[string]Val{"Name": name}))
			st.push(fn, []Val{Ptr{Obj: id}}, nil)
			out := m.Run(st)
			if len(out) != 1 || out[0].Status != stRet {
				bad = "undecided: " + retDesc(out)
				break
			}
			if out[0].Ret != want {
				bad = fmt.Sprintf("IsTarfile(%q) = %v, want %v", name, out[0].Ret, want)
			}
		}
		if strings.HasPrefix(bad, "undecided") {
			r.undecided("deb.ArEntry.IsTarfile", p.Pos(fn.Pos()), bad)
		} else {
			r.check(bad == "", "deb.ArEntry.IsTarfile", p.Pos(fn.Pos()), "11 member names: true exactly for NAME.tar and NAME.tar.EXT", bad)
		}
	}
	// only SetXZMaxDict may write the table, and only the .xz row
	for _, w := range globalWrites(p, "deb") {
		if w.G != "knownCompressionAlgorithms" {
			continue
		}
		okW := false
		for _, b := range w.Fn.Blocks {
			for _, ins := range b.Instrs {
				if mu, ok := ins.(*ssa.MapUpdate); ok {
					if k, ok := constString(mu.Key); ok && k == ".xz" {
						if mc, ok := stripIface(mu.Value).(*ssa.MakeClosure); ok {
							for _, c := range allCalls(mc.Fn.(*ssa.Function)) {
								if calleeName(c.Common()) == want[".xz"] {
									okW = true
								}
							}
						}
					}
				}
			}
		}
		r.check(okW, "deb.codec-table:writer("+fname(w.Fn)+")", p.Pos(w.Pos), "only replaces the .xz row by another xz reader", "the decompressor table is modified at run time other than to re-parameterise the .xz row")
	}
}

// ---- C15 ------------------------------------------------------------------------------

func checkC15(p *Prog, rp *Report) {
	rp.Explanation = "C15-OFFSET: (symbolic-header interpretation of Ar.Next) every returned member advances the offset by 60+size+size%2 with size >= 0 established on the path, so an archive of n bytes yields at most n/60 members; C15-HDRMAGIC: a member is returned only from a header ending 0x60 0x0A (all four byte combinations); C15-SHORT: failed/short reads yield no member and leave the offset alone; C15-LOOP: the loader's loop leaves only on io.EOF or an error of Next; C15-DET: no range over a map influences a result (the control/data selector uses the unique-match idiom, the header parser walks a slice); C15-NOFATAL: no panic/log.Fatal/os.Exit reachable from LoadAr, Next, Load in the repository; C15-BOUNDS: constant indexes of the header parser are below the checked header length, extension slicing is within the matched prefix."
	rp.NotDecided = "that a member's reader delivers exactly size bytes when the archive is truncated (needs the length of the caller's io.ReaderAt, a run-time quantity); behaviour of archive/tar and the decompressors on hostile streams; absence of panics inside the standard library."
	rp.Trusted = []string{"go/types, go/ssa", "io.ReaderAt contract (n < len(p) implies a non-nil error)", "io.SectionReader"}
	arRules(p, rp, false)

	lp := rp.Rule("C15-LOOP", "the loader's member loop exits only on io.EOF or an error of Next", 1)
	if fn := p.Func("deb", "loadDeb"); fn != nil {
		var next *ssa.Call
		for _, c := range callsNamed(fn, "(*"+repoModule+"/deb.Ar).Next") {
			next = c
		}
		if next == nil {
			lp.bad("deb.loadDeb", p.Pos(fn.Pos()), "does not iterate with Ar.Next", nil)
		} else {
			hdr := next.Block()
			inLoop := map[*ssa.BasicBlock]bool{}
			for _, b := range fn.Blocks {
				if hdr.Dominates(b) && reachableFrom(b)[hdr] {
					inLoop[b] = true
				}
			}
			ok := len(inLoop) > 0 && reachableFrom(hdr.Succs[0])[hdr] || len(hdr.Succs) > 1 && reachableFrom(hdr.Succs[1])[hdr]
			detail := "the Next call is not inside a loop"
			tm := newTermer()
			for b := range inLoop {
				for _, s := range b.Succs {
					if inLoop[s] {
						continue
					}
					ifi, isIf := b.Instrs[len(b.Instrs)-1].(*ssa.If)
					if !isIf {
						// returns inside the loop are exits too: must be error returns
						continue
					}
					t := tm.term(ifi.Cond)
					if !strings.Contains(t, "Next(p0)#1") && !strings.Contains(t, "["+"(*deb.Ar).Next(p0)#0.Name]#1") {
						ok, detail = false, "the loop is left on the condition "+t+", which is not a test of Next's error"
					}
				}
			}
			lp.check(ok, "deb.loadDeb", p.Pos(next.Pos()), "loop exits: io.EOF (end of archive), an error of Next, a repeated member name", detail)
		}
	} else {
		lp.bad("deb.loadDeb", "", "function not found", nil)
	}

	d := rp.Rule("C15-DET", "no result depends on map iteration order", 2)
	detRule(p, d, "deb")
	selectorRule(p, d, false)
	dupRule(p, d)

	nf := rp.Rule("C15-NOFATAL", "no panic / log.Fatal / os.Exit reachable from the readers inside the repository", 1)
	roots := []*ssa.Function{p.Func("deb", "LoadAr"), p.Method("deb", "Ar", "Next"), p.Func("deb", "Load")}
	nroots := 0
	for _, f := range roots {
		if f != nil {
			nroots++
		}
	}
	sites := fatalSites(roots)
	for _, s := range sites {
		nf.bad(fname(s.Fn)+":"+s.What, p.Pos(s.Pos), s.What+" is reachable from the ar/.deb readers: hostile input must yield an error, not terminate the process", nil)
	}
	if len(sites) == 0 {
		reach := map[*ssa.Function]bool{}
		for _, r := range roots {
			for _, f := range reachableRepoFuncs(r) {
				reach[f] = true
			}
		}
		nf.check(nroots == 3, "deb.LoadAr/Next/Load", "", fmt.Sprintf("%d repository functions reachable, none panics or exits", len(reach)), "entry points not found")
	}

	bd := rp.Rule("C15-BOUNDS", "constant indexes and slices in package deb are within checked lengths", 3)
	c15Bounds(p, bd)
}

func c15Bounds(p *Prog, r *Rule) {
	// (a) header parser: every constant index/slice bound on the header parameter is <= the length established by a dominating guard
	hp := p.Func("deb", "parseArEntry")
	if hp == nil {
		// locate by role: callee of Next taking []byte
		if next := p.Method("deb", "Ar", "Next"); next != nil {
			for _, f := range reachableRepoFuncs(next) {
				if f != next && f.Signature.Params().Len() == 1 {
					if _, ok := f.Signature.Params().At(0).Type().Underlying().(*types.Slice); ok {
						hp = f
					}
				}
			}
		}
	}
	if hp == nil {
		r.undecided("deb.header-parser", "", "header parser not located")
	} else {
		lenGuard := int64(-1)
		var guardBlk *ssa.BasicBlock
		for _, g := range guardsOf(hp) {
			if m := regexp.MustCompile(`^\((\d+) != len\(p0\)\)$`).FindStringSubmatch(g.Term); m != nil && rejectsOn(hp, g, 0) {
				fmt.Sscan(m[1], &lenGuard)
				guardBlk = g.If.Block()
			}
		}
		maxIdx := int64(-1)
		okDom := true
		for _, b := range hp.Blocks {
			for _, ins := range b.Instrs {
				switch x := ins.(type) {
				case *ssa.IndexAddr:
					if x.X == ssa.Value(hp.Params[0]) {
						if n, ok := constInt(x.Index); ok {
							if n+1 > maxIdx {
								maxIdx = n + 1
							}
							if guardBlk == nil || !guardBlk.Dominates(b) || b == guardBlk {
								okDom = false
							}
						} else {
							okDom = false
						}
					}
				case *ssa.Slice:
					if x.X == ssa.Value(hp.Params[0]) {
						for _, bnd := range []ssa.Value{x.Low, x.High} {
							if bnd == nil {
								continue
							}
							if n, ok := constInt(bnd); ok {
								if n > maxIdx {
									maxIdx = n
								}
							} else {
								okDom = false
							}
						}
						if guardBlk == nil || !guardBlk.Dominates(b) || b == guardBlk {
							okDom = false
						}
					}
				}
			}
		}
		r.check(lenGuard >= 0 && maxIdx <= lenGuard && okDom, fname(hp)+":header-bounds", p.Pos(hp.Pos()), fmt.Sprintf("all constant bounds <= %d, the header length checked before any access", lenGuard), fmt.Sprintf("header accessed up to byte %d but the length check establishes %d (or does not dominate every access)", maxIdx, lenGuard))
	}
	// (b) Next: the buffer length equals the count required before parsing
	if next := p.Method("deb", "Ar", "Next"); next != nil {
		bufLen, need := int64(-1), int64(-2)
		for _, b := range next.Blocks {
			for _, ins := range b.Instrs {
				if ms, ok := ins.(*ssa.MakeSlice); ok {
					if n, ok := constInt(ms.Len); ok {
						bufLen = n
					}
				}
				if sl, ok := ins.(*ssa.Slice); ok {
					if al, ok := sl.X.(*ssa.Alloc); ok {
						if at, ok := al.Type().Underlying().(*types.Pointer).Elem().Underlying().(*types.Array); ok {
							bufLen = at.Len()
						}
					}
				}
			}
		}
		for _, g := range guardsOf(next) {
			if m := regexp.MustCompile(`^\((\d+) != .*ReadAt\(.*\)#0\)$`).FindStringSubmatch(g.Term); m != nil && rejectsOn(next, g, 0) && dominatesAllSuccess(next, g) {
				fmt.Sscan(m[1], &need)
			}
		}
		r.check(bufLen == need && need == 60, "deb.Ar.Next:header-length", p.Pos(next.Pos()), "a member is only parsed from a full 60 byte header read", fmt.Sprintf("header buffer has %d bytes, the read-count check requires %d (ar headers have 60)", bufLen, need))
	}
	// (c) index expressions on member names: slicing after the selector's prefix (C14-EXT) cannot exceed the name
	tm := newTermer()
	for _, name := range []string{"loadDeb2Control", "loadDeb2Data"} {
		fn := p.Func("deb", name)
		if fn == nil {
			continue
		}
		for _, b := range fn.Blocks {
			for _, ins := range b.Instrs {
				sl, ok := ins.(*ssa.Slice)
				if !ok || !isStringT(sl.X.Type()) {
					continue
				}
				t := tm.term(sl)
				m := regexp.MustCompile(`^.*\(.*,"([a-z]+\.)"\)#0\.Name\[(\d+):`).FindStringSubmatch(t)
				if m == nil {
					r.undecided("deb."+name+":name-slice", p.Pos(sl.Pos()), "slice of unknown provenance: "+t)
					continue
				}
				var low int
				fmt.Sscan(m[2], &low)
				r.check(low <= len(m[1]), "deb."+name+":name-slice", p.Pos(sl.Pos()), fmt.Sprintf("Name[%d:] of a member selected by HasPrefix(Name,%q): in range", low, m[1]), fmt.Sprintf("Name[%d:] can exceed a name that is only known to start with %q: slice bounds out of range on a short member name", low, m[1]))
			}
		}
	}
}

// ---- C16 ------------------------------------------------------------------------------

func checkC16(p *Prog, rp *Report) {
	rp.Explanation = "C16-ROLE: the signature member is looked up by the exact name \"_gpg\"+role, its absence and the absence of debian-binary are errors. C16-STREAM: the signed data handed to openpgp.CheckDetachedSignature is io.MultiReader of exactly debian-binary, control, data (in that order), each rewound with Seek(0,0) before; the signature is the role member's data; the keyring is the caller's; the library's results are returned unchanged. C16-SAME: the verifier obtains control/data through the very selector function the loader uses; that selector is order independent and fails when more than one member matches; the loader rejects repeated member names."
	rp.NotDecided = "the OpenPGP library; the bytes of the members (io.SectionReader); that the data member handed to the caller as Deb.Data is re-read from the start by the verifier."
	rp.Trusted = []string{"go/types, go/ssa", "golang.org/x/crypto/openpgp.CheckDetachedSignature", "io.MultiReader, io.SectionReader.Seek"}
	fn := p.Method("deb", "Deb", "CheckDebsig")
	role := rp.Rule("C16-ROLE", "signature member = \"_gpg\"+role by exact lookup; missing members are errors", 3)
	stream := rp.Rule("C16-STREAM", "signed stream = debian-binary, control, data, each rewound; results returned unchanged", 4)
	if fn == nil {
		role.bad("deb.Deb.CheckDebsig", "", "method not found", nil)
		return
	}
	pos := p.Pos(fn.Pos())
	tm := newTermer()
	gs := guardsOf(fn)
	okSig, okBin := false, false
	for _, g := range gs {
		if g.Term == `p0.ArContent[("_gpg" + p2)]#1` && rejectsOn(fn, g, 1) && dominatesAllSuccess(fn, g) {
			okSig = true
		}
		if g.Term == `p0.ArContent["debian-binary"]#1` && rejectsOn(fn, g, 1) && dominatesAllSuccess(fn, g) {
			okBin = true
		}
	}
	role.check(okSig, "deb.Deb.CheckDebsig:signature-member", pos, "exact lookup of \"_gpg\"+role in the member index; absent -> error", "the signature member is not found by the exact name \"_gpg\"+role (or its absence is not an error): a different role's signature could be accepted")
	role.check(okBin, "deb.Deb.CheckDebsig:debian-binary", pos, "debian-binary looked up; absent -> error", "a missing debian-binary member is not an error")
	for _, s := range errDiscipline(fn, func(n string, c *ssa.Call) bool { callee := c.Call.StaticCallee(); return callee != nil && inRepo(callee) }) {
		role.check(s.Status == "checked" || s.Status == "returned" || s.Status == "unclear" && false, "deb.Deb.CheckDebsig:err("+strings.TrimPrefix(s.Callee, "deb.")+normT(tm.term(s.Call.Call.Args[len(s.Call.Call.Args)-1]))+")", p.Pos(s.Call.Pos()), "selector error "+s.Status, "the selector's error is "+s.Status)
	}
	// the verification call
	calls := callsNamed(fn, "golang.org/x/crypto/openpgp.CheckDetachedSignature", "golang.org/x/crypto/openpgp.CheckArmoredDetachedSignature")
	if len(calls) != 1 {
		stream.bad("deb.Deb.CheckDebsig:verify", pos, fmt.Sprintf("%d calls of openpgp.CheckDetachedSignature, expected one", len(calls)), nil)
		return
	}
	vc := calls[0]
	stream.check(tm.term(vc.Call.Args[0]) == "p1", "deb.Deb.CheckDebsig:keyring", p.Pos(vc.Pos()), "the caller's keyring is used", "the keyring argument is "+tm.term(vc.Call.Args[0]))
	stream.check(tm.term(vc.Call.Args[2]) == `p0.ArContent[("_gpg" + p2)]#0.Data`, "deb.Deb.CheckDebsig:signature", p.Pos(vc.Pos()), "signature = data of the role's member", "the signature argument is "+tm.term(vc.Call.Args[2]))
	// signed data: MultiReader over an array whose stores we read in order
	var elems []string
	if mr, ok := stripIface(vc.Call.Args[1]).(*ssa.Call); ok && calleeName(mr.Common()) == "io.MultiReader" {
		if sl, ok := mr.Call.Args[0].(*ssa.Slice); ok {
			if al, ok := sl.X.(*ssa.Alloc); ok {
				idx := map[int64]string{}
				for _, ref := range *al.Referrers() {
					if ia, ok := ref.(*ssa.IndexAddr); ok {
						n, _ := constInt(ia.Index)
						for _, r2 := range *ia.Referrers() {
							if st, ok := r2.(*ssa.Store); ok {
								idx[n] = tm.term(st.Val)
							}
						}
					}
				}
				for i := int64(0); i < int64(len(idx)); i++ {
					elems = append(elems, idx[i])
				}
			}
		}
		wantElems := []string{`p0.ArContent["debian-binary"]#0.Data`, `deb.findMember(p0.ArContent,"control.")#0.Data`, `deb.findMember(p0.ArContent,"data.")#0.Data`}
		// tolerate a renamed selector: normalise the callee name
		norm := func(s string) string { return regexp.MustCompile(`deb\.\w+\(p0\.ArContent,`).ReplaceAllString(s, "SEL(p0.ArContent,") }
		same := len(elems) == 3
		for i := 0; same && i < 3; i++ {
			if norm(elems[i]) != norm(wantElems[i]) {
				same = false
			}
		}
		stream.check(same, "deb.Deb.CheckDebsig:signed-data", p.Pos(mr.Pos()), "MultiReader(debian-binary, control member, data member)", fmt.Sprintf("the signed stream is %v, want debian-binary, control, data", elems))
		// each element rewound before the MultiReader call
		rew := map[string]bool{}
		for _, c := range allCalls(fn) {
			if calleeName(c.Common()) == "(*io.SectionReader).Seek" {
				call := c.(*ssa.Call)
				o, _ := constInt(call.Call.Args[1])
				w, _ := constInt(call.Call.Args[2])
				if o == 0 && w == 0 && (call.Block().Dominates(mr.Block())) && (call.Block() != mr.Block() || instrIndex(call) < instrIndex(mr)) {
					rew[tm.term(call.Call.Args[0])] = true
				}
			}
		}
		allRew := len(elems) > 0
		missing := ""
		for _, e := range elems {
			if !rew[e] {
				allRew = false
				missing = e
			}
		}
		stream.check(allRew, "deb.Deb.CheckDebsig:rewind", p.Pos(mr.Pos()), "every signed member is rewound (Seek(0,0)) before it is read", "not rewound before verification: "+missing+" (the loader has already read from these members)")
	} else {
		stream.bad("deb.Deb.CheckDebsig:signed-data", p.Pos(vc.Pos()), "the signed data is not an io.MultiReader: "+tm.term(vc.Call.Args[1]), nil)
	}
	// results returned unchanged
	okRet := false
	for _, ret := range successReturns(fn) {
		if tm.term(ret.Results[0]) == tm.term(vc)+"#0" && tm.term(ret.Results[1]) == tm.term(vc)+"#1" {
			okRet = true
		} else if ret.Block() == vc.Block() || vc.Block().Dominates(ret.Block()) {
			okRet = false
		}
	}
	stream.check(okRet, "deb.Deb.CheckDebsig:result", pos, "signer and error of the library call are returned unchanged", "the verification result is not returned as is")

	same := rp.Rule("C16-SAME", "verifier and loader use the same deterministic member selector; repeated names rejected", 5)
	selectorRule(p, same, true)
	dupRule(p, same)
	detRule(p, same, "deb")
}

func stripIface(v ssa.Value) ssa.Value {
	for {
		switch x := v.(type) {
		case *ssa.MakeInterface:
			v = x.X
		case *ssa.ChangeInterface:
			v = x.X
		case *ssa.ChangeType:
			v = x.X
		default:
			return v
		}
	}
}

func instrIndex(ins ssa.Instruction) int {
	for i, x := range ins.Block().Instrs {
		if x == ins {
			return i
		}
	}
	return -1
}
