package main

// C14, C15, C16 — .deb loading, robustness of the ar/.deb readers, debsig.

import (
	"fmt"
	"go/types"
	"regexp"
	"sort"
	"strings"

	"golang.org/x/tools/go/ssa"
)

func init() {
	register("C14", checkC14)
	register("C15", checkC15)
	register("C16", checkC16)
}

var reTmp = regexp.MustCompile(`\bt\d+\b`)

func normT(s string) string { return reTmp.ReplaceAllString(s, "T") }

// ---- shared pieces ---------------------------------------------------------------

// detRule: every range-over-map loop in package deb is order independent.
// A loop that the scenario interpretation went through with at least two entries in every
// iteration order is decided there; the syntactic rule decides the others.
func detRule(p *Prog, r *Rule, pkgs ...string) {
	n := 0
	// only what the ar reader and the loader can reach: a loop that only the signature check walks through is
	// decided by that property's scenarios (C16), which this check does not run
	reach := map[*ssa.Function]bool{}
	for _, root := range []*ssa.Function{p.Func("deb", "LoadAr"), p.Method("deb", "Ar", "Next"), p.Func("deb", "Load"), p.Func("deb", "LoadFile")} {
		for _, f := range reachableRepoFuncs(root) {
			reach[f] = true
		}
	}
	for _, fn := range p.SrcFuncs(pkgs...) {
		if !reach[fn] {
			continue
		}
		for _, ml := range mapOrderLoops(fn) {
			n++
			key := fname(fn) + ":range-over-map"
			if k := debRangeCover[ml.Range]; k >= 2 {
				r.ok(key, p.Pos(ml.Range.Pos()), fmt.Sprintf("interpreted in every iteration order on maps of up to %d members (see the scenario obligations of this rule)", k))
			} else if ml.OK {
				r.ok(key, p.Pos(ml.Range.Pos()), "iteration order cannot influence the result (unique-match idiom or element-keyed updates only)")
			} else {
				r.bad(key, p.Pos(ml.Range.Pos()), ml.Why, nil)
			}
		}
	}
	if n == 0 {
		r.ok("(no range over a map)", "", "no function in "+strings.Join(pkgs, ", ")+" ranges over a map")
	}
}

// ---- scenario helpers ------------------------------------------------------------------

var stdMembers = []string{"debian-binary", "control.tar.gz", "data.tar.xz"}

func agree(outs []debOutcome) (debOutcome, bool) {
	for _, o := range outs[1:] {
		if o.sig() != outs[0].sig() {
			return o, false
		}
	}
	return outs[0], true
}

// loaderTable runs a list of loader scenarios and returns the problems found.
type loaderCase struct {
	name   string
	sc     debScenario
	expect func(o debOutcome) string // "" = fine
}

func runLoaderCases(p *Prog, cases []loaderCase) (problems []string, undecided string, runs int) {
	for _, c := range cases {
		outs, why := runLoadDeb(p, c.sc)
		if strings.HasPrefix(why, "panic") {
			problems = append(problems, c.name+": the loader panics instead of returning an error: "+why)
			continue
		}
		if why != "" {
			return nil, c.name + ": " + why, runs
		}
		runs += len(outs)
		o, same := agree(outs)
		if !same {
			problems = append(problems, fmt.Sprintf("%s: the outcome depends on the iteration order of the member map: %s versus %s", c.name, outs[0].sig(), o.sig()))
			continue
		}
		if msg := c.expect(o); msg != "" {
			problems = append(problems, c.name+": "+msg)
		}
	}
	return
}

func okLoad(o debOutcome) string {
	if !o.errNil {
		return "a well-formed package is rejected"
	}
	return ""
}

func mustFail(what string) func(o debOutcome) string {
	return func(o debOutcome) string {
		if o.errNil {
			return what + " is accepted"
		}
		if !o.resNil {
			return what + ": a Deb is returned together with the error"
		}
		return ""
	}
}

// ---- C14 ------------------------------------------------------------------------------

func checkC14(p *Prog, rp *Report) {
	defer stateRule(p, rp, "C14-STATE", p.Func("deb", "Load"), p.Func("deb", "LoadFile"), p.Method("deb", "ArEntry", "Tarfile"))
	rp.Explanation = "The .deb loader is interpreted abstractly on scripted archives (the ar iterator, bufio, the decompressor constructors, archive/tar, control.Unmarshal and Close are oracles recording provenance; every iteration order of the member map is explored). C14-FORMAT: a package without debian-binary, with a format other than major version 2, without control.* or without data.* is rejected with no Deb; the well-formed layouts load. C14-CODECS: for each of the six encodings of control and data the stream is data(member) wrapped by exactly the matching constructor (xz with the default dictionary limit), then tar; a constructor error fails the load; IsTarfile table. C14-EXT: ControlExt/DataExt are the member name after \"control.\" / \"data.\". C14-CONTROL: the tar entry whose cleaned path is control (in any position) is unmarshalled into Deb.Control from the control member's tar stream; a missing entry, an unmarshal error and a close error fail the load. C14-DATA: Deb.Data is the data member's tar stream, unread. C14-DET: with decoy control.*/data.* members every iteration order gives the same outcome (an error). C14-INDEX: ArContent lists exactly the members; a repeated name is rejected."
	rp.NotDecided = "behaviour of archive/tar and of the decompressors; equality of the exposed payload with the packaged files; dpkg-deb compatibility."
	rp.Trusted = []string{"go/types, go/ssa", "deb(5) member names, format version and compression extensions", "archive/tar, compress/*, xz, lzma, zstd libraries"}
	pos := ""
	if fn := p.Func("deb", "Load"); fn != nil {
		pos = p.Pos(fn.Pos())
	}
	std := debScenario{members: stdMembers, binary: "2.0\n", tarEntries: []string{"./", "./md5sums", "./control"}}
	with := func(f func(sc *debScenario)) debScenario {
		sc := std
		sc.members = append([]string(nil), std.members...)
		sc.tarEntries = append([]string(nil), std.tarEntries...)
		f(&sc)
		return sc
	}
	// FORMAT
	f := rp.Rule("C14-FORMAT", "format checks of the loader", 1)
	{
		cases := []loaderCase{
			{"well-formed package", std, okLoad},
			{"extra members (_gpgorigin, junk)", with(func(sc *debScenario) { sc.members = append(sc.members, "_gpgorigin", "junk") }), okLoad},
			{"members in another order", with(func(sc *debScenario) { sc.members = []string{"data.tar.xz", "debian-binary", "control.tar.gz"} }), okLoad},
			{"no debian-binary", with(func(sc *debScenario) { sc.members = []string{"control.tar.gz", "data.tar.xz"} }), mustFail("a package without debian-binary")},
			{"no control member", with(func(sc *debScenario) { sc.members = []string{"debian-binary", "data.tar.xz"} }), mustFail("a package without control.*")},
			{"no data member", with(func(sc *debScenario) { sc.members = []string{"debian-binary", "control.tar.gz"} }), mustFail("a package without data.*")},
			{"empty archive", with(func(sc *debScenario) { sc.members = nil }), mustFail("an empty archive")},
			{"iterator error", with(func(sc *debScenario) { sc.nextErr = true }), mustFail("an archive whose iteration fails")},
		}
		for _, v := range []string{"3.0\n", "1.0\n", "0.939000\n", "20.0\n", "21.3\n", "200\n", "2\n", "\n", "", "2.0", "x2.0\n"} {
			v := v
			cases = append(cases, loaderCase{fmt.Sprintf("debian-binary %q", v), with(func(sc *debScenario) { sc.binary = v }), mustFail(fmt.Sprintf("format %q (major version is not 2, or no complete version line)", v))})
		}
		problems, undec, runs := runLoaderCases(p, cases)
		if undec != "" {
			f.undecided("deb.Load", pos, undec)
		} else {
			fillProblems(f, "deb.Load", pos, problems, fmt.Sprintf("%d scenarios / %d runs over map orders: missing members, 11 format strings, iterator errors", len(cases), runs))
		}
	}
	// CODECS + EXT + DATA
	c := rp.Rule("C14-CODECS", "each encoding is decoded by its own constructor", 7)
	e := rp.Rule("C14-EXT", "ControlExt / DataExt are the member name without the prefix", 1)
	dt := rp.Rule("C14-DATA", "the data tar stream is handed to the caller unread", 1)
	{
		exts := map[string]string{"": "", ".gz": "gzip", ".bz2": "bzip2", ".xz": "xz", ".lzma": "lzma", ".zst": "zstd"}
		var extList []string
		for k := range exts {
			extList = append(extList, k)
		}
		sort.Strings(extList)
		var extProblems, dataProblems []string
		for _, ce := range extList {
			var problems []string
			undec := ""
			for _, de := range extList {
				sc := with(func(sc *debScenario) { sc.members = []string{"debian-binary", "control.tar" + ce, "data.tar" + de} })
				outs, why := runLoadDeb(p, sc)
				if why != "" {
					undec = why
					break
				}
				o, same := agree(outs)
				if !same {
					problems = append(problems, "outcome depends on map order")
					continue
				}
				if !o.errNil {
					problems = append(problems, fmt.Sprintf("control.tar%s + data.tar%s is rejected", ce, de))
					continue
				}
				wrap := func(ctor, member string, k int) string {
					d := fmt.Sprintf("data(%s#%d)", member, k)
					if ctor == "" {
						return "tar(" + d + ")"
					}
					return "tar(" + ctor + "(" + d + "))"
				}
				if want := wrap(exts[ce], "control.tar"+ce, 1); o.unmarshaled != want {
					problems = append(problems, fmt.Sprintf("control.tar%s is read through %s, want %s", ce, o.unmarshaled, want))
				}
				if want := wrap(exts[de], "data.tar"+de, 2); o.dataProv != want {
					problems = append(problems, fmt.Sprintf("data.tar%s is exposed as %s, want %s", de, o.dataProv, want))
				}
				for _, ef := range o.effects {
					if strings.HasPrefix(ef, "ctor:xz(") && !strings.HasSuffix(ef, ",0)") {
						problems = append(problems, "xz is opened with a dictionary limit other than the default: "+ef)
					}
					if strings.HasPrefix(ef, "multistream:gzip(") && (strings.HasSuffix(ef, ":false") || strings.HasSuffix(ef, ":F")) {
						problems = append(problems, "gzip is read in single-member mode ("+ef+"): a control.tar.gz / data.tar.gz made of several gzip members (RFC 1952 allows it, dpkg reads it) is cut after the first")
					}
					if strings.HasPrefix(ef, "ctor:zstd(") {
						for _, narrowing := range []string{"zstdopt:WithDecoderMaxWindow(", "zstdopt:WithDecoderMaxMemory("} {
							if strings.Contains(ef, narrowing) {
								problems = append(problems, "zstd is opened with an option that makes it refuse frames a legal compression level writes (dpkg-deb -Zzstd -z20..22 announce windows of 32 to 128 MiB): "+ef)
							}
						}
					}
					if strings.HasPrefix(ef, "tarnext:tar(") && strings.Contains(ef, "data.tar") {
						dataProblems = append(dataProblems, "the loader reads from the data tar stream before handing it to the caller ("+ef+")")
					}
				}
				// once the stream over the data member exists, the member underneath must not be moved
				opened := false
				for _, ef := range o.effects {
					if (strings.HasPrefix(ef, "ctor:") || strings.HasPrefix(ef, "tarnew:")) && strings.Contains(ef, "data(data.tar") {
						opened = true
					}
					if opened && strings.HasPrefix(ef, "seek:data(data.tar") {
						dataProblems = append(dataProblems, "the data member is repositioned ("+ef+") after the stream handed to the caller was opened over it: the decompressor has buffered part of the member and continues from the wrong place")
					}
				}
				if o.controlExt != "tar"+ce || o.dataExt != "tar"+de {
					extProblems = append(extProblems, fmt.Sprintf("control.tar%s / data.tar%s give ControlExt %q, DataExt %q", ce, de, o.controlExt, o.dataExt))
				}
			}
			// constructor failure
			if exts[ce] != "" && exts[ce] != "bzip2" && exts[ce] != "lzma" && undec == "" {
				sc := with(func(sc *debScenario) {
					sc.members = []string{"debian-binary", "control.tar" + ce, "data.tar"}
					sc.ctorErr = exts[ce]
				})
				outs, why := runLoadDeb(p, sc)
				if why != "" {
					undec = why
				} else if o, _ := agree(outs); o.errNil {
					problems = append(problems, "an error of the "+exts[ce]+" constructor is ignored")
				}
			}
			key := "deb.codec[" + ce + "]"
			if ce == "" {
				key = "deb.codec[none]"
			}
			if undec != "" {
				c.undecided(key, pos, undec)
			} else {
				fillProblems(c, key, pos, problems, "control and data in this encoding x 6 encodings of the other member: stream = tar(constructor(member data))")
			}
		}
		fillProblems(e, "deb.Deb.ControlExt/DataExt", pos, extProblems, "36 encoding combinations")
		fillProblems(dt, "deb.Deb.Data", pos, dataProblems, "no read on the data stream during Load in 36 combinations")
	}
	c14File(p, rp)
	// IsTarfile table
	if fn := p.Method("deb", "ArEntry", "IsTarfile"); fn != nil {
		entT := p.Named("deb", "ArEntry")
		var problems []string
		for name, want := range map[string]bool{"control.tar": true, "control.tar.gz": true, "data.tar.xz": true, "data.tar.zst": true, "data.tar.bz2": true, "data.tar.lzma": true, "debian-binary": false, "_gpgorigin": false, "control.gz": false, "tar": false, "x.tar.gz.sig": false} {
			m := NewMachine(p, nil)
			installStringModels(m)
			st := initState(m, "deb")
			id := st.alloc(entT, mkStruct(entT, map[string]Val{"Name": name}))
			st.push(fn, []Val{Ptr{Obj: id}}, nil)
			out := m.Run(st)
			if len(out) != 1 || out[0].Status != stRet {
				problems = append(problems, "undecided: "+retDesc(out))
				break
			}
			if out[0].Ret != want {
				problems = append(problems, fmt.Sprintf("IsTarfile(%q) = %v, want %v", name, out[0].Ret, want))
			}
		}
		fillProblems(c, "deb.ArEntry.IsTarfile", p.Pos(fn.Pos()), problems, "11 member names: true exactly for NAME.tar and NAME.tar.EXT")
	}
	// CONTROL
	ct := rp.Rule("C14-CONTROL", "the control file is found in the control tarball and unmarshalled into Deb.Control", 1)
	{
		cases := []loaderCase{
			{"./control last", std, func(o debOutcome) string {
				if !o.errNil {
					return "rejected"
				}
				if o.unmarshalTarget == "" {
					return "control.Unmarshal is not called"
				}
				return ""
			}},
			{"control without ./", with(func(sc *debScenario) { sc.tarEntries = []string{"control"} }), okLoad},
			{"control first", with(func(sc *debScenario) { sc.tarEntries = []string{"./control", "./postinst"} }), okLoad},
			{"/control//", with(func(sc *debScenario) { sc.tarEntries = []string{"./preinst", ".//control"} }), okLoad},
			{"no control entry", with(func(sc *debScenario) { sc.tarEntries = []string{"./", "./md5sums", "./controlx", "./x/control"} }), mustFail("a control tarball without a control file")},
			{"empty control tarball", with(func(sc *debScenario) { sc.tarEntries = nil }), mustFail("an empty control tarball")},
			{"unmarshal error", with(func(sc *debScenario) { sc.unmarshalErr = true }), mustFail("a control file that does not unmarshal")},
			{"close error", with(func(sc *debScenario) { sc.closeErr = true }), mustFail("a decompressor that fails on Close")},
		}
		problems, undec, runs := runLoaderCases(p, cases)
		// the target of Unmarshal must be the Deb's Control field
		outs, why := runLoadDeb(p, std)
		if why == "" && len(outs) > 0 {
			debT := p.Named("deb", "Deb")
			want := fmt.Sprint(fieldIndex(structOf(debT), "Control"))
			if outs[0].unmarshalTarget != want {
				problems = append(problems, fmt.Sprintf("the control paragraph is unmarshalled into field path %q of the Deb, want the Control field (%s)", outs[0].unmarshalTarget, want))
			}
		}
		if undec != "" {
			ct.undecided("deb.Load", pos, undec)
		} else {
			fillProblems(ct, "deb.Load", pos, problems, fmt.Sprintf("%d scenarios / %d runs: entry position and spelling, missing entry, unmarshal and close errors", len(cases), runs))
		}
	}
	// DET + INDEX
	d := rp.Rule("C14-DET", "no outcome depends on map iteration order", 1)
	ix := rp.Rule("C14-INDEX", "member index complete, repeated names rejected", 1)
	{
		cases := []loaderCase{
			{"decoy control.tar next to control.tar.gz", with(func(sc *debScenario) { sc.members = append(sc.members, "control.tar") }), mustFail("a package with two control members")},
			{"decoy data.tar.gz next to data.tar.xz", with(func(sc *debScenario) { sc.members = append(sc.members, "data.tar.gz") }), mustFail("a package with two data members")},
			{"control.tar.gz and control.sig", with(func(sc *debScenario) { sc.members = append(sc.members, "control.sig") }), mustFail("a package with two control.* members")},
			{"five members", with(func(sc *debScenario) { sc.members = append(sc.members, "_gpgorigin", "_gpgmaint") }), okLoad},
		}
		problems, undec, runs := runLoaderCases(p, cases)
		if undec != "" {
			d.undecided("deb.Load", pos, undec)
		} else {
			fillProblems(d, "deb.Load", pos, problems, fmt.Sprintf("%d scenarios / %d runs: every iteration order of the member map gives the same outcome; ambiguous members are an error", len(cases), runs))
		}
		cases2 := []loaderCase{
			{"index", with(func(sc *debScenario) { sc.members = append(sc.members, "_gpgorigin") }), func(o debOutcome) string {
				if strings.Join(o.indexKeys, ",") != "_gpgorigin,control.tar.gz,data.tar.xz,debian-binary" {
					return fmt.Sprintf("ArContent lists %v", o.indexKeys)
				}
				return ""
			}},
			{"repeated control.tar.gz", with(func(sc *debScenario) { sc.members = append(sc.members, "control.tar.gz") }), mustFail("a package that repeats a member name")},
			{"repeated debian-binary", with(func(sc *debScenario) { sc.members = append([]string{"debian-binary"}, sc.members...) }), mustFail("a package that repeats debian-binary")},
		}
		problems, undec, _ = runLoaderCases(p, cases2)
		if undec != "" {
			ix.undecided("deb.Load", pos, undec)
		} else {
			fillProblems(ix, "deb.Load", pos, problems, "ArContent = the members; repeated names rejected")
		}
	}
	// nothing on the loading path writes package-level state (a configuration function that callers may
	// invoke between loads, such as the xz dictionary limit setter, is not on that path)
	gw := rp.Rule("C14-TABLEWRITE", "loading does not modify package-level state", 1)
	onPath := map[*ssa.Function]bool{}
	for _, root := range []*ssa.Function{p.Func("deb", "Load"), p.Func("deb", "LoadFile"), p.Func("deb", "LoadAr"), p.Method("deb", "Deb", "CheckDebsig")} {
		for _, f := range reachableRepoFuncs(root) {
			onPath[f] = true
		}
	}
	n := 0
	for _, w := range globalWrites(p, "deb") {
		if !onPath[w.Fn] {
			continue
		}
		n++
		gw.bad("deb:"+w.G+":writer("+fname(w.Fn)+")", p.Pos(w.Pos), "package-level state of package deb is modified while loading a package: the outcome of a load can depend on earlier loads", nil)
	}
	if n == 0 {
		gw.ok("deb:(no writer on the loading path)", "", fmt.Sprintf("%d functions reachable from Load / LoadFile / LoadAr / CheckDebsig: none stores to a package-level variable or to a map reachable from one", len(onPath)))
	}
}

// ---- C15 ------------------------------------------------------------------------------

func checkC15(p *Prog, rp *Report) {
	defer stateRule(p, rp, "C15-STATE", p.Func("deb", "LoadAr"), p.Method("deb", "Ar", "Next"), p.Func("deb", "Load"))
	rp.Explanation = "C15-OFFSET: (symbolic-header interpretation of Ar.Next) every returned member advances the offset by 60+size+size%2 with size >= 0 established on the path, so an archive of n bytes yields at most n/60 members; C15-HDRMAGIC: a member is returned only from a header ending 0x60 0x0A (all four byte combinations); C15-SHORT: failed/short reads yield no member and leave the offset alone; C15-TRUNC: (the same interpretation with a concrete size column and a ReaderAt that ends inside or right after the member's data) a member whose recorded size runs past the end of the input is not returned, a complete last member is, whichever way the ReaderAt reports the end; C15-LOOP: (scripted-archive interpretation of the loader) the member loop ends on io.EOF and propagates any other error of Next; C15-DET: with decoy and repeated members every iteration order of the member map gives the same outcome; the header parser walks no map; C15-NOPANIC: ten malformed packages (no control file in the control tarball, empty tarball, unmarshal / constructor / close errors, no members, only debian-binary, empty debian-binary, member names equal to or one byte longer than the prefixes) end in an error or load, never in a panic state; C15-FAMILY: LoadAr / Next agree with an ar(5) reference reader on concrete archives (12 name shapes incl. #1/20); C15-NOFATAL: no log.Fatal/os.Exit and no panic statement that is reached unconditionally, from LoadAr, Next, Load in the repository; a panic statement behind a guard is not decided by this rule (it may be an assertion that cannot fire): the guard is refuted where that is a matter of non-negative integers, and otherwise the site is listed with the number of times the interpreted scenarios evaluated its guard without taking it, while an input that does reach it is a panic state of C15-NOPANIC / C15-FAMILY / C15-TRUNC; C15-BOUNDS: constant indexes of the header parser are below the checked header length, name slicing stays within the matched prefix."
	rp.NotDecided = "that io.SectionReader delivers the bytes of a ReaderAt whose content changes between Next and the read; behaviour of archive/tar and the decompressors on hostile streams; absence of panics inside the standard library."
	rp.Trusted = []string{"go/types, go/ssa", "io.ReaderAt contract (n < len(p) implies a non-nil error)", "io.SectionReader"}
	arRules(p, rp, false)
	pos := ""
	if fn := p.Func("deb", "Load"); fn != nil {
		pos = p.Pos(fn.Pos())
	}
	std := debScenario{members: stdMembers, binary: "2.0\n", tarEntries: []string{"./control"}}
	lp := rp.Rule("C15-LOOP", "the loader's member loop ends on io.EOF and propagates other errors", 1)
	{
		bad := std
		bad.nextErr = true
		cases := []loaderCase{
			{"iteration ends with io.EOF", std, okLoad},
			{"iteration ends with an error", bad, mustFail("an archive whose iteration fails after three good members")},
		}
		problems, undec, _ := runLoaderCases(p, cases)
		if undec != "" {
			lp.undecided("deb.Load", pos, undec)
		} else {
			fillProblems(lp, "deb.Load", pos, problems, "io.EOF ends the loop, any other error of Next is returned")
		}
	}
	np := rp.Rule("C15-NOPANIC", "malformed packages end in an error, not in a panic", 1)
	{
		with := func(f func(sc *debScenario)) debScenario {
			sc := std
			sc.members = append([]string(nil), std.members...)
			sc.tarEntries = append([]string(nil), std.tarEntries...)
			f(&sc)
			return sc
		}
		any := func(o debOutcome) string { return "" }
		cases := []loaderCase{
			{"control tarball without a control file", with(func(sc *debScenario) { sc.tarEntries = []string{"./", "./md5sums"} }), mustFail("a control tarball without a control file")},
			{"empty control tarball", with(func(sc *debScenario) { sc.tarEntries = nil }), mustFail("an empty control tarball")},
			{"control file that does not unmarshal", with(func(sc *debScenario) { sc.unmarshalErr = true }), mustFail("a control file that does not unmarshal")},
			{"decompressor constructor error", with(func(sc *debScenario) { sc.ctorErr = "gzip" }), mustFail("a control member whose decompressor cannot be opened")},
			{"close error", with(func(sc *debScenario) { sc.closeErr = true }), mustFail("a decompressor that fails on Close")},
			{"no members at all", with(func(sc *debScenario) { sc.members = nil }), mustFail("an empty archive")},
			{"uncompressed control and data members", with(func(sc *debScenario) { sc.members = []string{"debian-binary", "control.tar", "data.tar"} }), any},
			{"every compression of the control member", with(func(sc *debScenario) { sc.members = []string{"debian-binary", "control.tar.xz", "data.tar.zst"} }), any},
			{"bzip2 and lzma members", with(func(sc *debScenario) { sc.members = []string{"debian-binary", "control.tar.bz2", "data.tar.lzma"} }), any},
			{"only debian-binary", with(func(sc *debScenario) { sc.members = []string{"debian-binary"} }), mustFail("a package with only debian-binary")},
			{"empty debian-binary", with(func(sc *debScenario) { sc.binary = "" }), mustFail("an empty debian-binary")},
			{"short member names", with(func(sc *debScenario) { sc.members = []string{"debian-binary", "control.", "data."} }), any},
			{"member names equal to the prefixes", with(func(sc *debScenario) { sc.members = []string{"debian-binary", "control", "data"} }), any},
		}
		problems, undec, runs := runLoaderCases(p, cases)
		if undec != "" {
			np.undecided("deb.Load", pos, undec)
		} else {
			fillProblems(np, "deb.Load", pos, problems, fmt.Sprintf("%d malformed packages / %d runs: each ends in an error (or loads), none in a panic", len(cases), runs))
		}
	}
	d := rp.Rule("C15-DET", "no result depends on map iteration order", 2)
	{
		mk := func(extra ...string) debScenario {
			sc := std
			sc.members = append(append([]string(nil), stdMembers...), extra...)
			return sc
		}
		cases := []loaderCase{
			{"decoy control member", mk("control.tar"), mustFail("a package with two control members")},
			{"decoy data member", mk("data.tar"), mustFail("a package with two data members")},
			{"control.tar.gz plus control.sig", mk("control.sig"), mustFail("a package with two control.* members")},
			{"repeated member", mk("data.tar.xz"), mustFail("a package that repeats a member name")},
			{"decoy control.x.tar.gz", mk("control.x.tar.gz"), mustFail("a package with a second member whose name starts with control.")},
			{"decoy data.x.tar.gz", mk("data.x.tar.gz"), mustFail("a package with a second member whose name starts with data.")},
			{"unrelated extra members", mk("_gpgorigin", "zzz"), okLoad},
		}
		problems, undec, runs := runLoaderCases(p, cases)
		if undec != "" {
			d.undecided("deb.Load", pos, undec)
		} else {
			fillProblems(d, "deb.Load", pos, problems, fmt.Sprintf("%d scenarios / %d runs: identical outcome for every iteration order", len(cases), runs))
		}
		detRule(p, d, "deb")
	}
	nf := rp.Rule("C15-NOFATAL", "no log.Fatal / os.Exit / unconditional panic reachable from the readers inside the repository", 1)
	roots := []*ssa.Function{p.Func("deb", "LoadAr"), p.Method("deb", "Ar", "Next"), p.Func("deb", "Load")}
	nroots := 0
	for _, f := range roots {
		if f != nil {
			nroots++
		}
	}
	sites, softSites := hardSites(fatalSites(roots))
	for _, s := range sites {
		nf.bad(fname(s.Fn)+":"+s.What, p.Pos(s.Pos), s.What+" is reachable from the ar/.deb readers: hostile input must yield an error, not terminate the process", nil)
	}
	if len(sites) == 0 {
		reach := map[*ssa.Function]bool{}
		for _, r := range roots {
			for _, f := range reachableRepoFuncs(r) {
				reach[f] = true
			}
		}
		nf.check(nroots == 3, "deb.LoadAr/Next/Load", "", fmt.Sprintf("%d repository functions reachable, none exits or panics unconditionally", len(reach))+softNote(softSites), "entry points not found")
	}
	bd := rp.Rule("C15-BOUNDS", "constant indexes and slices in package deb are within checked lengths", 2)
	c15Bounds(p, bd)
}

func c15Bounds(p *Prog, r *Rule) {
	// every index and slice expression of the ar reader and of the loader stays in range on the concrete
	// archives (well-formed, short, truncated, blank and oversized columns, blank names) and on the scripted
	// packages (member names equal to or shorter than the prefixes): an out-of-range access is a panic state
	pos := ""
	if fn := p.Method("deb", "Ar", "Next"); fn != nil {
		pos = p.Pos(fn.Pos())
	}
	b := arConcrete(p)
	if b.undecided != "" {
		r.undecided("deb.Ar.Next:bounds", pos, b.undecided)
	} else {
		var panics []string
		for _, ps := range b.problems {
			for _, pr := range ps {
				if strings.Contains(pr, "PANIC") {
					panics = append(panics, pr)
				}
			}
		}
		fillProblems(r, "deb.Ar.Next:bounds", pos, panics, fmt.Sprintf("%d concrete archives: no index or slice of the header parser leaves its range", b.nArchives))
	}
	std := debScenario{members: stdMembers, binary: "2.0\n", tarEntries: []string{"./control"}}
	var problems []string
	undec := ""
	for _, ms := range [][]string{{"debian-binary", "control.", "data."}, {"debian-binary", "control.t", "data.t"}, {"debian-binary", "control.tar", "data.tar"}, {"debian-binary", "control.tar.", "data.tar."}, {"d", "c", "_"}, {""}} {
		sc := std
		sc.members = ms
		if _, why := runLoadDeb(p, sc); strings.HasPrefix(why, "panic") {
			problems = append(problems, fmt.Sprintf("members %q: %s", ms, why))
		} else if why != "" && undec == "" {
			undec = why
		}
	}
	if undec != "" {
		r.undecided("deb.Load:bounds", pos, undec)
	} else {
		fillProblems(r, "deb.Load:bounds", pos, problems, "6 member lists with names as short as the prefixes the loader slices off: no slice leaves its range")
	}
}

// ---- C16 ------------------------------------------------------------------------------

func checkC16(p *Prog, rp *Report) {
	defer func() {
		// a decoy member whose data runs past the end of the file must stop the iteration with an error that no
		// caller can take for the clean end (the loader and the verifier only see members the iteration hands out)
		r := rp.Rule("C16-CUTDECOY", "a member cut short ends the iteration with an error, never with (a wrapped) io.EOF", 1)
		b := arConcrete(p)
		pos := ""
		if next := p.Method("deb", "Ar", "Next"); next != nil {
			pos = p.Pos(next.Pos())
		}
		if b.undecided != "" {
			r.undecided("deb.Ar.Next", pos, b.undecided)
			return
		}
		fillProblems(r, "deb.Ar.Next", pos, b.problems["TRUNC"], "archives cut inside the data of their last member: the iteration fails, and not with an error that errors.Is takes for io.EOF")
	}()
	defer stateRule(p, rp, "C16-STATE", p.Func("deb", "Load"), p.Method("deb", "Deb", "CheckDebsig"))
	rp.Explanation = "CheckDebsig is interpreted abstractly on a Deb whose member index holds debian-binary, control.tar.gz, data.tar.xz and _gpgorigin (plus decoys), with Seek, io.NewSectionReader, io.MultiReader and openpgp.CheckDetachedSignature replaced by recording oracles, over every iteration order of the member map. C16-ROLE: only the exact member \"_gpg\"+role is used as signature: an absent role, a prefix of a role and the empty role fail; a missing debian-binary fails. C16-STREAM: the signed data is MultiReader(debian-binary, control, data) in that order, each a reader of its own over the whole member (io.NewSectionReader(member, 0, size)), never the member's own reader, whose position belongs to the loader and to Deb.Data and is not moved, the signature is the role member's data, the keyring is the caller's, and the library's entity and error are returned unchanged; a second check of the same Deb against another keyring is verified again, against that keyring. C16-SAME: with a decoy control.* or data.* member verification fails in every iteration order, and the loader (same scenarios) fails too, so the verified members are the loaded members; repeated names are rejected by the loader."
	rp.NotDecided = "the OpenPGP library; the bytes of the members (io.SectionReader)."
	rp.Trusted = []string{"go/types, go/ssa", "golang.org/x/crypto/openpgp.CheckDetachedSignature", "io.MultiReader, io.SectionReader.Seek"}
	fn := p.Method("deb", "Deb", "CheckDebsig")
	role := rp.Rule("C16-ROLE", "signature member = \"_gpg\"+role by exact lookup; missing members are errors", 1)
	stream := rp.Rule("C16-STREAM", "signed stream = debian-binary, control, data, each whole and through a reader of its own; results returned unchanged", 1)
	same := rp.Rule("C16-SAME", "decoy members make verification and loading fail in every iteration order", 1)
	if fn == nil {
		role.bad("deb.Deb.CheckDebsig", "", "method not found", nil)
		return
	}
	pos := p.Pos(fn.Pos())
	members := []string{"debian-binary", "control.tar.gz", "data.tar.xz", "_gpgorigin"}
	var roleP, streamP, sameP []string
	undec := ""
	run := func(ms []string, r string, ok bool) []sigOutcome {
		outs, why := runCheckDebsig(p, ms, r, ok)
		if why != "" {
			undec = why
		}
		return outs
	}
	// roles
	for _, r := range []string{"origin", "maint", "archive", "", "o", "orig", "origin2", "ORIGIN"} {
		outs := run(members, r, true)
		if undec != "" {
			break
		}
		for _, o := range outs {
			if r == "origin" {
				if !o.errNil || o.signer != "the-signing-entity" {
					roleP = append(roleP, "a present role with a good signature does not verify")
				}
			} else if o.errNil || len(o.verified) > 0 {
				roleP = append(roleP, fmt.Sprintf("role %q is not present (only _gpgorigin is) but a signature is verified for it: %v", r, o.verified))
			}
		}
	}
	if undec == "" {
		for _, o := range run([]string{"control.tar.gz", "data.tar.xz", "_gpgorigin"}, "origin", true) {
			if o.errNil {
				roleP = append(roleP, "a package without debian-binary verifies")
			}
		}
	}
	// stream
	if undec == "" {
		for _, ok := range []bool{true, false} {
			for _, o := range run(members, "origin", ok) {
				if o.errNil != ok {
					streamP = append(streamP, fmt.Sprintf("the library's verdict (ok=%v) is not what CheckDebsig returns (error nil=%v)", ok, o.errNil))
				}
				if ok && o.signer != "the-signing-entity" {
					streamP = append(streamP, "the entity returned by the library is not what CheckDebsig returns")
				}
				if !ok && o.signer != "" {
					streamP = append(streamP, "an entity is returned although verification failed")
				}
				if len(o.verified) != 1 {
					streamP = append(streamP, fmt.Sprintf("%d verification calls", len(o.verified)))
					continue
				}
				parts := strings.Split(o.verified[0], "|")
				own := func(name string, k int) string { return fmt.Sprintf("section(data(%s#%d),0,%d)", name, k, 1000+k) }
				want := "multi(" + own("debian-binary", 0) + "+" + own("control.tar.gz", 1) + "+" + own("data.tar.xz", 2) + ")"
				if parts[0] != "the-keyring" {
					streamP = append(streamP, "the signature is checked against "+parts[0]+", not the caller's keyring")
				}
				if parts[1] != want {
					if parts[1] == "multi(data(debian-binary#0)+data(control.tar.gz#1)+data(data.tar.xz#2))" {
						streamP = append(streamP, "the signed data is read through the members' own readers ("+parts[1]+"), the ones Deb.Data decompresses from: the check moves them, so the payload handed out afterwards is cut short or, once rewound by a second check, is not the bytes that were verified; want a reader of its own over the whole of each member, "+want)
					} else {
						streamP = append(streamP, "the signed data is "+parts[1]+", want "+want)
					}
				}
				if parts[2] != "data(_gpgorigin#3)" && parts[2] != own("_gpgorigin", 3) {
					streamP = append(streamP, "the signature is read from "+parts[2]+", want the _gpgorigin member")
				}
				for _, e := range o.effects {
					for _, mname := range []string{"data(debian-binary#0)", "data(control.tar.gz#1)", "data(data.tar.xz#2)"} {
						if strings.HasPrefix(e, "seek:"+mname+":") {
							streamP = append(streamP, "the check moves the read position of "+mname+" ("+e+"), which belongs to the loader and to Deb.Data")
						}
					}
				}
			}
		}
	}
	// a verdict is never remembered: the same Deb checked again with another keyring is verified again
	if undec == "" {
		errNil, ver, why := runCheckDebsigTwice(p, members, "origin")
		switch {
		case why != "":
			undec = why
		case errNil:
			streamP = append(streamP, fmt.Sprintf("after a successful check, a second check of the same Deb against an unrelated keyring (which the library rejects) succeeds; verification calls of the second check: %v", ver))
		case len(ver) != 1 || !strings.HasPrefix(ver[0], "an-unrelated-keyring|"):
			streamP = append(streamP, fmt.Sprintf("a second check of the same Deb does not verify against the keyring it is given: %v", ver))
		}
	}
	// same members as the loader
	if undec == "" {
		for _, decoy := range []string{"control.tar", "data.tar.gz", "control.sig", "control.x.tar.gz", "data.x.tar.gz"} {
			ms := append(append([]string(nil), members...), decoy)
			outs := run(ms, "origin", true)
			if undec != "" {
				break
			}
			for _, o := range outs {
				if o.errNil {
					sameP = append(sameP, fmt.Sprintf("with the decoy member %s verification succeeds (over %v) in some iteration order", decoy, o.verified))
					break
				}
			}
			lo, why := runLoadDeb(p, debScenario{members: ms, binary: "2.0\n", tarEntries: []string{"./control"}})
			if why != "" {
				undec = why
				break
			}
			for _, o := range lo {
				if o.errNil {
					sameP = append(sameP, "with the decoy member "+decoy+" the loader succeeds in some iteration order: loader and verifier can disagree")
					break
				}
			}
		}
		lo, why := runLoadDeb(p, debScenario{members: append(append([]string(nil), members...), "control.tar.gz"), binary: "2.0\n", tarEntries: []string{"./control"}})
		if why != "" {
			undec = why
		} else {
			for _, o := range lo {
				if o.errNil {
					sameP = append(sameP, "a repeated member name is accepted by the loader: the member verified need not be the one first in the archive")
					break
				}
			}
		}
	}
	if undec != "" {
		for _, r := range []*Rule{role, stream, same} {
			r.undecided("deb.Deb.CheckDebsig", pos, undec)
		}
		return
	}
	fillProblems(role, "deb.Deb.CheckDebsig", pos, roleP, "8 roles against a package signed as origin only; missing debian-binary")
	fillProblems(stream, "deb.Deb.CheckDebsig", pos, streamP, "keyring, signed stream (order, own readers over whole members, no seek on the shared ones), signature member and returned results, for a verifying and a failing library verdict")
	fillProblems(same, "deb.Deb.CheckDebsig", pos, sameP, "5 decoys and a repeated name: verification and loading fail in every iteration order")
}

func stripIface(v ssa.Value) ssa.Value {
	for {
		switch x := v.(type) {
		case *ssa.MakeInterface:
			v = x.X
		case *ssa.ChangeInterface:
			v = x.X
		case *ssa.ChangeType:
			v = x.X
		default:
			return v
		}
	}
}

func instrIndex(ins ssa.Instruction) int {
	for i, x := range ins.Block().Instrs {
		if x == ins {
			return i
		}
	}
	return -1
}

// c14File: LoadFile is os.Open plus Load: a package that os.Open can open is loaded, whatever kind of directory
// entry names it (a symbolic link into a pool is how archives are laid out), and the file is closed when Load fails.
func c14File(p *Prog, rp *Report) {
	r := rp.Rule("C14-FILE", "LoadFile loads what os.Open opens (a package reached through a symbolic link included)", 1)
	fn := p.Func("deb", "LoadFile")
	load := p.Func("deb", "Load")
	debT := p.Named("deb", "Deb")
	if fn == nil || load == nil || debT == nil {
		r.bad("deb.LoadFile", "", "function not found", nil)
		return
	}
	pos := p.Pos(fn.Pos())
	var problems []string
	for _, loadOK := range []bool{true, false} {
		m := NewMachine(p, nil)
		installStringModels(m)
		installIOGlobals(m)
		ifT := types.NewPointer(types.Typ[types.Int])
		closed := 0
		var opened []string
		m.Hooks["os.Open"] = func(m *Machine, st *State, call *ssa.CallCommon, args []Val) ([]Val, bool) {
			s, _ := args[0].(string)
			opened = append(opened, s)
			id := st.alloc(types.Typ[types.Int], OpaqueV{"file:" + s})
			return []Val{&TupleV{E: []Val{Ptr{Obj: id}, nilV{}}}}, true
		}
		info := func(kind string) HookFn {
			return func(m *Machine, st *State, call *ssa.CallCommon, args []Val) ([]Val, bool) {
				id := st.alloc(types.Typ[types.Int], OpaqueV{"fileinfo:" + kind})
				return []Val{&TupleV{E: []Val{IfaceV{T: ifT, V: Ptr{Obj: id}}, nilV{}}}}, true
			}
		}
		m.Hooks["os.Lstat"] = info("symlink") // the name is a symbolic link ...
		m.Hooks["os.Stat"] = info("regular")  // ... to a regular file
		m.Hooks["(*os.File).Stat"] = info("regular")
		m.Hooks["(*os.File).Close"] = func(m *Machine, st *State, call *ssa.CallCommon, args []Val) ([]Val, bool) {
			closed++
			return []Val{nilV{}}, true
		}
		const modeSymlink, modeDir, modeType = int64(1) << 27, int64(1) << 31, int64(0x8f280000)
		m.Hooks["(io/fs.FileMode).IsRegular"] = func(m *Machine, st *State, call *ssa.CallCommon, args []Val) ([]Val, bool) {
			v, ok := args[0].(int64)
			return []Val{v&modeType == 0}, ok
		}
		m.Hooks["(io/fs.FileMode).IsDir"] = func(m *Machine, st *State, call *ssa.CallCommon, args []Val) ([]Val, bool) {
			v, ok := args[0].(int64)
			return []Val{v&modeDir != 0}, ok
		}
		m.Hooks["(io/fs.FileMode).Type"] = func(m *Machine, st *State, call *ssa.CallCommon, args []Val) ([]Val, bool) {
			v, ok := args[0].(int64)
			return []Val{v & modeType}, ok
		}
		m.InvokeHook = func(m *Machine, st *State, call *ssa.CallCommon, recv Val, args []Val) ([]Val, bool) {
			kind := debProv(st, recv)
			switch call.Method.Name() {
			case "Mode":
				if kind == "fileinfo:symlink" {
					return []Val{modeSymlink | 0777}, true
				}
				return []Val{int64(0644)}, true
			case "IsDir":
				return []Val{false}, true
			case "Size":
				return []Val{int64(4096)}, true
			case "Close":
				closed++
				return []Val{nilV{}}, true
			}
			return nil, false
		}
		loadOK := loadOK
		m.Hooks[load.String()] = func(m *Machine, st *State, call *ssa.CallCommon, args []Val) ([]Val, bool) {
			if !loadOK {
				return []Val{&TupleV{E: []Val{nilV{}, IfaceV{T: errType, V: "not a .deb"}}}}, true
			}
			cid := st.alloc(types.Typ[types.Int], OpaqueV{"the-data-closer"})
			id := st.alloc(debT, mkStruct(debT, map[string]Val{"Closer": IfaceV{T: ifT, V: Ptr{Obj: cid}}}))
			return []Val{&TupleV{E: []Val{Ptr{Obj: id}, nilV{}}}}, true
		}
		st := initState(m, "deb")
		st.push(fn, []Val{"pool/main/h/hello/hello_1.0_amd64.deb"}, nil)
		out := m.Run(st)
		if len(out) != 1 || out[0].Status != stRet {
			problems = append(problems, "undecided: "+retDesc(out))
			continue
		}
		tv, ok := st.Ret.(*TupleV)
		if !ok || len(tv.E) != 3 {
			problems = append(problems, "undecided: unexpected result shape")
			continue
		}
		_, errNil := tv.E[2].(nilV)
		switch {
		case loadOK && !errNil:
			problems = append(problems, "a package that os.Open opens and Load accepts is refused by LoadFile (the name is a symbolic link to a regular file: os.Lstat says symlink, os.Stat says regular)")
		case loadOK && (len(opened) != 1 || opened[0] != "pool/main/h/hello/hello_1.0_amd64.deb"):
			problems = append(problems, fmt.Sprintf("LoadFile opens %q, want the path given", opened))
		case !loadOK && errNil:
			problems = append(problems, "an error of Load is not returned by LoadFile")
		case !loadOK && closed == 0:
			problems = append(problems, "the file is left open when Load fails")
		}
	}
	fillProblems(r, "deb.LoadFile", pos, problems, "the path is opened and loaded; an error of Load is returned and the file closed")
}
