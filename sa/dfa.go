package main

// A small regular-language toolkit over an alphabet of symbol classes:
// regular expressions -> NFA (Thompson), and product searches against the
// transition system extracted from a parser by the abstract interpreter.

import (
	"sort"
	"strings"
)

type rx struct {
	op   byte // 's' symbol set, 'c' concat, 'a' alt, '*' star, 'e' epsilon
	syms []int
	sub  []*rx
}

func rSym(syms ...int) *rx { return &rx{op: 's', syms: syms} }
func rEps() *rx            { return &rx{op: 'e'} }
func rCat(s ...*rx) *rx    { return &rx{op: 'c', sub: s} }
func rAlt(s ...*rx) *rx    { return &rx{op: 'a', sub: s} }
func rStar(r *rx) *rx      { return &rx{op: '*', sub: []*rx{r}} }
func rPlus(r *rx) *rx      { return rCat(r, rStar(r)) }
func rOpt(r *rx) *rx       { return rAlt(r, rEps()) }

type nfa struct {
	n      int
	eps    [][]int
	trans  []map[int][]int
	start  int
	accept int
}

func (a *nfa) newState() int {
	a.eps = append(a.eps, nil)
	a.trans = append(a.trans, map[int][]int{})
	a.n++
	return a.n - 1
}

func compileRx(r *rx) *nfa {
	a := &nfa{}
	s, t := a.build(r)
	a.start, a.accept = s, t
	return a
}

func (a *nfa) build(r *rx) (int, int) {
	switch r.op {
	case 'e':
		s := a.newState()
		return s, s
	case 's':
		s, t := a.newState(), a.newState()
		for _, c := range r.syms {
			a.trans[s][c] = append(a.trans[s][c], t)
		}
		return s, t
	case 'c':
		s, t := a.build(r.sub[0])
		for _, x := range r.sub[1:] {
			s2, t2 := a.build(x)
			a.eps[t] = append(a.eps[t], s2)
			t = t2
		}
		return s, t
	case 'a':
		s, t := a.newState(), a.newState()
		for _, x := range r.sub {
			s2, t2 := a.build(x)
			a.eps[s] = append(a.eps[s], s2)
			a.eps[t2] = append(a.eps[t2], t)
		}
		return s, t
	case '*':
		s, t := a.newState(), a.newState()
		s2, t2 := a.build(r.sub[0])
		a.eps[s] = append(a.eps[s], s2, t)
		a.eps[t2] = append(a.eps[t2], s2, t)
		return s, t
	}
	panic("bad rx")
}

func (a *nfa) closure(set []int) []int {
	seen := map[int]bool{}
	var stack []int
	for _, s := range set {
		if !seen[s] {
			seen[s] = true
			stack = append(stack, s)
		}
	}
	for len(stack) > 0 {
		s := stack[len(stack)-1]
		stack = stack[:len(stack)-1]
		for _, t := range a.eps[s] {
			if !seen[t] {
				seen[t] = true
				stack = append(stack, t)
			}
		}
	}
	out := make([]int, 0, len(seen))
	for s := range seen {
		out = append(out, s)
	}
	sort.Ints(out)
	return out
}

func (a *nfa) step(set []int, sym int) []int {
	var next []int
	for _, s := range set {
		next = append(next, a.trans[s][sym]...)
	}
	if len(next) == 0 {
		return nil
	}
	return a.closure(next)
}

func (a *nfa) accepting(set []int) bool {
	for _, s := range set {
		if s == a.accept {
			return true
		}
	}
	return false
}

func setKey(xs []int) string {
	var b strings.Builder
	for _, x := range xs {
		b.WriteString(itoa(x))
		b.WriteByte(',')
	}
	return b.String()
}

func itoa(x int) string {
	if x == 0 {
		return "0"
	}
	neg := x < 0
	if neg {
		x = -x
	}
	var buf [20]byte
	i := len(buf)
	for x > 0 {
		i--
		buf[i] = byte('0' + x%10)
		x /= 10
	}
	if neg {
		i--
		buf[i] = '-'
	}
	return string(buf[i:])
}

// ---- the extracted transition system ------------------------------------------------

const (
	tsAccept = -1
	tsReject = -2
	tsPanic  = -3
	tsUndec  = -4
)

// tsys: nodes are blocked states of the interpreted parser; succ[node][sym+1]
// lists successor nodes or terminal verdicts (sym -1 = END at index 0).
type tsys struct {
	nsym  int
	succ  [][][]int32
	init  []int32 // initial successors (the machine runs before the first reveal)
	names []string
}

func (t *tsys) next(nodes []int32, sym int) []int32 {
	seen := map[int32]bool{}
	var out []int32
	for _, n := range nodes {
		if n < 0 {
			// a terminal verdict absorbs the rest of the input
			if !seen[n] {
				seen[n] = true
				out = append(out, n)
			}
			continue
		}
		for _, s := range t.succ[n][sym+1] {
			if !seen[s] {
				seen[s] = true
				out = append(out, s)
			}
		}
	}
	sort.Slice(out, func(i, j int) bool { return out[i] < out[j] })
	return out
}

func key32(xs []int32) string {
	var b strings.Builder
	for _, x := range xs {
		b.WriteString(itoa(int(x)))
		b.WriteByte(',')
	}
	return b.String()
}

// verdictsAtEnd: the set of terminal verdicts reachable when the input ends now.
func (t *tsys) verdictsAtEnd(nodes []int32) map[int32]bool {
	out := map[int32]bool{}
	for _, v := range t.next(nodes, -1) {
		if v < 0 {
			out[v] = true
		} else {
			// the machine asks for input after END: run on with END again
			for _, w := range t.next([]int32{v}, -1) {
				out[w] = true
			}
		}
	}
	return out
}

type searchResult struct {
	Found    bool
	Witness  []int // symbol sequence
	Explored int
	Detail   string
}

// findWord searches for a word w in L(spec) such that bad(verdicts of the
// implementation at the end of w) holds. With earlyBad, a verdict reached
// before the end of the word (an error return mid-word) also counts when
// bad({that verdict}) holds.
func findWord(spec *nfa, t *tsys, bad func(v map[int32]bool) bool, cap int) searchResult {
	type item struct {
		s    []int
		i    []int32
		prev int
		sym  int
	}
	start := item{s: spec.closure([]int{spec.start}), i: t.init, prev: -1, sym: -9}
	items := []item{start}
	seen := map[string]bool{setKey(start.s) + "|" + key32(start.i): true}
	res := searchResult{}
	witness := func(k int) []int {
		var w []int
		for k >= 0 && items[k].prev >= 0 {
			w = append([]int{items[k].sym}, w...)
			k = items[k].prev
		}
		return w
	}
	for k := 0; k < len(items); k++ {
		it := items[k]
		if spec.accepting(it.s) {
			if bad(t.verdictsAtEnd(it.i)) {
				res.Found = true
				res.Witness = witness(k)
				res.Explored = len(items)
				return res
			}
		}
		if len(items) > cap {
			res.Detail = "search cap reached"
			res.Explored = len(items)
			return res
		}
		for sym := 0; sym < t.nsym; sym++ {
			ns := spec.step(it.s, sym)
			if ns == nil {
				continue
			}
			ni := t.next(it.i, sym)
			key := setKey(ns) + "|" + key32(ni)
			if seen[key] {
				continue
			}
			seen[key] = true
			items = append(items, item{s: ns, i: ni, prev: k, sym: sym})
		}
	}
	res.Explored = len(items)
	return res
}
