package main

import (
	"bufio"
	"encoding/json"
	"fmt"
	"os"
	"path/filepath"
	"sort"
	"strconv"
	"strings"
	"time"
)

// Instance is one concrete site a rule applies to.
type Instance struct {
	Construct string      `json:"construct"` // rule-relative stable key (function / field / role), never a line number
	Pos       string      `json:"pos,omitempty"`
	Status    string      `json:"status"` // ok | violated | undecided
	Detail    string      `json:"detail,omitempty"`
	Witness   interface{} `json:"witness,omitempty"`
}

// Rule collects the instances examined for one rule.
type Rule struct {
	ID        string     `json:"id"`
	Doc       string     `json:"doc"`
	Floor     int        `json:"floor"`
	Instances []Instance `json:"-"`
	// counts for evidence
	N         int    `json:"instances"`
	Violated  int    `json:"violated"`
	Undecided int    `json:"undecided"`
	Canary    string `json:"canary,omitempty"` // "fired" | "silent" | ""
}

func (r *Rule) ok(construct, pos, detail string) {
	r.Instances = append(r.Instances, Instance{Construct: construct, Pos: pos, Status: "ok", Detail: detail})
}
func (r *Rule) bad(construct, pos, detail string, witness interface{}) {
	if len(detail) > 1500 {
		detail = detail[:1500] + "... (clipped)"
	}
	r.Instances = append(r.Instances, Instance{Construct: construct, Pos: pos, Status: "violated", Detail: detail, Witness: witness})
}
func (r *Rule) undecided(construct, pos, detail string) {
	r.Instances = append(r.Instances, Instance{Construct: construct, Pos: pos, Status: "undecided", Detail: detail})
}
func (r *Rule) check(cond bool, construct, pos, okDetail, badDetail string) bool {
	if cond {
		r.ok(construct, pos, okDetail)
	} else {
		r.bad(construct, pos, badDetail, nil)
	}
	return cond
}

// Report is everything one `check` run produced.
type Report struct {
	Prop        string
	Tier        string
	Level       string
	Explanation string
	NotDecided  string
	Trusted     []string
	Rules       []*Rule
	Extra       map[string]interface{}
	start       time.Time
	errors      []string
}

func NewReport(prop, tier string) *Report {
	return &Report{Prop: prop, Tier: tier, Level: "other", Extra: map[string]interface{}{}, start: time.Now()}
}

func (rp *Report) Rule(id, doc string, floor int) *Rule {
	r := &Rule{ID: id, Doc: doc, Floor: floor}
	rp.Rules = append(rp.Rules, r)
	return r
}

func (rp *Report) Errorf(format string, a ...interface{}) {
	rp.errors = append(rp.errors, fmt.Sprintf(format, a...))
}

// ---- ledger --------------------------------------------------------------

type ledgerEntry struct {
	kind      string // finding | fixed
	prop      string
	rule      string
	construct string
	text      string
}

func verifDir() string {
	if d := os.Getenv("GDSA_VERIF"); d != "" {
		return d
	}
	return "/verif"
}

func readLedger() ([]ledgerEntry, error) {
	f, err := os.Open(filepath.Join(verifDir(), "known-findings.txt"))
	if err != nil {
		if os.IsNotExist(err) {
			return nil, nil
		}
		return nil, err
	}
	defer f.Close()
	var out []ledgerEntry
	sc := bufio.NewScanner(f)
	sc.Buffer(make([]byte, 1<<20), 1<<20)
	for sc.Scan() {
		line := strings.TrimSpace(sc.Text())
		if line == "" || strings.HasPrefix(line, "#") {
			continue
		}
		var e ledgerEntry
		switch {
		case strings.HasPrefix(line, "finding:"):
			e.kind = "finding"
			line = strings.TrimSpace(strings.TrimPrefix(line, "finding:"))
		case strings.HasPrefix(line, "fixed:"):
			e.kind = "fixed"
			line = strings.TrimSpace(strings.TrimPrefix(line, "fixed:"))
		default:
			continue
		}
		rest := []string{}
		for _, tok := range strings.Fields(line) {
			switch {
			case strings.HasPrefix(tok, "property=") && e.prop == "":
				e.prop = strings.TrimPrefix(tok, "property=")
			case strings.HasPrefix(tok, "rule=") && e.rule == "":
				e.rule = strings.TrimPrefix(tok, "rule=")
			case strings.HasPrefix(tok, "construct=") && e.construct == "":
				e.construct = strings.TrimPrefix(tok, "construct=")
			default:
				rest = append(rest, tok)
			}
		}
		e.text = strings.Join(rest, " ")
		out = append(out, e)
	}
	return out, sc.Err()
}

// ---- finish: evidence, output, exit code -----------------------------------

type violationOut struct {
	Rule      string      `json:"rule"`
	Construct string      `json:"construct"`
	Pos       string      `json:"pos"`
	Status    string      `json:"status"`
	Detail    string      `json:"detail"`
	Witness   interface{} `json:"witness,omitempty"`
	Property  string      `json:"property"`
	Explain   string      `json:"explain"`
}

// Finish writes the evidence file, prints KNOWN-FINDING / VIOLATION lines and
// returns the process exit code.
func (rp *Report) Finish() int {
	ledger, lerr := readLedger()
	if lerr != nil {
		rp.Errorf("ledger: %v", lerr)
	}
	known := map[string]ledgerEntry{}
	for _, e := range ledger {
		if e.kind == "finding" && e.prop == rp.Prop {
			known[e.rule+"|"+e.construct] = e
		}
	}
	var viols []violationOut
	knownMatched := []string{}
	evaluations := 0
	distinct := map[string]bool{}
	samples := []interface{}{}
	for _, r := range rp.Rules {
		sort.SliceStable(r.Instances, func(i, j int) bool { return r.Instances[i].Construct < r.Instances[j].Construct })
		r.N = len(r.Instances)
		for _, in := range r.Instances {
			evaluations++
			distinct[r.ID+"|"+in.Construct] = true
			switch in.Status {
			case "violated":
				if e, ok := known[r.ID+"|"+in.Construct]; ok {
					fmt.Printf("KNOWN-FINDING: property=%s rule=%s construct=%s %s\n", rp.Prop, r.ID, in.Construct, e.text)
					knownMatched = append(knownMatched, r.ID+"|"+in.Construct)
					continue
				}
				r.Violated++
				viols = append(viols, violationOut{Rule: r.ID, Construct: in.Construct, Pos: in.Pos, Status: in.Status, Detail: in.Detail, Witness: in.Witness, Property: rp.Prop})
			case "undecided":
				r.Undecided++
				viols = append(viols, violationOut{Rule: r.ID, Construct: in.Construct, Pos: in.Pos, Status: in.Status, Detail: "UNDECIDED: " + in.Detail, Property: rp.Prop})
			}
		}
		if r.N < r.Floor {
			viols = append(viols, violationOut{Rule: r.ID, Construct: "(floor)", Status: "vacuous", Property: rp.Prop,
				Detail: fmt.Sprintf("rule matched %d instances, fewer than the %d confirmed by hand: the rule went vacuous or an anchor was not resolved", r.N, r.Floor)})
			r.Violated++
		}
		if r.Canary == "silent" {
			viols = append(viols, violationOut{Rule: r.ID, Construct: "(canary)", Status: "canary-silent", Property: rp.Prop,
				Detail: "the rule did not fire on its seeded canary: the checker itself is broken"})
			r.Violated++
		}
		// samples: up to 3 per rule
		for i, in := range r.Instances {
			if i >= 3 {
				break
			}
			samples = append(samples, map[string]interface{}{"rule": r.ID, "construct": in.Construct, "pos": in.Pos, "status": in.Status, "detail": in.Detail})
		}
	}
	for _, e := range rp.errors {
		viols = append(viols, violationOut{Rule: "ENGINE", Construct: "(error)", Status: "error", Detail: e, Property: rp.Prop})
	}

	// replay files
	replayDir := filepath.Join(verifDir(), "evidence", "replays")
	os.MkdirAll(replayDir, 0o755)
	// remove stale replays of this property
	if old, _ := filepath.Glob(filepath.Join(replayDir, rp.Prop+"-*.json")); old != nil {
		for _, o := range old {
			os.Remove(o)
		}
	}
	for i := range viols {
		v := &viols[i]
		name := fmt.Sprintf("%s-%02d-%s.json", rp.Prop, i+1, sanitize(v.Rule+"-"+v.Construct))
		path := filepath.Join(replayDir, name)
		v.Explain = fmt.Sprintf("./bin/gdsa explain %s", path)
		b, _ := json.MarshalIndent(v, "", " ")
		os.WriteFile(path, b, 0o644)
		fmt.Printf("  %s %s [%s] %s: %s\n", v.Rule, v.Construct, v.Status, v.Pos, v.Detail)
		fmt.Printf("VIOLATION property=%s replay=%s\n", rp.Prop, path)
	}

	wall := time.Since(rp.start).Seconds()
	obl, dis := 0, 0
	for _, r := range rp.Rules {
		for _, in := range r.Instances {
			obl++
			if in.Status == "ok" {
				dis++
			}
		}
	}
	cov := map[string]interface{}{
		"explanation":            rp.Explanation + " NOT DECIDED: " + rp.NotDecided,
		"evaluations":            evaluations,
		"distinct_nontrivial":    len(distinct),
		"rule":                   "one evaluation per (rule, construct) obligation found in /repo's current source; distinct = distinct rule|construct keys; an obligation is non-trivial because every rule has a hand-confirmed floor and a canary that must fire",
		"samples":                samples,
		"rules":                  rp.Rules,
		"known_findings_matched": knownMatched,
		"obligations":            obl,
		"discharged":             dis,
		"checker_cmd":            fmt.Sprintf("./bin/gdsa check %s --tier %s", rp.Prop, rp.Tier),
		"trusted_base":           rp.Trusted,
	}
	for k, v := range rp.Extra {
		cov[k] = v
	}
	seed := 0
	if s := os.Getenv("VERIF_SEED"); s != "" {
		if n, err := strconv.Atoi(s); err == nil {
			seed = n
		}
	}
	ev := map[string]interface{}{
		"property_id": rp.Prop,
		"tier":        rp.Tier,
		"seed":        seed,
		"level":       rp.Level,
		"coverage":    cov,
		"assumptions": rp.Trusted,
		"wall_s":      wall,
		"violations":  len(viols),
	}
	b, _ := json.MarshalIndent(ev, "", " ")
	os.MkdirAll(filepath.Join(verifDir(), "evidence"), 0o755)
	if err := os.WriteFile(filepath.Join(verifDir(), "evidence", rp.Prop+".json"), b, 0o644); err != nil {
		fmt.Printf("cannot write evidence: %v\n", err)
		return 1
	}
	fmt.Printf("%s tier=%s rules=%d obligations=%d discharged=%d violations=%d known=%d wall=%.1fs\n", rp.Prop, rp.Tier, len(rp.Rules), obl, dis, len(viols), len(knownMatched), wall)
	if len(viols) > 0 {
		return 1
	}
	return 0
}

func sanitize(s string) string {
	var b strings.Builder
	for _, c := range s {
		switch {
		case c >= 'a' && c <= 'z', c >= 'A' && c <= 'Z', c >= '0' && c <= '9', c == '-', c == '_', c == '.':
			b.WriteRune(c)
		default:
			b.WriteByte('_')
		}
	}
	out := b.String()
	if len(out) > 80 {
		out = out[:80]
	}
	return out
}
