package main

// C11 — clearsigned control data.

import (
	"fmt"
	"regexp"
	"strings"

	"golang.org/x/tools/go/ssa"
)

func init() { register("C11", checkC11) }

func checkC11(p *Prog, rp *Report) {
	rp.Explanation = "The clear-sign decoder (the callee of NewParagraphReader that calls clearsign.Decode) is checked on its SSA: C11-CHECKED every nil-error return is either on the keyring==nil side (and only that test) or behind a call of openpgp.CheckDetachedSignature whose keyring argument is the caller's and whose error is tested and returned; C11-SAMEBYTES the verified bytes, the signature and the bytes installed as the new reader come from the same clearsign.Block (same field for verified and parsed bytes, signature from ArmoredSignature.Body), never from the raw input; C11-REPLACED every nil-error return installs the new reader; C11-SIGNER the signer field is written only with the verification call's entity on its nil-error side (and nil at construction), accessors return it unchanged; C11-PROP NewParagraphReader sniffs exactly the length of its prefix literal, passes the keyring on, and returns the decoder's error with no reader; NewDecoder likewise."
	rp.NotDecided = "everything inside golang.org/x/crypto/openpgp and clearsign (that CheckDetachedSignature only succeeds for a key of the keyring over exactly those bytes; that an empty keyring fails)."
	rp.Trusted = []string{"go/types, go/ssa", "golang.org/x/crypto/openpgp.CheckDetachedSignature, clearsign.Decode", "bufio, bytes readers"}
	npr := p.Func("control", "NewParagraphReader")
	chk := rp.Rule("C11-CHECKED", "success with a keyring only behind a checked signature verification", 2)
	if npr == nil {
		chk.bad("control.NewParagraphReader", "", "function not found", nil)
		return
	}
	var dec *ssa.Function
	for _, f := range reachableRepoFuncs(npr) {
		if len(callsNamed(f, "golang.org/x/crypto/openpgp/clearsign.Decode")) > 0 {
			dec = f
		}
	}
	if dec == nil {
		chk.bad("control.clearsign-decoder", p.Pos(npr.Pos()), "no function reachable from NewParagraphReader calls clearsign.Decode", nil)
		return
	}
	pos := p.Pos(dec.Pos())
	name := fname(dec)
	tm := newTermer()
	// keyring parameter of the decoder
	kr := ""
	for i, prm := range dec.Params {
		if strings.Contains(prm.Type().String(), "openpgp.EntityList") {
			kr = fmt.Sprintf("p%d", i)
		}
	}
	verifs := callsNamed(dec, "golang.org/x/crypto/openpgp.CheckDetachedSignature", "golang.org/x/crypto/openpgp.CheckArmoredDetachedSignature")
	if kr == "" || len(verifs) != 1 {
		chk.bad(name, pos, fmt.Sprintf("keyring parameter %q, %d verification calls (expected one)", kr, len(verifs)), nil)
		return
	}
	vc := verifs[0]
	vt := tm.term(vc)
	chk.check(tm.term(vc.Call.Args[0]) == kr, name+":keyring", p.Pos(vc.Pos()), "the caller's keyring is what the signature is checked against", "the verification uses "+tm.term(vc.Call.Args[0])+" instead of the caller's keyring")
	// the error guard
	var errGuard *guard
	gs := guardsOf(dec)
	for i, g := range gs {
		if g.Term == "(nil != "+vt+"#1)" && rejectsOn(dec, g, 0) {
			errGuard = &gs[i]
		}
		if g.Term == "(nil == "+vt+"#1)" && rejectsOn(dec, g, 1) {
			errGuard = &gs[i]
		}
	}
	// the bypass guard
	var bypass *ssa.BasicBlock
	for _, g := range gs {
		if g.Term == "(nil == "+kr+")" {
			bypass = g.If.Block().Succs[0]
		}
		if g.Term == "(nil != "+kr+")" {
			bypass = g.If.Block().Succs[1]
		}
	}
	rets := successReturns(dec)
	if len(rets) == 0 {
		chk.bad(name, pos, "the decoder has no success path", nil)
	}
	for i, r := range rets {
		key := fmt.Sprintf("%s:success-path-%d", name, i+1)
		b := r.Block()
		viaBypass := bypass != nil && len(bypass.Preds) == 1 && bypass.Dominates(b)
		viaCheck := false
		if errGuard != nil {
			_, side, _ := nilTest(errGuard.If.Cond)
			okSide := errGuard.If.Block().Succs[1-side]
			viaCheck = len(okSide.Preds) == 1 && okSide.Dominates(b)
		}
		switch {
		case viaCheck:
			chk.ok(key, p.Pos(r.Pos()), "behind the verification call, on the side where its error is nil")
		case viaBypass:
			chk.ok(key, p.Pos(r.Pos()), "only reachable when the keyring parameter itself is nil (documented: no checking requested)")
		default:
			chk.bad(key, p.Pos(r.Pos()), "this success return is reachable with a non-nil keyring without a successful signature check (the only permitted bypass is the test keyring == nil)", nil)
		}
	}

	// C11-SAMEBYTES
	sb := rp.Rule("C11-SAMEBYTES", "verified bytes, signature and parsed bytes come from the same clearsign block", 3)
	blockRe := regexp.MustCompile(`^bytes\.(?:NewReader|NewBuffer)\((openpgp/clearsign\.Decode\(.*\)#0)\.(Bytes|Plaintext)\)$`)
	signed := tm.term(stripIface(vc.Call.Args[1]))
	sm := blockRe.FindStringSubmatch(signed)
	if sm == nil {
		sb.bad(name+":signed-data", p.Pos(vc.Pos()), "the signed data is "+signed+", not the bytes of the decoded clearsign block", nil)
	} else {
		sb.ok(name+":signed-data", p.Pos(vc.Pos()), "signed data = block."+sm[2])
		sig := tm.term(stripIface(vc.Call.Args[2]))
		sb.check(sig == sm[1]+".ArmoredSignature.Body", name+":signature", p.Pos(vc.Pos()), "signature = the same block's ArmoredSignature.Body", "the signature is "+sig)
		// the decoded input must be the reader's content
		sb.check(regexp.MustCompile(`^openpgp/clearsign\.Decode\(io(?:/ioutil)?\.ReadAll\(p0\.reader\)#0\)#0$`).MatchString(sm[1]), name+":decoded-input", pos, "the block is decoded from everything the reader holds", "the clearsign block is decoded from "+sm[1])
		// installed readers
		n := 0
		for _, b := range dec.Blocks {
			for _, ins := range b.Instrs {
				st, ok := ins.(*ssa.Store)
				if !ok || tm.term(st.Addr) != "&p0.reader" {
					continue
				}
				n++
				v := tm.term(st.Val)
				want := regexp.MustCompile(`^bufio\.NewReader\(bytes\.(?:NewReader|NewBuffer)\(` + regexp.QuoteMeta(sm[1]) + `\.` + sm[2] + `\)\)$`)
				sb.check(want.MatchString(v), fmt.Sprintf("%s:installed-reader-%d", name, n), p.Pos(st.Pos()), "the reader that Next will parse holds exactly the verified bytes (block."+sm[2]+")", "the installed reader is "+v+": text other than the verified bytes can reach the caller")
			}
		}
		if n == 0 {
			sb.bad(name+":installed-reader", pos, "the decoder never replaces the reader", nil)
		}
	}

	// C11-REPLACED
	rpl := rp.Rule("C11-REPLACED", "every success path installs the new reader", 1)
	through := map[*ssa.BasicBlock]bool{}
	for _, b := range dec.Blocks {
		for _, ins := range b.Instrs {
			if st, ok := ins.(*ssa.Store); ok && tm.term(st.Addr) == "&p0.reader" {
				through[b] = true
			}
		}
	}
	okR := len(rets) > 0
	for _, r := range rets {
		if !everyPathPasses(dec, through, r.Block()) {
			okR = false
		}
	}
	rpl.check(okR, name, pos, "every nil-error return passes a store of the new reader", "a success path leaves the original stream (including text outside the signed block) in place")

	// C11-SIGNER
	sg := rp.Rule("C11-SIGNER", "the signer is only ever the verified signing entity", 3)
	nstores := 0
	for _, fn := range p.SrcFuncs("control") {
		ft := newTermer()
		for _, b := range fn.Blocks {
			for _, ins := range b.Instrs {
				st, ok := ins.(*ssa.Store)
				if !ok {
					continue
				}
				a := ft.term(st.Addr)
				if !strings.HasSuffix(a, ".signer") {
					continue
				}
				nstores++
				key := fmt.Sprintf("%s:signer-store", fname(fn))
				switch {
				case isNilConst(st.Val):
					sg.ok(key, p.Pos(st.Pos()), "initialised to nil")
				case fn == dec && ft.term(st.Val) == tm.term(vc)+"#0":
					okDom := false
					if errGuard != nil {
						_, side, _ := nilTest(errGuard.If.Cond)
						okSide := errGuard.If.Block().Succs[1-side]
						okDom = len(okSide.Preds) == 1 && okSide.Dominates(b)
					}
					sg.check(okDom, key, p.Pos(st.Pos()), "the entity returned by the verification call, stored on its nil-error side", "the signer is recorded without the verification having succeeded")
				default:
					sg.bad(key, p.Pos(st.Pos()), "the signer is set to "+ft.term(st.Val)+", which is not the verified signing entity", nil)
				}
			}
		}
	}
	for _, acc := range []struct{ typ, want string }{{"ParagraphReader", "p0.signer"}, {"Decoder", "(*control.ParagraphReader).Signer(&p0.paragraphReader)"}} {
		fn := p.Method("control", acc.typ, "Signer")
		key := "control." + acc.typ + ".Signer"
		if fn == nil {
			sg.bad(key, "", "accessor not found", nil)
			continue
		}
		ft := newTermer()
		ok := true
		got := ""
		for _, r := range returnsReachable(fn.Blocks[0]) {
			got = ft.term(r.Results[0])
			if got != acc.want {
				ok = false
			}
		}
		sg.check(ok, key, p.Pos(fn.Pos()), "returns the recorded signer unchanged", "returns "+got)
	}

	// C11-PROP
	pr := rp.Rule("C11-PROP", "entry points sniff, delegate and propagate correctly", 4)
	{
		nt := newTermer()
		sniffOK := false
		sniff := ""
		for _, g := range guardsOf(npr) {
			m := regexp.MustCompile(`^\("((?:[^"\\]|\\.)*)" (!=|==) \(\*bufio\.Reader\)\.Peek\(bufio\.NewReader\(p0\),(\d+)\)#0\)$`).FindStringSubmatch(g.Term)
			if m != nil {
				sniff = g.Term
				if fmt.Sprint(len(m[1])) == m[3] && m[1] == "-----BEGIN PGP " {
					sniffOK = true
				}
			}
		}
		pr.check(sniffOK, "control.NewParagraphReader:sniff", p.Pos(npr.Pos()), "peeks exactly len(\"-----BEGIN PGP \") = 15 bytes and compares them with that literal", "clearsigned input is recognised by "+sniff+" (peek length and literal must agree)")
		dc := callsNamed(npr, dec.String())
		okCall := len(dc) == 1 && nt.term(dc[0].Call.Args[len(dc[0].Call.Args)-1]) == "p1"
		pr.check(okCall, "control.NewParagraphReader:keyring", p.Pos(npr.Pos()), "the keyring is passed to the decoder unchanged", "the decoder is not called with the caller's keyring")
		okErr := false
		for _, s := range errDiscipline(npr, func(n string, c *ssa.Call) bool { return c.Call.StaticCallee() == dec }) {
			if s.Status == "checked" || s.Status == "returned" {
				okErr = true
			}
		}
		// on the error path the reader result must be nil
		nilOnErr := true
		for _, r := range returnsReachable(npr.Blocks[0]) {
			if errStatus(r.Results[1], knownNonNilAt(r.Block()), 0) != "nil" && !isNilConst(r.Results[0]) {
				nilOnErr = false
			}
		}
		pr.check(okErr && nilOnErr, "control.NewParagraphReader:error", p.Pos(npr.Pos()), "a decoder error is returned and no reader is handed out", "a failed signature check does not stop NewParagraphReader from returning a reader")
	}
	if nd := p.Func("control", "NewDecoder"); nd != nil {
		nt := newTermer()
		calls := callsNamed(nd, npr.String())
		okArgs := len(calls) == 1 && nt.term(calls[0].Call.Args[0]) == "p0" && nt.term(calls[0].Call.Args[1]) == "p1"
		okErr := false
		for _, s := range errDiscipline(nd, func(n string, c *ssa.Call) bool { return c.Call.StaticCallee() == npr }) {
			if s.Status == "checked" || s.Status == "returned" {
				okErr = true
			}
		}
		pr.check(okArgs && okErr, "control.NewDecoder", p.Pos(nd.Pos()), "delegates to NewParagraphReader(reader, keyring) and returns its error", "NewDecoder does not hand reader and keyring to NewParagraphReader or drops its error")
	} else {
		pr.bad("control.NewDecoder", "", "function not found", nil)
	}
	// Unmarshal uses a nil keyring by design (documented): record it
	if um := p.Func("control", "Unmarshal"); um != nil {
		nt := newTermer()
		for _, c := range allCalls(um) {
			if callee := c.Common().StaticCallee(); callee != nil && callee.Name() == "NewDecoder" {
				pr.ok("control.Unmarshal", p.Pos(um.Pos()), "Unmarshal = NewDecoder("+nt.term(c.Common().Args[0])+", "+nt.term(c.Common().Args[1])+"): unverified by design, never reports a signer")
			}
		}
	}
}
