package main

// C11 — clearsigned control data. NewParagraphReader / NewDecoder (and through
// them the clear-sign decoder) are interpreted abstractly with the OpenPGP
// library, the buffered readers and the byte readers replaced by oracles that
// record WHAT is verified, against WHICH keyring, and WHAT is installed as the
// text to parse; every oracle outcome is enumerated.

import (
	"fmt"
	"go/types"
	"sort"
	"strings"

	"golang.org/x/tools/go/ssa"
)

func init() { register("C11", checkC11) }

func extNamed(p *Prog, pkgPath, name string) *types.Named {
	for _, pk := range p.SSA.AllPackages() {
		if pk.Pkg.Path() == pkgPath {
			if o := pk.Pkg.Scope().Lookup(name); o != nil {
				n, _ := o.Type().(*types.Named)
				return n
			}
		}
	}
	return nil
}

type c11Outcome struct {
	errNil       bool
	readerNil    bool
	installed    string   // provenance of the reader Next() will parse
	signer       string   // provenance of the recorded signer ("" = nil)
	verified     []string // "keyring|signed|signature" per verification call
	verifyOK     bool
	decodeCalled bool
	path         []string
	consumed     bool // the reader left for parsing is (built on) a reader object the verification has read to its end
}

func checkC11(p *Prog, rp *Report) {
	defer stateRule(p, rp, "C11-STATE", p.Func("control", "NewParagraphReader"), p.Func("control", "NewDecoder"), p.Method("control", "ParagraphReader", "Next"))
	rp.Explanation = "NewParagraphReader (and NewDecoder, Signer) are interpreted abstractly for plain and for clearsigned input, for a nil keyring, a keyring with a key, an empty keyring and a pointer to a nil key list, with clearsign.Decode (block found / not found), io.ReadAll (ok / error) and openpgp.CheckDetachedSignature (signer / error) replaced by oracles that record their arguments' provenance. C11-CHECKED: with any non-nil keyring pointer, success is only reached through a verification call against that very keyring that returned no error. C11-SAMEBYTES: the bytes verified and the bytes installed for parsing are the same field of the same decoded block, the signature is that block's ArmoredSignature.Body, and the block is decoded from the whole input. C11-REPLACED: after success nothing but those bytes is left to read. C11-SIGNER: the reported signer is the entity the verification returned, and nil for unsigned or unverified input. C11-PROP: a missing block, a read error and a failed verification all make NewParagraphReader / NewDecoder fail without handing out a reader; plain input is passed through untouched with no signer."
	rp.NotDecided = "everything inside golang.org/x/crypto/openpgp and clearsign (that CheckDetachedSignature succeeds only for a key of the keyring over exactly those bytes; that an empty keyring fails)."
	rp.Trusted = []string{"go/types, go/ssa", "golang.org/x/crypto/openpgp.CheckDetachedSignature, clearsign.Decode", "bufio / bytes readers deliver the bytes they wrap"}

	npr := p.Func("control", "NewParagraphReader")
	chk := rp.Rule("C11-CHECKED", "with a keyring, success only behind a successful verification against that keyring", 3)
	same := rp.Rule("C11-SAMEBYTES", "verified bytes = parsed bytes = the decoded block's signed text; signature from the same block", 1)
	repl := rp.Rule("C11-REPLACED", "after success only the verified text is left to read", 1)
	sgn := rp.Rule("C11-SIGNER", "the reported signer is the verified signing entity, nil otherwise", 3)
	prop := rp.Rule("C11-PROP", "failures fail closed; plain input passes through", 2)
	if npr == nil {
		chk.bad("control.NewParagraphReader", "", "function not found", nil)
		return
	}
	pos := p.Pos(npr.Pos())
	blockT := extNamed(p, "golang.org/x/crypto/openpgp/clearsign", "Block")
	armorT := extNamed(p, "golang.org/x/crypto/openpgp/armor", "Block")
	prT := p.Named("control", "ParagraphReader")
	if blockT == nil || armorT == nil || prT == nil {
		chk.undecided("control.NewParagraphReader", pos, "clearsign.Block / armor.Block / ParagraphReader types not found")
		return
	}
	ifT := types.NewPointer(types.Typ[types.Int])
	// provenance of a value
	var prov func(st *State, v Val) string
	prov = func(st *State, v Val) string {
		switch x := v.(type) {
		case nilV:
			return "nil"
		case OpaqueV:
			return x.Name
		case IfaceV:
			return prov(st, x.V)
		case Ptr:
			if o, ok := st.Heap[x.Obj]; ok {
				if ov, ok := o.V.(OpaqueV); ok {
					return ov.Name
				}
			}
			return fmt.Sprintf("obj%d", x.Obj)
		case string:
			return fmt.Sprintf("%q", x)
		}
		return fmt.Sprintf("%T", v)
	}
	type scenario struct {
		name     string
		signed   bool
		keyring  string // nil | keys | empty | nil-list
		readOK   bool
		blockOK  bool
		verifyOK bool
		second   bool // two clearsigned messages back to back: the first by a key the keyring does not know, the second verifies
	}
	runScenario := func(sc scenario, entry *ssa.Function) (*c11Outcome, string) {
		m := NewMachine(p, nil)
		installStringModels(m)
		installIOGlobals(m)
		out := &c11Outcome{verifyOK: sc.verifyOK}
		// reader objects: which object a wrapper reads from, and which objects a verification has drained
		under := map[int][]int{}
		drained := map[int]bool{}
		objOf := func(v Val) (int, bool) {
			if iv, ok := v.(IfaceV); ok {
				v = iv.V
			}
			if pp, ok := v.(Ptr); ok {
				return pp.Obj, true
			}
			return 0, false
		}
		var drain func(id int)
		drain = func(id int) {
			if drained[id] {
				return
			}
			drained[id] = true
			for _, u := range under[id] {
				drain(u)
			}
		}
		wrap := func(name string) HookFn {
			return func(m *Machine, st *State, call *ssa.CallCommon, args []Val) ([]Val, bool) {
				id := st.alloc(types.Typ[types.Int], OpaqueV{name + "(" + prov(st, args[0]) + ")"})
				if u, ok := objOf(args[0]); ok {
					under[id] = append(under[id], u)
				}
				return []Val{Ptr{Obj: id}}, true
			}
		}
		for _, n := range []string{"bufio.NewReader", "bytes.NewReader", "bytes.NewBuffer", "bytes.NewBufferString", "strings.NewReader"} {
			short := "reader"
			if strings.HasPrefix(n, "bufio") {
				short = "bufio"
			}
			m.Hooks[n] = wrap(short)
		}
		m.Hooks["bufio.NewReaderSize"] = wrap("bufio")
		m.Hooks["io.MultiReader"] = func(m *Machine, st *State, call *ssa.CallCommon, args []Val) ([]Val, bool) {
			elems, _, ok := m.sliceElems(st, args[0])
			if !ok {
				return nil, false
			}
			var ps []string
			for _, e := range elems {
				ps = append(ps, prov(st, e))
			}
			id := st.alloc(types.Typ[types.Int], OpaqueV{"multi(" + strings.Join(ps, "+") + ")"})
			for _, e := range elems {
				if u, ok := objOf(e); ok {
					under[id] = append(under[id], u)
				}
			}
			return []Val{IfaceV{T: ifT, V: Ptr{Obj: id}}}, true
		}
		m.Hooks["io.LimitReader"] = wrap("limit")
		m.Hooks["io.TeeReader"] = wrap("tee")
		content := "Source: plain-control-data\n"
		if sc.signed {
			content = "-----BEGIN PGP SIGNED MESSAGE-----\nHash: SHA256\n\nSource: x\n"
		}
		m.Hooks["(*bufio.Reader).Peek"] = func(m *Machine, st *State, call *ssa.CallCommon, args []Val) ([]Val, bool) {
			n, ok := args[1].(int64)
			if !ok {
				return nil, false
			}
			k := int(n)
			var e Val = nilV{}
			if k > len(content) {
				k = len(content)
				e = eofVal
			}
			arr := &ArrayV{}
			for i := 0; i < k; i++ {
				arr.E = append(arr.E, int64(content[i]))
			}
			id := st.alloc(types.NewArray(types.Typ[types.Uint8], int64(k)), arr)
			return []Val{&TupleV{E: []Val{SliceV{Obj: id, Len_: k, Cap: k}, e}}}, true
		}
		readAll := func(m *Machine, st *State, call *ssa.CallCommon, args []Val) ([]Val, bool) {
			if !sc.readOK {
				return []Val{&TupleV{E: []Val{nilV{}, IfaceV{T: errType, V: "read error"}}}}, true
			}
			return []Val{&TupleV{E: []Val{OpaqueV{"all-of(" + prov(st, args[0]) + ")"}, nilV{}}}}, true
		}
		m.Hooks["io/ioutil.ReadAll"] = readAll
		m.Hooks["io.ReadAll"] = readAll
		m.Hooks["golang.org/x/crypto/openpgp/clearsign.Decode"] = func(m *Machine, st *State, call *ssa.CallCommon, args []Val) ([]Val, bool) {
			out.decodeCalled = true
			src := prov(st, args[0])
			if strings.HasPrefix(src, "rest-of(") && !(sc.second && src == "rest-of(all-of(bufio(the-input)))") {
				// nothing (more) after the message(s) of the scenario
				return []Val{&TupleV{E: []Val{nilV{}, OpaqueV{"rest-of(" + src + ")"}}}}, true
			}
			if !sc.blockOK {
				return []Val{&TupleV{E: []Val{nilV{}, OpaqueV{"rest-of(" + src + ")"}}}}, true
			}
			sig := st.alloc(types.Typ[types.Int], OpaqueV{"signature-body[" + src + "]"})
			aid := st.alloc(armorT, mkStruct(armorT, map[string]Val{"Type": "PGP SIGNATURE", "Body": IfaceV{T: ifT, V: Ptr{Obj: sig}}}))
			bid := st.alloc(blockT, mkStruct(blockT, map[string]Val{
				"Plaintext":        OpaqueV{"block.Plaintext[" + src + "]"},
				"Bytes":            OpaqueV{"block.Bytes[" + src + "]"},
				"ArmoredSignature": Ptr{Obj: aid},
			}))
			return []Val{&TupleV{E: []Val{Ptr{Obj: bid}, OpaqueV{"rest-of(" + src + ")"}}}}, true
		}
		verify := func(m *Machine, st *State, call *ssa.CallCommon, args []Val) ([]Val, bool) {
			good := sc.verifyOK
			if sc.second {
				good = strings.Contains(prov(st, args[1]), "[rest-of(")
			}
			out.verified = append(out.verified, keyringID(st, args[0])+"|"+prov(st, args[1])+"|"+prov(st, args[2])+"|"+map[bool]string{true: "ok", false: "fail"}[good])
			// the library reads both streams to their end
			for _, a := range args[1:3] {
				if id, ok := objOf(a); ok {
					drain(id)
				}
			}
			if !good {
				return []Val{&TupleV{E: []Val{nilV{}, errUnknownIssuerVal}}}, true
			}
			id := st.alloc(types.Typ[types.Int], OpaqueV{"the-signing-entity"})
			return []Val{&TupleV{E: []Val{Ptr{Obj: id}, nilV{}}}}, true
		}
		m.Hooks["golang.org/x/crypto/openpgp.CheckDetachedSignature"] = verify
		m.Hooks["golang.org/x/crypto/openpgp.CheckArmoredDetachedSignature"] = verify
		m.ExtGlobals["golang.org/x/crypto/openpgp/errors.ErrUnknownIssuer"] = errUnknownIssuerVal
		st := initState(m, "control")
		src := st.alloc(types.Typ[types.Int], OpaqueV{"the-input"})
		var kr Val = nilV{}
		switch sc.keyring {
		case "keys":
			e := st.alloc(types.Typ[types.Int], OpaqueV{"a-key"})
			arr := st.alloc(types.NewArray(ifT, 1), &ArrayV{E: []Val{Ptr{Obj: e}}})
			kr = Ptr{Obj: st.alloc(types.NewSlice(ifT), SliceV{Obj: arr, Len_: 1, Cap: 1})}
		case "empty":
			arr := st.alloc(types.NewArray(ifT, 0), &ArrayV{})
			kr = Ptr{Obj: st.alloc(types.NewSlice(ifT), SliceV{Obj: arr, Len_: 0, Cap: 0})}
		case "nil-list":
			kr = Ptr{Obj: st.alloc(types.NewSlice(ifT), nilV{})}
		}
		krName := keyringID(st, kr)
		st.push(entry, []Val{IfaceV{T: ifT, V: Ptr{Obj: src}}, kr}, nil)
		res := m.Run(st)
		if len(res) != 1 {
			return nil, fmt.Sprintf("%d runs (an undetermined branch): %v", len(res), keys(res[0].Notes))
		}
		if res[0].Status != stRet {
			return nil, retDesc(res)
		}
		tv, ok := st.Ret.(*TupleV)
		if !ok || len(tv.E) != 2 {
			return nil, "unexpected result shape"
		}
		_, out.errNil = tv.E[1].(nilV)
		_, out.readerNil = tv.E[0].(nilV)
		if !out.readerNil {
			// find the ParagraphReader inside the result (directly, or inside a Decoder)
			var find func(v Val, depth int) *StructV
			find = func(v Val, depth int) *StructV {
				if depth > 3 {
					return nil
				}
				switch x := v.(type) {
				case Ptr:
					lv, _ := st.load(x)
					return find(lv, depth+1)
				case *StructV:
					if len(x.F) == structOf(prT).NumFields() {
						if _, isP := x.F[fieldIndex(structOf(prT), roleField(prT, "*bufio.Reader", "reader"))].(Ptr); isP {
							return x
						}
					}
					for _, f := range x.F {
						if r := find(f, depth+1); r != nil {
							return r
						}
					}
				}
				return nil
			}
			pr := find(tv.E[0], 0)
			if pr == nil {
				return nil, "no ParagraphReader in the result"
			}
			out.installed = prov(st, pr.F[fieldIndex(structOf(prT), roleField(prT, "*bufio.Reader", "reader"))])
			if id, ok := objOf(pr.F[fieldIndex(structOf(prT), roleField(prT, "*bufio.Reader", "reader"))]); ok {
				var walk func(id int, depth int)
				walk = func(id int, depth int) {
					if drained[id] {
						out.consumed = true
					}
					if depth < 8 {
						for _, u := range under[id] {
							walk(u, depth+1)
						}
					}
				}
				walk(id, 0)
			}
			if s := prov(st, pr.F[fieldIndex(structOf(prT), roleField(prT, "*golang.org/x/crypto/openpgp.Entity", "signer"))]); s != "nil" {
				out.signer = s
			}
		}
		// normalise keyring provenance in the verification records
		for i, v := range out.verified {
			out.verified[i] = strings.Replace(v, krName+"|", "KEYRING|", 1)
		}
		return out, ""
	}

	var chkP, sameP, replP, sgnP, propP []string
	undec := ""
	nscen := 0
	for _, entryName := range []string{"NewParagraphReader", "NewDecoder"} {
		entry := p.Func("control", entryName)
		if entry == nil {
			propP = append(propP, "control."+entryName+" not found")
			continue
		}
		for _, keyring := range []string{"nil", "keys", "empty", "nil-list"} {
			for _, sc := range []scenario{
				{"plain input", false, keyring, true, true, true, false},
				{"signed, verifies", true, keyring, true, true, true, false},
				{"signed, verification fails", true, keyring, true, true, false, false},
				{"signed, no block decodes", true, keyring, true, false, true, false},
				{"signed, read error", true, keyring, false, true, true, false},
				{"two signed messages, the first by a key the keyring does not know", true, keyring, true, true, false, true},
			} {
				nscen++
				o, why := runScenario(sc, entry)
				desc := fmt.Sprintf("%s(%s; keyring: %s)", entryName, sc.name, keyring)
				if why != "" {
					undec = desc + ": " + why
					break
				}
				hasKeyring := keyring != "nil"
				success := o.errNil
				if !success && !o.readerNil {
					propP = append(propP, desc+": a reader is handed out together with the error")
				}
				if !sc.signed {
					if !success || o.decodeCalled || o.signer != "" || o.installed != "bufio(the-input)" {
						propP = append(propP, fmt.Sprintf("%s: plain input must pass through untouched with no signer (success=%v, reads from %s, signer %q)", desc, success, o.installed, o.signer))
					}
					continue
				}
				if !sc.readOK || !sc.blockOK {
					if success {
						propP = append(propP, desc+": succeeds although "+map[bool]string{true: "no clearsigned block was found", false: "the input could not be read"}[sc.readOK])
					}
					continue
				}
				// signed input with a decodable block
				if hasKeyring {
					verifiedOK := false
					for _, v := range o.verified {
						if strings.HasPrefix(v, "KEYRING|") {
							verifiedOK = true
						}
					}
					anyGood := false
					for _, v := range o.verified {
						if strings.HasPrefix(v, "KEYRING|") && strings.HasSuffix(v, "|ok") {
							anyGood = true
						}
					}
					if success && (!verifiedOK || !anyGood) {
						chkP = append(chkP, fmt.Sprintf("%s: reading succeeds although %s", desc, map[bool]string{true: "no verification against the caller's keyring took place (verification calls: " + fmt.Sprint(o.verified) + ")", false: "the signature did not verify"}[anyGood || !verifiedOK]))
					}
					if !success && sc.verifyOK && verifiedOK {
						propP = append(propP, desc+": fails although the signature verified")
					}
					if success {
						matched := false
						for _, v := range o.verified {
							parts := strings.Split(v, "|")
							signed, sig := parts[1], parts[2]
							if parts[3] != "ok" {
								continue // a verification that failed vouches for nothing
							}
							// the message the verified bytes were decoded from: the whole input, or (second message) its rest
							froms := []string{"all-of(bufio(the-input))"}
							if sc.second {
								froms = []string{"rest-of(all-of(bufio(the-input)))"}
							}
							want, from := "", ""
							for _, fr := range froms {
								for _, f := range []string{"Bytes", "Plaintext"} {
									if signed == "reader(block."+f+"["+fr+"])" {
										want, from = "bufio(reader(block."+f+"["+fr+"]))", fr
									}
								}
							}
							if want == "" {
								sameP = append(sameP, fmt.Sprintf("%s: the data verified is %s, not the signed text of the block decoded from the input", desc, signed))
							} else if o.installed != want {
								sameP = append(sameP, fmt.Sprintf("%s: verified %s but the text handed to the parser is %s", desc, signed, o.installed))
							} else {
								matched = true
							}
							if want != "" && sig != "signature-body["+from+"]" {
								sameP = append(sameP, fmt.Sprintf("%s: the signature checked is %s, not the block's own ArmoredSignature.Body", desc, sig))
							}
						}
						if !matched && len(sameP) == 0 {
							sameP = append(sameP, fmt.Sprintf("%s: the text handed to the parser (%s) is not a text whose verification succeeded (verification calls: %v)", desc, o.installed, o.verified))
						}
						if o.signer != "the-signing-entity" {
							sgnP = append(sgnP, fmt.Sprintf("%s: the reported signer is %q, not the entity returned by the verification", desc, o.signer))
						}
					}
				} else {
					if !success {
						propP = append(propP, desc+": with a nil keyring (checking disabled by the caller) reading fails")
					} else {
						if o.signer != "" {
							sgnP = append(sgnP, desc+": a signer is reported although nothing was verified")
						}
						if !strings.HasPrefix(o.installed, "bufio(reader(block.") {
							replP = append(replP, fmt.Sprintf("%s: the text handed to the parser is %s, not the decoded block's text", desc, o.installed))
						}
					}
				}
				if success && o.consumed {
					replP = append(replP, fmt.Sprintf("%s: the reader left for parsing (%s) is built on the very reader object the verification read to its end: no paragraph of the signed text is returned", desc, o.installed))
				}
				if success && strings.Contains(o.installed, "the-input") && !strings.Contains(o.installed, "block.") {
					replP = append(replP, fmt.Sprintf("%s: after success the parser still reads the raw input (%s): text outside the signed block reaches the caller", desc, o.installed))
				}
				if success && (strings.Contains(o.installed, "rest-of") || strings.Count(o.installed, "block.") != 1) {
					replP = append(replP, fmt.Sprintf("%s: the text handed to the parser is %s: more than the one verified block", desc, o.installed))
				}
			}
			if undec != "" {
				break
			}
		}
	}
	// C11-TEXT: the signed text as clearsign hands it out never ends in a line terminator: the paragraphs of such a
	// text (its last line included) are what the reader returns
	{
		tx := rp.Rule("C11-TEXT", "the verified text is parsed in full although it does not end in a newline", 1)
		var problems []string
		undecT := ""
		for _, tc := range []struct {
			text string
			want string
		}{
			{"Source: x\nBinary: y", `[[Source="x" Binary="y"]]`},
			{"Source: x", `[[Source="x"]]`},
			{"A: 1\n\nB: 2\n c", `[[A="1"] [B="2\nc"]]`},
			{"A: 1\n\nB: 2", `[[A="1"] [B="2"]]`},
		} {
			paras, why := readParagraphs(p, tc.text)
			if strings.HasPrefix(why, "undecided") {
				undecT = why
				break
			}
			var got []string
			for _, pa := range paras {
				var parts []string
				for _, k := range pa.order {
					parts = append(parts, fmt.Sprintf("%s=%q", k, strings.TrimSuffix(pa.values[k], "\n")))
				}
				got = append(got, "["+strings.Join(parts, " ")+"]")
			}
			g := "[" + strings.Join(got, " ") + "]"
			if why != "" {
				g += " then " + why
			}
			if g != tc.want {
				problems = append(problems, fmt.Sprintf("the signed text %q is read as %s, want %s", tc.text, g, tc.want))
			}
		}
		if undecT != "" {
			tx.undecided("control.ParagraphReader.Next", pos, undecT)
		} else {
			fillProblems(tx, "control.ParagraphReader.Next", pos, problems, "4 texts without a final line terminator (one and two paragraphs, a folded last field): every field of the last line is returned")
		}
	}
	// C11-ARMOR: a clearsigned block that does not start at the first byte of the input (a blank line, a comment or
	// a plain paragraph comes first) is not recognised by the constructor's look at the first bytes. Read with a
	// keyring, such input must not hand out the text between the armor lines unless a verification took place.
	{
		ar := rp.Rule("C11-ARMOR", "with a keyring, text inside an armor that does not start the input is handed out only after a verification", 1)
		ctor := p.Func("control", "NewParagraphReader")
		nextFn := p.Method("control", "ParagraphReader", "Next")
		if ctor == nil || nextFn == nil {
			ar.bad("control.NewParagraphReader", "", "function not found", nil)
		} else {
			block := []string{"-----BEGIN PGP SIGNED MESSAGE-----\n", "Hash: SHA256\n", "\n", "Source: inside-the-armor\n", "-----BEGIN PGP SIGNATURE-----\n", "\n", "iQEzBAEBCAAdFiEE\n", "=abcd\n", "-----END PGP SIGNATURE-----\n"}
			var problems []string
			undecA := ""
			for _, lead := range [][]string{{"\n"}, {"\r\n"}, {"\n", "\n"}, {"# a comment\n"}, {"Package: before\n", "\n"}} {
				doc := append(append([]string{}, lead...), block...)
				m := readerMachine(p, doc)
				verified := false
				m.Hooks["bufio.NewReader"] = func(m *Machine, st *State, call *ssa.CallCommon, args []Val) ([]Val, bool) {
					id := st.alloc(types.Typ[types.Int], OpaqueV{"bufio"})
					return []Val{Ptr{Obj: id}}, true
				}
				took := func(m *Machine, st *State, call *ssa.CallCommon, args []Val) ([]Val, bool) {
					// the implementation found the armor after all and takes the signed path: the other rules decide that
					verified = true
					return nil, false
				}
				for _, n := range []string{"io/ioutil.ReadAll", "io.ReadAll", "golang.org/x/crypto/openpgp/clearsign.Decode", "golang.org/x/crypto/openpgp.CheckDetachedSignature", "golang.org/x/crypto/openpgp.CheckArmoredDetachedSignature"} {
					m.Hooks[n] = took
				}
				st := initState(m, "control")
				if st.Status == stStuck {
					undecA = st.Msg
					break
				}
				ifT := types.NewPointer(types.Typ[types.Int])
				e := st.alloc(types.Typ[types.Int], OpaqueV{"a-key"})
				arr := st.alloc(types.NewArray(ifT, 1), &ArrayV{E: []Val{Ptr{Obj: e}}})
				kr := Ptr{Obj: st.alloc(types.NewSlice(ifT), SliceV{Obj: arr, Len_: 1, Cap: 1})}
				st.Status = stRun
				st.push(ctor, []Val{IfaceV{T: ifT, V: OpaqueV{"the-input"}}, kr}, nil)
				out := m.Run(st)
				if verified {
					continue
				}
				if len(out) != 1 || out[0].Status != stRet {
					undecA = fmt.Sprintf("document %q: NewParagraphReader: %s", strings.Join(doc, ""), retDesc(out))
					break
				}
				tv, ok := st.Ret.(*TupleV)
				if !ok || len(tv.E) != 2 {
					undecA = "unexpected result shape of NewParagraphReader"
					break
				}
				if _, errNil := tv.E[1].(nilV); !errNil {
					continue // refused: fine
				}
				for call := 0; call < 6 && undecA == ""; call++ {
					st.Status = stRun
					st.Frames = nil
					st.push(nextFn, []Val{tv.E[0]}, nil)
					out := m.Run(st)
					if verified {
						break
					}
					if len(out) != 1 || out[0].Status != stRet {
						undecA = fmt.Sprintf("document %q: Next: %s", strings.Join(doc, ""), retDesc(out))
						break
					}
					nt, ok := st.Ret.(*TupleV)
					if !ok || len(nt.E) != 2 {
						undecA = "unexpected result shape of Next"
						break
					}
					if _, isErr := nt.E[1].(IfaceV); isErr {
						break // an error or the end of the input
					}
					got, why := paraOf(st, p, nt.E[0])
					if why != "" {
						undecA = why
						break
					}
					if _, has := got.values["Source"]; has {
						problems = append(problems, fmt.Sprintf("input %q read with a keyring: paragraph %d is %s, the text between the armor lines, and no verification took place (the armor does not start the input, so the constructor reads it as plain text; the reader must then refuse the armor lines, not step over them)", strings.Join(lead, "")+"-----BEGIN PGP SIGNED MESSAGE-----...", call+1, got))
						break
					}
				}
				if undecA != "" {
					break
				}
			}
			if undecA != "" {
				ar.undecided("control.NewParagraphReader", p.Pos(ctor.Pos()), undecA)
			} else {
				fillProblems(ar, "control.NewParagraphReader", p.Pos(ctor.Pos()), problems, "a clearsigned block after a blank line, a CRLF blank line, two blank lines, a comment and a plain paragraph, read with a keyring: refused, or its text is not handed out")
			}
		}
	}
	rp.Extra["scenarios"] = nscen
	if undec != "" {
		for _, r := range []*Rule{chk, same, repl, sgn, prop} {
			r.undecided("control.NewParagraphReader", pos, undec)
		}
		return
	}
	sort.Strings(chkP)
	fillProblems(chk, "control.NewParagraphReader", pos, chkP, fmt.Sprintf("%d scenarios (2 entry points x 4 keyrings x 5 input/oracle outcomes): success with a keyring pointer only after a successful check against it", nscen))
	fillProblems(chk, "control.NewParagraphReader:nil-list-keyring", pos, filter(chkP, "nil-list"), "a pointer to a nil key list is a keyring: verification is not skipped")
	fillProblems(chk, "control.NewParagraphReader:empty-keyring", pos, filter(chkP, "keyring: empty"), "an empty keyring is a keyring: verification is not skipped")
	fillProblems(same, "control.clearsign-decoder", pos, sameP, "verified bytes, signature and installed reader all come from the one block decoded from the whole input")
	fillProblems(repl, "control.clearsign-decoder", pos, replP, "after success the reader holds exactly the block's text")
	fillProblems(sgn, "control.ParagraphReader.signer", pos, sgnP, "signer = the verified entity; nil for plain input and for a nil keyring")
	fillProblems(prop, "control.NewParagraphReader/NewDecoder", pos, propP, "read errors, missing blocks and failed verifications fail without a reader; plain input passes through")
	// Signer accessors return the field unchanged
	for _, acc := range []struct{ typ string }{{"ParagraphReader"}, {"Decoder"}} {
		fn := p.Method("control", acc.typ, "Signer")
		key := "control." + acc.typ + ".Signer"
		if fn == nil {
			sgn.bad(key, "", "accessor not found", nil)
			continue
		}
		m := NewMachine(p, nil)
		st := initState(m, "control")
		sid := st.alloc(types.Typ[types.Int], OpaqueV{"the-signer"})
		prv := mkStruct(prT, map[string]Val{roleField(prT, "*golang.org/x/crypto/openpgp.Entity", "signer"): Ptr{Obj: sid}})
		var recv Val
		if acc.typ == "ParagraphReader" {
			recv = Ptr{Obj: st.alloc(prT, prv)}
		} else {
			dT := p.Named("control", "Decoder")
			dv := zeroVal(dT).(*StructV)
			for i := 0; i < structOf(dT).NumFields(); i++ {
				if types.Identical(structOf(dT).Field(i).Type(), prT) {
					dv.F[i] = prv
				} else if pt, ok := structOf(dT).Field(i).Type().(*types.Pointer); ok && types.Identical(pt.Elem(), prT) {
					dv.F[i] = Ptr{Obj: st.alloc(prT, prv)}
				}
			}
			recv = Ptr{Obj: st.alloc(dT, dv)}
		}
		st.push(fn, []Val{recv}, nil)
		out := m.Run(st)
		ok := len(out) == 1 && out[0].Status == stRet && st.Ret == (Ptr{Obj: sid})
		sgn.check(ok, key, p.Pos(fn.Pos()), "returns the recorded signer unchanged", "does not return the recorded signer: "+retDesc(out))
	}
	// Unmarshal is unverified by design: it must pass a nil keyring
	if um := p.Func("control", "Unmarshal"); um != nil {
		okNil := false
		for _, c := range allCalls(um) {
			if callee := c.Common().StaticCallee(); callee != nil && (callee.Name() == "NewDecoder" || callee.Name() == "NewParagraphReader") {
				okNil = isNilConst(c.Common().Args[1])
			}
		}
		prop.check(okNil, "control.Unmarshal", p.Pos(um.Pos()), "Unmarshal reads without a keyring (documented: unverified, never reports a signer)", "Unmarshal does not call NewDecoder with a nil keyring")
	}
}

func filter(xs []string, sub string) []string {
	var out []string
	for _, x := range xs {
		if strings.Contains(x, sub) {
			out = append(out, x)
		}
	}
	return out
}

// keyringID names a key list by its storage, whether it is handed around as *EntityList or as EntityList:
// a pointer to a list and the list it points to are the same keyring.
func keyringID(st *State, v Val) string {
	for depth := 0; depth < 4; depth++ {
		switch x := v.(type) {
		case IfaceV:
			v = x.V
			continue
		case Ptr:
			lv, ok := st.load(x)
			if !ok {
				return fmt.Sprintf("obj%d", x.Obj)
			}
			switch lv.(type) {
			case SliceV, nilV:
				v = lv
				continue
			}
			return fmt.Sprintf("obj%d", x.Obj)
		case SliceV:
			if x.Abs {
				return "list(?)"
			}
			return fmt.Sprintf("list(obj%d:%d)", x.Obj, x.Len_)
		case nilV:
			return "list(nil)"
		}
		break
	}
	return fmt.Sprintf("%T", v)
}
