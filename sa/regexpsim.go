package main

// Model of package regexp on exact strings: a compiled expression is an opaque object remembering its
// pattern; the matching methods run Go's own regexp on the concrete operands (the library is trusted the
// way strings.* is). Only string-based methods are modelled.

import (
	"go/types"
	"regexp"
	"strings"

	"golang.org/x/tools/go/ssa"
)

func installRegexpModel(m *Machine) {
	errT := types.Universe.Lookup("error").Type()
	compile := func(must bool) HookFn {
		return func(m *Machine, st *State, call *ssa.CallCommon, args []Val) ([]Val, bool) {
			pat, ok := args[0].(string)
			if !ok {
				return nil, false
			}
			_, err := regexp.Compile(pat)
			if err != nil {
				if must {
					st.Status = stPanic
					st.Msg = "regexp.MustCompile: " + err.Error()
					return nil, true
				}
				return []Val{&TupleV{E: []Val{nilV{}, IfaceV{T: errT, V: "regexp syntax error"}}}}, true
			}
			id := st.alloc(types.Typ[types.Int], OpaqueV{"regexp:" + pat})
			if must {
				return []Val{Ptr{Obj: id}}, true
			}
			return []Val{&TupleV{E: []Val{Ptr{Obj: id}, nilV{}}}}, true
		}
	}
	m.Hooks["regexp.MustCompile"] = compile(true)
	m.Hooks["regexp.Compile"] = compile(false)
	m.Hooks["regexp.QuoteMeta"] = func(m *Machine, st *State, call *ssa.CallCommon, args []Val) ([]Val, bool) {
		s, ok := args[0].(string)
		if !ok {
			return nil, false
		}
		return []Val{regexp.QuoteMeta(s)}, true
	}
	m.Hooks["regexp.MatchString"] = func(m *Machine, st *State, call *ssa.CallCommon, args []Val) ([]Val, bool) {
		pat, ok1 := args[0].(string)
		s, ok2 := args[1].(string)
		if !ok1 || !ok2 {
			return nil, false
		}
		b, err := regexp.MatchString(pat, s)
		if err != nil {
			return []Val{&TupleV{E: []Val{false, IfaceV{T: errT, V: "regexp syntax error"}}}}, true
		}
		return []Val{&TupleV{E: []Val{b, nilV{}}}}, true
	}
	re := func(st *State, v Val) *regexp.Regexp {
		pp, ok := v.(Ptr)
		if !ok {
			return nil
		}
		o, ok := st.Heap[pp.Obj]
		if !ok {
			return nil
		}
		ov, ok := o.V.(OpaqueV)
		if !ok || !strings.HasPrefix(ov.Name, "regexp:") {
			return nil
		}
		r, err := regexp.Compile(strings.TrimPrefix(ov.Name, "regexp:"))
		if err != nil {
			return nil
		}
		return r
	}
	intSlice := func(st *State, xs []int) Val {
		if xs == nil {
			return nilV{}
		}
		arr := &ArrayV{}
		for _, x := range xs {
			arr.E = append(arr.E, int64(x))
		}
		id := st.alloc(types.NewArray(types.Typ[types.Int], int64(len(xs))), arr)
		return SliceV{Obj: id, Len_: len(xs), Cap: len(xs)}
	}
	strs := func(st *State, xs []string) Val {
		if xs == nil {
			return nilV{}
		}
		return strSlice(st, xs)
	}
	method := func(name string, f func(st *State, r *regexp.Regexp, args []Val) (Val, bool)) {
		m.Hooks["(*regexp.Regexp)."+name] = func(m *Machine, st *State, call *ssa.CallCommon, args []Val) ([]Val, bool) {
			r := re(st, args[0])
			if r == nil {
				return nil, false
			}
			v, ok := f(st, r, args[1:])
			if !ok {
				return nil, false
			}
			return []Val{v}, true
		}
	}
	method("String", func(st *State, r *regexp.Regexp, a []Val) (Val, bool) { return r.String(), true })
	method("NumSubexp", func(st *State, r *regexp.Regexp, a []Val) (Val, bool) { return int64(r.NumSubexp()), true })
	method("SubexpNames", func(st *State, r *regexp.Regexp, a []Val) (Val, bool) { return strs(st, r.SubexpNames()), true })
	method("SubexpIndex", func(st *State, r *regexp.Regexp, a []Val) (Val, bool) {
		s, ok := a[0].(string)
		return int64(r.SubexpIndex(s)), ok
	})
	method("MatchString", func(st *State, r *regexp.Regexp, a []Val) (Val, bool) {
		s, ok := a[0].(string)
		return r.MatchString(s), ok
	})
	method("FindString", func(st *State, r *regexp.Regexp, a []Val) (Val, bool) {
		s, ok := a[0].(string)
		return r.FindString(s), ok
	})
	method("FindStringIndex", func(st *State, r *regexp.Regexp, a []Val) (Val, bool) {
		s, ok := a[0].(string)
		return intSlice(st, r.FindStringIndex(s)), ok
	})
	method("FindStringSubmatch", func(st *State, r *regexp.Regexp, a []Val) (Val, bool) {
		s, ok := a[0].(string)
		return strs(st, r.FindStringSubmatch(s)), ok
	})
	method("FindStringSubmatchIndex", func(st *State, r *regexp.Regexp, a []Val) (Val, bool) {
		s, ok := a[0].(string)
		return intSlice(st, r.FindStringSubmatchIndex(s)), ok
	})
	method("FindAllString", func(st *State, r *regexp.Regexp, a []Val) (Val, bool) {
		s, ok := a[0].(string)
		n, ok2 := a[1].(int64)
		return strs(st, r.FindAllString(s, int(n))), ok && ok2
	})
	method("FindAllStringSubmatch", func(st *State, r *regexp.Regexp, a []Val) (Val, bool) {
		s, ok := a[0].(string)
		n, ok2 := a[1].(int64)
		if !ok || !ok2 {
			return nil, false
		}
		all := r.FindAllStringSubmatch(s, int(n))
		if all == nil {
			return nilV{}, true
		}
		arr := &ArrayV{}
		for _, one := range all {
			arr.E = append(arr.E, strs(st, one))
		}
		id := st.alloc(types.NewArray(types.NewSlice(types.Typ[types.String]), int64(len(all))), arr)
		return SliceV{Obj: id, Len_: len(all), Cap: len(all)}, true
	})
	method("ReplaceAllString", func(st *State, r *regexp.Regexp, a []Val) (Val, bool) {
		s, ok := a[0].(string)
		rep, ok2 := a[1].(string)
		return r.ReplaceAllString(s, rep), ok && ok2
	})
	method("ReplaceAllLiteralString", func(st *State, r *regexp.Regexp, a []Val) (Val, bool) {
		s, ok := a[0].(string)
		rep, ok2 := a[1].(string)
		return r.ReplaceAllLiteralString(s, rep), ok && ok2
	})
	method("Split", func(st *State, r *regexp.Regexp, a []Val) (Val, bool) {
		s, ok := a[0].(string)
		n, ok2 := a[1].(int64)
		return strs(st, r.Split(s, int(n))), ok && ok2
	})
}
