package main

// Model of package regexp on exact strings: a compiled expression is an opaque object remembering its
// pattern; the matching methods run Go's own regexp on the concrete operands (the library is trusted the
// way strings.* is). Only string-based methods are modelled.

import (
	"go/types"
	"regexp"
	"strings"

	"golang.org/x/tools/go/ssa"
)

func installRegexpModel(m *Machine) {
	errT := types.Universe.Lookup("error").Type()
	compile := func(must bool) HookFn {
		return func(m *Machine, st *State, call *ssa.CallCommon, args []Val) ([]Val, bool) {
			pat, ok := args[0].(string)
			if !ok {
				return nil, false
			}
			_, err := regexp.Compile(pat)
			if err != nil {
				if must {
					st.Status = stPanic
					st.Msg = "regexp.MustCompile: " + err.Error()
					return nil, true
				}
				return []Val{&TupleV{E: []Val{nilV{}, IfaceV{T: errT, V: "regexp syntax error"}}}}, true
			}
			id := st.alloc(types.Typ[types.Int], OpaqueV{"regexp:" + pat})
			if must {
				return []Val{Ptr{Obj: id}}, true
			}
			return []Val{&TupleV{E: []Val{Ptr{Obj: id}, nilV{}}}}, true
		}
	}
	m.Hooks["regexp.MustCompile"] = compile(true)
	m.Hooks["regexp.Compile"] = compile(false)
	m.Hooks["regexp.QuoteMeta"] = func(m *Machine, st *State, call *ssa.CallCommon, args []Val) ([]Val, bool) {
		s, ok := args[0].(string)
		if !ok {
			return nil, false
		}
		return []Val{regexp.QuoteMeta(s)}, true
	}
	m.Hooks["regexp.MatchString"] = func(m *Machine, st *State, call *ssa.CallCommon, args []Val) ([]Val, bool) {
		pat, ok1 := args[0].(string)
		s, ok2 := args[1].(string)
		if !ok1 || !ok2 {
			return nil, false
		}
		b, err := regexp.MatchString(pat, s)
		if err != nil {
			return []Val{&TupleV{E: []Val{false, IfaceV{T: errT, V: "regexp syntax error"}}}}, true
		}
		return []Val{&TupleV{E: []Val{b, nilV{}}}}, true
	}
	re := func(st *State, v Val) *regexp.Regexp {
		pp, ok := v.(Ptr)
		if !ok {
			return nil
		}
		o, ok := st.Heap[pp.Obj]
		if !ok {
			return nil
		}
		ov, ok := o.V.(OpaqueV)
		if !ok || !strings.HasPrefix(ov.Name, "regexp:") {
			return nil
		}
		r, err := regexp.Compile(strings.TrimPrefix(ov.Name, "regexp:"))
		if err != nil {
			return nil
		}
		return r
	}
	intSlice := func(st *State, xs []int) Val {
		if xs == nil {
			return nilV{}
		}
		arr := &ArrayV{}
		for _, x := range xs {
			arr.E = append(arr.E, int64(x))
		}
		id := st.alloc(types.NewArray(types.Typ[types.Int], int64(len(xs))), arr)
		return SliceV{Obj: id, Len_: len(xs), Cap: len(xs)}
	}
	strs := func(st *State, xs []string) Val {
		if xs == nil {
			return nilV{}
		}
		return strSlice(st, xs)
	}
	method := func(name string, f func(st *State, r *regexp.Regexp, args []Val) (Val, bool)) {
		m.Hooks["(*regexp.Regexp)."+name] = func(m *Machine, st *State, call *ssa.CallCommon, args []Val) ([]Val, bool) {
			r := re(st, args[0])
			if r == nil {
				return nil, false
			}
			v, ok := f(st, r, args[1:])
			if !ok {
				return nil, false
			}
			return []Val{v}, true
		}
	}
	method("String", func(st *State, r *regexp.Regexp, a []Val) (Val, bool) { return r.String(), true })
	method("NumSubexp", func(st *State, r *regexp.Regexp, a []Val) (Val, bool) { return int64(r.NumSubexp()), true })
	method("SubexpNames", func(st *State, r *regexp.Regexp, a []Val) (Val, bool) { return strs(st, r.SubexpNames()), true })
	method("SubexpIndex", func(st *State, r *regexp.Regexp, a []Val) (Val, bool) {
		s, ok := a[0].(string)
		return int64(r.SubexpIndex(s)), ok
	})
	method("MatchString", func(st *State, r *regexp.Regexp, a []Val) (Val, bool) {
		s, ok := a[0].(string)
		return r.MatchString(s), ok
	})
	method("Match", func(st *State, r *regexp.Regexp, a []Val) (Val, bool) {
		b, ok := exactBytes(m, st, a[0])
		return r.Match(b), ok
	})
	method("FindIndex", func(st *State, r *regexp.Regexp, a []Val) (Val, bool) {
		b, ok := exactBytes(m, st, a[0])
		return intSlice(st, r.FindIndex(b)), ok
	})
	method("FindString", func(st *State, r *regexp.Regexp, a []Val) (Val, bool) {
		s, ok := a[0].(string)
		return r.FindString(s), ok
	})
	method("FindStringIndex", func(st *State, r *regexp.Regexp, a []Val) (Val, bool) {
		s, ok := a[0].(string)
		return intSlice(st, r.FindStringIndex(s)), ok
	})
	method("FindStringSubmatch", func(st *State, r *regexp.Regexp, a []Val) (Val, bool) {
		s, ok := a[0].(string)
		return strs(st, r.FindStringSubmatch(s)), ok
	})
	method("FindStringSubmatchIndex", func(st *State, r *regexp.Regexp, a []Val) (Val, bool) {
		s, ok := a[0].(string)
		return intSlice(st, r.FindStringSubmatchIndex(s)), ok
	})
	method("FindAllString", func(st *State, r *regexp.Regexp, a []Val) (Val, bool) {
		s, ok := a[0].(string)
		n, ok2 := a[1].(int64)
		return strs(st, r.FindAllString(s, int(n))), ok && ok2
	})
	method("FindAllStringSubmatch", func(st *State, r *regexp.Regexp, a []Val) (Val, bool) {
		s, ok := a[0].(string)
		n, ok2 := a[1].(int64)
		if !ok || !ok2 {
			return nil, false
		}
		all := r.FindAllStringSubmatch(s, int(n))
		if all == nil {
			return nilV{}, true
		}
		arr := &ArrayV{}
		for _, one := range all {
			arr.E = append(arr.E, strs(st, one))
		}
		id := st.alloc(types.NewArray(types.NewSlice(types.Typ[types.String]), int64(len(all))), arr)
		return SliceV{Obj: id, Len_: len(all), Cap: len(all)}, true
	})
	method("ReplaceAllString", func(st *State, r *regexp.Regexp, a []Val) (Val, bool) {
		s, ok := a[0].(string)
		rep, ok2 := a[1].(string)
		return r.ReplaceAllString(s, rep), ok && ok2
	})
	method("ReplaceAllLiteralString", func(st *State, r *regexp.Regexp, a []Val) (Val, bool) {
		s, ok := a[0].(string)
		rep, ok2 := a[1].(string)
		return r.ReplaceAllLiteralString(s, rep), ok && ok2
	})
	method("Split", func(st *State, r *regexp.Regexp, a []Val) (Val, bool) {
		s, ok := a[0].(string)
		n, ok2 := a[1].(int64)
		return strs(st, r.Split(s, int(n))), ok && ok2
	})
}

// installSyncMapModel: a sync.Map is modelled as a map object stored in the first field of the sync.Map value
// (its real fields are never looked at). Range is not modelled.
func installSyncMapModel(m *Machine) {
	none := func(i int) string { return "" }
	table := func(st *State, recv Val) (*MapObjV, bool) {
		pp, ok := recv.(Ptr)
		if !ok {
			return nil, false
		}
		lv, ok := st.load(pp)
		sv, isS := lv.(*StructV)
		if !ok || !isS || len(sv.F) == 0 {
			return nil, false
		}
		if mv, has := sv.F[0].(MapV); has {
			st.own(mv.Obj)
			return st.Heap[mv.Obj].V.(*MapObjV), true
		}
		id := st.alloc(types.NewMap(types.Typ[types.String], types.Typ[types.String]), &MapObjV{})
		if !st.store(Ptr{Obj: pp.Obj, Path: pathAppend(pp.Path, 0)}, MapV{Obj: id}) {
			return nil, false
		}
		return st.Heap[id].V.(*MapObjV), true
	}
	find := func(mo *MapObjV, k Val) int {
		ks := fmtVal(k, none)
		for i := range mo.K {
			if fmtVal(mo.K[i], none) == ks {
				return i
			}
		}
		return -1
	}
	keyOK := func(k Val) bool {
		if iv, ok := k.(IfaceV); ok {
			k = iv.V
		}
		switch k.(type) {
		case string, int64, bool, RType:
			return true
		}
		return false
	}
	write := func(st *State, recv Val) {
		if pp, ok := recv.(Ptr); ok {
			st.noteGlobalWrite(pp.Obj)
		}
	}
	m.Hooks["(*sync.Map).Load"] = func(m *Machine, st *State, call *ssa.CallCommon, args []Val) ([]Val, bool) {
		mo, ok := table(st, args[0])
		if !ok || !keyOK(args[1]) {
			return nil, false
		}
		if i := find(mo, args[1]); i >= 0 {
			return []Val{&TupleV{E: []Val{cloneVal(mo.V[i]), true}}}, true
		}
		return []Val{&TupleV{E: []Val{nilV{}, false}}}, true
	}
	m.Hooks["(*sync.Map).Store"] = func(m *Machine, st *State, call *ssa.CallCommon, args []Val) ([]Val, bool) {
		mo, ok := table(st, args[0])
		if !ok || !keyOK(args[1]) {
			return nil, false
		}
		write(st, args[0])
		if i := find(mo, args[1]); i >= 0 {
			mo.V[i] = cloneVal(args[2])
		} else {
			mo.K = append(mo.K, cloneVal(args[1]))
			mo.V = append(mo.V, cloneVal(args[2]))
		}
		return []Val{nil}, true
	}
	m.Hooks["(*sync.Map).LoadOrStore"] = func(m *Machine, st *State, call *ssa.CallCommon, args []Val) ([]Val, bool) {
		mo, ok := table(st, args[0])
		if !ok || !keyOK(args[1]) {
			return nil, false
		}
		if i := find(mo, args[1]); i >= 0 {
			return []Val{&TupleV{E: []Val{cloneVal(mo.V[i]), true}}}, true
		}
		write(st, args[0])
		mo.K = append(mo.K, cloneVal(args[1]))
		mo.V = append(mo.V, cloneVal(args[2]))
		return []Val{&TupleV{E: []Val{cloneVal(args[2]), false}}}, true
	}
	del := func(andLoad bool) HookFn {
		return func(m *Machine, st *State, call *ssa.CallCommon, args []Val) ([]Val, bool) {
			mo, ok := table(st, args[0])
			if !ok || !keyOK(args[1]) {
				return nil, false
			}
			var old Val = nilV{}
			found := false
			if i := find(mo, args[1]); i >= 0 {
				write(st, args[0])
				old, found = mo.V[i], true
				mo.K = append(mo.K[:i:i], mo.K[i+1:]...)
				mo.V = append(mo.V[:i:i], mo.V[i+1:]...)
			}
			if andLoad {
				return []Val{&TupleV{E: []Val{old, found}}}, true
			}
			return []Val{nil}, true
		}
	}
	m.Hooks["(*sync.Map).Delete"] = del(false)
	m.Hooks["(*sync.Map).LoadAndDelete"] = del(true)
	// mutexes guard nothing the interpreter could see (one path at a time): Lock / Unlock are no-ops
	for _, n := range []string{"(*sync.Mutex).Lock", "(*sync.Mutex).Unlock", "(*sync.RWMutex).Lock", "(*sync.RWMutex).Unlock", "(*sync.RWMutex).RLock", "(*sync.RWMutex).RUnlock"} {
		m.Hooks[n] = func(m *Machine, st *State, call *ssa.CallCommon, args []Val) ([]Val, bool) { return []Val{nil}, true }
	}
}

// installSlicesModels: the functions of package slices whose source uses package unsafe (overlap tests) are modelled;
// the rest of the package is interpreted from its source. Insert works in place when the capacity allows, as the
// library does: the aliasing this creates is exactly what a caller may trip over.
func installSlicesModels(m *Machine) {
	m.Hooks["slices.Insert"] = func(m *Machine, st *State, call *ssa.CallCommon, args []Val) ([]Val, bool) {
		idx, ok := args[1].(int64)
		if !ok {
			return nil, false
		}
		var s SliceV
		switch x := args[0].(type) {
		case SliceV:
			s = x
		case nilV:
			s = SliceV{}
		default:
			return nil, false
		}
		if s.Abs {
			return nil, false
		}
		adds, many, ok := m.sliceElems(st, args[2])
		if !ok || many {
			return nil, false
		}
		if idx < 0 || int(idx) > s.Len_ {
			st.Status = stPanic
			st.Msg = "slices.Insert: index out of range"
			return nil, true
		}
		var cur []Val
		for i := 0; i < s.Len_; i++ {
			e, _ := st.load(Ptr{Obj: s.Obj, Path: pathAppend(s.Path, s.Lo+i)})
			cur = append(cur, cloneVal(e))
		}
		res := append(append(append([]Val(nil), cur[:idx]...), adds...), cur[idx:]...)
		n := len(res)
		if n <= s.Cap && s.Cap > 0 {
			for i, e := range res {
				st.store(Ptr{Obj: s.Obj, Path: pathAppend(s.Path, s.Lo+i)}, cloneVal(e))
			}
			return []Val{SliceV{Obj: s.Obj, Path: s.Path, Lo: s.Lo, Len_: n, Cap: s.Cap}}, true
		}
		var et types.Type = types.Typ[types.Int]
		if f := call.StaticCallee(); f != nil && len(f.TypeArgs()) >= 2 {
			et = f.TypeArgs()[1]
		}
		arr := &ArrayV{}
		for _, e := range res {
			arr.E = append(arr.E, cloneVal(e))
		}
		id := st.alloc(types.NewArray(et, int64(n)), arr)
		return []Val{SliceV{Obj: id, Len_: n, Cap: n}}, true
	}
}
