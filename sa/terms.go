package main

// Canonical term rendering of SSA values: a light-weight way to state
// structural patterns ("the condition tests IndexFunc(trimmed, IsSpace) against
// -1") without matching source text. Terms are built from the type-checked SSA,
// so renames of locals, `switch` vs `if`, and operand order of symmetric
// operators do not change them.

import (
	"fmt"
	"go/token"
	"sort"
	"strings"

	"golang.org/x/tools/go/ssa"
)

type termer struct {
	depth int
	memo  map[ssa.Value]string
}

func newTermer() *termer { return &termer{memo: map[ssa.Value]string{}} }

func shortFn(name string) string {
	name = strings.ReplaceAll(name, repoModule+"/", "")
	name = strings.ReplaceAll(name, "golang.org/x/crypto/", "")
	return name
}

func (t *termer) term(v ssa.Value) string {
	if v == nil {
		return "_"
	}
	if s, ok := t.memo[v]; ok {
		return s
	}
	if t.depth > 12 {
		return v.Name()
	}
	t.depth++
	defer func() { t.depth-- }()
	t.memo[v] = v.Name() // cycle guard (phis)
	s := t.term1(v)
	t.memo[v] = s
	return s
}

func (t *termer) term1(v ssa.Value) string {
	switch x := v.(type) {
	case *ssa.Const:
		if x.Value == nil {
			return "nil"
		}
		return x.Value.ExactString()
	case *ssa.Parameter:
		return fmt.Sprintf("p%d", paramIndex(x))
	case *ssa.FreeVar:
		return "free:" + x.Name()
	case *ssa.Function:
		return shortFn(x.String())
	case *ssa.Builtin:
		return x.Name()
	case *ssa.Global:
		return "global:" + shortFn(x.String())
	case *ssa.MakeClosure:
		return "closure:" + shortFn(x.Fn.String())
	case *ssa.Call:
		var args []string
		for _, a := range x.Call.Args {
			args = append(args, t.term(a))
		}
		if x.Call.IsInvoke() {
			return fmt.Sprintf("%s.%s(%s)", t.term(x.Call.Value), x.Call.Method.Name(), strings.Join(args, ","))
		}
		name := ""
		if f := x.Call.StaticCallee(); f != nil {
			name = shortFn(f.String())
		} else {
			name = t.term(x.Call.Value)
		}
		return fmt.Sprintf("%s(%s)", name, strings.Join(args, ","))
	case *ssa.BinOp:
		a, b := t.term(x.X), t.term(x.Y)
		op := x.Op
		switch op {
		case token.EQL, token.NEQ, token.ADD, token.MUL, token.AND, token.OR:
			if op != token.ADD || !isStringT(x.X.Type()) { // string + is not commutative
				if b < a {
					a, b = b, a
				}
			}
		case token.GTR:
			op, a, b = token.LSS, b, a
		case token.GEQ:
			op, a, b = token.LEQ, b, a
		}
		return fmt.Sprintf("(%s %s %s)", a, op, b)
	case *ssa.UnOp:
		if x.Op == token.MUL {
			if fa, ok := x.X.(*ssa.FieldAddr); ok {
				if st := derefStruct(fa.X.Type()); st != nil {
					return fmt.Sprintf("%s.%s", t.term(fa.X), st.Field(fa.Field).Name())
				}
			}
			return "*" + t.term(x.X)
		}
		return x.Op.String() + t.term(x.X)
	case *ssa.FieldAddr:
		if st := derefStruct(x.X.Type()); st != nil {
			return fmt.Sprintf("&%s.%s", t.term(x.X), st.Field(x.Field).Name())
		}
	case *ssa.Field:
		if st := derefStruct(x.X.Type()); st != nil {
			return fmt.Sprintf("%s.%s", t.term(x.X), st.Field(x.Field).Name())
		}
	case *ssa.Slice:
		lo, hi := "", ""
		if x.Low != nil {
			lo = t.term(x.Low)
		}
		if x.High != nil {
			hi = t.term(x.High)
		}
		return fmt.Sprintf("%s[%s:%s]", t.term(x.X), lo, hi)
	case *ssa.Index:
		return fmt.Sprintf("%s[%s]", t.term(x.X), t.term(x.Index))
	case *ssa.IndexAddr:
		return fmt.Sprintf("&%s[%s]", t.term(x.X), t.term(x.Index))
	case *ssa.Convert:
		return t.term(x.X)
	case *ssa.ChangeType:
		return t.term(x.X)
	case *ssa.ChangeInterface:
		return t.term(x.X)
	case *ssa.MakeInterface:
		return t.term(x.X)
	case *ssa.Extract:
		return fmt.Sprintf("%s#%d", t.term(x.Tuple), x.Index)
	case *ssa.Phi:
		var es []string
		seen := map[string]bool{}
		for _, e := range x.Edges {
			s := t.term(e)
			if !seen[s] {
				seen[s] = true
				es = append(es, s)
			}
		}
		sort.Strings(es)
		if len(es) == 1 {
			return es[0]
		}
		return "phi(" + strings.Join(es, "|") + ")"
	case *ssa.Alloc:
		return "alloc:" + x.Name()
	case *ssa.TypeAssert:
		return "assert(" + t.term(x.X) + ")"
	case *ssa.Lookup:
		return fmt.Sprintf("%s[%s]", t.term(x.X), t.term(x.Index))
	}
	return v.Name()
}

// guard describes one conditional branch of a function.
type guard struct {
	If   *ssa.If
	Term string // canonical term of the condition
}

func guardsOf(fn *ssa.Function) []guard {
	var out []guard
	tm := newTermer()
	for _, b := range fn.Blocks {
		if len(b.Instrs) == 0 {
			continue
		}
		if ifi, ok := b.Instrs[len(b.Instrs)-1].(*ssa.If); ok {
			out = append(out, guard{ifi, tm.term(ifi.Cond)})
		}
	}
	return out
}

// nilReturnBlocks: blocks whose Return has a nil (or possibly nil) error.
func successReturns(fn *ssa.Function) []*ssa.Return {
	ei := errResultIndex(fn.Signature)
	var out []*ssa.Return
	for _, b := range fn.Blocks {
		if len(b.Instrs) == 0 {
			continue
		}
		r, ok := b.Instrs[len(b.Instrs)-1].(*ssa.Return)
		if !ok {
			continue
		}
		if ei < 0 {
			out = append(out, r)
			continue
		}
		if errStatus(r.Results[ei], knownNonNilAt(b), 0) != "nonnil" {
			out = append(out, r)
		}
	}
	return out
}

// rejectsOn reports whether taking successor `side` of g leads only to
// non-nil-error returns.
func rejectsOn(fn *ssa.Function, g guard, side int) bool {
	ei := errResultIndex(fn.Signature)
	if ei < 0 {
		return false
	}
	succ := g.If.Block().Succs[side]
	rets := returnsReachable(succ)
	if len(rets) == 0 {
		return false
	}
	for _, r := range rets {
		nn := knownNonNilAt(r.Block())
		if errStatus(r.Results[ei], nn, 0) != "nonnil" {
			// a success return reachable from the bad side is fine only if it is
			// also reachable without passing the guard... keep it strict:
			if !succ.Dominates(r.Block()) {
				// the return is a join point shared with other paths (e.g. a
				// single exit block with a phi): look at the phi edge
				if ph, ok := r.Results[ei].(*ssa.Phi); ok && ph.Block() == r.Block() {
					allNon := true
					for i, pred := range r.Block().Preds {
						if reachableFrom(succ)[pred] && succ.Dominates(pred) {
							if errStatus(ph.Edges[i], knownNonNilAt(pred), 0) != "nonnil" {
								allNon = false
							}
						}
					}
					if allNon {
						continue
					}
				}
			}
			return false
		}
	}
	return true
}

// dominatesAllSuccess: the guard's block dominates every success return.
func dominatesAllSuccess(fn *ssa.Function, g guard) bool {
	rets := successReturns(fn)
	if len(rets) == 0 {
		return false
	}
	for _, r := range rets {
		if !g.If.Block().Dominates(r.Block()) {
			return false
		}
	}
	return true
}
