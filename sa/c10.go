package main

// C10 — typed Debian documents; also C12-FIELDTYPE and C19-TRIM, which are
// instances of the same struct-tag rule.

import (
	"fmt"
	"go/types"
	"path/filepath"
	"sort"
	"strings"

	"golang.org/x/tools/go/ssa"
)

func init() { register("C10", checkC10) }

// Field kinds of Appendix A6.
const (
	kS  = "scalar"
	kI  = "integer"
	kB  = "yes/no"
	kV  = "version"
	kA1 = "one architecture"
	kAL = "blank separated architectures"
	kR  = "relationship"
	kLc = "comma separated list"
	kLb = "blank separated list"
	kM  = "multi-line text"
	kH5 = "five-column .changes file lines (md5)"
)

func kH(alg string) string { return "checksum lines (" + alg + ")" }

// Debian field tables (dsc(5), deb-changes(5), deb-src-control(5),
// deb-control(5), the archive's Packages/Sources indices). Written from the
// format documents, not from go-debian's source.
var relFieldsBinary = []string{"Depends", "Pre-Depends", "Recommends", "Suggests", "Enhances", "Breaks", "Conflicts", "Replaces", "Provides", "Built-Using", "Static-Built-Using"}
var relFieldsSource = []string{"Build-Depends", "Build-Depends-Arch", "Build-Depends-Indep", "Build-Conflicts", "Build-Conflicts-Arch", "Build-Conflicts-Indep"}

func tableWith(base map[string]string, rel []string) map[string]string {
	out := map[string]string{}
	for k, v := range base {
		out[k] = v
	}
	for _, r := range rel {
		out[r] = kR
	}
	return out
}

var docTables = map[string]map[string]string{
	"control.DSC": tableWith(map[string]string{
		"Format": kS, "Source": kS, "Binary": kLc, "Architecture": kAL, "Version": kV, "Origin": kS, "Maintainer": kS,
		"Uploaders": kLc, "Description": kM, "Homepage": kS, "Standards-Version": kS, "Vcs-Browser": kS, "Vcs-Git": kS, "Vcs-Svn": kS, "Vcs-Bzr": kS,
		"Testsuite": kLc, "Testsuite-Triggers": kLc, "Dgit": kS, "Package-List": kM,
		"Checksums-Sha1": kH("sha1"), "Checksums-Sha256": kH("sha256"), "Checksums-Sha512": kH("sha512"), "Files": kH("md5"),
	}, relFieldsSource),
	"control.Changes": map[string]string{
		"Format": kS, "Date": kS, "Source": kS, "Binary": kLb, "Architecture": kAL, "Version": kV, "Origin": kS, "Distribution": kS,
		"Urgency": kS, "Maintainer": kS, "Changed-By": kS, "Description": kM, "Closes": kLb, "Binary-Only": kB, "Built-For-Profiles": kLb,
		"Changes": kM, "Files": kH5, "Checksums-Sha1": kH("sha1"), "Checksums-Sha256": kH("sha256"), "Checksums-Sha512": kH("sha512"),
	},
	"control.SourceParagraph": tableWith(map[string]string{
		"Source": kS, "Maintainer": kS, "Uploaders": kLc, "Section": kS, "Priority": kS, "Standards-Version": kS, "Homepage": kS,
		"Vcs-Browser": kS, "Vcs-Git": kS, "Vcs-Svn": kS, "Vcs-Bzr": kS, "Testsuite": kLc, "Rules-Requires-Root": kS, "Description": kM, "Origin": kS, "Bugs": kS,
	}, relFieldsSource),
	"control.BinaryParagraph": tableWith(map[string]string{
		"Package": kS, "Package-Type": kS, "Source": kS, "Version": kV, "Architecture": kAL, "Build-Profiles": kS, "Essential": kB, "Protected": kB,
		"Multi-Arch": kS, "Tag": kLc, "Section": kS, "Priority": kS, "Installed-Size": kI, "Maintainer": kS, "Description": kM, "Homepage": kS,
		"Conffiles": kH("md5"),
	}, relFieldsBinary),
	"control.BinaryIndex": tableWith(map[string]string{
		"Package": kS, "Package-Type": kS, "Source": kS, "Version": kV, "Architecture": kA1, "Build-Profiles": kS, "Essential": kB, "Protected": kB,
		"Multi-Arch": kS, "Tag": kLc, "Section": kS, "Priority": kS, "Installed-Size": kI, "Maintainer": kS, "Description": kM, "Homepage": kS,
		"Filename": kS, "Size": kI, "MD5sum": kS, "SHA1": kS, "SHA256": kS, "SHA512": kS, "Description-md5": kS, "Build-Ids": kLb, "Origin": kS, "Bugs": kS,
		"Original-Maintainer": kS, "Task": kLc,
	}, relFieldsBinary),
	"control.SourceIndex": tableWith(map[string]string{
		"Package": kS, "Binary": kLc, "Version": kV, "Maintainer": kS, "Uploaders": kLc, "Architecture": kAL, "Standards-Version": kS, "Format": kS,
		"Files": kH("md5"), "Checksums-Sha1": kH("sha1"), "Checksums-Sha256": kH("sha256"), "Checksums-Sha512": kH("sha512"),
		"Vcs-Browser": kS, "Vcs-Git": kS, "Vcs-Svn": kS, "Vcs-Bzr": kS, "Homepage": kS, "Directory": kS, "Priority": kS, "Section": kS,
		"Testsuite": kLc, "Testsuite-Triggers": kLc, "Package-List": kM, "Extra-Source-Only": kB, "Dgit": kS,
	}, relFieldsSource),
	"control.BestChecksums": map[string]string{
		"Checksums-Sha256": kH("sha256"), "Checksums-Sha512": kH("sha512"),
	},
	"deb.Control": tableWith(map[string]string{
		"Package": kS, "Version": kV, "Architecture": kA1, "Source": kS, "Maintainer": kS, "Installed-Size": kI, "Multi-Arch": kS,
		"Section": kS, "Priority": kS, "Homepage": kS, "Description": kM, "Essential": kB,
	}, relFieldsBinary),
}

// fields that are mandatory in their document (required:"true" is allowed only here)
var mandatory = map[string]map[string]bool{
	"deb.Control": {"Package": true, "Version": true, "Architecture": true},
}

// Go-only fields: not wire fields of the document; one line of reason each.
var goOnlyFields = map[string]string{
	"control.DSC.Filename":     "the path of the .dsc on disk (set by ParseDsc, used by Copy/Move/Remove/AbsFiles), not a field of the document",
	"control.Changes.Filename": "the path of the .changes on disk (set by ParseChanges, used by Copy/Move/Remove/AbsFiles), not a field of the document",
}

func hasAll(set string, need string) bool {
	for _, c := range need {
		if !strings.ContainsRune(set, c) {
			return false
		}
	}
	return true
}

// fileHashAlgorithm determines the algorithm that type T's UnmarshalControl tags its
// entries with: the method is interpreted on one well-formed line and the Algorithm field
// of the result is read.
var fileHashAlgMemo = map[*types.Named][2]string{}

func fileHashAlgorithm(p *Prog, named *types.Named) (string, string) {
	if r, ok := fileHashAlgMemo[named]; ok {
		return r[0], r[1]
	}
	alg, why := fileHashAlgorithm1(p, named)
	fileHashAlgMemo[named] = [2]string{alg, why}
	return alg, why
}

func fileHashAlgorithm1(p *Prog, named *types.Named) (string, string) {
	fn := p.Method("control", named.Obj().Name(), "UnmarshalControl")
	if fn == nil {
		return "", "no UnmarshalControl method"
	}
	for _, line := range []string{"0123456789abcdef0123456789abcdef 1234 file_1.0.dsc", "0123456789abcdef0123456789abcdef 1234 devel optional file_1.0.dsc"} {
		m := NewMachine(p, nil)
		st := initState(m, "control")
		id := st.alloc(named, zeroVal(named))
		st.push(fn, []Val{Ptr{Obj: id}, line}, nil)
		out := m.Run(st)
		if len(out) != 1 || out[0].Status != stRet {
			return "", "undecided: UnmarshalControl of " + named.Obj().Name() + ": " + retDesc(out)
		}
		if _, isErr := out[0].Ret.(IfaceV); isErr {
			continue // not the layout of this type's lines
		}
		alg := ""
		found := false
		var walk func(t types.Type, v Val)
		walk = func(t types.Type, v Val) {
			s, ok := t.Underlying().(*types.Struct)
			sv, ok2 := v.(*StructV)
			if !ok || !ok2 {
				return
			}
			for i := 0; i < s.NumFields(); i++ {
				if s.Field(i).Embedded() {
					walk(s.Field(i).Type(), sv.F[i])
				} else if s.Field(i).Name() == "Algorithm" {
					if a, isStr := sv.F[i].(string); isStr {
						alg, found = a, true
					}
				}
			}
		}
		walk(named, out[0].Heap[id].V)
		if !found {
			return "", "entries of " + named.Obj().Name() + " carry no Algorithm"
		}
		return alg, ""
	}
	return "", "UnmarshalControl of " + named.Obj().Name() + " accepts neither a three-column nor a five-column line"
}

func isNamed(t types.Type, pkg, name string) bool {
	n, ok := t.(*types.Named)
	return ok && n.Obj().Pkg() != nil && strings.HasSuffix(n.Obj().Pkg().Path(), pkg) && n.Obj().Name() == name
}

// checkDocField decides one (document, field) obligation; returns "" if ok.
func checkDocField(p *Prog, doc string, ti tagInfo, kind string) string {
	t := ti.Type
	if b, ok := t.Underlying().(*types.Basic); ok && t == types.Typ[b.Kind()] {
		switch {
		case b.Info()&types.IsString != 0:
			return "" // verbatim scalar is accepted for every kind
		case b.Info()&types.IsInteger != 0:
			if kind != kI {
				return fmt.Sprintf("Go type %s for a %s field", t, kind)
			}
			return ""
		case b.Info()&types.IsBoolean != 0:
			if kind != kB {
				return fmt.Sprintf("Go type bool for a %s field", kind)
			}
			return ""
		}
	}
	switch {
	case isNamed(t, "version", "Version"):
		if kind != kV {
			return "version.Version for a " + kind + " field"
		}
		return ""
	case isNamed(t, "dependency", "Dependency"):
		if kind != kR {
			return "dependency.Dependency for a " + kind + " field"
		}
		return ""
	case isNamed(t, "dependency", "Arch"):
		if kind != kA1 {
			return "a single dependency.Arch for a " + kind + " field"
		}
		return ""
	}
	sl, ok := t.Underlying().(*types.Slice)
	if !ok {
		return fmt.Sprintf("Go type %s is not covered by the field table rules", typeName(t))
	}
	el := sl.Elem()
	blankSplit := !ti.HasDelim || ti.Delim == " "
	switch {
	case isNamed(el, "dependency", "Arch"):
		if kind != kAL {
			return "[]dependency.Arch for a " + kind + " field"
		}
		if !blankSplit {
			return fmt.Sprintf("architecture lists are blank separated but delim is %q", ti.Delim)
		}
		return ""
	case isStringT(el):
		switch kind {
		case kLc:
			if ti.Delim != "," {
				return fmt.Sprintf("comma separated list must be split on \",\" alone, delim is %q", ti.Delim)
			}
			if !hasAll(ti.Strip, " \t\n") {
				return fmt.Sprintf("elements of a (possibly folded) comma list must be stripped of space, tab and LF; strip is %q", ti.Strip)
			}
			return ""
		case kLb:
			if !blankSplit {
				return fmt.Sprintf("blank separated list but delim is %q", ti.Delim)
			}
			return ""
		}
		return "[]string for a " + kind + " field"
	}
	if n, ok := el.(*types.Named); ok && (strings.HasSuffix(n.Obj().Name(), "FileHash")) {
		wantAlg := ""
		switch {
		case kind == kH5:
			wantAlg = "md5"
			if n.Obj().Name() != "FileListChangesFileHash" {
				return "the Files field of a .changes has five columns; element type is " + n.Obj().Name()
			}
		case strings.HasPrefix(kind, "checksum lines ("):
			wantAlg = strings.TrimSuffix(strings.TrimPrefix(kind, "checksum lines ("), ")")
		default:
			return n.Obj().Name() + " list for a " + kind + " field"
		}
		if ti.Delim != "\n" {
			return fmt.Sprintf("checksum lists have one entry per line; delim is %q", ti.Delim)
		}
		if !hasAll(ti.Strip, " \t\r\n") {
			return fmt.Sprintf("checksum lines must be stripped of space, tab, CR, LF; strip is %q", ti.Strip)
		}
		alg, why := fileHashAlgorithm(p, n)
		if why != "" {
			return "element type " + n.Obj().Name() + ": " + why
		}
		if alg != wantAlg {
			return fmt.Sprintf("element type %s tags entries with algorithm %q but the field holds %s digests", n.Obj().Name(), alg, wantAlg)
		}
		return ""
	}
	return fmt.Sprintf("Go type %s is not covered by the field table rules", typeName(t))
}

// docFields walks a document struct the way the decoder does (embedded structs
// other than Paragraph are walked too).
func docFields(s *types.Struct) []tagInfo {
	var out []tagInfo
	for _, ti := range fieldTags(s) {
		if ti.Embedded {
			if n, ok := ti.Type.(*types.Named); ok && n.Obj().Name() == "Paragraph" {
				continue
			}
			if es, ok := ti.Type.Underlying().(*types.Struct); ok {
				out = append(out, docFields(es)...)
			}
			continue
		}
		out = append(out, ti)
	}
	return out
}

func tagRule(p *Prog, r *Rule, only func(doc string, ti tagInfo, kind string) bool) {
	var docs []string
	for d := range docTables {
		docs = append(docs, d)
	}
	sort.Strings(docs)
	for _, doc := range docs {
		parts := strings.SplitN(doc, ".", 2)
		n := p.Named(parts[0], parts[1])
		if n == nil {
			r.bad(doc, "", "document type not found", nil)
			continue
		}
		s := structOf(n)
		for _, ti := range docFields(s) {
			key := doc + "." + ti.GoName
			if reason, ok := goOnlyFields[key]; ok {
				if only == nil || only(doc, ti, "go-only") {
					r.check(ti.Skip, key, p.Pos(n.Obj().Pos()), "excluded from the wire format with control:\"-\": "+reason,
						"this field is "+reason+", but it has no control:\"-\" tag: a \""+ti.Wire+":\" field inside the document overwrites it (and Marshal writes it out)")
				}
				continue
			}
			if ti.Skip {
				continue
			}
			kind, known := docTables[doc][ti.Wire]
			if only != nil && !only(doc, ti, kind) {
				continue
			}
			wkey := doc + ":" + ti.Wire
			if !known {
				r.bad(wkey, p.Pos(n.Obj().Pos()), fmt.Sprintf("Go field %s is looked up under the name %q, which is not a field of this kind of document (misspelt or missing control:\"...\" tag?)", ti.GoName, ti.Wire), nil)
				continue
			}
			if ti.Required && !mandatory[doc][ti.Wire] {
				r.bad(wkey, p.Pos(n.Obj().Pos()), "marked required, but the field is optional in this kind of document", nil)
				continue
			}
			if msg := checkDocField(p, doc, ti, kind); msg != "" {
				r.bad(wkey, p.Pos(n.Obj().Pos()), fmt.Sprintf("Go field %s (%s): %s", ti.GoName, typeName(ti.Type), msg), nil)
				continue
			}
			r.ok(wkey, p.Pos(n.Obj().Pos()), fmt.Sprintf("%s %s as %s delim=%q strip=%q", kind, ti.GoName, typeName(ti.Type), ti.Delim, ti.Strip))
		}
	}
}

func checkC10(p *Prog, rp *Report) {
	defer stateRule(p, rp, "C10-STATE", p.Func("control", "ParseDsc"), p.Func("control", "ParseChanges"), p.Func("control", "ParseControl"), p.Func("control", "ParseBinaryIndex"), p.Func("control", "ParseSourceIndex"), p.Func("control", "Unmarshal"))
	rp.Explanation = "C10-TAGS: for DSC, Changes, SourceParagraph, BinaryParagraph, BinaryIndex, SourceIndex, BestChecksums and deb.Control every struct field's resolved wire name, Go type, delim, strip and required tag is compared with the Debian field table of that document kind (written from dsc(5), deb-changes(5), deb-src-control(5), deb-control(5), the Packages/Sources index format): the name must exist, comma lists split on ',' and stripped of blank/tab/LF, blank lists split on blanks, checksum lists one per line with the element type of their algorithm, versions/architectures/relationships in the library's own types. C10-SPLIT: the decoder splits blank separated lists on any white space and trims with the field's strip set. C10-HASHLINE: column tables of the checksum line parsers. C10-ACCESS: accessor tables (Maintainers, HasArchAll, SourcePackage, Checksums, Get* field names, AbsFiles). Accessors are also checked to leave the document unchanged (AbsFiles twice gives the same paths; Get<X> returns the parsed field X). C10-READER: ParseControl reads source and binaries from one reader. C10-DOC: for each of the eight document types a document is rendered in the Debian layout from a model (one value per field of the Debian field table of that kind: scalars, integers, yes/no, a version, architectures, a relationship folded over two lines, comma and blank lists folded, multi-line text with a blank-line dot, two lines per checksum list, five-column .changes lines) and (*Decoder).Decode is interpreted on it (reflect model of C09, reader oracle); every Go field is compared with the model: scalars verbatim, versions/architectures/relationships as the parsed form of exactly their text (their own UnmarshalControl interpreted on the trimmed element), lists as trimmed elements in order, checksum lines as (algorithm, hash, size, name[, section, priority]) tuples; Go-only fields stay untouched; fields without a Go counterpart are ignored."
	rp.NotDecided = "document models other than the one of C10-DOC (field presence subsets, other list lengths); fields absent from the Go structs."
	rp.Trusted = []string{"go/types, go/ssa", "the Debian field tables in c10.go"}
	tags := rp.Rule("C10-TAGS", "struct tags of the typed documents agree with the Debian field tables", 100)
	tagRule(p, tags, nil)
	c10Split(p, rp)
	c10HashLine(p, rp)
	c10Access(p, rp)
	c10Reader(p, rp)
	c10Doc(p, rp)
}

// ---- C10-SPLIT ------------------------------------------------------------------

// The slice decoder: finds the function in package control that reads the
// "delim" and "strip" tags, and checks how the value is split and trimmed.
func c10Split(p *Prog, rp *Report) {
	r := rp.Rule("C10-SPLIT", "list fields: blank separated lists split on any white space (also when folded); other delimiters split exactly; elements are trimmed with the strip set", 3)
	str := types.Typ[types.String]
	pos := ""
	if fn := p.Func("control", "Unmarshal"); fn != nil {
		pos = p.Pos(fn.Pos())
	}
	for _, tc := range []struct {
		key, tag, text, want string
	}{
		{"blank-split", "", "V: a b\n c\td  e\n", `["a" "b" "c" "d" "e"]`},
		{"comma-split", `delim:"," strip:"\n\r\t "`, "V: a, b c,\n d\n", `["a" "b c" "d"]`},
		{"line-split", `delim:"\n" strip:"\n\r\t "`, "V:\n x 1\n y 2\n", `["x 1" "y 2"]`},
		{"default-delim", "", "V: one\n", `["one"]`},
	} {
		t := mkProbeType("ListProbe", []probeField{{"V", types.NewSlice(str), tc.tag, false}})
		run := newC09Run(p)
		obj, isErr, why := run.unmarshal(t, tc.text)
		switch {
		case strings.HasPrefix(why, "PANIC"):
			r.bad("control.list-decoder:"+tc.key, pos, "decoding "+fmt.Sprintf("%q", tc.text)+" panics: "+why, nil)
		case why != "":
			r.undecided("control.list-decoder:"+tc.key, pos, why)
		case isErr:
			r.bad("control.list-decoder:"+tc.key, pos, fmt.Sprintf("%q is rejected", tc.text), nil)
		default:
			got := fieldsOf(run.st, t, obj, nil)["V"]
			r.check(got == tc.want, "control.list-decoder:"+tc.key, pos, fmt.Sprintf("%q with tags `%s` decodes to %s", tc.text, tc.tag, tc.want), fmt.Sprintf("%q with tags `%s` decodes to %s, want %s", tc.text, tc.tag, got, tc.want))
		}
	}
}

// replaced by oracles returning exact column lists of every length 0..6.
func c10HashLine(p *Prog, rp *Report) {
	r := rp.Rule("C10-HASHLINE", "checksum line parsers: 3 columns hash,size,name; 2 columns name,hash; .changes 5 columns hash,size,section,priority,name; algorithm constants", 6)
	fhT := p.Named("control", "FileHash")
	if fhT == nil {
		r.bad("control.FileHash", "", "type not found", nil)
		return
	}
	errT := types.Universe.Lookup("error").Type()
	run := func(typ string, ncols int) (map[string]Val, bool, string) {
		fn := p.Method("control", typ, "UnmarshalControl")
		nt := p.Named("control", typ)
		if fn == nil || nt == nil {
			return nil, false, "method not found"
		}
		m := NewMachine(p, nil)
		// a concrete line of ncols blank-separated columns; the second column is a number
		var cols []string
		for i := 0; i < ncols; i++ {
			if i == 1 {
				cols = append(cols, fmt.Sprint(1000+i))
			} else {
				cols = append(cols, fmt.Sprintf("col%d", i))
			}
		}
		_ = errT
		st := initState(m, "control")
		id := st.alloc(nt, zeroVal(nt))
		st.push(fn, []Val{Ptr{Obj: id}, strings.Join(cols, " ")}, nil)
		out := m.Run(st)
		if len(out) != 1 || out[0].Status != stRet {
			return nil, false, retDesc(out)
		}
		_, isErr := out[0].Ret.(IfaceV)
		// flatten the FileHash fields
		res := map[string]Val{}
		var walk func(t types.Type, v Val)
		walk = func(t types.Type, v Val) {
			s, ok := t.Underlying().(*types.Struct)
			sv, ok2 := v.(*StructV)
			if !ok || !ok2 {
				return
			}
			for i := 0; i < s.NumFields(); i++ {
				if s.Field(i).Embedded() {
					walk(s.Field(i).Type(), sv.F[i])
				} else {
					res[s.Field(i).Name()] = sv.F[i]
				}
			}
		}
		walk(nt, out[0].Heap[id].V)
		return res, isErr, ""
	}
	for _, tc := range []struct{ typ, alg, byHash string }{{"MD5FileHash", "md5", ""}, {"SHA1FileHash", "sha1", ""}, {"SHA256FileHash", "sha256", "SHA256"}, {"SHA512FileHash", "sha512", "SHA512"}} {
		key := "control." + tc.typ
		fn := p.Method("control", tc.typ, "UnmarshalControl")
		pos := ""
		if fn != nil {
			pos = p.Pos(fn.Pos())
		}
		problems := []string{}
		for n := 0; n <= 5; n++ {
			res, isErr, why := run(tc.typ, n)
			if why != "" {
				r.undecided(key, pos, fmt.Sprintf("%d columns: %s", n, why))
				problems = nil
				goto next
			}
			switch n {
			case 3:
				if isErr || res["Hash"] != "col0" || res["Size"] != int64(1001) || res["Filename"] != "col2" {
					problems = append(problems, fmt.Sprintf("3 columns must be hash,size,name; got err=%v hash=%v size=%v name=%v", isErr, res["Hash"], res["Size"], res["Filename"]))
				}
				if res["Algorithm"] != tc.alg {
					problems = append(problems, fmt.Sprintf("entries are tagged %v, want %q", res["Algorithm"], tc.alg))
				}
				if tc.byHash != "" && res["ByHash"] != tc.byHash {
					problems = append(problems, fmt.Sprintf("ByHash is %v, want %q", res["ByHash"], tc.byHash))
				}
			case 2:
				if isErr || res["Filename"] != "col0" || res["Hash"] != "1001" {
					problems = append(problems, fmt.Sprintf("2 columns (conffiles) must be name,hash; got err=%v name=%v hash=%v", isErr, res["Filename"], res["Hash"]))
				}
			default:
				if !isErr {
					problems = append(problems, fmt.Sprintf("a line of %d columns is accepted", n))
				}
			}
		}
		if len(problems) > 0 {
			r.bad(key, pos, strings.Join(problems, "; "), nil)
		} else {
			r.ok(key, pos, "columns 0..5 decided: 3 = hash,size,name tagged "+tc.alg+"; 2 = name,hash; others rejected")
		}
	next:
	}
	// .changes variant
	{
		key := "control.FileListChangesFileHash"
		fn := p.Method("control", "FileListChangesFileHash", "UnmarshalControl")
		pos := ""
		if fn != nil {
			pos = p.Pos(fn.Pos())
		}
		problems := []string{}
		for n := 0; n <= 6; n++ {
			res, isErr, why := run("FileListChangesFileHash", n)
			if why != "" {
				r.undecided(key, pos, fmt.Sprintf("%d columns: %s", n, why))
				problems = nil
				break
			}
			if n < 5 && !isErr {
				problems = append(problems, fmt.Sprintf("a line of %d columns is accepted", n))
			}
			if n == 5 {
				if isErr || res["Hash"] != "col0" || res["Size"] != int64(1001) || res["Component"] != "col2" || res["Priority"] != "col3" || res["Filename"] != "col4" || res["Algorithm"] != "md5" {
					problems = append(problems, fmt.Sprintf("5 columns must be hash,size,section,priority,name tagged md5; got err=%v %v", isErr, res))
				}
			}
		}
		if len(problems) > 0 {
			r.bad(key, pos, strings.Join(problems, "; "), nil)
		} else {
			r.ok(key, pos, "5 columns = hash,size,section,priority,name tagged md5; fewer rejected")
		}
	}
	// the size column is parsed as a base-10 64 bit integer
	{
		un := findMethodAnyRecv(p, "control", "FileHash", "unmarshalControl")
		key := "control.FileHash:size-width"
		if un == nil {
			r.ok(key, "", "no shared unmarshalControl helper; covered by the per-type tables")
		} else {
			okw := true
			detail := ""
			for _, c := range allCalls(un) {
				switch calleeName(c.Common()) {
				case "strconv.ParseInt":
					base, _ := constInt(c.Common().Args[1])
					bits, _ := constInt(c.Common().Args[2])
					if base != 10 || bits != 64 {
						okw, detail = false, fmt.Sprintf("size parsed with ParseInt(base %d, %d bits); file sizes are decimal int64", base, bits)
					}
				case "strconv.Atoi":
					okw, detail = false, "size parsed with Atoi (32 bit on some platforms) but stored as int64"
				}
			}
			r.check(okw, key, p.Pos(un.Pos()), "size column parsed as decimal int64", detail)
		}
	}
}

func findMethodAnyRecv(p *Prog, pkg, typ, name string) *ssa.Function {
	return p.Method(pkg, typ, name)
}

// ---- C10-ACCESS -------------------------------------------------------------------

func c10Access(p *Prog, rp *Report) {
	r := rp.Rule("C10-ACCESS", "accessors agree with the fields they are derived from", 14)
	// Get<X> accessors: the field-name literal equals X up to hyphens.
	for _, typ := range []string{"BinaryIndex", "SourceIndex"} {
		n := p.Named("control", typ)
		if n == nil {
			continue
		}
		ms := p.SSA.MethodSets.MethodSet(types.NewPointer(n))
		for i := 0; i < ms.Len(); i++ {
			name := ms.At(i).Obj().Name()
			if !strings.HasPrefix(name, "Get") || ms.At(i).Obj().Pkg() == nil {
				continue
			}
			fn := p.SSA.MethodValue(ms.At(i))
			if fn == nil || fn.Synthetic != "" {
				continue
			}
			if sigRes := fn.Signature.Results(); sigRes.Len() != 1 || !isNamed(sigRes.At(0).Type(), "dependency", "Dependency") {
				continue
			}
			// interpreted: the entry's raw paragraph holds every relationship field with a distinct package name;
			// Get<X> must return the parsed form of field X (X up to hyphens)
			key := "control." + typ + "." + name
			want := strings.TrimPrefix(name, "Get")
			relFields := append(append([]string{}, relFieldsBinary...), relFieldsSource...)
			field := ""
			for _, f := range relFields {
				if strings.ReplaceAll(f, "-", "") == want {
					field = f
				}
			}
			if field == "" {
				r.bad(key, p.Pos(fn.Pos()), name+" does not correspond to a relationship field of this kind of document", nil)
				continue
			}
			pt := p.Named("control", "Paragraph")
			m := NewMachine(p, nil)
			st := initState(m, "control", "dependency")
			mid := st.alloc(structOf(pt).Field(fieldIndex(structOf(pt), "Values")).Type(), &MapObjV{})
			mo := st.Heap[mid].V.(*MapObjV)
			for _, f := range relFields {
				mo.K = append(mo.K, f)
				mo.V = append(mo.V, "pkg-"+strings.ToLower(f)+" (>= 1.0), other")
			}
			para := mkStruct(pt, map[string]Val{"Values": MapV{Obj: mid}, "Order": strSlice(st, relFields)})
			obj := zeroVal(n).(*StructV)
			if !setNamed(obj, structOf(n), "Paragraph", para) {
				r.undecided(key, p.Pos(fn.Pos()), "the document type does not embed Paragraph")
				continue
			}
			id := st.alloc(n, obj)
			before := deepRender(st, Ptr{Obj: id}, 0)
			st.push(fn, []Val{Ptr{Obj: id}}, nil)
			out := m.Run(st)
			if len(out) != 1 || out[0].Status != stRet {
				r.undecided(key, p.Pos(fn.Pos()), retDesc(out))
				continue
			}
			got := deepRender(st, st.Ret, 0)
			switch {
			case !strings.Contains(got, `"pkg-`+strings.ToLower(field)+`"`):
				r.bad(key, p.Pos(fn.Pos()), fmt.Sprintf("%s does not return the parsed %s field: %s", name, field, clip(got, 200)), nil)
			case deepRender(st, Ptr{Obj: id}, 0) != before:
				r.bad(key, p.Pos(fn.Pos()), name+" modifies the entry it is called on", nil)
			default:
				r.ok(key, p.Pos(fn.Pos()), "returns the parsed form of the field "+field+" and leaves the entry alone")
			}
		}
	}
	c10Files(p, r)
	// Maintainers: maintainer first, then uploaders
	for _, typ := range []string{"DSC", "SourceParagraph"} {
		fn := p.Method("control", typ, "Maintainers")
		key := "control." + typ + ".Maintainers"
		if fn == nil {
			r.bad(key, "", "method not found", nil)
			continue
		}
		nt := p.Named("control", typ)
		m := NewMachine(p, nil)
		st := &State{Heap: map[int]*HObj{}, Notes: map[string]bool{}}
		// the uploader list has spare capacity, as a list grown by append usually has: an accessor that inserts in
		// place would corrupt the document
		arr := &ArrayV{E: []Val{"up1", "up2", "", ""}}
		aid := st.alloc(types.NewArray(types.Typ[types.String], 4), arr)
		id := st.alloc(nt, mkStruct(nt, map[string]Val{"Maintainer": "maint", "Uploaders": SliceV{Obj: aid, Len_: 2, Cap: 4}}))
		before := deepRender(st, Ptr{Obj: id}, 0)
		var results []string
		undecided := ""
		for call := 0; call < 2; call++ {
			st.Status = stRun
			st.Frames = nil
			st.push(fn, []Val{Ptr{Obj: id}}, nil)
			out := m.Run(st)
			if len(out) != 1 || out[0].Status != stRet {
				undecided = retDesc(out)
				break
			}
			elems, _, _ := m.sliceElems(st, st.Ret)
			var got []string
			for _, e := range elems {
				s, _ := e.(string)
				got = append(got, s)
			}
			results = append(results, strings.Join(got, ","))
		}
		if undecided != "" {
			r.undecided(key, p.Pos(fn.Pos()), undecided)
			continue
		}
		after := deepRender(st, Ptr{Obj: id}, 0)
		switch {
		case results[0] != "maint,up1,up2":
			r.bad(key, p.Pos(fn.Pos()), fmt.Sprintf("Maintainers() of maintainer 'maint' with uploaders up1, up2 is [%s]", results[0]), nil)
		case results[1] != results[0]:
			r.bad(key, p.Pos(fn.Pos()), fmt.Sprintf("a second call gives [%s], the first gave [%s]", results[1], results[0]), nil)
		case after != before:
			r.bad(key, p.Pos(fn.Pos()), fmt.Sprintf("the accessor changes the document: %s became %s", clip(before, 200), clip(after, 200)), nil)
		default:
			r.ok(key, p.Pos(fn.Pos()), "maintainer first, then the uploaders in order; the same on a second call; the document (an uploader list with spare capacity) is left as it was")
		}
	}
	// HasArchAll: true iff some architecture is the all triple
	if fn := p.Method("control", "DSC", "HasArchAll"); fn != nil {
		key := "control.DSC.HasArchAll"
		archT := p.Named("dependency", "Arch")
		nt := p.Named("control", "DSC")
		bad := ""
		rows := 0
		vals := []string{"all", "any", "x"}
		for _, a := range vals {
			for _, b := range vals {
				for _, c := range vals {
					for _, posn := range []int{0, 1} {
						m := NewMachine(p, nil)
						st := &State{Heap: map[int]*HObj{}, Notes: map[string]bool{}}
						other := mkStruct(archT, map[string]Val{"ABI": "gnu", "OS": "linux", "CPU": "amd64"})
						this := mkStruct(archT, map[string]Val{"ABI": a, "OS": b, "CPU": c})
						arr := &ArrayV{E: []Val{other, this}}
						if posn == 0 {
							arr = &ArrayV{E: []Val{this, other}}
						}
						aid := st.alloc(types.NewArray(archT, 2), arr)
						id := st.alloc(nt, mkStruct(nt, map[string]Val{"Architectures": SliceV{Obj: aid, Len_: 2, Cap: 2}}))
						st.push(fn, []Val{Ptr{Obj: id}}, nil)
						out := m.Run(st)
						rows++
						if len(out) != 1 || out[0].Status != stRet {
							bad = "undecided: " + retDesc(out)
							continue
						}
						want := a == "all" && b == "all" && c == "all"
						if out[0].Ret != want && bad == "" {
							bad = fmt.Sprintf("architectures [%s-%s-%s] at position %d: HasArchAll = %v", a, b, c, posn, out[0].Ret)
						}
					}
				}
			}
		}
		r.check(bad == "", key, p.Pos(fn.Pos()), fmt.Sprintf("%d rows: true iff some entry is all-all-all", rows), bad)
	} else {
		r.bad("control.DSC.HasArchAll", "", "method not found", nil)
	}
	// SourcePackage: Source empty -> Package; else Source up to the first blank
	if fn := p.Method("control", "BinaryIndex", "SourcePackage"); fn != nil {
		key := "control.BinaryIndex.SourcePackage"
		seps := map[string]bool{}
		for _, c := range allCalls(fn) {
			n := calleeName(c.Common())
			if strings.HasPrefix(n, "strings.") && len(c.Common().Args) >= 2 {
				if s, ok := constString(c.Common().Args[1]); ok {
					seps[s] = true
				}
			}
		}
		okSep := len(seps) > 0
		for s := range seps {
			if s != " " {
				okSep = false
			}
		}
		// table by abstract interpretation with exact string models
		nt := p.Named("control", "BinaryIndex")
		bad := ""
		for _, tc := range [][3]string{{"", "pkg", "pkg"}, {"src", "pkg", "src"}, {"src (1.0-1)", "pkg", "src"}, {"a b c", "pkg", "a"}} {
			m := NewMachine(p, nil)
			installStringModels(m)
			st := &State{Heap: map[int]*HObj{}, Notes: map[string]bool{}}
			id := st.alloc(nt, mkStruct(nt, map[string]Val{"Source": tc[0], "Package": tc[1]}))
			st.push(fn, []Val{Ptr{Obj: id}}, nil)
			out := m.Run(st)
			if len(out) != 1 || out[0].Status != stRet {
				bad = "undecided: " + retDesc(out)
				break
			}
			if out[0].Ret != tc[2] {
				bad = fmt.Sprintf("Source %q, Package %q: SourcePackage = %v, want %q", tc[0], tc[1], out[0].Ret, tc[2])
				break
			}
		}
		if strings.HasPrefix(bad, "undecided") {
			r.undecided(key, p.Pos(fn.Pos()), bad)
		} else {
			_ = okSep
			r.check(bad == "", key, p.Pos(fn.Pos()), "empty Source -> Package; otherwise Source up to the first blank", bad)
		}
	} else {
		r.bad("control.BinaryIndex.SourcePackage", "", "method not found", nil)
	}
	// Checksums(): Sha256 if non-empty, else Sha512, else nil, elements in order
	if fn := p.Method("control", "BestChecksums", "Checksums"); fn != nil {
		key := "control.BestChecksums.Checksums"
		nt := p.Named("control", "BestChecksums")
		fhT := p.Named("control", "FileHash")
		bad := ""
		for _, n256 := range []int{0, 2} {
			for _, n512 := range []int{0, 2} {
				m := NewMachine(p, nil)
				st := &State{Heap: map[int]*HObj{}, Notes: map[string]bool{}}
				mk := func(field string, n int, tag string) Val {
					fi := fieldIndex(structOf(nt), field)
					et := structOf(nt).Field(fi).Type().Underlying().(*types.Slice).Elem().(*types.Named)
					arr := &ArrayV{}
					for i := 0; i < n; i++ {
						e := zeroVal(et).(*StructV)
						e.F[0] = mkStruct(fhT, map[string]Val{"Hash": fmt.Sprintf("%s-%d", tag, i), "Algorithm": tag})
						arr.E = append(arr.E, e)
					}
					aid := st.alloc(types.NewArray(et, int64(n)), arr)
					return SliceV{Obj: aid, Len_: n, Cap: n}
				}
				id := st.alloc(nt, mkStruct(nt, map[string]Val{"ChecksumsSha256": mk("ChecksumsSha256", n256, "sha256"), "ChecksumsSha512": mk("ChecksumsSha512", n512, "sha512")}))
				st.push(fn, []Val{Ptr{Obj: id}}, nil)
				out := m.Run(st)
				if len(out) != 1 || out[0].Status != stRet {
					bad = "undecided: " + retDesc(out)
					continue
				}
				elems, _, _ := m.sliceElems(out[0], out[0].Ret)
				var got []string
				for _, e := range elems {
					if sv, ok := e.(*StructV); ok {
						got = append(got, fmt.Sprint(sv.F[fieldIndex(structOf(fhT), "Hash")]))
					}
				}
				want := ""
				switch {
				case n256 > 0:
					want = "sha256-0,sha256-1"
				case n512 > 0:
					want = "sha512-0,sha512-1"
				}
				if strings.Join(got, ",") != want && bad == "" {
					bad = fmt.Sprintf("%d sha256 and %d sha512 entries: Checksums() = %v, want [%s]", n256, n512, got, want)
				}
			}
		}
		if strings.HasPrefix(bad, "undecided") {
			r.undecided(key, p.Pos(fn.Pos()), bad)
		} else {
			r.check(bad == "", key, p.Pos(fn.Pos()), "Sha256 entries if any, else Sha512 entries, else none; in order, with their algorithm", bad)
		}
	} else {
		r.bad("control.BestChecksums.Checksums", "", "method not found", nil)
	}
}

// c10Files: accessors over the Files list and the embedded-struct descent of the decoder.
func c10Files(p *Prog, r *Rule) {
	// DebianSource / GetDSC: decision tables over the Files list (interpreted)
	fhT0 := p.Named("control", "FileHash")
	mkFiles := func(st *State, nt *types.Named, names []string) Val {
		elemT := structOf(nt).Field(fieldIndex(structOf(nt), "Files")).Type().Underlying().(*types.Slice).Elem().(*types.Named)
		arr := &ArrayV{}
		for _, n := range names {
			e := zeroVal(elemT).(*StructV)
			e.F[0] = mkStruct(fhT0, map[string]Val{"Filename": n, "Hash": "h-" + n, "Size": int64(7), "Algorithm": "md5"})
			arr.E = append(arr.E, e)
		}
		if len(names) == 0 {
			return nilV{}
		}
		aid := st.alloc(types.NewArray(elemT, int64(len(names))), arr)
		return SliceV{Obj: aid, Len_: len(names), Cap: len(names)}
	}
	if fn, nt := p.Method("control", "DSC", "DebianSource"), p.Named("control", "DSC"); fn == nil || nt == nil || fhT0 == nil {
		r.bad("control.DSC.DebianSource", "", "method not found", nil)
	} else {
		var problems []string
		for _, tc := range []struct {
			files []string
			want  string
		}{
			{[]string{"a_1.orig.tar.gz", "a_1-2.debian.tar.xz", "a_1-2.dsc"}, "a_1-2.debian.tar.xz"},
			{[]string{"a_1-2.debian.tar.xz"}, "a_1-2.debian.tar.xz"},
			{[]string{"a_1.tar.gz", "a_1.dsc"}, ""},
			{[]string{"debian.tar.xz", "a.debian"}, ""},
			{nil, ""},
		} {
			m := NewMachine(p, nil)
			installStringModels(m)
			st := initState(m, "control")
			id := st.alloc(nt, mkStruct(nt, map[string]Val{"Filename": "/srv/in/a_1-2.dsc", "Files": mkFiles(st, nt, tc.files)}))
			st.push(fn, []Val{Ptr{Obj: id}}, nil)
			out := m.Run(st)
			if len(out) != 1 || out[0].Status != stRet {
				problems = append(problems, "undecided: "+retDesc(out))
				break
			}
			tv := st.Ret.(*TupleV)
			_, errNil := tv.E[1].(nilV)
			switch {
			case tc.want == "" && errNil:
				problems = append(problems, fmt.Sprintf("Files %v: no error although no Debian tarball/diff is listed (returns %v)", tc.files, tv.E[0]))
			case tc.want != "" && (!errNil || tv.E[0] != tc.want):
				problems = append(problems, fmt.Sprintf("Files %v: DebianSource = %v (error nil: %v), want %q", tc.files, tv.E[0], errNil, tc.want))
			}
		}
		fillProblems(r, "control.DSC.DebianSource", p.Pos(fn.Pos()), problems, "5 file lists: the listed name containing \".debian.\", or an error")
	}
	if fn, nt := p.Method("control", "Changes", "GetDSC"), p.Named("control", "Changes"); fn == nil || nt == nil || fhT0 == nil {
		r.bad("control.Changes.GetDSC", "", "method not found", nil)
	} else {
		var problems []string
		for _, tc := range []struct {
			files   []string
			want    string
			parseOK bool
		}{
			{[]string{"x_1.tar.gz", "x_1.dsc", "x_1_amd64.deb"}, "/srv/in/x_1.dsc", true},
			{[]string{"x_1.dsc"}, "/srv/in/x_1.dsc", false},
			{[]string{"x_1.tar.gz", "x.dsc.asc"}, "", true},
			{nil, "", true},
		} {
			m := NewMachine(p, nil)
			installStringModels(m)
			opened := []string{}
			tc := tc
			dscT := p.Named("control", "DSC")
			m.Hooks[repoModule+"/control.ParseDscFile"] = func(m *Machine, st *State, call *ssa.CallCommon, args []Val) ([]Val, bool) {
				opened = append(opened, fmt.Sprint(args[0]))
				if !tc.parseOK {
					return []Val{&TupleV{E: []Val{nilV{}, IfaceV{T: errType, V: "parse error"}}}}, true
				}
				id := st.alloc(dscT, mkStruct(dscT, map[string]Val{"Source": "the-parsed-dsc"}))
				return []Val{&TupleV{E: []Val{Ptr{Obj: id}, nilV{}}}}, true
			}
			st := initState(m, "control")
			id := st.alloc(nt, mkStruct(nt, map[string]Val{"Filename": "/srv/in/x_1_amd64.changes", "Files": mkFiles(st, nt, tc.files)}))
			st.push(fn, []Val{Ptr{Obj: id}}, nil)
			out := m.Run(st)
			if len(out) != 1 || out[0].Status != stRet {
				problems = append(problems, "undecided: "+retDesc(out))
				break
			}
			tv := st.Ret.(*TupleV)
			_, errNil := tv.E[1].(nilV)
			_, resNil := tv.E[0].(nilV)
			switch {
			case tc.want == "":
				if errNil || len(opened) > 0 {
					problems = append(problems, fmt.Sprintf("Files %v: no .dsc is listed, yet GetDSC opens %v / returns no error", tc.files, opened))
				}
			case len(opened) != 1 || filepath.Clean(opened[0]) != tc.want:
				problems = append(problems, fmt.Sprintf("Files %v of /srv/in/x_1_amd64.changes: GetDSC opens %v, want %s", tc.files, opened, tc.want))
			case tc.parseOK && (!errNil || resNil):
				problems = append(problems, "the parsed .dsc is not returned")
			case !tc.parseOK && (errNil || !resNil):
				problems = append(problems, "a parse error of the .dsc is not returned (or a value comes with it)")
			}
		}
		fillProblems(r, "control.Changes.GetDSC", p.Pos(fn.Pos()), problems, "4 file lists: the listed *.dsc is opened next to the .changes; result and error passed through; none listed is an error")
	}
	// AbsFiles: every listed name joined to the directory of the control file, entries otherwise unchanged, order kept
	for _, typ := range []string{"DSC", "Changes"} {
		fn := p.Method("control", typ, "AbsFiles")
		key := "control." + typ + ".AbsFiles"
		nt := p.Named("control", typ)
		fhT := p.Named("control", "FileHash")
		if fn == nil || nt == nil {
			r.bad(key, "", "method not found", nil)
			continue
		}
		elemT := structOf(nt).Field(fieldIndex(structOf(nt), "Files")).Type().Underlying().(*types.Slice).Elem().(*types.Named)
		m := NewMachine(p, nil)
		installStringModels(m)
		st := initState(m, "control")
		arr := &ArrayV{}
		for _, n := range []string{"one.tar.gz", "two.dsc"} {
			e := zeroVal(elemT).(*StructV)
			e.F[0] = mkStruct(fhT, map[string]Val{"Filename": n, "Hash": "h-" + n, "Size": int64(7), "Algorithm": "md5"})
			arr.E = append(arr.E, e)
		}
		aid := st.alloc(types.NewArray(elemT, 2), arr)
		id := st.alloc(nt, mkStruct(nt, map[string]Val{"Filename": "/srv/in/x.ctl", "Files": SliceV{Obj: aid, Len_: 2, Cap: 2}}))
		before := deepRender(st, Ptr{Obj: id}, 0)
		st.push(fn, []Val{Ptr{Obj: id}}, nil)
		out := m.Run(st)
		if len(out) != 1 || out[0].Status != stRet {
			r.undecided(key, p.Pos(fn.Pos()), retDesc(out))
			continue
		}
		firstResult := deepRender(st, st.Ret, 0)
		if after := deepRender(st, Ptr{Obj: id}, 0); after != before {
			r.bad(key, p.Pos(fn.Pos()), fmt.Sprintf("AbsFiles modifies the document it is called on: %s became %s", clip(before, 240), clip(after, 240)), nil)
			continue
		}
		st.Status = stRun
		st.Frames = nil
		st.push(fn, []Val{Ptr{Obj: id}}, nil)
		if out2 := m.Run(st); len(out2) == 1 && out2[0].Status == stRet {
			if second := deepRender(st, st.Ret, 0); second != firstResult {
				r.bad(key, p.Pos(fn.Pos()), fmt.Sprintf("a second AbsFiles call returns %s, the first returned %s", clip(second, 240), clip(firstResult, 240)), nil)
				continue
			}
		}
		elems, _, _ := m.sliceElems(st, st.Ret)
		var got []string
		for _, e := range elems {
			if sv, ok := e.(*StructV); ok {
				if fh, ok := sv.F[0].(*StructV); ok {
					got = append(got, fmt.Sprintf("%v|%v|%v", fh.F[fieldIndex(structOf(fhT), "Filename")], fh.F[fieldIndex(structOf(fhT), "Hash")], fh.F[fieldIndex(structOf(fhT), "Size")]))
				}
			}
		}
		want := "/srv/in/one.tar.gz|h-one.tar.gz|7,/srv/in/two.dsc|h-two.dsc|7"
		r.check(strings.Join(got, ",") == want, key, p.Pos(fn.Pos()), "names joined to the control file's directory; hashes, sizes and order unchanged", fmt.Sprintf("AbsFiles of /srv/in/x.ctl listing one.tar.gz, two.dsc = %v", got))
	}
	// (that the decoder descends into embedded structs such as BestChecksums is decided by C10-DOC on a probe type)
}

func keysOf(m map[string]bool) []string {
	var out []string
	for k := range m {
		out = append(out, k)
	}
	sort.Strings(out)
	return out
}

// ---- C10-READER -------------------------------------------------------------------

func c10Reader(p *Prog, rp *Report) {
	r := rp.Rule("C10-READER", "ParseControl reads the source paragraph and the binaries from the same buffered reader", 1)
	fn := p.Func("control", "ParseControl")
	ct := p.Named("control", "Control")
	if fn == nil || ct == nil {
		r.bad("control.ParseControl", "", "function not found", nil)
		return
	}
	pos := p.Pos(fn.Pos())
	doc := "Source: src\nMaintainer: M <m@example.org>\n\nPackage: bin1\nArchitecture: any\n\nPackage: bin2\nArchitecture: all\nDescription: second\n more\n"
	run := newC09Run(p)
	run.script = splitLines(doc)
	run.nread = 0
	rid := run.st.alloc(types.Typ[types.Int], OpaqueV{"bufio"})
	ret, why := run.call(fn, Ptr{Obj: rid}, "/work/pkg/debian/control")
	if strings.HasPrefix(why, "PANIC") {
		r.bad("control.ParseControl", pos, "ParseControl panics on a three-paragraph control file: "+why, nil)
		return
	}
	if why != "" {
		r.undecided("control.ParseControl", pos, why)
		return
	}
	tv, ok := ret.(*TupleV)
	if !ok || len(tv.E) != 2 {
		r.undecided("control.ParseControl", pos, "unexpected result shape")
		return
	}
	if _, errNil := tv.E[1].(nilV); !errNil {
		r.bad("control.ParseControl", pos, "a control file with a source paragraph and two binary paragraphs is rejected", nil)
		return
	}
	got := deepRender(run.st, tv.E[0], 0)
	var problems []string
	for _, want := range []string{`"src"`, `"bin1"`, `"bin2"`, `"/work/pkg/debian/control"`, `"M <m@example.org>"`} {
		if !strings.Contains(got, want) {
			problems = append(problems, "the parsed Control lacks "+want)
		}
	}
	if pp, ok := tv.E[0].(Ptr); ok {
		if sv, ok := run.st.Heap[pp.Obj].V.(*StructV); ok {
			elems, _, _ := run.m.sliceElems(run.st, sv.F[fieldIndex(structOf(ct), "Binaries")])
			if len(elems) != 2 {
				problems = append(problems, fmt.Sprintf("%d binary paragraphs decoded, want 2 (source first, then every binary paragraph from the same reader)", len(elems)))
			}
			src := deepRender(run.st, sv.F[fieldIndex(structOf(ct), "Source")], 0)
			if !strings.Contains(src, `"src"`) || strings.Contains(src, `"bin1"`) {
				problems = append(problems, "the first paragraph is not the one decoded into Source")
			}
		}
	}
	if run.nread != len(run.script) {
		problems = append(problems, fmt.Sprintf("only %d of %d lines were read", run.nread, len(run.script)))
	}
	fillProblems(r, "control.ParseControl", pos, problems, "a control file with one source and two binary paragraphs: Source from the first paragraph, both binaries after it, all lines read from the one reader, Filename = the path")
}

// descentGuardDominates: the `kind == Struct` test guarding the descent is
// evaluated before the Anonymous test on every path.
func descentGuardDominates(gs []guard, descent *ssa.Call, gA *guard) bool {
	for _, g := range gs {
		if strings.Contains(g.Term, ".Kind() == 25)") && g.If.Block().Succs[0].Dominates(descent.Block()) && g.If.Block().Dominates(gA.If.Block()) {
			return true
		}
	}
	return false
}
