// Package dpkgorder is a transliteration of dpkg's version comparison
// (lib/dpkg/version.c: order(), verrevcmp()) into Go. It is a SPECIFICATION:
// it is never executed. The analyser builds its SSA form and interprets it
// abstractly, in lock step with go-debian's comparator, over lazily revealed
// input strings (DESIGN §3 C01-RUN).
//
//	static int order(int c) {
//		if (c_isdigit(c)) return 0;
//		else if (c_isalpha(c)) return c;
//		else if (c == '~') return -1;
//		else if (c) return c + 256;
//		else return 0;
//	}
//	static int verrevcmp(const char *a, const char *b) {
//		if (a == NULL) a = ""; if (b == NULL) b = "";
//		while (*a || *b) {
//			int first_diff = 0;
//			while ((*a && !c_isdigit(*a)) || (*b && !c_isdigit(*b))) {
//				int ac = order(*a); int bc = order(*b);
//				if (ac != bc) return ac - bc;
//				a++; b++;
//			}
//			while (*a == '0') a++;
//			while (*b == '0') b++;
//			while (c_isdigit(*a) && c_isdigit(*b)) {
//				if (!first_diff) first_diff = *a - *b;
//				a++; b++;
//			}
//			if (c_isdigit(*a)) return 1;
//			if (c_isdigit(*b)) return -1;
//			if (first_diff) return first_diff;
//		}
//		return 0;
//	}
//
// In C the strings are NUL terminated and `a++` past a non-digit that is the
// terminator cannot happen for the string that ended (order(0) == 0 only
// equals the other side's weight when that is a digit, which the loop
// condition excludes, or 0). The Go version uses explicit end tests.
package dpkgorder

func isdigit(c byte) bool { return c >= '0' && c <= '9' }

func isalpha(c byte) bool { return (c >= 'a' && c <= 'z') || (c >= 'A' && c <= 'Z') }

// at returns s[i], or 0 past the end (the C terminator).
func at(s string, i int) byte {
	if i < len(s) {
		return s[i]
	}
	return 0
}

func order(c byte) int {
	if isdigit(c) {
		return 0
	}
	if isalpha(c) {
		return int(c)
	}
	if c == '~' {
		return -1
	}
	if c != 0 {
		return int(c) + 256
	}
	return 0
}

// Verrevcmp: variant A — zeros of the first operand are skipped first.
func Verrevcmp(a, b string) int {
	i, j := 0, 0
	for at(a, i) != 0 || at(b, j) != 0 {
		firstDiff := 0
		for (at(a, i) != 0 && !isdigit(at(a, i))) || (at(b, j) != 0 && !isdigit(at(b, j))) {
			ac := order(at(a, i))
			bc := order(at(b, j))
			if ac != bc {
				return ac - bc
			}
			if i < len(a) {
				i++
			}
			if j < len(b) {
				j++
			}
		}
		for at(a, i) == '0' {
			i++
		}
		for at(b, j) == '0' {
			j++
		}
		for isdigit(at(a, i)) && isdigit(at(b, j)) {
			if firstDiff == 0 {
				firstDiff = int(at(a, i)) - int(at(b, j))
			}
			i++
			j++
		}
		if isdigit(at(a, i)) {
			return 1
		}
		if isdigit(at(b, j)) {
			return -1
		}
		if firstDiff != 0 {
			return firstDiff
		}
	}
	return 0
}

// VerrevcmpB: variant B — zeros of the second operand are skipped first. The
// two zero-skipping loops commute; an implementation may order them either way.
func VerrevcmpB(a, b string) int {
	i, j := 0, 0
	for at(a, i) != 0 || at(b, j) != 0 {
		firstDiff := 0
		for (at(a, i) != 0 && !isdigit(at(a, i))) || (at(b, j) != 0 && !isdigit(at(b, j))) {
			ac := order(at(a, i))
			bc := order(at(b, j))
			if ac != bc {
				return ac - bc
			}
			if i < len(a) {
				i++
			}
			if j < len(b) {
				j++
			}
		}
		for at(b, j) == '0' {
			j++
		}
		for at(a, i) == '0' {
			i++
		}
		for isdigit(at(a, i)) && isdigit(at(b, j)) {
			if firstDiff == 0 {
				firstDiff = int(at(a, i)) - int(at(b, j))
			}
			i++
			j++
		}
		if isdigit(at(a, i)) {
			return 1
		}
		if isdigit(at(b, j)) {
			return -1
		}
		if firstDiff != 0 {
			return firstDiff
		}
	}
	return 0
}
