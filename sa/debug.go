package main

import (
	"fmt"
	"os"

	"golang.org/x/tools/go/ssa"
)

// gdsa guards <pkg> <func|Type.Method>: print canonical guard terms (debug aid)
func debugGuards(args []string) {
	p, err := LoadRepo("", nil)
	if err != nil {
		fmt.Println(err)
		os.Exit(2)
	}
	var fn *ssa.Function
	if len(args) == 3 {
		fn = p.Method(args[0], args[1], args[2])
	} else {
		fn = p.Func(args[0], args[1])
	}
	if fn == nil {
		fmt.Println("not found")
		os.Exit(2)
	}
	for _, g := range guardsOf(fn) {
		fmt.Printf("%s  b%d: %s   reject[then]=%v reject[else]=%v domAllSuccess=%v\n", p.Pos(g.If.Cond.Pos()), g.If.Block().Index, g.Term, rejectsOn(fn, g, 0), rejectsOn(fn, g, 1), dominatesAllSuccess(fn, g))
	}
	tm := newTermer()
	for _, b := range fn.Blocks {
		for _, ins := range b.Instrs {
			switch x := ins.(type) {
			case *ssa.Store:
				fmt.Printf("  store b%d %s := %s\n", b.Index, tm.term(x.Addr), tm.term(x.Val))
			case *ssa.Return:
				var rs []string
				for _, r := range x.Results {
					rs = append(rs, tm.term(r))
				}
				fmt.Printf("  return b%d %v\n", b.Index, rs)
			case *ssa.Call:
				fmt.Printf("  call b%d %s\n", b.Index, tm.term(x))
			}
		}
	}
}

// gdsa indexes <pkg...>: list index/slice sites (debug aid)
func debugIndexes(pkgs []string) {
	p, err := LoadRepo("", nil)
	if err != nil {
		fmt.Println(err)
		os.Exit(2)
	}
	tm := newTermer()
	for _, fn := range p.SrcFuncs(pkgs...) {
		for _, b := range fn.Blocks {
			for _, ins := range b.Instrs {
				switch x := ins.(type) {
				case *ssa.Index:
					fmt.Printf("%s %s INDEX %s\n", p.Pos(x.Pos()), fname(fn), tm.term(x))
				case *ssa.IndexAddr:
					fmt.Printf("%s %s INDEXADDR %s\n", p.Pos(x.Pos()), fname(fn), tm.term(x))
				case *ssa.Slice:
					fmt.Printf("%s %s SLICE %s\n", p.Pos(x.Pos()), fname(fn), tm.term(x))
				case *ssa.TypeAssert:
					fmt.Printf("%s %s ASSERT commaok=%v %s\n", p.Pos(x.Pos()), fname(fn), x.CommaOk, tm.term(x.X))
				}
			}
		}
	}
}
