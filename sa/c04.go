package main

// C04 / C05 / C18 (parser part) — the dependency parser as a transition system.
// dependency.Parse is interpreted abstractly on a lazily revealed input string;
// the reachable blocked states form a finite automaton over byte classes.

import (
	"fmt"
	"go/constant"
	"go/types"
	"os"
	"sort"
	"strings"
	"time"
	"unicode"

	"golang.org/x/tools/go/ssa"
)

func init() {
	register("C04", checkC04)
}

type parserModel struct {
	alpha    *Alphabet
	ts       *tsys
	events   map[string]string // event -> witness input
	ops      map[string]bool   // operator strings stored
	nodes    int
	edges    int
	panics   []string
	nonterm  []string
	undec    []string
	stuck    map[string]int
	forward  bool
	curOther []string
}

func (pm *parserModel) word(syms []int) string {
	var b strings.Builder
	for _, s := range syms {
		if s < 0 {
			continue
		}
		m := pm.alpha.Members[s]
		c := m[0]
		// prefer a readable representative
		for _, x := range m {
			if x >= 'a' && x <= 'z' {
				c = x
				break
			}
		}
		b.WriteByte(c)
	}
	return b.String()
}

var traceAlpha *Alphabet

func traceWord(trace []string) string {
	var b strings.Builder
	for _, e := range trace {
		parts := strings.SplitN(e, ":", 2)
		if len(parts) < 2 || parts[1] == "END" {
			continue
		}
		s := parts[1]
		done := false
		if traceAlpha != nil {
			for c, n := range traceAlpha.Names {
				if n == s {
					m := traceAlpha.Members[c]
					r := m[0]
					for _, x := range m {
						if x >= 'a' && x <= 'z' {
							r = x
							break
						}
					}
					b.WriteByte(r)
					done = true
					break
				}
			}
		}
		if !done {
			b.WriteString(s)
		}
	}
	return b.String()
}

var parserModelCache = map[*Prog]*parserModel{}

// buildParserModel explores dependency.Parse.
// tsBudget bounds the exploration of the parser's transition system; past it the rules fall back to bounded checks.
const tsBudget = 120 * time.Second

func buildParserModel(p *Prog) (*parserModel, string) {
	if pm, ok := parserModelCache[p]; ok {
		return pm, ""
	}
	parse := p.Func("dependency", "Parse")
	if parse == nil {
		return nil, "dependency.Parse not found"
	}
	fns := reachableRepoFuncs(parse)
	// alphabet: every byte constant the parser compares against, the bytes of
	// its short string constants, and a few representatives of Policy's character sets
	cuts := map[byte]bool{0: true}
	for _, f := range fns {
		for _, b := range f.Blocks {
			for _, ins := range b.Instrs {
				for _, op := range ins.Operands(nil) {
					c, ok := (*op).(*ssa.Const)
					if !ok || c.Value == nil {
						continue
					}
					switch c.Value.Kind() {
					case constant.Int:
						if bt, ok := c.Type().Underlying().(*types.Basic); ok && (bt.Kind() == types.Uint8 || bt.Kind() == types.Int32 || bt.Kind() == types.UntypedRune) {
							if n, exact := constant.Int64Val(c.Value); exact && n >= 0 && n < 256 {
								cuts[byte(n)] = true
							}
						}
					case constant.String:
						s := constant.StringVal(c.Value)
						if len(s) <= 2 {
							for i := 0; i < len(s); i++ {
								cuts[s[i]] = true
							}
						}
					}
				}
			}
		}
	}
	for _, c := range []byte("<>=!${}[]()|,: \t\r\n-") {
		cuts[c] = true
	}
	// character-class predicates from package unicode: their boundaries inside
	// the byte range become cut points as well
	for _, f := range fns {
		for _, c := range allCalls(f) {
			n := calleeName(c.Common())
			if strings.HasPrefix(n, "unicode.Is") {
				for b := 0; b < 256; b++ {
					r := rune(b)
					if unicode.IsSpace(r) || unicode.IsDigit(r) != unicode.IsDigit(r+1) || unicode.IsLetter(r) != unicode.IsLetter(r+1) || unicode.IsSpace(r+1) {
						cuts[byte(b)] = true
					}
				}
			}
		}
	}
	var cl []byte
	for c := range cuts {
		cl = append(cl, c)
	}
	// The parser only tests input bytes for equality with constants (checked by
	// the interpreter: an ordering test on a coarse class is reported), so one
	// class for all other bytes is exact.
	alpha := NewAlphabetGroups(cl, map[string][]byte{})
	traceAlpha = alpha
	m := NewMachine(p, alpha)
	m.AbsAppend = true
	m.MaxExact = 2
	m.NoExactConcat = true
	m.StepLimit = 20000
	m.Curs = computeCursors(fns)
	m.ReadFields = readFields(fns)
	errT := types.Universe.Lookup("error").Type()
	nonNilErr := func(m *Machine, st *State, call *ssa.CallCommon, args []Val) ([]Val, bool) {
		return []Val{IfaceV{T: errT, V: "error"}}, true
	}
	installUnicodeModels(m)
	m.Hooks["errors.New"] = nonNilErr
	m.Hooks["fmt.Errorf"] = nonNilErr
	m.Hooks["strings.SplitN"] = func(m *Machine, st *State, call *ssa.CallCommon, args []Val) ([]Val, bool) {
		n, _ := args[2].(int64)
		var alts []Val
		for k := int64(1); k <= n && k <= 3; k++ {
			arr := &ArrayV{}
			for i := int64(0); i < k; i++ {
				arr.E = append(arr.E, AbsStr{})
			}
			id := st.alloc(types.NewArray(types.Typ[types.String], k), arr)
			alts = append(alts, SliceV{Obj: id, Len_: int(k), Cap: int(k)})
		}
		return alts, true
	}
	m.Hooks["strings.Split"] = m.Hooks["strings.SplitN"]
	m.Hooks["strings.Cut"] = func(m *Machine, st *State, call *ssa.CallCommon, args []Val) ([]Val, bool) {
		return []Val{&TupleV{E: []Val{AbsStr{}, AbsStr{}, true}}, &TupleV{E: []Val{cloneVal(args[0]), "", false}}}, true
	}
	pm := &parserModel{alpha: alpha, events: map[string]string{}, ops: map[string]bool{}, stuck: map[string]int{}}
	pm.forward = m.Curs.forward
	pm.curOther = m.Curs.other
	blank := map[int]bool{}
	for _, c := range []byte(" \t\r\n") {
		blank[alpha.Class[c]] = true
	}
	event := func(st *State, name string) {
		if _, ok := pm.events[name]; !ok {
			pm.events[name] = traceWord(st.Trace)
		}
	}
	m.OnConcat = func(st *State, site *ssa.BinOp, a, b Val) {
		if s, ok := b.(AbsStr); ok && s.Exact && len(s.Syms) == 1 && blank[s.Syms[0]] {
			event(st, "blank-appended:"+fname(site.Parent()))
		}
	}
	m.OnStore = func(st *State, site *ssa.Store, addr Ptr, v Val) {
		fa, ok := site.Addr.(*ssa.FieldAddr)
		if !ok {
			return
		}
		s := derefStruct(fa.X.Type())
		if s == nil || s.Field(fa.Field).Name() != "Operator" {
			return
		}
		switch x := v.(type) {
		case string:
			pm.ops[x] = true
		case AbsStr:
			if x.Exact {
				var b strings.Builder
				for _, c := range x.Syms {
					if by, single := alpha.Single(c); single {
						b.WriteByte(by)
					} else {
						b.WriteString(alpha.Names[c])
					}
				}
				pm.ops[b.String()] = true
			} else {
				pm.ops["<abstract>"] = true
			}
		}
	}
	m.OnAppend = func(st *State, site ssa.Instruction, slice Val, elems []Val) {
		for _, e := range elems {
			sv, ok := e.(*StructV)
			if !ok {
				continue
			}
			call := site.(*ssa.Call)
			et := call.Type().Underlying().(*types.Slice).Elem()
			es, ok := et.Underlying().(*types.Struct)
			if !ok {
				continue
			}
			tn := typeName(et)
			for i := 0; i < es.NumFields(); i++ {
				fn := es.Field(i).Name()
				switch fv := sv.F[i].(type) {
				case string:
					if fv == "" && fn == "Name" {
						event(st, "empty-name-pushed:"+tn)
					}
				case AbsStr:
					if fv.Exact && len(fv.Syms) == 0 && fn == "Name" {
						event(st, "empty-name-pushed:"+tn)
					}
				case SliceV:
					if fv.Abs && !fv.Many && (fn == "Possibilities" || fn == "Stages") {
						event(st, "empty-list-pushed:"+tn+"."+fn)
					}
				case nilV:
					if fn == "Possibilities" || fn == "Stages" {
						event(st, "empty-list-pushed:"+tn+"."+fn)
					}
				}
			}
		}
	}
	pa := p.Func("dependency", "ParseArch")
	if pa != nil {
		inner := m.Hooks[pa.String()]
		_ = inner
		m.Hooks[pa.String()] = func(m *Machine, st *State, call *ssa.CallCommon, args []Val) ([]Val, bool) {
			switch x := args[0].(type) {
			case string:
				if x == "" {
					event(st, "empty-arch-name")
				}
			case AbsStr:
				if x.Exact && len(x.Syms) == 0 {
					event(st, "empty-arch-name")
				}
			}
			return nil, false // interpret the real function
		}
	}
	// exploration
	ts := &tsys{nsym: alpha.N(), names: alpha.Names}
	index := map[string]int32{}
	var states []*State
	classify := func(s *State) (int32, bool) { // returns node id or terminal, and whether new
		switch s.Status {
		case stRet:
			tv, ok := s.Ret.(*TupleV)
			if !ok || len(tv.E) != 2 {
				pm.undec = append(pm.undec, "Parse does not return (value, error)")
				return tsUndec, false
			}
			_, errNil := tv.E[1].(nilV)
			_, valNil := tv.E[0].(nilV)
			if errNil {
				if valNil {
					event(s, "nil-result-without-error")
				}
				return tsAccept, false
			}
			if !valNil {
				event(s, "value-returned-with-error")
			}
			return tsReject, false
		case stPanic:
			pm.panics = append(pm.panics, fmt.Sprintf("%s on input starting %q", s.Msg, traceWord(s.Trace)))
			return tsPanic, false
		case stStuck:
			if s.Notes["nonterm"] {
				pm.nonterm = append(pm.nonterm, fmt.Sprintf("%s on input starting %q", s.Msg, traceWord(s.Trace)))
			} else {
				pm.stuck[s.Msg]++
				if len(pm.undec) < 5 {
					pm.undec = append(pm.undec, fmt.Sprintf("%s (input starting %q)", s.Msg, traceWord(s.Trace)))
				}
			}
			return tsUndec, false
		}
		for k := range s.Notes {
			if k == "int-to-string conversion of an input byte" {
				event(s, "int-to-string")
			}
		}
		key := m.Key(s)
		if id, ok := index[key]; ok {
			return id, false
		}
		id := int32(len(states))
		index[key] = id
		states = append(states, s)
		ts.succ = append(ts.succ, make([][]int32, alpha.N()+1))
		return id, true
	}
	if base := initState(m, "dependency"); base.Status != stStuck {
		m.Base = base // lookup tables filled by the package initialisers
	}
	st0 := m.NewState(parse, []Val{TapeStr{T: 0}}, 1)
	var work []int32
	for _, s := range m.Run(st0) {
		id, isNew := classify(s)
		ts.init = append(ts.init, id)
		if isNew {
			work = append(work, id)
		}
	}
	maxStates := 400000
	deq := 0
	started := time.Now()
	for len(work) > 0 {
		id := work[0]
		work = work[1:]
		if len(states) > maxStates {
			pm.undec = append(pm.undec, fmt.Sprintf("state cap %d reached", maxStates))
			break
		}
		if time.Since(started) > tsBudget {
			// today's parser is explored in a few seconds (under 5 000 states)
			pm.undec = append(pm.undec, fmt.Sprintf("exploration budget of %v used up at %d states", tsBudget, len(states)))
			break
		}
		base := states[id]
		deq++
		if os.Getenv("GDSA_DEBUG") != "" && deq%500 == 0 {
			fmt.Fprintf(os.Stderr, "dequeued=%d states=%d work=%d edges=%d\n", deq, len(states), len(work), pm.edges)
			if deq == 3000 {
				fmt.Fprintf(os.Stderr, "KEY %s\n\n", m.Key(base.Clone()))
			}
		}
		for sym := -1; sym < alpha.N(); sym++ {
			s := base.Clone()
			name := "END"
			if sym >= 0 {
				name = alpha.Names[sym]
			}
			s.Reveal(sym, name)
			for _, o := range m.Run(s) {
				nid, isNew := classify(o)
				ts.succ[id][sym+1] = append(ts.succ[id][sym+1], nid)
				pm.edges++
				if isNew {
					work = append(work, nid)
				}
			}
		}
		// the explored state is no longer needed in full; keep only its trace for witnesses
		states[id] = nil
	}
	pm.ts = ts
	pm.nodes = len(states)
	parserModelCache[p] = pm
	return pm, ""
}

// ---- Policy 7.1 languages over the parser's byte classes ---------------------------------

type depLang struct {
	a *Alphabet
}

func (d depLang) cls(bytes string) []int {
	seen := map[int]bool{}
	var out []int
	for i := 0; i < len(bytes); i++ {
		c := d.a.Class[bytes[i]]
		if !seen[c] {
			seen[c] = true
			out = append(out, c)
		}
	}
	sort.Ints(out)
	return out
}
func (d depLang) sym(bytes string) *rx { return rSym(d.cls(bytes)...) }
func (d depLang) lit(s string) *rx {
	var parts []*rx
	for i := 0; i < len(s); i++ {
		parts = append(parts, d.sym(s[i:i+1]))
	}
	return rCat(parts...)
}
func (d depLang) anyExcept(bytes string) *rx {
	ex := map[int]bool{}
	for _, c := range d.cls(bytes) {
		ex[c] = true
	}
	var out []int
	for c := 0; c < d.a.N(); c++ {
		if !ex[c] && c != d.a.Class[0] {
			out = append(out, c)
		}
	}
	return rSym(out...)
}

const lower = "abcdefghijklmnopqrstuvwxyz"
const digits = "0123456789"

func (d depLang) build() (valid *rx, malformed map[string]*rx) {
	W := d.sym(" \t\n")
	Ws := rStar(W)
	Wp := rPlus(W)
	nameC := d.sym(lower + digits + "+.-")
	NAME := rCat(d.sym(lower+digits), rStar(nameC))
	ANAME := rCat(d.sym(lower+digits), rStar(d.sym(lower+digits+"-")))
	PNAME := rCat(d.sym(lower+digits), rStar(d.sym(lower+digits+"-")))
	VCHAR := d.sym(lower + "ABCDEFGHIJKLMNOPQRSTUVWXYZ" + digits + ".+~:-")
	op := rAlt(d.lit("<<"), d.lit("<="), d.lit("="), d.lit(">="), d.lit(">>"))
	ver := rCat(d.lit("("), Ws, op, Ws, rPlus(VCHAR), Ws, d.lit(")"))
	posList := rCat(ANAME, rStar(rCat(Wp, ANAME)))
	negList := rCat(d.lit("!"), ANAME, rStar(rCat(Wp, d.lit("!"), ANAME)))
	archs := rCat(d.lit("["), Ws, rAlt(posList, negList), Ws, d.lit("]"))
	prof := rCat(d.lit("<"), Ws, rOpt(d.lit("!")), PNAME, rStar(rCat(Wp, rOpt(d.lit("!")), PNAME)), Ws, d.lit(">"))
	profs := rStar(rCat(Wp, prof))
	// at most one version and one architecture clause, in either order, profile groups anywhere
	groups := rCat(profs, rOpt(rAlt(
		rCat(Wp, ver, profs, rOpt(rCat(Wp, archs, profs))),
		rCat(Wp, archs, profs, rOpt(rCat(Wp, ver, profs))),
	)))
	// a version clause may follow the name (or qualifier) without a blank
	groupsNoBlank := rCat(ver, profs, rOpt(rCat(Wp, archs, profs)))
	qual := rOpt(rCat(d.lit(":"), ANAME))
	pkg := rCat(NAME, qual, rAlt(groups, groupsNoBlank))
	subst := rCat(d.lit("${"), rPlus(d.sym(lower+digits+":-ABCDEFGHIJKLMNOPQRSTUVWXYZ")), d.lit("}"))
	alt := rAlt(pkg, subst)
	rel := rCat(alt, rStar(rCat(Ws, d.lit("|"), Ws, alt)))
	field := rCat(Ws, rOpt(rCat(rel, rStar(rCat(Ws, d.lit(","), Ws, rel)), rOpt(rCat(Ws, d.lit(","))))), Ws)
	any := d.anyExcept("")
	mal := map[string]*rx{
		"unterminated-arch-list": rCat(NAME, Wp, d.lit("["), rStar(d.anyExcept("]"))),
		"unterminated-version":   rCat(NAME, Ws, d.lit("("), rStar(d.anyExcept(")"))),
		"unterminated-substvar":  rCat(d.lit("${"), rStar(d.anyExcept("}"))),
		"unterminated-profile":   rCat(NAME, Wp, d.lit("<"), rStar(d.anyExcept(">"))),
		"mixed-negation":         rCat(NAME, Wp, d.lit("["), Ws, rAlt(rCat(ANAME, Wp, d.lit("!"), ANAME), rCat(d.lit("!"), ANAME, Wp, ANAME)), rStar(any)),
		"second-version-clause":  rCat(NAME, Ws, ver, Ws, ver, rStar(any)),
		"second-arch-clause":     rCat(NAME, Wp, archs, Ws, archs, rStar(any)),
		"unknown-operator":       rCat(NAME, Ws, d.lit("("), Ws, d.badOp(), rStar(any)),
		"two-names-no-separator": rCat(NAME, Wp, NAME, rStar(any)),
		"name-after-substvar":    rCat(subst, Wp, NAME, rStar(any)),
		"clause-after-substvar":  rCat(subst, Ws, rAlt(ver, archs, prof), rStar(any)),
		"double-negated-profile": rCat(NAME, Wp, d.lit("<"), Ws, d.lit("!!"), rStar(any)),
		"substvar-without-brace": rCat(d.lit("$"), d.anyExcept("{"), rStar(any)),
		"two-numbers-in-version": rCat(NAME, Ws, d.lit("("), Ws, op, Ws, rPlus(VCHAR), Wp, VCHAR, rStar(any)),
	}
	return field, mal
}

// badOp: two symbols that are not a Policy operator and do not start with '='
// (an '=' followed by anything is the operator '=' and a version).
func (d depLang) badOp() *rx {
	valid := map[string]bool{"<<": true, "<=": true, ">=": true, ">>": true}
	first := "<>!~" + lower
	second := "<>=!~ " + lower + digits
	var alts []*rx
	for i := 0; i < len(first); i++ {
		for j := 0; j < len(second); j++ {
			s := string([]byte{first[i], second[j]})
			if !valid[s] {
				alts = append(alts, d.lit(s))
			}
		}
	}
	return rAlt(alts...)
}

func checkC04(p *Prog, rp *Report) {
	defer stateRule(p, rp, "C04-STATE", p.Func("dependency", "Parse"), p.Method("dependency", "Dependency", "UnmarshalControl"), p.Func("dependency", "ParseArch"))
	rp.Explanation = "dependency.Parse is interpreted abstractly on a lazily revealed input string of unbounded length (bytes abstracted to the classes induced by every constant the parser compares with; names kept as empty/non-empty; slices as empty/non-empty; the cursor relative): the reachable states form a finite transition system. C04-LANG: on that automaton, every field of a conservative Policy 7.1 grammar is accepted on all runs (inclusion), and fourteen malformed classes (unterminated '[', '(', '${', '<'; mixed negation; second version / architecture clause; unknown operator; two names without separator; name or clause after a substvar; '!!'; '$' not followed by '{'; two numbers in one version clause) intersect the accepted language in nothing; failures come with a shortest witness string. C04-TOKENS: no blank byte (space, tab, CR, LF) is ever appended to a name, qualifier, version number, architecture or profile name; no architecture with an empty name, no empty profile, profile group or relation is stored. C04-TOKENS also holds two concrete obligations: a field with bytes >= 0x80 (0x85 and 0xA0 among them, which are white space as code points but not as bytes) inside every token kind parses to exactly those tokens; decoding into a Dependency that already holds a value replaces it and leaves copies of the earlier value alone. C04-OPS: the operators that can be stored are exactly = << <= >= >>, the set SatisfiedBy decides. C04-ERR: every error in the parser's call tree is returned; Parse returns no value with an error. C04-TOTAL: no panic and no loop that stops consuming input is reachable."
	rp.NotDecided = "that every accepted valid field yields exactly the denoted AST (the effect abstraction tracks which token a byte goes to only through the TOKENS events, not the full tree); bytes >= 0x80 and NUL are in the alphabet but not in the grammar."
	rp.Trusted = []string{"go/types, go/ssa", "soundness of the lazy-tape abstraction (tape bytes only compared with constants; cursor only moves forward: checked per run)", "the Policy 7.1 languages built in c04.go"}
	pm, why := buildParserModel(p)
	lang := rp.Rule("C04-LANG", "accepted language contains the Policy grammar and excludes the malformed classes", 15)
	parse := p.Func("dependency", "Parse")
	if parse == nil {
		lang.undecided("dependency.Parse", "", "function not found")
		return
	}
	pos := p.Pos(parse.Pos())
	if os.Getenv("GDSA_FORCE_BOUNDED") != "" {
		c04Bounded(p, rp, lang, pos, "forced by GDSA_FORCE_BOUNDED")
		c04Err(p, rp, parse)
		return
	}
	if pm == nil {
		c04Bounded(p, rp, lang, pos, why)
		c04Err(p, rp, parse)
		return
	}
	rp.Extra["automaton_states"] = pm.nodes
	rp.Extra["automaton_edges"] = pm.edges
	rp.Extra["alphabet_classes"] = pm.alpha.N()
	if len(pm.undec) > 0 || !pm.forward {
		msg := "cursor is not forward-only: " + strings.Join(pm.curOther, "; ")
		if len(pm.undec) > 0 {
			msg = pm.undec[0]
		}
		c04Bounded(p, rp, lang, pos, msg)
		c04Err(p, rp, parse)
		return
	}
	d := depLang{pm.alpha}
	valid, mal := d.build()
	vn := compileRx(valid)
	res := findWord(vn, pm.ts, func(v map[int32]bool) bool {
		for k := range v {
			if k != tsAccept {
				return true
			}
		}
		return len(v) == 0
	}, 2000000)
	switch {
	case res.Found:
		lang.bad("valid-fields-accepted", pos, fmt.Sprintf("the well-formed field %q is rejected (or not accepted on every run)", pm.word(res.Witness)), nil)
	case res.Detail != "":
		lang.undecided("valid-fields-accepted", pos, res.Detail)
	default:
		lang.ok("valid-fields-accepted", pos, fmt.Sprintf("inclusion of the Policy grammar proved on the automaton (%d product states)", res.Explored))
	}
	var names []string
	for k := range mal {
		names = append(names, k)
	}
	sort.Strings(names)
	for _, k := range names {
		mn := compileRx(mal[k])
		res := findWord(mn, pm.ts, func(v map[int32]bool) bool { return v[tsAccept] }, 2000000)
		switch {
		case res.Found:
			lang.bad("malformed:"+k, pos, fmt.Sprintf("the malformed field %q is accepted", pm.word(res.Witness)), nil)
		case res.Detail != "":
			lang.undecided("malformed:"+k, pos, res.Detail)
		default:
			lang.ok("malformed:"+k, pos, fmt.Sprintf("no accepted word in this class (%d product states)", res.Explored))
		}
	}

	tok := rp.Rule("C04-TOKENS", "no blank inside a token; no empty token stored", 1)
	var evs []string
	for e := range pm.events {
		evs = append(evs, e)
	}
	sort.Strings(evs)
	nbad := 0
	for _, e := range evs {
		w := pm.events[e]
		switch {
		case strings.HasPrefix(e, "blank-appended:"):
			fn := strings.TrimPrefix(e, "blank-appended:")
			if strings.Contains(fn, "Substvar") || strings.Contains(fn, "substvar") {
				continue // ${...} is taken verbatim up to the closing brace (one line of reason: the substvar name is opaque text)
			}
			nbad++
			tok.bad("blank-in-token:"+fn, pos, fmt.Sprintf("a blank (space, tab, CR or LF) becomes part of a token in %s, e.g. after reading %q", fn, w), nil)
		case e == "empty-arch-name":
			nbad++
			tok.bad("empty-architecture", pos, fmt.Sprintf("an architecture with an empty name is parsed, e.g. after reading %q", w), nil)
		case strings.HasPrefix(e, "empty-name-pushed:") && !strings.Contains(e, "Possibility"):
			nbad++
			tok.bad(e, pos, fmt.Sprintf("an entry with an empty name is stored, e.g. after reading %q", w), nil)
		case e == "nil-result-without-error" || e == "value-returned-with-error":
			nbad++
			tok.bad(e, pos, fmt.Sprintf("Parse returns %s, e.g. on %q", strings.ReplaceAll(e, "-", " "), w), nil)
		}
	}
	if nbad == 0 {
		tok.ok("tokens", pos, fmt.Sprintf("%d automaton states explored: no blank is ever appended to a token, no empty architecture/profile name is stored; value xor error", pm.nodes))
	}

	if hp, und := highByteProbe(p); und != "" {
		tok.undecided("high-bytes", pos, und)
	} else {
		fillProblems(tok, "high-bytes", pos, hp, "a field with bytes >= 0x80 (0x85 and 0xA0 among them) inside every token kind parses to exactly those tokens")
	}
	if rp2, und := receiverReuse(p); und != "" {
		tok.undecided("receiver-reuse", pos, und)
	} else {
		fillProblems(tok, "receiver-reuse", pos, rp2, "decoding into a Dependency that already holds a value replaces it and leaves earlier copies alone")
	}

	ops := rp.Rule("C04-OPS", "storable operators are exactly the five Policy operators", 1)
	var got []string
	for o := range pm.ops {
		got = append(got, o)
	}
	sort.Strings(got)
	want := []string{"<<", "<=", "=", ">=", ">>"}
	ops.check(strings.Join(got, " ") == strings.Join(want, " "), "dependency.VersionRelation.Operator", pos, "stored operators: "+strings.Join(got, " "), fmt.Sprintf("the parser can store the operators %v, Policy has %v", got, want))

	tot := rp.Rule("C04-TOTAL", "no panic, no input-independent loop in the parser", 1)
	switch {
	case len(pm.panics) > 0:
		tot.bad("dependency.Parse", pos, "the parser can panic: "+pm.panics[0], pm.panics)
	case len(pm.nonterm) > 0:
		tot.bad("dependency.Parse", pos, "the parser can loop without consuming input: "+pm.nonterm[0], pm.nonterm)
	default:
		tot.ok("dependency.Parse", pos, fmt.Sprintf("%d states, %d transitions: every run between two input symbols is finite, no panic state", pm.nodes, pm.edges))
	}

	c04Err(p, rp, parse)
	if rp.Tier == "thorough" {
		// cross-check of the transition system by plain interpretation on exact fields
		fam := rp.Rule("C04-FAMILY", "Parse on a family of exact fields agrees with the languages and invariants", 1)
		b := parserBounded(p)
		if b.undecided != "" {
			fam.undecided("dependency.Parse", pos, b.undecided)
		} else {
			var all []string
			for _, v := range b.langBy {
				all = append(all, v...)
			}
			all = append(append(append(all, b.tokens...), b.total...), b.noempty...)
			sort.Strings(all)
			fillProblems(fam, "dependency.Parse", pos, all, fmt.Sprintf("%d well-formed and %d malformed fields generated from the grammar, %d short strings: verdicts, parsed trees and termination as required", b.nValid, b.nMal, b.nSweep))
		}
	}
}

func c04Err(p *Prog, rp *Report, parse *ssa.Function) {
	{
		nm := rp.Rule("C04-NAMES", "package, architecture and profile names of 15 to 257 bytes are accepted and stored whole", 1)
		pos := ""
		if fn := p.Func("dependency", "Parse"); fn != nil {
			pos = p.Pos(fn.Pos())
		}
		fillProblems(nm, "dependency.Parse", pos, longNameRows(p), "15 lengths around 16, 32, 64, 128 and 256 bytes: the field parses to the four alternatives with the long names intact")
	}
	er := rp.Rule("C04-ERR", "errors in the parser's call tree are returned", 1)
	for _, f := range reachableRepoFuncs(parse) {
		for _, s := range errDiscipline(f, func(n string, c *ssa.Call) bool {
			callee := c.Call.StaticCallee()
			return callee != nil && inRepo(callee)
		}) {
			key := fname(f) + ":err(" + strings.TrimPrefix(s.Callee, "dependency.") + ")"
			er.check(s.Status == "returned" || s.Status == "checked", key, p.Pos(s.Call.Pos()), "error "+s.Status, "the error of "+s.Callee+" is "+s.Status+": "+s.Detail)
		}
	}
}
