package main

// C07 — control-file reader. (*ParagraphReader).Next is interpreted abstractly
// with the buffered reader replaced by an oracle that plays a script of line
// kinds; the result of every script is compared with a deb822 reference model.

import (
	"fmt"
	"go/types"
	"sort"
	"strings"

	"golang.org/x/tools/go/ssa"
)

func init() { register("C07", checkC07) }

type refPara struct {
	order  []string
	values map[string]string
}

// refNext is the deb822 reference: consumes lines from pos, returns the next
// paragraph, or err ("EOF" / "bad").
func refNext(lines []string, pos int) (*refPara, string, int) {
	p := &refPara{values: map[string]string{}}
	last := ""
	for {
		if pos >= len(lines) {
			if len(p.order) > 0 {
				return p, "", pos
			}
			return nil, "EOF", pos
		}
		line := lines[pos]
		pos++
		if !strings.HasSuffix(line, "\n") {
			line += "\n" // a final line without newline is still a line
		}
		if line == "\n" || line == "\r\n" {
			if len(p.order) == 0 {
				continue
			}
			return p, "", pos
		}
		if strings.HasPrefix(line, "#") {
			continue
		}
		if line[0] == ' ' || line[0] == '\t' {
			if len(p.order) == 0 {
				return nil, "bad", pos
			}
			c := strings.TrimRight(line[1:], " \t\r\n\v\f")
			if c == "." {
				c = ""
			}
			v := p.values[last]
			switch {
			case v == "":
				v = c + "\n"
			case !strings.HasSuffix(v, "\n"):
				v = v + "\n" + c + "\n"
			default:
				v = v + c + "\n"
			}
			p.values[last] = v
			continue
		}
		i := strings.Index(line, ":")
		if i < 0 {
			return nil, "bad", pos
		}
		last = strings.TrimSpace(line[:i])
		val := strings.TrimSpace(line[i+1:])
		if _, dup := p.values[last]; !dup {
			p.order = append(p.order, last)
		}
		p.values[last] = val
	}
}

var lineKinds = []string{
	"Alpha: one\n", "X-Cnf_Visible.Pkg+name:two\n", "Gamma : x:y  \n", "Alpha: again\n", "Empty:\n", "CR: v\r\n",
	" cont\n", " .\n", "\tTabbed\n", "   indented  \n", "  .\n", " \n", " crcont\r\n", " . \n",
	"\n", "\r\n", "# comment\n", "NoColonHere\n", " # text of a folded value\n", ": no name\n",
	"ALPHA: recased\n",
}

// readerMachine builds a machine whose bufio reader plays `lines`.
func readerMachine(p *Prog, lines []string) *Machine {
	m := NewMachine(p, nil)
	m.CycleCheck = true
	installStringModels(m)
	installFuncModels(m)
	installUnicodeModels(m)
	installIOGlobals(m)
	installLineReader(m, func(st *State) (string, bool) {
		n := 0
		for _, e := range st.Effects {
			if e == "read" {
				n++
			}
		}
		if n >= len(lines) {
			return "", false // (reads past the end leave no trace: a loop that keeps reading there changes nothing)
		}
		st.Effects = append(st.Effects, "read")
		return lines[n], true
	})
	m.PeekRest = func(st *State) string {
		n := 0
		for _, e := range st.Effects {
			if e == "read" {
				n++
			}
		}
		if n >= len(lines) {
			return ""
		}
		return strings.Join(lines[n:], "")
	}
	return m
}

func paraOf(st *State, p *Prog, v Val) (*refPara, string) {
	pp, ok := v.(Ptr)
	if !ok {
		return nil, "not a pointer"
	}
	pv, ok := st.load(pp)
	sv, ok2 := pv.(*StructV)
	if !ok || !ok2 {
		return nil, "not a paragraph"
	}
	pt := p.Named("control", "Paragraph")
	out := &refPara{values: map[string]string{}}
	elems, _, ok := (&Machine{}).sliceElems(st, sv.F[fieldIndex(structOf(pt), "Order")])
	if !ok {
		return nil, "Order is not an exact slice"
	}
	for _, e := range elems {
		s, ok := e.(string)
		if !ok {
			return nil, "Order element is not an exact string"
		}
		out.order = append(out.order, s)
	}
	mv, ok := sv.F[fieldIndex(structOf(pt), "Values")].(MapV)
	if !ok {
		return nil, "Values is not a map"
	}
	mo := st.Heap[mv.Obj].V.(*MapObjV)
	for i := range mo.K {
		k, ok1 := mo.K[i].(string)
		val, ok2 := mo.V[i].(string)
		if !ok1 || !ok2 {
			return nil, "Values holds non-exact strings"
		}
		out.values[k] = val
	}
	return out, ""
}

func (a *refPara) String() string {
	var parts []string
	for _, k := range a.order {
		parts = append(parts, fmt.Sprintf("%s=%q", k, a.values[k]))
	}
	extra := []string{}
	for k := range a.values {
		found := false
		for _, o := range a.order {
			if o == k {
				found = true
			}
		}
		if !found {
			extra = append(extra, fmt.Sprintf("UNLISTED %q=%q", k, a.values[k]))
		}
	}
	sort.Strings(extra)
	return "[" + strings.Join(append(parts, extra...), " ") + "]"
}

func invariantOK(a *refPara) string {
	seen := map[string]bool{}
	for _, k := range a.order {
		if seen[k] {
			return fmt.Sprintf("field %q is listed twice in Order", k)
		}
		seen[k] = true
		if _, ok := a.values[k]; !ok {
			return fmt.Sprintf("field %q is listed in Order but has no value", k)
		}
	}
	for k := range a.values {
		if !seen[k] {
			return fmt.Sprintf("Values has the key %q which Order does not list", k)
		}
	}
	return ""
}

func checkC07(p *Prog, rp *Report) {
	defer stateRule(p, rp, "C07-STATE", p.Func("control", "NewParagraphReader"), p.Method("control", "ParagraphReader", "Next"), p.Method("control", "ParagraphReader", "All"))
	rp.Explanation = "C07-LINES: (*ParagraphReader).Next is interpreted abstractly with the buffered reader replaced by an oracle playing every script of up to 3 lines over 21 line kinds (field lines with/without blanks, extra colons, empty value, repeated name, CRLF; continuation lines with space/tab, ' .', indented dot, inner indentation, trailing blanks, whitespace only, text starting with '#'; blank lines LF/CRLF; comment; line without colon), each also with the final newline missing, calling Next until end of input; paragraphs and errors are compared with a deb822 reference model (scripts of length 3 reach every combination of reader state class x line kind: no paragraph yet / last field single-line / last field folded). C07-INV: every paragraph returned on any script lists exactly its fields, each once. C07-ALL: All() returns the paragraphs until io.EOF, or an empty list with the first other error. C07-ONE: only Next (and the clearsign decoder before it) reads from the reader; All, decode, decodeSlice and Decoder.Decode obtain paragraphs through Next. C07-LONGLINES: lines are read with ReadString('\\n') (no length limit)."
	rp.NotDecided = "equality with the reference for documents whose lines fall outside the 18 kinds in a way the kinds do not represent (the reader's decisions depend only on: first byte, presence of ':', content after trimming being \".\" or empty); bufio.Reader itself."
	rp.Trusted = []string{"go/types, go/ssa", "bufio.Reader.ReadString contract (data + io.EOF on a final partial line)", "the deb822 reference model in c07.go; convention: an empty first line is not part of a folded value"}

	next := p.Method("control", "ParagraphReader", "Next")
	lines := rp.Rule("C07-LINES", "Next agrees with the deb822 reference on every script of line kinds", 1)
	inv := rp.Rule("C07-INV", "returned paragraphs list exactly their fields, each once", 1)
	if next == nil {
		lines.bad("control.ParagraphReader.Next", "", "method not found", nil)
		return
	}
	pos := p.Pos(next.Pos())
	prT := p.Named("control", "ParagraphReader")
	nscripts := 0
	var mismatch, invProblem, undec string
	var scripts [][]string
	for _, a := range lineKinds {
		scripts = append(scripts, []string{a})
		for _, b := range lineKinds {
			scripts = append(scripts, []string{a, b})
			for _, c := range lineKinds {
				scripts = append(scripts, []string{a, b, c})
				if rp.Tier == "thorough" { // every sequence of four line kinds as well
					for _, d := range lineKinds {
						scripts = append(scripts, []string{a, b, c, d})
					}
				}
			}
		}
	}
	scripts = append(scripts, []string{}, []string{"A: 1\n", " x\n", " y\n", " .\n", "B: 2\n", "\n", "\n", "C: 3\n"})
	// lines that end in a letter whose last UTF-8 byte, taken for a rune of its own, is white space
	// (à = C3 A0, Å = C3 85): trimming works on runes
	scripts = append(scripts,
		[]string{"Description: voil\u00e0\n", " d\u00e9j\u00e0\n", " \u00c5\n", " \u00c5ngstr\u00f6m \u00c5 \t\n", "Title: \u00c5\n"})
	// lines far longer than any reader buffer
	long := strings.Repeat("lib-x (>= 1.0), ", 600)
	scripts = append(scripts, []string{"Package: p\n", "Depends: " + long + "\n", " " + long + "\n", "Section: s\n", "\n", "Package: q\n"})
	// field, continuation and comment lines around the size of a reader buffer (4096 bytes) and beyond
	for _, n := range []int{4087, 4088, 4089, 4095, 4096, 4097, 8192, 9000} {
		x := strings.Repeat("x", n)
		scripts = append(scripts,
			[]string{"Alpha: " + x + "\n", "Beta: two\n"},
			[]string{"Alpha: one\n", " " + x + "\n", "Beta: two\n"},
			[]string{"#" + x + "\n", "Alpha: one\n"},
			[]string{"Alpha: one\n", "#" + x + "\n", "Beta: two\n"},
			[]string{"Alpha: " + x})
	}
	runScript := func(script []string) {
		nscripts++
		m := readerMachine(p, script)
		st := initState(m, "control")
		if st.Status == stStuck {
			if undec == "" {
				undec = st.Msg
			}
			return
		}
		rid := st.alloc(types.Typ[types.Int], OpaqueV{"bufio"})
		prID := st.alloc(prT, mkStruct(prT, map[string]Val{roleField(prT, "*bufio.Reader", "reader"): Ptr{Obj: rid}}))
		refPos := 0
		// paragraphs handed out earlier must not change when the next one is read
		type handed struct {
			v    Val
			then string
		}
		var earlier []handed
		defer func() {
			for i, h := range earlier {
				now, why := paraOf(st, p, h.v)
				if why == "" && now.String() != h.then && invProblem == "" {
					invProblem = fmt.Sprintf("input %q: paragraph %d was returned as %s and reads %s after later calls of Next: the paragraphs share storage", strings.Join(script, ""), i+1, h.then, now)
				}
			}
		}()
		for call := 0; call < 6; call++ {
			st.Status = stRun
			st.push(next, []Val{Ptr{Obj: prID}}, nil)
			out := m.Run(st)
			if len(out) != 1 || out[0].Status != stRet {
				if undec == "" {
					undec = fmt.Sprintf("script %q: %s", script, retDesc(out))
				}
				return
			}
			tv, isTuple := st.Ret.(*TupleV)
			if !isTuple {
				if undec == "" {
					undec = fmt.Sprintf("script %q: Next returned %s (state %s, %d frames left)", script, fmtVal(st.Ret, func(i int) string { return fmt.Sprint(i) }), retDesc(out), len(st.Frames))
				}
				return
			}
			want, wantErr, np := refNext(script, refPos)
			refPos = np
			gotErr := ""
			switch e := tv.E[1].(type) {
			case nilV:
			case IfaceV:
				if e.V == "io.EOF" {
					gotErr = "EOF"
				} else {
					gotErr = "bad"
				}
			default:
				gotErr = "bad"
			}
			if gotErr != wantErr {
				if mismatch == "" {
					mismatch = fmt.Sprintf("input %q, call %d of Next: result error %q, the deb822 reference says %q", strings.Join(script, ""), call+1, gotErr, wantErr)
				}
				return
			}
			if gotErr != "" {
				if _, isNil := tv.E[0].(nilV); !isNil && invProblem == "" {
					invProblem = fmt.Sprintf("input %q: a paragraph is returned together with an error", strings.Join(script, ""))
				}
				return
			}
			got, why := paraOf(st, p, tv.E[0])
			if why != "" {
				if undec == "" {
					undec = fmt.Sprintf("script %q: %s", script, why)
				}
				return
			}
			earlier = append(earlier, handed{tv.E[0], got.String()})
			if iv := invariantOK(got); iv != "" && invProblem == "" {
				invProblem = fmt.Sprintf("input %q: %s", strings.Join(script, ""), iv)
			}
			if got.String() != want.String() && mismatch == "" {
				mismatch = fmt.Sprintf("input %q, paragraph %d: reader gives %s, the deb822 reference says %s", strings.Join(script, ""), call+1, got, want)
			}
		}
	}
	for _, sc := range scripts {
		runScript(sc)
		if len(sc) > 0 && strings.HasSuffix(sc[len(sc)-1], "\n") && sc[len(sc)-1] != "\n" {
			// the same input without its final newline
			v := append([]string(nil), sc...)
			v[len(v)-1] = strings.TrimSuffix(strings.TrimSuffix(v[len(v)-1], "\n"), "\r")
			if v[len(v)-1] != "" {
				runScript(v)
			}
		}
		if undec != "" {
			break
		}
	}
	rp.Extra["scripts"] = nscripts
	switch {
	case undec != "":
		lines.undecided("control.ParagraphReader.Next", pos, undec)
		inv.undecided("control.ParagraphReader.Next", pos, undec)
	default:
		lines.check(mismatch == "", "control.ParagraphReader.Next", pos, fmt.Sprintf("%d scripts (every sequence of up to %d of 21 line kinds, with and without the final newline), all calls of Next until end of input agree with the reference", nscripts, map[bool]int{false: 3, true: 4}[rp.Tier == "thorough"]), mismatch)
		inv.check(invProblem == "", "control.ParagraphReader.Next", pos, fmt.Sprintf("invariant holds for every paragraph returned on %d scripts, malformed ones included", nscripts), invProblem)
	}

	// C07-NEW: through the constructor (which peeks at the first bytes to recognise a clearsigned document): short
	// and empty documents, and a longer one, read with Next until the end
	{
		nw := rp.Rule("C07-NEW", "NewParagraphReader on plain input of any length, then Next: the paragraphs of the input", 1)
		ctor := p.Func("control", "NewParagraphReader")
		if ctor == nil {
			nw.bad("control.NewParagraphReader", "", "function not found", nil)
		} else {
			var problems []string
			undecided := ""
			docs := [][]string{{"A: b\n"}, {"A: b"}, {}, {"\n"}, {"A:\n"}, {"Alpha: one\n", "\n", "Beta: two\n"}, {"# c\n", "Package: a-long-enough-first-line\n", " more\n"},
				// an apt sources stanza with its key embedded: armor lines inside a folded value are data
				{"Types: deb\n", "URIs: https://example.org/debian\n", "Signed-By:\n", " -----BEGIN PGP PUBLIC KEY BLOCK-----\n", " .\n", " mDMEY1\n", " -----END PGP PUBLIC KEY BLOCK-----\n"},
				{"\n", "\n", "Note: see -----BEGIN PGP SIGNED MESSAGE----- below\n", " -----BEGIN PGP SIGNATURE-----\n"}}
			for _, doc := range docs {
				m := readerMachine(p, doc)
				m.Hooks["bufio.NewReader"] = func(m *Machine, st *State, call *ssa.CallCommon, args []Val) ([]Val, bool) {
					id := st.alloc(types.Typ[types.Int], OpaqueV{"bufio"})
					return []Val{Ptr{Obj: id}}, true
				}
				// a constructor that takes one of these plain documents for a clearsigned one reads it whole and finds
				// no signed message in it (none has "-----BEGIN PGP SIGNED MESSAGE-----" at the start of a line)
				readAll := func(m *Machine, st *State, call *ssa.CallCommon, args []Val) ([]Val, bool) {
					return []Val{&TupleV{E: []Val{byteSliceVal(st, []byte(m.PeekRest(st))), nilV{}}}}, true
				}
				m.Hooks["io/ioutil.ReadAll"] = readAll
				m.Hooks["io.ReadAll"] = readAll
				m.Hooks["golang.org/x/crypto/openpgp/clearsign.Decode"] = func(m *Machine, st *State, call *ssa.CallCommon, args []Val) ([]Val, bool) {
					return []Val{&TupleV{E: []Val{nilV{}, args[0]}}}, true
				}
				st := initState(m, "control")
				if st.Status == stStuck {
					undecided = st.Msg
					break
				}
				st.Status = stRun
				st.push(ctor, []Val{IfaceV{T: types.NewPointer(types.Typ[types.Int]), V: OpaqueV{"the-input"}}, nilV{}}, nil)
				out := m.Run(st)
				if len(out) != 1 || out[0].Status != stRet {
					undecided = fmt.Sprintf("document %q: NewParagraphReader: %s", strings.Join(doc, ""), retDesc(out))
					break
				}
				tv, ok := st.Ret.(*TupleV)
				if !ok || len(tv.E) != 2 {
					undecided = "unexpected result shape of NewParagraphReader"
					break
				}
				if _, errNil := tv.E[1].(nilV); !errNil {
					problems = append(problems, fmt.Sprintf("NewParagraphReader fails on the plain document %q", strings.Join(doc, "")))
					continue
				}
				pr := tv.E[0]
				refPos := 0
				for call := 0; call < 5; call++ {
					st.Status = stRun
					st.Frames = nil
					st.push(next, []Val{pr}, nil)
					out := m.Run(st)
					if len(out) != 1 || out[0].Status != stRet {
						undecided = fmt.Sprintf("document %q: Next: %s", strings.Join(doc, ""), retDesc(out))
						break
					}
					nt, ok := st.Ret.(*TupleV)
					if !ok || len(nt.E) != 2 {
						undecided = "unexpected result shape of Next"
						break
					}
					want, wantErr, np := refNext(doc, refPos)
					refPos = np
					gotErr := ""
					if e, isErr := nt.E[1].(IfaceV); isErr {
						gotErr = "bad"
						if e.V == "io.EOF" {
							gotErr = "EOF"
						}
					}
					if gotErr != wantErr {
						problems = append(problems, fmt.Sprintf("document %q read through NewParagraphReader: call %d of Next ends with %q, the deb822 reference says %q", strings.Join(doc, ""), call+1, gotErr, wantErr))
						break
					}
					if gotErr != "" {
						break
					}
					got, why := paraOf(st, p, nt.E[0])
					if why != "" {
						undecided = why
						break
					}
					if got.String() != want.String() {
						problems = append(problems, fmt.Sprintf("document %q read through NewParagraphReader: paragraph %d is %s, the deb822 reference says %s", strings.Join(doc, ""), call+1, got, want))
						break
					}
				}
				if undecided != "" {
					break
				}
			}
			if undecided != "" {
				nw.undecided("control.NewParagraphReader", p.Pos(ctor.Pos()), undecided)
			} else {
				fillProblems(nw, "control.NewParagraphReader", p.Pos(ctor.Pos()), problems, fmt.Sprintf("%d plain documents (5 bytes, 4 bytes without newline, empty, a blank line, an empty field, two paragraphs, a comment first, armor lines inside folded values): the constructor succeeds and Next returns the paragraphs of the input", len(docs)))
			}
		}
	}

	// C07-ALL
	all := rp.Rule("C07-ALL", "All(): paragraphs until io.EOF; an empty list with any other error", 1)
	if fn := p.Method("control", "ParagraphReader", "All"); fn != nil {
		pt := p.Named("control", "Paragraph")
		var problems []string
		for _, sc := range [][]string{{"EOF"}, {"p1", "EOF"}, {"p1", "p2", "p3", "EOF"}, {"ERR"}, {"p1", "p2", "ERR"}} {
			m := NewMachine(p, nil)
			installStringModels(m)
			installIOGlobals(m)
			i := 0
			sc := sc
			m.Hooks[next.String()] = func(m *Machine, st *State, call *ssa.CallCommon, args []Val) ([]Val, bool) {
				s := sc[i]
				i++
				switch s {
				case "EOF":
					return []Val{&TupleV{E: []Val{nilV{}, eofVal}}}, true
				case "ERR":
					return []Val{&TupleV{E: []Val{nilV{}, IfaceV{T: errType, V: "bad line"}}}}, true
				}
				id := st.alloc(pt, mkStruct(pt, map[string]Val{"Order": strSlice(st, []string{s})}))
				return []Val{&TupleV{E: []Val{Ptr{Obj: id}, nilV{}}}}, true
			}
			st := initState(m, "control")
			st.push(fn, []Val{nilV{}}, nil)
			out := m.Run(st)
			if len(out) != 1 || out[0].Status != stRet {
				problems = append(problems, "undecided: "+retDesc(out))
				continue
			}
			tv := st.Ret.(*TupleV)
			elems, _, _ := m.sliceElems(st, tv.E[0])
			var got []string
			for _, e := range elems {
				if sv, ok := e.(*StructV); ok {
					o, _, _ := m.sliceElems(st, sv.F[fieldIndex(structOf(pt), "Order")])
					if len(o) == 1 {
						got = append(got, o[0].(string))
					}
				}
			}
			_, errNil := tv.E[1].(nilV)
			wantErr := sc[len(sc)-1] == "ERR"
			var want []string
			if !wantErr {
				want = sc[:len(sc)-1]
			}
			if errNil == wantErr || strings.Join(got, ",") != strings.Join(want, ",") {
				problems = append(problems, fmt.Sprintf("Next yields %v: All returns %v, error nil=%v; want %v, error nil=%v", sc, got, errNil, want, !wantErr))
			}
		}
		und := ""
		for _, pr := range problems {
			if strings.HasPrefix(pr, "undecided") {
				und = pr
			}
		}
		if und != "" {
			all.undecided("control.ParagraphReader.All", p.Pos(fn.Pos()), und)
		} else {
			all.check(len(problems) == 0, "control.ParagraphReader.All", p.Pos(fn.Pos()), "5 outcome sequences of Next", strings.Join(problems, "; "))
		}
	} else {
		all.bad("control.ParagraphReader.All", "", "method not found", nil)
	}

	// C07-ONE
	one := rp.Rule("C07-ONE", "every consumer obtains paragraphs through Next; nothing else reads the reader", 4)
	readers := map[string]bool{}
	readerField := fieldIndex(structOf(prT), roleField(prT, "*bufio.Reader", "reader"))
	fromReaderField := func(v ssa.Value) bool {
		// the value is (a load of) the buffered-reader field of a ParagraphReader
		for depth := 0; depth < 4; depth++ {
			switch x := v.(type) {
			case *ssa.UnOp:
				v = x.X
				continue
			case *ssa.FieldAddr:
				return derefStruct(x.X.Type()) == structOf(prT) && x.Field == readerField
			case *ssa.Field:
				return x.X.Type().Underlying() == types.Type(structOf(prT)) && x.Field == readerField
			}
			break
		}
		return false
	}
	for _, fn := range p.SrcFuncs("control") {
		for _, c := range allCalls(fn) {
			n := calleeName(c.Common())
			if strings.HasPrefix(n, "(*bufio.Reader).") || n == "io/ioutil.ReadAll" || n == "io.ReadAll" {
				for _, a := range c.Common().Args {
					if mi, ok := a.(*ssa.MakeInterface); ok {
						a = mi.X
					}
					if fromReaderField(a) {
						readers[fname(fn)] = true
					}
				}
			}
		}
	}
	// allowed: Next and what it calls; the constructor and what it calls (the clearsign decoder runs before the first Next)
	allowedReaders := map[string]bool{}
	for _, f := range reachableRepoFuncs(next) {
		allowedReaders[fname(f)] = true
	}
	for _, f := range reachableRepoFuncs(p.Func("control", "NewParagraphReader")) {
		allowedReaders[fname(f)] = true
	}
	okReaders := true
	var extra []string
	for r := range readers {
		if !allowedReaders[r] {
			okReaders = false
			extra = append(extra, r)
		}
	}
	sort.Strings(extra)
	nextReads := false
	for _, f := range reachableRepoFuncs(next) {
		if readers[fname(f)] {
			nextReads = true
		}
	}
	_ = nextReads // where the reads happen is a matter of style (a line source built once and called by Next is fine)
	one.check(okReaders, "control.ParagraphReader:buffered-reader", pos, "read only by Next and its helpers (and by the constructor's clearsign decoder before the first Next)", fmt.Sprintf("the reader is also read by %v: consumers would see different sequences", extra))
	// the consumers: All and the decoder entry point must reach Next (they have no other way to paragraphs,
	// since nothing but Next reads the reader)
	for _, c := range []struct {
		key string
		fn  *ssa.Function
	}{{"control.ParagraphReader.All", p.Method("control", "ParagraphReader", "All")}, {"control.Decoder.Decode", p.Method("control", "Decoder", "Decode")}, {"control.Unmarshal", p.Func("control", "Unmarshal")}} {
		if c.fn == nil {
			one.bad(c.key, "", "function not found", nil)
			continue
		}
		reaches := false
		for _, f := range reachableRepoFuncs(c.fn) {
			if f == next {
				reaches = true
			}
		}
		one.check(reaches, c.key, p.Pos(c.fn.Pos()), "obtains paragraphs by calling Next", "does not reach Next: it reads paragraphs some other way")
	}
	// C07-LONGLINES: decided by C07-LINES on the scripts with lines of 4087 to 9000 bytes (the reader oracle hands
	// out long lines the way bufio does: ReadLine and ReadSlice in pieces of 4096 bytes, ReadString / ReadBytes whole)
	ll := rp.Rule("C07-LONGLINES", "lines are read without a length limit", 1)
	switch {
	case undec != "":
		ll.undecided("control.ParagraphReader.Next", pos, undec)
	case strings.Contains(mismatch, strings.Repeat("x", 64)) || strings.Contains(mismatch, "lib-x (>= 1.0), lib-x"):
		ll.bad("control.ParagraphReader.Next", pos, "a line longer than the reader's buffer is not read as one line: "+clip(mismatch, 300), nil)
	default:
		ll.ok("control.ParagraphReader.Next", pos, "field, continuation and comment lines of 4087 to 9000 bytes and a 9 600 byte dependency list are read as single lines (C07-LINES scripts)")
	}
}
