package main

// Bounded fallback for the dependency parser. When the parser leaves the
// transition-system model (it slices tokens out of the input, uses library
// searches on the input string, ...), dependency.Parse is interpreted on exact
// strings instead: every word of the Policy grammar and of the malformed
// classes up to a length bound, plus seeded random longer words, each with
// several representative bytes per class. This decides the same clauses on a
// finite family rather than for every input; the evidence says so.

import (
	"os"
	"fmt"
	"go/types"
	"math/rand"
	"sort"
	"strings"
)

type boundedParser struct {
	nValid, nMal int
	nSweep       int
	nClass       map[string]int
	langBy       map[string][]string // "valid" / malformed class -> problems
	lang         []string
	tokens       []string
	noempty      []string
	ops          map[string]bool
	total        []string
	undecided    string
}

var boundedCache = map[*Prog]*boundedParser{}

func fallbackAlphabet() *Alphabet {
	return NewAlphabetGroups([]byte(" \t\r\n,|()[]<>!=${}:~+.-_#"), map[string][]byte{
		"lower": []byte("abcdefghijklmnopqrstuvwxyz"),
		"upper": []byte("ABCDEFGHIJKLMNOPQRSTUVWXYZ"),
		"digit": []byte("0123456789"),
	})
}

// coReach marks the NFA states from which the accepting state can be reached.
func (a *nfa) coReach() []bool {
	rev := make([][]int, a.n)
	for s := 0; s < a.n; s++ {
		for _, t := range a.eps[s] {
			rev[t] = append(rev[t], s)
		}
		for _, ts := range a.trans[s] {
			for _, t := range ts {
				rev[t] = append(rev[t], s)
			}
		}
	}
	ok := make([]bool, a.n)
	stack := []int{a.accept}
	ok[a.accept] = true
	for len(stack) > 0 {
		s := stack[len(stack)-1]
		stack = stack[:len(stack)-1]
		for _, t := range rev[s] {
			if !ok[t] {
				ok[t] = true
				stack = append(stack, t)
			}
		}
	}
	return ok
}

// words enumerates every word of the language up to maxLen (capped at maxShort words) and adds
// nRandom seeded random words of length up to maxRandLen.
func (a *nfa) words(nsyms, maxLen, maxShort, nRandom, maxRandLen int, seed int64) [][]int {
	live := a.coReach()
	liveSet := func(set []int) bool {
		for _, s := range set {
			if live[s] {
				return true
			}
		}
		return false
	}
	var out [][]int
	seen := map[string]bool{}
	add := func(w []int) {
		k := fmt.Sprint(w)
		if !seen[k] {
			seen[k] = true
			out = append(out, append([]int(nil), w...))
		}
	}
	type item struct {
		set  []int
		word []int
	}
	level := []item{{a.closure([]int{a.start}), nil}}
	for l := 0; l <= maxLen && len(out) < maxShort; l++ {
		var next []item
		for _, it := range level {
			if a.accepting(it.set) {
				add(it.word)
			}
			if l == maxLen {
				continue
			}
			for sym := 0; sym < nsyms; sym++ {
				ns := a.step(it.set, sym)
				if len(ns) > 0 && liveSet(ns) {
					next = append(next, item{ns, append(append([]int(nil), it.word...), sym)})
				}
			}
		}
		if len(next) > 20000 {
			next = next[:20000]
		}
		level = next
	}
	rng := rand.New(rand.NewSource(seed))
	for i := 0; i < nRandom*20 && len(out) < maxShort+nRandom; i++ {
		set := a.closure([]int{a.start})
		var w []int
		for len(w) < maxRandLen {
			if a.accepting(set) && rng.Intn(6) == 0 {
				break
			}
			var cands []int
			for sym := 0; sym < nsyms; sym++ {
				if ns := a.step(set, sym); len(ns) > 0 && liveSet(ns) {
					cands = append(cands, sym)
				}
			}
			if len(cands) == 0 {
				break
			}
			sym := cands[rng.Intn(len(cands))]
			w = append(w, sym)
			set = a.step(set, sym)
		}
		if a.accepting(set) {
			add(w)
		}
	}
	return out
}

// spell turns a word over classes into strings: one with the first readable byte of each class, one with
// the last byte of each class (so that a class is not only represented by one byte).
func spell(alpha *Alphabet, w []int) []string {
	var a, b strings.Builder
	for _, c := range w {
		m := alpha.Members[c]
		first := m[0]
		for _, x := range m {
			if x >= 'a' && x <= 'z' {
				first = x
				break
			}
		}
		a.WriteByte(first)
		b.WriteByte(m[len(m)-1])
	}
	if a.String() == b.String() {
		return []string{a.String()}
	}
	return []string{a.String(), b.String()}
}

func parserBounded(p *Prog) *boundedParser {
	if r, ok := boundedCache[p]; ok {
		return r
	}
	res := &boundedParser{ops: map[string]bool{}, nClass: map[string]int{}, langBy: map[string][]string{}}
	boundedCache[p] = res
	parse := p.Func("dependency", "Parse")
	if parse == nil {
		res.undecided = "dependency.Parse not found"
		return res
	}
	alpha := fallbackAlphabet()
	d := depLang{alpha}
	valid, mal := d.build()
	m := NewMachine(p, nil)
	installStringModels(m)
	installFuncModels(m)
	installUnicodeModels(m)
	m.Hooks["fmt.Sprintf"] = sprintfModel
	m.StepLimit = 200000
	base := initState(m, "dependency")
	if base.Status == stStuck {
		res.undecided = base.Msg
		return res
	}
	run := func(s string) (st *State, status string) {
		st = base.Clone()
		st.Status = stRun
		st.push(parse, []Val{s}, nil)
		out := m.Run(st)
		if len(out) != 1 {
			return nil, fmt.Sprintf("undecided: %d paths", len(out))
		}
		switch out[0].Status {
		case stRet:
			return out[0], ""
		case stPanic:
			return nil, "panic: " + out[0].Msg
		}
		if out[0].Notes["nonterm"] {
			return nil, "nonterm: " + out[0].Msg
		}
		return nil, "undecided: " + out[0].Msg
	}
	blank := func(s string) bool { return strings.ContainsAny(s, " \t\r\n") }
	// walk the parsed tree
	var walk func(st *State, v Val, t types.Type, path string, substvar bool, in string)
	walk = func(st *State, v Val, t types.Type, path string, substvar bool, in string) {
		switch u := t.Underlying().(type) {
		case *types.Pointer:
			if pp, ok := v.(Ptr); ok {
				lv, _ := st.load(pp)
				walk(st, lv, u.Elem(), path, substvar, in)
			}
		case *types.Slice:
			elems, _, _ := m.sliceElems(st, v)
			if len(elems) == 0 {
				switch {
				case strings.HasSuffix(path, ".Possibilities"):
					res.noempty = append(res.noempty, fmt.Sprintf("%q parses to a relation without alternatives", in))
				case strings.HasSuffix(path, ".Stages"):
					res.noempty = append(res.noempty, fmt.Sprintf("%q parses to an empty profile group", in))
				}
			}
			for _, e := range elems {
				walk(st, e, u.Elem(), path, substvar, in)
			}
		case *types.Struct:
			sv, ok := v.(*StructV)
			if !ok {
				return
			}
			tn := ""
			if n, ok := t.(*types.Named); ok {
				tn = n.Obj().Name()
			}
			sub := substvar
			if tn == "Possibility" {
				if i := fieldIndex(u, "Substvar"); i >= 0 {
					sub, _ = sv.F[i].(bool)
				}
			}
			if tn == "Arch" {
				allEmpty := u.NumFields() > 0
				for i := 0; i < u.NumFields(); i++ {
					if s, isStr := sv.F[i].(string); !isStr || s != "" {
						allEmpty = false
					}
				}
				if allEmpty {
					res.tokens = append(res.tokens, fmt.Sprintf("%q: an architecture with an empty name is stored", in))
				}
			}
			for i := 0; i < u.NumFields(); i++ {
				f := u.Field(i)
				if s, isStr := sv.F[i].(string); isStr {
					where := tn + "." + f.Name()
					if blank(s) && !(sub && tn == "Possibility") {
						res.tokens = append(res.tokens, fmt.Sprintf("%q: the token %s is %q (contains a blank)", in, where, s))
					}
					switch {
					case tn == "Possibility" && f.Name() == "Name" && s == "" && !sub:
						res.tokens = append(res.tokens, fmt.Sprintf("%q: an alternative with an empty name is stored", in))
					case tn == "Stage" && f.Name() == "Name" && s == "":
						res.tokens = append(res.tokens, fmt.Sprintf("%q: a build profile with an empty name is stored", in))
					case tn == "VersionRelation" && f.Name() == "Number" && s == "":
						res.tokens = append(res.tokens, fmt.Sprintf("%q: a version clause with an empty number is stored", in))
					case tn == "VersionRelation" && f.Name() == "Operator":
						res.ops[s] = true
					}
					continue
				}
				walk(st, sv.F[i], f.Type(), path+"."+f.Name(), sub, in)
			}
		}
	}
	resT := parse.Signature.Results().At(0).Type()
	check := func(in string, wantOK bool, class string) bool {
		st, status := run(in)
		switch {
		case strings.HasPrefix(status, "panic"):
			res.total = append(res.total, fmt.Sprintf("Parse(%q) panics: %s", in, status))
			return true
		case strings.HasPrefix(status, "nonterm"):
			res.total = append(res.total, fmt.Sprintf("Parse(%q) does not terminate: %s", in, status))
			return true
		case status != "":
			res.undecided = fmt.Sprintf("Parse(%q): %s", in, status)
			return false
		}
		tv, ok := st.Ret.(*TupleV)
		if !ok || len(tv.E) != 2 {
			res.undecided = "unexpected result shape of Parse"
			return false
		}
		_, errNil := tv.E[1].(nilV)
		_, valNil := tv.E[0].(nilV)
		switch {
		case errNil && valNil:
			res.tokens = append(res.tokens, fmt.Sprintf("Parse(%q) returns neither a value nor an error", in))
		case !errNil && !valNil:
			res.tokens = append(res.tokens, fmt.Sprintf("Parse(%q) returns a value together with the error", in))
		}
		if wantOK {
			res.nClass["valid"]++
		} else {
			res.nClass[class]++
		}
		if os.Getenv("GDSA_DEBUG") == "c04words" && class == "two-numbers-in-version" {
			fmt.Fprintf(os.Stderr, "word %q accepted=%v\n", in, errNil)
		}
		if wantOK && !errNil {
			res.langBy["valid"] = append(res.langBy["valid"], fmt.Sprintf("the well-formed field %q is rejected", in))
		}
		if !wantOK && errNil {
			res.langBy[class] = append(res.langBy[class], fmt.Sprintf("the malformed field %q is accepted", in))
		}
		if errNil && !valNil {
			walk(st, tv.E[0], resT, "", false, in)
		}
		return true
	}
	for _, op := range []string{"<<", "<=", "=", ">=", ">>"} {
		for _, f := range []string{"foo (%s 1.0)", "foo(%s1.0)", "foo ( %s  1.0~rc1+b2 ) [amd64 i386] <a !b> <c>", "foo:any (%s 1) | bar, ${misc:Depends}", "a [!amd64 !i386] (%s 2:3-4)\n , b"} {
			res.nValid++
			if !check(fmt.Sprintf(f, op), true, "") {
				return res
			}
		}
	}
	vn := compileRx(valid)
	for _, w := range vn.words(alpha.N(), 5, 6000, 1500, 40, 1) {
		for _, s := range spell(alpha, w) {
			res.nValid++
			if !check(s, true, "") {
				return res
			}
		}
	}
	var names []string
	for k := range mal {
		names = append(names, k)
	}
	sort.Strings(names)
	for _, k := range names {
		mn := compileRx(mal[k])
		for _, w := range mn.words(alpha.N(), 8, 250, 150, 30, 7) {
			for _, s := range spell(alpha, w) { // both spellings, and every blank as a tab and as a line feed too
				variants := []string{s}
				if !strings.HasPrefix(k, "unterminated") {
					// the shortest words of a class stop where the mistake is made: also try them with their brackets closed,
					// which is how such a field looks in the wild (and still belongs to the class)
					closed := s
					for _, pr := range [][2]string{{"(", ")"}, {"[", "]"}, {"<", ">"}, {"{", "}"}} {
						for n := strings.Count(s, pr[0]) - strings.Count(s, pr[1]); n > 0; n-- {
							closed += pr[1]
						}
					}
					if closed != s {
						variants = append(variants, closed)
					}
				}
				for _, v := range append([]string(nil), variants...) {
					if strings.Contains(v, " ") {
						variants = append(variants, strings.ReplaceAll(v, " ", "\t"), strings.ReplaceAll(v, " ", "\n"))
					}
				}
				for _, v := range variants {
					res.nMal++
					if !check(v, false, k) {
						return res
					}
				}
			}
		}
	}
	// invariant sweep: every string of up to 3 bytes over the parser's punctuation and a letter; no
	// expectation on the verdict, only on what is stored when the field is accepted
	sweep := []byte("a ,|<>[]()!${}:=")
	var gen func(prefix string, n int) bool
	gen = func(prefix string, n int) bool {
		if prefix != "" {
			res.nSweep++
			st, status := run(prefix)
			switch {
			case strings.HasPrefix(status, "panic"):
				res.total = append(res.total, fmt.Sprintf("Parse(%q) panics: %s", prefix, status))
			case strings.HasPrefix(status, "nonterm"):
				res.total = append(res.total, fmt.Sprintf("Parse(%q) does not terminate: %s", prefix, status))
			case status != "":
				res.undecided = fmt.Sprintf("Parse(%q): %s", prefix, status)
				return false
			default:
				if tv, ok := st.Ret.(*TupleV); ok && len(tv.E) == 2 {
					_, errNil := tv.E[1].(nilV)
					_, valNil := tv.E[0].(nilV)
					if errNil && !valNil {
						walk(st, tv.E[0], resT, "", false, prefix)
					} else if errNil == valNil {
						res.tokens = append(res.tokens, fmt.Sprintf("Parse(%q) returns a value together with an error, or neither", prefix))
					}
				}
			}
		}
		if n == 0 {
			return true
		}
		for _, c := range sweep {
			if !gen(prefix+string(c), n-1) {
				return false
			}
		}
		return true
	}
	gen("", 3)
	return res
}

// c04Bounded fills the rules of C04 from the bounded exploration (used when the parser does not fit the
// transition-system model; `why` says what it tripped over).
func c04Bounded(p *Prog, rp *Report, lang *Rule, pos, why string) {
	b := parserBounded(p)
	note := "(bounded: the parser left the transition-system model: " + clip(why, 160) + ") "
	tok := rp.Rule("C04-TOKENS", "no blank inside a token; no empty token stored", 1)
	ops := rp.Rule("C04-OPS", "storable operators are exactly the five Policy operators", 1)
	tot := rp.Rule("C04-TOTAL", "no panic, no input-independent loop in the parser", 1)
	if b.undecided != "" {
		lang.undecided("dependency.Parse", pos, "transition system: "+why+"; bounded exploration: "+b.undecided)
		return
	}
	_, mal := depLang{fallbackAlphabet()}.build()
	fillProblems(lang, "valid-fields-accepted", pos, b.langBy["valid"], fmt.Sprintf("%s%d well-formed fields (every word of the Policy grammar up to 5 symbols, 1500 random ones up to 40, two spellings each) are accepted", note, b.nClass["valid"]))
	var names []string
	for k := range mal {
		names = append(names, k)
	}
	sort.Strings(names)
	for _, k := range names {
		fillProblems(lang, "malformed:"+k, pos, b.langBy[k], fmt.Sprintf("%s%d fields of this class are rejected", note, b.nClass[k]))
	}
	if hp, und := highByteProbe(p); und != "" {
		tok.undecided("high-bytes", pos, und)
	} else {
		fillProblems(tok, "high-bytes", pos, hp, "a field with bytes >= 0x80 (0x85 and 0xA0 among them) inside every token kind parses to exactly those tokens")
	}
	if rp2, und := receiverReuse(p); und != "" {
		tok.undecided("receiver-reuse", pos, und)
	} else {
		fillProblems(tok, "receiver-reuse", pos, rp2, "decoding into a Dependency that already holds a value replaces it and leaves earlier copies alone")
	}
	fillProblems(tok, "tokens", pos, b.tokens, fmt.Sprintf("%sin the trees parsed from %d accepted fields no token holds a blank, no name is empty; value xor error on %d runs", note, b.nClass["valid"], b.nValid+b.nMal))
	var got []string
	for o := range b.ops {
		got = append(got, o)
	}
	sort.Strings(got)
	want := []string{"<<", "<=", "=", ">=", ">>"}
	ops.check(strings.Join(got, " ") == strings.Join(want, " "), "dependency.VersionRelation.Operator", pos, note+"stored operators: "+strings.Join(got, " "), fmt.Sprintf("the parser stores the operators %v, Policy has %v", got, want))
	fillProblems(tot, "dependency.Parse", pos, b.total, fmt.Sprintf("%severy one of %d runs ends without a panic within the step limit", note, b.nValid+b.nMal))
}

// highByteProbe: bytes >= 0x80 (among them 0x85 and 0xA0, which are white space as code points but not as
// bytes of a UTF-8 string) are ordinary token bytes: a field using them in every token kind parses to tokens
// holding exactly those bytes.
func highByteProbe(p *Prog) (problems []string, undecided string) {
	parse := p.Func("dependency", "Parse")
	if parse == nil {
		return nil, "dependency.Parse not found"
	}
	probe := "caf\xc3\xa0:a\xc2\x85m (>= 1\xc2\xa0\xe9) [a\xc3\xa0 b\xff] <p\xc2\x85 !q\xa0>, ${v\xe9r\x85}"
	m := NewMachine(p, nil)
	st := initState(m, "dependency")
	st.push(parse, []Val{probe}, nil)
	out := m.Run(st)
	if len(out) != 1 || out[0].Status != stRet {
		return nil, retDesc(out)
	}
	tv, ok := st.Ret.(*TupleV)
	if !ok || len(tv.E) != 2 {
		return nil, "unexpected result shape"
	}
	if _, errNil := tv.E[1].(nilV); !errNil {
		return []string{fmt.Sprintf("the field %q (bytes >= 0x80 inside every token kind) is rejected", probe)}, ""
	}
	r := deepRender(st, tv.E[0], 0)
	for _, frag := range []string{"caf\xc3\xa0", "1\xc2\xa0\xe9", "p\xc2\x85", "q\xa0", "v\xe9r\x85"} {
		if !strings.Contains(r, fmt.Sprintf("%q", frag)) {
			problems = append(problems, fmt.Sprintf("the token %q of the field does not arrive byte for byte in the parsed tree (%s)", frag, clip(r, 240)))
		}
	}
	return problems, ""
}

// receiverReuse: decoding into a Dependency / Arch that already holds a value replaces the value, and a copy
// taken of the earlier value is not changed by the later decode.
func receiverReuse(p *Prog) (problems []string, undecided string) {
	depT := p.Named("dependency", "Dependency")
	um := p.Method("dependency", "Dependency", "UnmarshalControl")
	if depT == nil || um == nil {
		return nil, "dependency.Dependency.UnmarshalControl not found"
	}
	m := NewMachine(p, nil)
	st := initState(m, "dependency")
	call := func(obj int, text string) string {
		st.Status = stRun
		st.Frames = nil
		st.push(um, []Val{Ptr{Obj: obj}, text}, nil)
		out := m.Run(st)
		if len(out) != 1 || out[0].Status != stRet {
			return retDesc(out)
		}
		if _, ok := st.Ret.(nilV); !ok {
			return "rejected: " + text
		}
		return ""
	}
	first, second := "foo (>= 1.0), bar [amd64] | baz, qux", "one, two"
	a := st.alloc(depT, zeroVal(depT))
	if why := call(a, first); why != "" {
		return nil, why
	}
	kept := cloneVal(st.Heap[a].V) // the caller's copy of the decoded value (shares the backing arrays, as in Go)
	keptBefore := deepRender(st, kept, 0)
	if why := call(a, second); why != "" {
		return nil, why
	}
	fresh := st.alloc(depT, zeroVal(depT))
	if why := call(fresh, second); why != "" {
		return nil, why
	}
	if got, want := deepRender(st, st.Heap[a].V, 0), deepRender(st, st.Heap[fresh].V, 0); got != want {
		problems = append(problems, fmt.Sprintf("decoding %q into a Dependency that held %q gives %s, a fresh one gives %s: the earlier relations are not replaced", second, first, clip(got, 200), clip(want, 200)))
	}
	if after := deepRender(st, kept, 0); after != keptBefore {
		problems = append(problems, fmt.Sprintf("a copy of the value decoded from %q changes when the variable it was copied from is decoded into again: %s became %s", first, clip(keptBefore, 200), clip(after, 200)))
	}
	return problems, ""
}
