package main

// C10-DOC: for every typed document kind a document is rendered in the real
// Debian layout from a model of its fields (one value per field of the Debian
// field table of that kind, lists folded over several lines), the decoder is
// interpreted on it (reflect model, reader oracle), and every Go field is
// compared with the model: scalars verbatim, versions / architectures /
// relationships as the parsed form of exactly their text, lists as trimmed
// elements in order, checksum lines as tuples tagged with the right algorithm.

import (
	"golang.org/x/tools/go/ssa"
	"fmt"
	"go/types"
	"sort"
	"strings"
)

var hashHex = map[string]string{
	"md5":    strings.Repeat("0123456789abcdef", 2),
	"sha1":   strings.Repeat("0123456789abcdef", 2) + "01234567",
	"sha256": strings.Repeat("0123456789abcdef", 4),
	"sha512": strings.Repeat("0123456789abcdef", 8),
}

type modelField struct {
	kind  string
	text  string   // the field body as written after "Name:"
	elems []string // list elements / lines of the model
}

func modelFor(name, kind string, single bool) modelField {
	if single {
		// the smallest non-trivial document: every list has exactly one element (with blanks inside where the
		// syntax allows them), nothing is folded
		switch {
		case kind == kAL:
			return modelField{kind, " kfreebsd-amd64", []string{"kfreebsd-amd64"}}
		case kind == kA1:
			return modelField{kind, " hurd-i386", []string{"hurd-i386"}}
		case kind == kR:
			return modelField{kind, " foo", []string{"foo"}}
		case kind == kLc:
			return modelField{kind, " John Doe <jdoe@example.com>", []string{"John Doe <jdoe@example.com>"}}
		case kind == kLb:
			return modelField{kind, " only-one", []string{"only-one"}}
		case kind == kM:
			return modelField{kind, " one line only", nil}
		case kind == kH5:
			h := hashHex["md5"]
			return modelField{kind, "\n " + h + " 1 admin optional f_1_amd64.deb", []string{"md5|" + h + "|1|f_1_amd64.deb|admin|optional"}}
		case strings.HasPrefix(kind, "checksum lines ("):
			alg := strings.TrimSuffix(strings.TrimPrefix(kind, "checksum lines ("), ")")
			h := hashHex[alg]
			return modelField{kind, "\n " + h + " 0 f_1.dsc", []string{alg + "|" + h + "|0|f_1.dsc"}}
		}
	}
	switch {
	case kind == kS:
		// the value ends in a letter whose last UTF-8 byte (0xA0) is white space when taken for a rune of its own
		return modelField{kind, " value of " + strings.ToLower(name) + " citt\u00e0", nil}
	case kind == kI:
		return modelField{kind, " 12345", nil}
	case kind == kB:
		return modelField{kind, " yes", nil}
	case kind == kV:
		return modelField{kind, " 1:2.0-3", nil}
	case kind == kA1:
		return modelField{kind, " amd64", []string{"amd64"}}
	case kind == kAL:
		return modelField{kind, " amd64 linux-any\n armhf gnu-kfreebsd-i386 all", []string{"amd64", "linux-any", "armhf", "gnu-kfreebsd-i386", "all"}}
	case kind == kR:
		return modelField{kind, " foo (>= 1.0),\n bar | baz", []string{"foo (>= 1.0), bar | baz"}}
	case kind == kLc:
		// the first physical line is longer than any reader buffer (real Binary / Depends lines are)
		elems := []string{"alpha", "beta"}
		for i := 0; i < 430; i++ {
			elems = append(elems, fmt.Sprintf("pkg-%04d", i))
		}
		text := " " + strings.Join(elems, ", ") + ",\n gamma delta"
		return modelField{kind, text, append(elems, "gamma delta")}
	case kind == kLb:
		return modelField{kind, " alpha beta\n gamma", []string{"alpha", "beta", "gamma"}}
	case kind == kM:
		return modelField{kind, " short text \u00c5\n long line voil\u00e0\n .\n after the blank", nil}
	case kind == kH5:
		h := hashHex["md5"]
		return modelField{kind, "\n " + h + " 123 admin optional f_1_amd64.deb\n " + h + " 4567 libs extra f-doc_1_all.deb", []string{"md5|" + h + "|123|f_1_amd64.deb|admin|optional", "md5|" + h + "|4567|f-doc_1_all.deb|libs|extra"}}
	case strings.HasPrefix(kind, "checksum lines ("):
		alg := strings.TrimSuffix(strings.TrimPrefix(kind, "checksum lines ("), ")")
		h := hashHex[alg]
		return modelField{kind, "\n " + h + " 123 f_1.dsc\n " + h + " 4567 f_1.tar.xz", []string{alg + "|" + h + "|123|f_1.dsc", alg + "|" + h + "|4567|f_1.tar.xz"}}
	}
	return modelField{kind, " x", nil}
}

// setNamed sets the field `name` of struct value sv (searching embedded structs) to v.
func setNamed(sv *StructV, s *types.Struct, name string, v Val) bool {
	for i := 0; i < s.NumFields(); i++ {
		f := s.Field(i)
		if f.Name() == name {
			sv.F[i] = v
			return true
		}
	}
	for i := 0; i < s.NumFields(); i++ {
		f := s.Field(i)
		if es, ok := f.Type().Underlying().(*types.Struct); ok && f.Embedded() {
			if setNamed(sv.F[i].(*StructV), es, name, v) {
				return true
			}
		}
	}
	return false
}

func c10Doc(p *Prog, rp *Report) {
	r := rp.Rule("C10-DOC", "a document rendered from a model of its fields decodes to exactly the model", 9)
	var docs []string
	for d := range docTables {
		docs = append(docs, d)
	}
	sort.Strings(docs)
	// BestChecksums is meant to be embedded into a caller's struct: a probe type does that
	var embedProbe *types.Named
	if bc := p.Named("control", "BestChecksums"); bc != nil {
		embedProbe = mkProbeType("SourceEntryWithBestChecksums", []probeField{{"Package", types.Typ[types.String], "", false}, {"BestChecksums", bc, "", true}, {"Directory", types.Typ[types.String], "", false}})
		docs = append(docs, "probe.SourceEntryWithBestChecksums")
	}
	type variant struct {
		doc    string
		single bool
	}
	var variants []variant
	for _, d := range docs {
		variants = append(variants, variant{d, false}, variant{d, true})
	}
	for _, vr := range variants {
		doc := vr.doc
		parts := strings.SplitN(doc, ".", 2)
		n := p.Named(parts[0], parts[1])
		table := docTables[doc]
		if parts[0] == "probe" {
			n, table = embedProbe, docTables["control.SourceIndex"]
		}
		if n == nil {
			r.bad(doc, "", "document type not found", nil)
			continue
		}
		pos := p.Pos(n.Obj().Pos())
		if vr.single {
			doc += ":one-element-lists"
		}
		var names []string
		for k := range table {
			names = append(names, k)
		}
		sort.Strings(names)
		model := map[string]modelField{}
		var text strings.Builder
		for _, k := range names {
			mf := modelFor(k, table[k], vr.single)
			model[k] = mf
			text.WriteString(k + ":" + mf.text + "\n")
		}
		raw, perr := refParagraph(text.String())
		if perr != "" {
			r.bad(doc, pos, "internal: the model document is not a paragraph: "+perr, nil)
			continue
		}
		run := newC09Run(p)
		obj, isErr, why := run.unmarshal(n, text.String())
		if strings.HasPrefix(why, "PANIC") {
			r.bad(doc, pos, "decoding a document with every field of the kind panics: "+why, nil)
			continue
		}
		if why != "" {
			r.undecided(doc, pos, why)
			continue
		}
		if isErr {
			r.bad(doc, pos, "a document with every field of its kind (lists folded) is rejected by the decoder", nil)
			continue
		}
		// direct decodes of the custom types, for the expected values
		direct := func(t *types.Named, s string) (string, string) {
			// "as their parsed forms": where the library has a parse function for the type, that is the reference
			// (the decoder goes through UnmarshalControl, which must agree with it)
			if pf := map[string]*ssa.Function{"Version": p.Func("version", "Parse"), "Arch": p.Func("dependency", "ParseArch"), "Dependency": p.Func("dependency", "Parse")}[t.Obj().Name()]; pf != nil && pf.Signature.Params().Len() == 1 && pf.Signature.Results().Len() == 2 {
				ret, why := run.call(pf, s)
				if why != "" {
					return "", why
				}
				tv, ok := ret.(*TupleV)
				if !ok || len(tv.E) != 2 {
					return "", "undecided: unexpected result shape of " + fname(pf)
				}
				if _, errNil := tv.E[1].(nilV); !errNil {
					return "", "undecided: " + fname(pf) + " rejects the model text " + s
				}
				return strings.TrimPrefix(deepRender(run.st, tv.E[0], 0), "&"), ""
			}
			fn := p.Method(t.Obj().Pkg().Name(), t.Obj().Name(), "UnmarshalControl")
			if fn == nil {
				return "", "undecided: no UnmarshalControl on " + t.String()
			}
			id := run.st.alloc(t, zeroVal(t))
			ret, why := run.call(fn, Ptr{Obj: id}, s)
			if why != "" {
				return "", why
			}
			if _, ok := ret.(nilV); !ok {
				return "", "undecided: " + t.Obj().Name() + " rejects the model text " + s
			}
			return deepRender(run.st, run.st.Heap[id].V, 0), ""
		}
		var problems []string
		undec := ""
		nfields := 0
		var visit func(sv *StructV, s *types.Struct)
		visit = func(sv *StructV, s *types.Struct) {
			for i, ti := range fieldTags(s) {
				if ti.Embedded {
					if nn, ok := ti.Type.(*types.Named); ok && nn.Obj().Name() == "Paragraph" {
						continue
					}
					if es, ok := ti.Type.Underlying().(*types.Struct); ok {
						visit(sv.F[i].(*StructV), es)
					}
					continue
				}
				got := deepRender(run.st, sv.F[i], 0)
				if ti.Skip {
					if zero := deepRender(run.st, zeroVal(ti.Type), 0); got != zero {
						problems = append(problems, fmt.Sprintf("the Go-only field %s is filled from the document (%s)", ti.GoName, got))
					}
					continue
				}
				mf, known := model[ti.Wire]
				if !known {
					continue // C10-TAGS reports unknown wire names
				}
				nfields++
				want := ""
				elemT := ti.Type
				isSlice := false
				if sl, ok := ti.Type.Underlying().(*types.Slice); ok {
					elemT, isSlice = sl.Elem(), true
				}
				one := func(t types.Type, s string) string {
					if b, ok := t.Underlying().(*types.Basic); ok {
						switch {
						case b.Kind() == types.String:
							return fmt.Sprintf("%q", s)
						case b.Info()&types.IsInteger != 0:
							var v int64
							fmt.Sscan(s, &v)
							return fmt.Sprintf("i%d", v)
						case b.Kind() == types.Bool:
							if s == "yes" {
								return "T"
							}
							return "F"
						}
					}
					nt, ok := t.(*types.Named)
					if !ok {
						undec = "no expectation for field type " + t.String()
						return ""
					}
					if strings.Contains(s, "|") && (strings.HasPrefix(mf.kind, "checksum") || mf.kind == kH5) {
						cols := strings.Split(s, "|")
						hv := zeroVal(nt).(*StructV)
						hs := structOf(nt)
						var size int64
						fmt.Sscan(cols[2], &size)
						okAll := setNamed(hv, hs, "Algorithm", cols[0]) && setNamed(hv, hs, "Hash", cols[1]) && setNamed(hv, hs, "Size", size) && setNamed(hv, hs, "Filename", cols[3])
						switch cols[0] {
						case "sha256":
							okAll = okAll && setNamed(hv, hs, "ByHash", "SHA256")
						case "sha512":
							okAll = okAll && setNamed(hv, hs, "ByHash", "SHA512")
						}
						if len(cols) == 6 {
							okAll = okAll && setNamed(hv, hs, "Component", cols[4]) && setNamed(hv, hs, "Priority", cols[5])
						}
						if !okAll {
							return "<the element type " + nt.Obj().Name() + " lacks the columns of this kind of line>"
						}
						return deepRender(run.st, hv, 0)
					}
					w, why := direct(nt, s)
					if why != "" {
						undec = why
					}
					return w
				}
				switch {
				case !isSlice && isStringT(ti.Type):
					want = fmt.Sprintf("%q", raw.values[ti.Wire])
					if g2 := fmt.Sprintf("%q", strings.TrimSuffix(raw.values[ti.Wire], "\n")); got == g2 {
						want = g2
					}
				case !isSlice:
					src := strings.TrimSpace(mf.text)
					if len(mf.elems) == 1 {
						src = mf.elems[0]
					}
					want = one(ti.Type, src)
				default:
					if mf.elems == nil {
						undec = fmt.Sprintf("field %s is a list in Go but %s in the table", ti.GoName, mf.kind)
						break
					}
					var ws []string
					for _, e := range mf.elems {
						ws = append(ws, one(elemT, e))
					}
					want = "[" + strings.Join(ws, " ") + "]"
				}
				if undec != "" {
					return
				}
				if got != want {
					problems = append(problems, fmt.Sprintf("%s (field %s, %s) decodes to %s, the model says %s", ti.GoName, ti.Wire, mf.kind, clip(got, 160), clip(want, 160)))
				}
			}
		}
		visit(run.st.Heap[obj].V.(*StructV), structOf(n))
		if undec != "" {
			r.undecided(doc, pos, undec)
			continue
		}
		if !vr.single && undec == "" {
			// Packages, Sources, debian/control: several paragraphs decoded into a list. Each element must be
			// what its paragraph decodes to on its own (a short paragraph inherits nothing from its neighbours).
			var short strings.Builder
			var collect func(s *types.Struct)
			collect = func(s *types.Struct) {
				for _, ti := range fieldTags(s) {
					if ti.Embedded {
						if es, ok := ti.Type.Underlying().(*types.Struct); ok {
							collect(es)
						}
						continue
					}
					if mf, known := model[ti.Wire]; known && ti.Required {
						short.WriteString(ti.Wire + ":" + mf.text + "\n")
					}
				}
			}
			collect(structOf(n))
			if short.Len() == 0 {
				short.WriteString(names[0] + ":" + model[names[0]].text + "\n")
			}
			full := text.String()
			lr := newC09Run(p)
			lobj, lerr, lwhy := lr.unmarshal(types.NewSlice(n), short.String()+"\n"+full+"\n"+short.String())
			sr := newC09Run(p)
			sobj, serr, swhy := sr.unmarshal(n, short.String())
			switch {
			case strings.HasPrefix(lwhy, "PANIC"):
				problems = append(problems, "decoding three paragraphs into a list panics: "+lwhy)
			case lwhy != "" || swhy != "":
				undec = "list of paragraphs: " + lwhy + swhy
			case lerr || serr:
				problems = append(problems, "a list of three paragraphs (short, full, short) is rejected although each paragraph decodes on its own")
			default:
				lv, _ := lr.st.load(Ptr{Obj: lobj})
				elems, many, ok := lr.m.sliceElems(lr.st, lv)
				if !ok || many {
					undec = "list of paragraphs: the decoded list is not a concrete slice"
					break
				}
				wantShort := deepRender(sr.st, sr.st.Heap[sobj].V, 0)
				wantFull := deepRender(run.st, run.st.Heap[obj].V, 0)
				if len(elems) != 3 {
					problems = append(problems, fmt.Sprintf("three paragraphs decode to a list of %d", len(elems)))
					break
				}
				for i, want := range []string{wantShort, wantFull, wantShort} {
					if got := deepRender(lr.st, elems[i], 0); got != want {
						problems = append(problems, fmt.Sprintf("paragraph %d of a list (short, full, short) decodes to %s, on its own it decodes to %s", i+1, clip(got, 200), clip(want, 200)))
					}
				}
			}
			if undec != "" {
				r.undecided(doc, pos, undec)
				continue
			}
		}
		fillProblems(r, doc, pos, problems, fmt.Sprintf("%d fields of the document (of %d in the Debian table; lists folded, two entries per checksum list) decode to the model; fields without a Go counterpart are ignored", nfields, len(names)))
	}
}

func clip(s string, n int) string {
	if len(s) <= n {
		return s
	}
	return s[:n] + "..."
}
