package main

// Bounded fallback for the ar reader: when LoadAr / Ar.Next / the header parser
// leave the symbolic-header model (they use an operation on header bytes that
// has no symbolic model), they are interpreted on a family of concrete archives
// instead and compared, member by member, with an ar(5) reference reader.

import (
	"fmt"
	"go/types"
	"strconv"
	"strings"

	"golang.org/x/tools/go/ssa"
)

type arMember struct {
	name, mtime, uid, gid, mode, size string // column texts (padded to the column width when building)
	magic                             string
	dataLen                           int
}

func pad(s string, n int) string {
	if len(s) > n {
		return s[:n]
	}
	return s + strings.Repeat(" ", n-len(s))
}

func buildAr(global string, ms []arMember) []byte {
	out := []byte(global)
	for _, m := range ms {
		h := pad(m.name, 16) + pad(m.mtime, 12) + pad(m.uid, 6) + pad(m.gid, 6) + pad(m.mode, 8) + pad(m.size, 10) + m.magic
		out = append(out, h...)
		out = append(out, strings.Repeat("x", m.dataLen)...)
		if m.dataLen%2 == 1 {
			out = append(out, '\n')
		}
	}
	return out
}

type arRefEntry struct {
	name, mode            string
	mtime, uid, gid, size int64
	off                   int64
}

func (e arRefEntry) String() string {
	return fmt.Sprintf("{name=%q mtime=%d uid=%d gid=%d mode=%q size=%d data@%d}", e.name, e.mtime, e.uid, e.gid, e.mode, e.size, e.off)
}

// refAr reads an archive the way ar(5) describes it. end is "EOF" (clean end), "error", or
// "error@load" (bad global header).
func refAr(b []byte) (entries []arRefEntry, end string) {
	if len(b) < 8 || string(b[:8]) != "!<arch>\n" {
		return nil, "error@load"
	}
	off := int64(8)
	for {
		if off >= int64(len(b)) {
			return entries, "EOF"
		}
		if int64(len(b))-off < 60 {
			return entries, "error-or-EOF" // a header cut short: no member; the properties allow either way to end
		}
		h := b[off : off+60]
		if h[58] != 0x60 || h[59] != 0x0A {
			return entries, "error"
		}
		num := func(lo, hi int) (int64, bool) {
			t := strings.TrimSpace(string(h[lo:hi]))
			if t == "" {
				return 0, true
			}
			n, err := strconv.ParseInt(t, 10, 64)
			return n, err == nil
		}
		var e arRefEntry
		var ok [4]bool
		e.mtime, ok[0] = num(16, 28)
		e.uid, ok[1] = num(28, 34)
		e.gid, ok[2] = num(34, 40)
		e.size, ok[3] = num(48, 58)
		if !ok[0] || !ok[1] || !ok[2] || !ok[3] || e.size < 0 {
			return entries, "error"
		}
		e.name = strings.TrimSuffix(strings.TrimSpace(string(h[0:16])), "/")
		e.mode = strings.TrimSpace(string(h[40:48]))
		e.off = off + 60
		if e.off+e.size > int64(len(b)) {
			return entries, "error" // the data is cut short: a reader could not deliver size bytes
		}
		entries = append(entries, e)
		off += 60 + e.size + e.size%2
	}
}

type arBounded struct {
	nArchives int
	problems  map[string][]string // clause -> problems
	undecided string
}

var arBoundedCache = map[*Prog]*arBounded{}

func arConcrete(p *Prog) *arBounded {
	if r, ok := arBoundedCache[p]; ok {
		return r
	}
	res := &arBounded{problems: map[string][]string{}}
	arBoundedCache[p] = res
	load := p.Func("deb", "LoadAr")
	next := p.Method("deb", "Ar", "Next")
	entT := p.Named("deb", "ArEntry")
	if load == nil || next == nil || entT == nil {
		res.undecided = "deb.LoadAr / Ar.Next / ArEntry not found"
		return res
	}
	good := func(name string, size int) arMember {
		return arMember{name: name, mtime: "1342943816", uid: "0", gid: "0", mode: "100644", size: strconv.Itoa(size), magic: "`\n", dataLen: size}
	}
	type tcase struct {
		desc   string
		b      []byte
		clause string
	}
	var cases []tcase
	add := func(desc, clause string, b []byte) { cases = append(cases, tcase{desc, b, clause}) }
	G := "!<arch>\n"
	// well-formed archives
	// (two names in Latin-1 and UTF-8: the name column is bytes, and comes back as those bytes)
	names := []string{"debian-binary", "control.tar.gz/", "a b/", "x", "abcdefghijklmnop", "dir/sub/", "trailing//", "", "/", "#1/20", "//", "/0", "caf\xe9.txt/", "\xc3\xa5ngstr\xc3\xb6m\xa0"}
	sizes := []int{0, 1, 4, 5}
	for i, n := range names {
		for _, s := range sizes {
			add(fmt.Sprintf("one member %q of %d bytes", n, s), "COLS", buildAr(G, []arMember{good(n, s)}))
			other := good(names[(i+1)%len(names)], sizes[(s+1)%len(sizes)])
			add(fmt.Sprintf("members %q (%d bytes) and %q", n, s, other.name), "OFFSET", buildAr(G, []arMember{good(n, s), other, good("last", 2)}))
		}
	}
	// member sizes around the block sizes a read-ahead layer might use: every member has to come out
	for _, s := range []int{384, 385, 443, 444, 445, 452, 453, 511, 512, 513, 955, 956, 1023, 1024, 1025, 4027, 4028, 4029, 4095, 4096, 4097, 8191, 8192} {
		add(fmt.Sprintf("members of %d, 3 and 0 bytes", s), "OFFSET", buildAr(G, []arMember{good("big", s), good("small", 3), good("empty", 0)}))
		// ... and what follows a member that ran past such a block: even- and odd-sized members in both orders, so
		// that state kept about the padding byte of one member (skipped now or later) meets a member without one
		add(fmt.Sprintf("members of %d, 4, 2 and 1 bytes", s), "OFFSET", buildAr(G, []arMember{good("big", s), good("even", 4), good("two", 2), good("one", 1)}))
		add(fmt.Sprintf("members of %d, 0, 1, 6 and 3 bytes", s), "OFFSET", buildAr(G, []arMember{good("big", s), good("empty", 0), good("one", 1), good("six", 6), good("three", 3)}))
	}
	{
		var many []arMember
		for i := 0; i < 14; i++ {
			many = append(many, good(fmt.Sprintf("m%d", i), i%3))
		}
		add("fourteen members of 0 to 2 bytes", "OFFSET", buildAr(G, many))
	}
	add("empty archive (global header only)", "SHORT", []byte(G))
	// column variants
	for _, v := range []struct{ col, text string }{
		{"mtime", ""}, {"mtime", "0"}, {"mtime", "4102444800"}, {"mtime", "abc"}, {"mtime", "-5"}, {"mtime", "12 3"},
		{"uid", ""}, {"uid", "1000"}, {"uid", "1x"}, {"gid", ""}, {"gid", "65534"}, {"gid", "g"},
		{"mode", ""}, {"mode", "644"}, {"mode", " 100755"}, {"mode", "10064475"},
		{"mtime", "001342943816"}, {"uid", "000123"}, {"gid", "000456"}, {"size", "0000000004"}, {"size", "0000000013"},
		{"size", ""}, {"size", " 4"}, {"size", "-1"}, {"size", "-60"}, {"size", "4x"}, {"size", "1 2"}, {"size", "9999999999"}, {"size", "0"},
	} {
		m := good("member", 4)
		switch v.col {
		case "mtime":
			m.mtime = v.text
		case "uid":
			m.uid = v.text
		case "gid":
			m.gid = v.text
		case "mode":
			m.mode = v.text
		case "size":
			m.size = v.text
			if n, err := strconv.ParseInt(strings.TrimSpace(v.text), 10, 64); err == nil && n >= 0 && n < 100 {
				m.dataLen = int(n)
			} else {
				m.dataLen = 4
			}
		}
		if v.text == "9999999999" {
			add("size column 9999999999 on 4 bytes of data", "TRUNC", buildAr(G, []arMember{good("first", 2), m}))
			continue
		}
		add(fmt.Sprintf("column %s = %q", v.col, v.text), "COLS", buildAr(G, []arMember{good("first", 2), m, good("after", 1)}))
	}
	// header magic
	for _, mg := range []string{"`X", "X\n", "XY", "\n`", "  "} {
		m := good("member", 4)
		m.magic = mg
		add(fmt.Sprintf("header ending %q", mg), "HDRMAGIC", buildAr(G, []arMember{good("first", 3), m}))
	}
	// global magic
	for i := 0; i < 8; i++ {
		g := []byte(G)
		g[i] ^= 0x01
		add(fmt.Sprintf("global header with byte %d changed", i), "MAGIC", buildAr(string(g), []arMember{good("m", 2)}))
	}
	for _, n := range []int{0, 1, 7} {
		add(fmt.Sprintf("archive of %d bytes", n), "MAGIC", []byte(G[:n]))
	}
	// truncation inside the second header
	full := buildAr(G, []arMember{good("first", 4), good("second", 6)})
	second := 8 + 60 + 4
	for _, cut := range []int{second + 1, second + 2, second + 16, second + 30, second + 58, second + 59} {
		add(fmt.Sprintf("archive cut %d bytes into the second header", cut-second), "SHORT", full[:cut])
	}
	// archive that ends right after odd-sized data (no padding byte)
	odd := buildAr(G, []arMember{good("first", 4), good("odd", 5)})
	add("archive ending right after the data of an odd-sized last member", "LAST", odd[:len(odd)-1])
	// archives cut inside the data of the last member
	for _, sz := range []int{1, 2, 5, 6} {
		whole := buildAr(G, []arMember{good("first", 4), good("cut", sz)})
		end := 8 + 60 + 4 + 60 + sz
		for _, have := range []int{0, sz / 2, sz - 1} {
			if have < sz {
				add(fmt.Sprintf("last member records %d bytes, %d present", sz, have), "TRUNC", whole[:end-sz+have])
			}
		}
	}

	for _, tc := range cases {
		res.nArchives++
		m := NewMachine(p, nil)
		installStringModels(m)
		installFuncModels(m)
		installUnicodeModels(m)
		installIOGlobals(m)
		m.Hooks["fmt.Sprintf"] = sprintfModel
		content := tc.b
		m.InvokeHook = func(m *Machine, st *State, call *ssa.CallCommon, recv Val, args []Val) ([]Val, bool) {
			if call.Method.Name() != "ReadAt" {
				return nil, false
			}
			// only the caller's archive is an oracle; a ReaderAt of the repository's own (a read-ahead layer, ...) is interpreted
			rcv := recv
			if iv, isI := rcv.(IfaceV); isI {
				rcv = iv.V
			}
			if pp, isP := rcv.(Ptr); !isP || st.Heap[pp.Obj] == nil {
				return nil, false
			} else if ov, isO := st.Heap[pp.Obj].V.(OpaqueV); !isO || ov.Name != "the-archive" {
				return nil, false
			}
			buf, ok := args[0].(SliceV)
			off, ok2 := args[1].(int64)
			if !ok || !ok2 || buf.Abs {
				return nil, false
			}
			if off < 0 {
				return []Val{&TupleV{E: []Val{int64(0), IfaceV{T: errType, V: "negative offset"}}}}, true
			}
			n := 0
			for i := 0; i < buf.Len_ && int(off)+i < len(content); i++ {
				st.store(Ptr{Obj: buf.Obj, Path: pathAppend(buf.Path, buf.Lo+i)}, int64(content[int(off)+i]))
				n++
			}
			var e Val = nilV{}
			if n < buf.Len_ {
				e = eofVal
			}
			return []Val{&TupleV{E: []Val{int64(n), e}}}, true
		}
		isArchive := func(st *State, pp Ptr) bool {
			if st.Heap[pp.Obj] == nil {
				return false
			}
			ov, isO := st.Heap[pp.Obj].V.(OpaqueV)
			return isO && ov.Name == "the-archive"
		}
		type secInfo struct{ off, n int64 }
		sections := map[string]secInfo{} // by the section's name: sections over the archive with concrete bounds
		m.Hooks["io.NewSectionReader"] = func(m *Machine, st *State, call *ssa.CallCommon, args []Val) ([]Val, bool) {
			name := fmt.Sprintf("section(%s,%s)", valStr(args[1]), valStr(args[2]))
			id := st.alloc(types.Typ[types.Int], OpaqueV{name})
			base := args[0]
			if iv, isI := base.(IfaceV); isI {
				base = iv.V
			}
			if pp, isP := base.(Ptr); isP && isArchive(st, pp) {
				if o, ok1 := args[1].(int64); ok1 {
					if n, ok2 := args[2].(int64); ok2 {
						sections[name] = secInfo{o, n}
					}
				}
			}
			return []Val{Ptr{Obj: id}}, true
		}
		// a probe of the iterator's own through the member's section reader (io.SectionReader's contract: offsets
		// outside [0, n) give 0, io.EOF; a read that reaches the section's end gives io.EOF with the bytes read)
		secOf := func(st *State, v Val) (secInfo, bool) {
			pp, isP := v.(Ptr)
			if !isP || st.Heap[pp.Obj] == nil {
				return secInfo{}, false
			}
			ov, isO := st.Heap[pp.Obj].V.(OpaqueV)
			if !isO {
				return secInfo{}, false
			}
			si, ok := sections[ov.Name]
			return si, ok
		}
		m.Hooks["(*io.SectionReader).Size"] = func(m *Machine, st *State, call *ssa.CallCommon, args []Val) ([]Val, bool) {
			si, ok := secOf(st, args[0])
			return []Val{si.n}, ok
		}
		m.Hooks["(*io.SectionReader).ReadAt"] = func(m *Machine, st *State, call *ssa.CallCommon, args []Val) ([]Val, bool) {
			si, ok := secOf(st, args[0])
			buf, ok1 := args[1].(SliceV)
			off, ok2 := args[2].(int64)
			if !ok || !ok1 || !ok2 || buf.Abs {
				return nil, false
			}
			if off < 0 || off >= si.n {
				return []Val{&TupleV{E: []Val{int64(0), eofVal}}}, true
			}
			want := buf.Len_
			atEnd := false
			if max := si.n - off; int64(want) > max {
				want, atEnd = int(max), true
			}
			n := 0
			for i := 0; i < want && si.off+off+int64(i) < int64(len(content)); i++ {
				st.store(Ptr{Obj: buf.Obj, Path: pathAppend(buf.Path, buf.Lo+i)}, int64(content[si.off+off+int64(i)]))
				n++
			}
			var e Val = nilV{}
			if n < want || atEnd {
				e = eofVal
			}
			return []Val{&TupleV{E: []Val{int64(n), e}}}, true
		}
		st := initState(m, "deb")
		inID := st.alloc(types.Typ[types.Int], OpaqueV{"the-archive"})
		run := func(fn *ssa.Function, args ...Val) (Val, string) {
			st.Status = stRun
			st.Frames = nil
			st.push(fn, args, nil)
			out := m.Run(st)
			if len(out) != 1 {
				return nil, fmt.Sprintf("undecided: %d paths", len(out))
			}
			switch out[0].Status {
			case stRet:
				return st.Ret, ""
			case stPanic:
				return nil, "PANIC: " + out[0].Msg
			}
			if out[0].Notes["nonterm"] {
				return nil, "NONTERM: " + out[0].Msg
			}
			return nil, "undecided: " + out[0].Msg
		}
		wantEntries, wantEnd := refAr(content)
		fail := func(msg string) {
			res.problems[tc.clause] = append(res.problems[tc.clause], tc.desc+": "+msg)
		}
		ret, why := run(load, IfaceV{T: types.NewPointer(types.Typ[types.Int]), V: Ptr{Obj: inID}})
		if strings.HasPrefix(why, "PANIC") || strings.HasPrefix(why, "NONTERM") {
			fail("LoadAr: " + why)
			continue
		}
		if why != "" {
			res.undecided = tc.desc + ": LoadAr: " + why
			return res
		}
		tv, ok := ret.(*TupleV)
		if !ok || len(tv.E) != 2 {
			res.undecided = "unexpected result shape of LoadAr"
			return res
		}
		if _, errNil := tv.E[1].(nilV); !errNil {
			if wantEnd != "error@load" {
				fail("LoadAr rejects an archive with a correct global header")
			}
			continue
		}
		if wantEnd == "error@load" {
			fail("LoadAr accepts an archive whose global header is not \"!<arch>\\n\"")
			continue
		}
		ar := tv.E[0]
		var got []arRefEntry
		gotEnd := ""
		for i := 0; i < len(wantEntries)+3; i++ {
			r, why := run(next, ar)
			if strings.HasPrefix(why, "PANIC") || strings.HasPrefix(why, "NONTERM") {
				gotEnd = why
				break
			}
			if why != "" {
				res.undecided = tc.desc + ": Next: " + why
				return res
			}
			nt, ok := r.(*TupleV)
			if !ok || len(nt.E) != 2 {
				res.undecided = "unexpected result shape of Next"
				return res
			}
			if ev, isErr := nt.E[1].(IfaceV); isErr {
				if ev.V == "io.EOF" {
					gotEnd = "EOF"
				} else {
					gotEnd = "error"
					// an error that wraps io.EOF is taken for the clean end by every caller that asks errors.Is
					cur := Val(ev)
					for k := 0; k < 8; k++ {
						iv, isI := cur.(IfaceV)
						if !isI {
							break
						}
						if iv.V == "io.EOF" {
							gotEnd = "error wrapping io.EOF"
							break
						}
						w, wraps := iv.V.(WrapErrV)
						if !wraps {
							break
						}
						cur = w.Inner
					}
				}
				if _, valNil := nt.E[0].(nilV); !valNil {
					fail("Next returns a member together with an error")
				}
				break
			}
			pp, ok := nt.E[0].(Ptr)
			if !ok {
				fail("Next returns neither a member nor an error")
				break
			}
			lv, _ := st.load(pp)
			sv, ok := lv.(*StructV)
			if !ok {
				res.undecided = "Next does not return an *ArEntry"
				return res
			}
			es := structOf(entT)
			f := func(n string) Val {
				if i := fieldIndex(es, n); i >= 0 {
					return sv.F[i]
				}
				return nil
			}
			var e arRefEntry
			e.name, _ = f("Name").(string)
			e.mode, _ = f("FileMode").(string)
			e.mtime, _ = f("Timestamp").(int64)
			e.uid, _ = f("OwnerID").(int64)
			e.gid, _ = f("GroupID").(int64)
			e.size, _ = f("Size").(int64)
			sec := deepRender(st, f("Data"), 0)
			e.off = -1
			var so, sn int64
			if _, err := fmt.Sscanf(sec, "&opaque(section(%d,%d))", &so, &sn); err == nil {
				e.off = so
				if sn != e.size {
					fail(fmt.Sprintf("member %q: the data reader covers %d bytes but the size column says %d", e.name, sn, e.size))
				}
			} else {
				fail(fmt.Sprintf("member %q: Data is %s, want io.NewSectionReader(archive, offset of the data, size)", e.name, sec))
			}
			got = append(got, e)
		}
		if strings.HasPrefix(gotEnd, "PANIC") || strings.HasPrefix(gotEnd, "NONTERM") {
			fail("Next: " + gotEnd)
			continue
		}
		if gotEnd == "" {
			fail(fmt.Sprintf("Next keeps returning members (%d so far) where the archive has %d", len(got), len(wantEntries)))
			continue
		}
		if fmt.Sprint(got) != fmt.Sprint(wantEntries) {
			fail(fmt.Sprintf("members %v, ar(5) says %v", got, wantEntries))
			continue
		}
		if gotEnd == "error wrapping io.EOF" && wantEnd != "EOF" {
			fail(fmt.Sprintf("after %d members the iteration fails with an error that wraps io.EOF although the archive does not end cleanly there: errors.Is(err, io.EOF) takes a damaged archive for a complete one", len(got)))
			continue
		}
		if gotEnd == "error wrapping io.EOF" {
			gotEnd = "error"
		}
		if gotEnd != wantEnd && !(wantEnd == "error-or-EOF" && (gotEnd == "error" || gotEnd == "EOF")) {
			fail(fmt.Sprintf("after %d members the iteration ends with %s, want %s", len(got), gotEnd, wantEnd))
		}
	}
	return res
}
