// gdsa — static analysis of paultag/go-debian for the properties in
// /verif/properties.jsonl. Nothing in /repo is compiled-and-run; every command
// loads the current source, type-checks it, builds SSA and decides rules.
package main

import (
	"fmt"
	"os"
	"runtime/debug"
	"sort"
	"strings"
)

type checkFn func(p *Prog, rp *Report)

var registry = map[string]checkFn{}

func register(id string, fn checkFn) { registry[id] = fn }

func main() {
	if len(os.Args) < 2 {
		usage()
	}
	switch os.Args[1] {
	case "check":
		if len(os.Args) < 3 {
			usage()
		}
		prop := os.Args[2]
		tier := "quick"
		for i := 3; i < len(os.Args); i++ {
			if os.Args[i] == "--tier" && i+1 < len(os.Args) {
				tier = os.Args[i+1]
			}
		}
		if t := os.Getenv("VERIF_TIER"); t == "quick" || t == "thorough" {
			tier = t
		}
		os.Exit(runCheck(prop, tier))
	case "list":
		ids := []string{}
		for k := range registry {
			ids = append(ids, k)
		}
		sort.Strings(ids)
		fmt.Println(strings.Join(ids, " "))
	case "explain":
		if len(os.Args) < 3 {
			usage()
		}
		b, err := os.ReadFile(os.Args[2])
		if err != nil {
			fmt.Println(err)
			os.Exit(2)
		}
		fmt.Println(string(b))
		fmt.Println("re-run: ./bin/gdsa check <property> to re-derive this instance on the current tree")
	case "indexes":
		debugIndexes(os.Args[2:])
	case "guards":
		debugGuards(os.Args[2:])
	case "control":
		// gdsa control <Cnn> <name>: run one negative control in this process
		if len(os.Args) < 4 {
			usage()
		}
		os.Exit(runControl(os.Args[2], os.Args[3]))
	default:
		usage()
	}
}

func usage() {
	fmt.Fprintln(os.Stderr, "usage: gdsa check <Cnn> [--tier quick|thorough] | gdsa list | gdsa explain <replay.json>")
	os.Exit(2)
}

func runCheck(prop, tier string) (code int) {
	fn, ok := registry[prop]
	rp := NewReport(prop, tier)
	if !ok {
		rp.Errorf("unknown property %s", prop)
		return rp.Finish()
	}
	defer func() {
		if r := recover(); r != nil {
			rp.Errorf("engine panic: %v\n%s", r, debug.Stack())
			code = rp.Finish()
		}
	}()
	p, err := LoadRepo("", nil)
	if err != nil {
		rp.Errorf("%v", err)
		return rp.Finish()
	}
	rp.Extra["packages"] = len(p.All)
	rp.Extra["source_functions"] = len(p.SrcFuncs(wantPkgs...))
	// canary: one negative control per property runs (in its own process, in
	// parallel) on every invocation, so a checker that has gone blind is noticed
	// even in the quick tier
	canaryCh := startCanary(prop)
	fn(p, rp)
	if tier == "thorough" {
		runControls(prop, rp)
	}
	finishCanary(prop, rp, canaryCh)
	return rp.Finish()
}
