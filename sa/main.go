// gdsa — static analysis of paultag/go-debian for the properties in
// /verif/properties.jsonl. Nothing in /repo is compiled-and-run; every command
// loads the current source, type-checks it, builds SSA and decides rules.
package main

import (
	"runtime"
	"time"
	"runtime/pprof"
	"fmt"
	"os"
	"runtime/debug"
	"sort"
	"strings"
)

type checkFn func(p *Prog, rp *Report)

var registry = map[string]checkFn{}

func register(id string, fn checkFn) { registry[id] = fn }

func main() {
	if len(os.Args) < 2 {
		usage()
	}
	switch os.Args[1] {
	case "check":
		if len(os.Args) < 3 {
			usage()
		}
		prop := os.Args[2]
		tier := "quick"
		for i := 3; i < len(os.Args); i++ {
			if os.Args[i] == "--tier" && i+1 < len(os.Args) {
				tier = os.Args[i+1]
			}
		}
		if t := os.Getenv("VERIF_TIER"); t == "quick" || t == "thorough" {
			tier = t
		}
		os.Exit(runCheck(prop, tier))
	case "list":
		ids := []string{}
		for k := range registry {
			ids = append(ids, k)
		}
		sort.Strings(ids)
		fmt.Println(strings.Join(ids, " "))
	case "explain":
		if len(os.Args) < 3 {
			usage()
		}
		b, err := os.ReadFile(os.Args[2])
		if err != nil {
			fmt.Println(err)
			os.Exit(2)
		}
		fmt.Println(string(b))
		fmt.Println("re-run: ./bin/gdsa check <property> to re-derive this instance on the current tree")
	case "indexes":
		debugIndexes(os.Args[2:])
	case "guards":
		debugGuards(os.Args[2:])
	case "control":
		// gdsa control <Cnn> <name>: run one negative control in this process
		if len(os.Args) < 4 {
			usage()
		}
		os.Exit(runControl(os.Args[2], os.Args[3]))
	default:
		usage()
	}
}

func usage() {
	fmt.Fprintln(os.Stderr, "usage: gdsa check <Cnn> [--tier quick|thorough] | gdsa list | gdsa explain <replay.json>")
	os.Exit(2)
}

// memoryBudget: a check that needs more than this is cut off and reported as an engine error (exit 1) instead of
// taking the machine down; today's tree needs well under 2 GiB in either tier.
const memoryBudget = 12 << 30

func watchMemory(prop string) {
	go func() {
		var ms runtime.MemStats
		for {
			time.Sleep(500 * time.Millisecond)
			runtime.ReadMemStats(&ms)
			if ms.HeapAlloc > memoryBudget {
				fmt.Printf("  ENGINE (error) [error] : the analysis needs more than %d GiB of memory (an interpreted loop that keeps allocating?): stopped, nothing is claimed\n", memoryBudget>>30)
				fmt.Printf("VIOLATION property=%s replay=/verif/evidence/replays/%s-00-ENGINE-memory.json\n", prop, prop)
				os.Exit(1)
			}
		}
	}()
}

func runCheck(prop, tier string) (code int) {
	watchMemory(prop)
	if f := os.Getenv("GDSA_CPUPROFILE"); f != "" {
		if w, err := os.Create(f); err == nil {
			pprof.StartCPUProfile(w)
			defer pprof.StopCPUProfile()
			go func() { // development aid: a profile of the first 40 seconds of a run that takes too long
				time.Sleep(40 * time.Second)
				pprof.StopCPUProfile()
				os.Exit(3)
			}()
		}
	}
	fn, ok := registry[prop]
	rp := NewReport(prop, tier)
	if !ok {
		rp.Errorf("unknown property %s", prop)
		return rp.Finish()
	}
	defer func() {
		if r := recover(); r != nil {
			rp.Errorf("engine panic: %v\n%s", r, debug.Stack())
			code = rp.Finish()
		}
	}()
	p, err := LoadRepo("", nil)
	if err != nil {
		rp.Errorf("%v", err)
		return rp.Finish()
	}
	rp.Extra["packages"] = len(p.All)
	rp.Extra["source_functions"] = len(p.SrcFuncs(wantPkgs...))
	// canary: one negative control per property runs (in its own process, in
	// parallel) on every invocation, so a checker that has gone blind is noticed
	// even in the quick tier
	canaryCh := startCanary(prop)
	fn(p, rp)
	reportGlobalMutations(rp, prop)
	if tier == "thorough" {
		runControls(prop, rp)
	}
	finishCanary(prop, rp, canaryCh)
	return rp.Finish()
}

// reportGlobalMutations adds what the interpreter itself saw: a package-level variable whose value
// differs between the start and the end of an interpreted call (writes through aliases included,
// which the address-based part of the Cnn-STATE rules cannot follow).
func reportGlobalMutations(rp *Report, prop string) {
	var r *Rule
	for _, x := range rp.Rules {
		if x.ID == prop+"-STATE" {
			r = x
		}
	}
	if r == nil {
		r = rp.Rule(prop+"-STATE", "no entry point of this property writes package-level state: results depend only on the arguments", 1)
	}
	var names []string
	for n := range globalMutations {
		names = append(names, n)
	}
	sort.Strings(names)
	for _, n := range names {
		if pureMemoNames[n] {
			continue // a per-key memo table (flow.go, pureMemos): filling it is not a dependence on earlier calls
		}
		r.bad("interpreted:"+n, "", globalMutations[n]+": what a call returns can depend on earlier calls, and concurrent calls share mutable state", nil)
	}
	shown := 0
	for _, n := range names {
		if !pureMemoNames[n] {
			shown++
		}
	}
	if shown == 0 {
		r.ok("interpreted runs", "", "every interpreted call of this check left the package-level variables of the repository as it found them")
	}
}
