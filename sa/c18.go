package main

// C18 — text parsers are total, deterministic and safe to call concurrently.

import (
	"fmt"
	"go/token"
	"go/types"
	"os"
	"regexp"
	"sort"
	"strconv"
	"strings"
	"time"

	"golang.org/x/tools/go/ssa"
	"golang.org/x/tools/go/ssa/ssautil"
)

func init() { register("C18", checkC18) }

var parserPkgs = []string{"version", "dependency", "control", "changelog"}

// parserEntryPoints: the exported parsing API of the four packages.
func parserEntryPoints(p *Prog) []*ssa.Function {
	var out []*ssa.Function
	add := func(f *ssa.Function) {
		if f != nil {
			out = append(out, f)
		}
	}
	add(p.Func("version", "Parse"))
	add(p.Method("version", "Version", "UnmarshalControl"))
	add(p.Method("version", "Version", "UnmarshalText"))
	add(p.Func("dependency", "Parse"))
	add(p.Func("dependency", "ParseArch"))
	add(p.Func("dependency", "ParseArchitectures"))
	add(p.Method("dependency", "Arch", "UnmarshalControl"))
	add(p.Method("dependency", "Dependency", "UnmarshalControl"))
	add(p.Func("control", "NewParagraphReader"))
	add(p.Method("control", "ParagraphReader", "Next"))
	add(p.Method("control", "ParagraphReader", "All"))
	add(p.Func("control", "Unmarshal"))
	add(p.Func("control", "NewDecoder"))
	add(p.Method("control", "Decoder", "Decode"))
	add(p.Func("control", "UnpackFromParagraph"))
	for _, n := range []string{"ParseDsc", "ParseChanges", "ParseControl", "ParseBinaryIndex", "ParseSourceIndex"} {
		add(p.Func("control", n))
	}
	for _, t := range []string{"MD5FileHash", "SHA1FileHash", "SHA256FileHash", "SHA512FileHash", "FileListChangesFileHash"} {
		add(p.Method("control", t, "UnmarshalControl"))
	}
	add(p.Func("changelog", "Parse"))
	add(p.Func("changelog", "ParseOne"))
	return out
}

func checkC18(p *Prog, rp *Report) {
	rp.Explanation = "C18-GLOBALS: no function of version, dependency, control, changelog, hashio, internal stores to a package-level variable or updates a map reachable from one (outside package initialisers), so calls share no mutable state. C18-TERM: every loop in the parser packages is classified as (i) a range/counted loop whose index moves by a positive constant towards a loop-invariant bound, (ii) a reader loop every iteration of which performs a read whose failure leaves the loop, or (iii) a cursor loop covered by the transition-system explorations of the dependency parser (C04-TOTAL) and the version comparator (C01-RUN), in which every run between two input symbols is finite; recursion only descends struct nesting or the two-step Arch.Is swap. C18-BOUNDS: every index and slice expression reachable from the parser entry points is proven in range by one of: range induction variable, constant index under a dominating length guard, Split result [0], bounds derived from Index/LastIndex on the found branch, [1:] under a dominating HasPrefix, fixed arrays, or the cursor explorations (no panic state). C18-NOPANIC: no log.Fatal/os.Exit, no panic statement reached unconditionally and no unchecked type assertion reachable from the entry points; no panic state in the explorations of the dependency parser and the version comparator or on the hostile documents. A panic statement behind a guard that is neither refuted (non-negative integers) nor entered by an interpreted scenario is listed, not decided. C18-DET: every range over a map reachable from the parser entry points is order independent (unique-match idiom or element-keyed updates only). C18-XOR: every exported function of the four packages that returns (value, error) returns nil / the zero value on every return where the error can be non-nil."
	rp.NotDecided = "data races and hangs inside the standard library and third-party code; behaviour of the reflection walkers on caller-supplied struct types; memory exhaustion on huge inputs."
	rp.Trusted = []string{"go/types, go/ssa", "contracts of strings.Split (>= 1 element), Index/LastIndex (-1 or a valid position), HasPrefix", "C01-RUN and C04-TOTAL explorations"}

	// ---- GLOBALS
	gl := rp.Rule("C18-GLOBALS", "no package-level mutable state is written", 1)
	ws := globalWrites(p, "version", "dependency", "control", "changelog", "hashio", "internal")
	for _, w := range ws {
		gl.bad(fname(w.Fn)+":"+w.G, p.Pos(w.Pos), fmt.Sprintf("%s of the package-level variable %s outside an initialiser: concurrent calls share mutable state", w.How, w.G), nil)
	}
	if len(ws) == 0 {
		n := 0
		for _, k := range []string{"version", "dependency", "control", "changelog", "hashio", "internal"} {
			for range p.SPkg[k].Members {
				n++
			}
		}
		gl.ok("packages", "", fmt.Sprintf("%d source functions of 6 packages scanned: no store to, and no map update through, a package-level variable", len(p.SrcFuncs("version", "dependency", "control", "changelog", "hashio", "internal"))))
	}
	// package-level variables holding stateful objects built at init time
	for _, k := range []string{"version", "dependency", "control", "changelog", "hashio", "internal"} {
		initFn := p.SPkg[k].Func("init")
		if initFn == nil {
			continue
		}
		for _, c := range allCalls(initFn) {
			n := calleeName(c.Common())
			if strings.HasSuffix(n, ".init") {
				continue
			}
			if strings.HasPrefix(n, "crypto/") || strings.HasPrefix(n, "bufio.New") || strings.HasPrefix(n, "bytes.NewBuffer") {
				gl.bad(k+".init:"+shortFn(n), p.Pos(c.Pos()), "a stateful object ("+shortFn(n)+") is created once at package initialisation and shared by every caller", nil)
			}
		}
	}

	entries := parserEntryPoints(p)
	reach := map[*ssa.Function]bool{}
	for _, e := range entries {
		for _, f := range reachableRepoFuncs(e) {
			reach[f] = true
		}
	}
	// dynamic dispatch through Unmarshallable: add every UnmarshalControl in the repository
	for _, fn := range p.SrcFuncs(wantPkgs...) {
		if fn.Name() == "UnmarshalControl" {
			for _, f := range reachableRepoFuncs(fn) {
				reach[f] = true
			}
		}
	}
	var reachList []*ssa.Function
	for f := range reach {
		reachList = append(reachList, f)
	}
	sort.Slice(reachList, func(i, j int) bool { return reachList[i].Pos() < reachList[j].Pos() })
	rp.Extra["parser_functions"] = len(reachList)

	// cursor-loop coverage
	cursorFns := map[*ssa.Function]string{}
	tA := time.Now()
	pm, why := buildParserModel(p)
	if os.Getenv("GDSA_DEBUG") != "" {
		fmt.Fprintf(os.Stderr, "parser model %v\n", time.Since(tA))
	}
	parserOK := pm != nil && len(pm.undec) == 0 && len(pm.panics) == 0 && len(pm.nonterm) == 0 && pm.forward
	parserHow := "dependency parser exploration"
	if pm == nil || len(pm.undec) > 0 || !pm.forward {
		// the parser left the transition-system model: bounded exploration on exact inputs
		if b := parserBounded(p); b.undecided == "" && len(b.total) == 0 {
			parserOK = true
			parserHow = "bounded dependency parser exploration (exact inputs: grammar words and every short string; the parser left the transition-system model)"
		}
	}
	if parse := p.Func("dependency", "Parse"); parse != nil {
		for _, f := range reachableRepoFuncs(parse) {
			if shortPkg(f) == "dependency" {
				cursorFns[f] = parserHow
			}
		}
	}
	cmpRule := &Rule{}
	tB := time.Now()
	prodRes, cmpFn := runEquivalence(p, rp, cmpRule, false)
	if os.Getenv("GDSA_DEBUG") != "" {
		fmt.Fprintf(os.Stderr, "product %v\n", time.Since(tB))
	}
	cmpOK := prodRes != nil && len(prodRes.Panics) == 0 && len(prodRes.NonTerm) == 0 && len(prodRes.ImplStuck) == 0 && len(prodRes.Undecided) == 0
	if cmpFn != nil {
		for _, f := range reachableRepoFuncs(cmpFn) {
			cursorFns[f] = "version comparator exploration"
		}
	}

	t0 := time.Now()
	c18Term(p, rp, reachList, cursorFns, parserOK, cmpOK, pm, prodRes, why)
	t1 := time.Now()
	c18Bounds(p, rp, reachList, cursorFns, parserOK, cmpOK)
	// C18-DET: no result of the parsers depends on the iteration order of a map
	det := rp.Rule("C18-DET", "no parser result depends on map iteration order", 1)
	nloops := 0
	for _, fn := range reachList {
		for _, ml := range mapOrderLoops(fn) {
			nloops++
			key := fname(fn) + ":range-over-map"
			if ml.OK {
				det.ok(key, p.Pos(ml.Range.Pos()), "iteration order cannot influence the result (unique-match idiom or element-keyed updates only)")
			} else {
				det.bad(key, p.Pos(ml.Range.Pos()), "the same input can give different results from call to call: "+ml.Why, nil)
			}
		}
	}
	if nloops == 0 {
		det.ok("(no range over a map)", "", fmt.Sprintf("none of the %d functions reachable from the parser entry points ranges over a map", len(reachList)))
	}
	if os.Getenv("GDSA_DEBUG") != "" {
		fmt.Fprintf(os.Stderr, "term %v bounds %v\n", t1.Sub(t0), time.Since(t1))
	}

	// ---- NOPANIC
	np := rp.Rule("C18-NOPANIC", "no fatal exit, unconditional panic or unchecked type assertion reachable from the parsers; no panic state in the explorations", 1)
	sites, softSites := hardSites(fatalSites(entries))
	for _, s := range sites {
		np.bad(fname(s.Fn)+":"+s.What, p.Pos(s.Pos), s.What+" is reachable from a parser entry point", nil)
	}
	nAssert := 0
	for _, f := range reachList {
		for _, b := range f.Blocks {
			for _, ins := range b.Instrs {
				if ta, ok := ins.(*ssa.TypeAssert); ok && !ta.CommaOk {
					if pooledType(ta) || memoType(ta) {
						continue // what comes out of a pool / a memo table is what was put into it
					}
					nAssert++
					np.bad(fname(f)+":type-assertion", p.Pos(ta.Pos()), "single-result type assertion on a value whose dynamic type is not checked: a mismatch panics", nil)
				}
			}
		}
	}
	if len(sites) == 0 && nAssert == 0 {
		np.ok("parser entry points", "", fmt.Sprintf("%d functions reachable from %d entry points: no unguarded panic, no log.Fatal/os.Exit, every type assertion is the comma-ok form", len(reachList), len(entries))+softNote(softSites))
	}
	if pm != nil && len(pm.panics) > 0 {
		np.bad("dependency.Parse:panic-state", "", "the dependency parser can panic: "+pm.panics[0], nil)
	}
	if prodRes != nil && len(prodRes.Panics) > 0 {
		np.bad("version.comparator:panic-state", "", fmt.Sprintf("the version comparator can panic on %v", prodRes.Panics[0]), nil)
	}

	c18Xor(p, rp)
	c18Env(p, rp, reachList)
	c18Hostile(p, np)
	c18StateFamily(p)
	c18Carry(p, rp)
}

// c18Hostile: "typed-document parsers return normally" also when the document uses the Go names of struct fields
// as field names — of the document type itself and of every struct type nested in it, exported or not. A decoder
// that walks into nested structs by Go name would try to set an unexported field and panic.
func c18Hostile(p *Prog, np *Rule) {
	for _, dt := range [][2]string{{"control", "DSC"}, {"control", "Changes"}, {"control", "BinaryIndex"}, {"control", "SourceIndex"}, {"control", "SourceParagraph"}, {"control", "BinaryParagraph"}, {"deb", "Control"}} {
		n := p.Named(dt[0], dt[1])
		if n == nil {
			continue
		}
		names := map[string]bool{}
		var walk func(t types.Type, depth int)
		walk = func(t types.Type, depth int) {
			if depth > 4 {
				return
			}
			switch u := t.Underlying().(type) {
			case *types.Struct:
				for i := 0; i < u.NumFields(); i++ {
					names[u.Field(i).Name()] = true
					walk(u.Field(i).Type(), depth+1)
				}
			case *types.Slice:
				walk(u.Elem(), depth+1)
			case *types.Pointer:
				walk(u.Elem(), depth+1)
			case *types.Array:
				walk(u.Elem(), depth+1)
			}
		}
		walk(n, 0)
		var keys []string
		for k := range names {
			if k != "" && k != "_" {
				keys = append(keys, k)
			}
		}
		sort.Strings(keys)
		key := dt[0] + "." + dt[1] + ":go-field-names-as-keys"
		// one name at a time (an error on another field would hide it), alone and after a few ordinary fields
		base := "Format: 3.0 (quilt)\nSource: hello\nPackage: hello\nVersion: 0:2.10-1\nArchitecture: amd64\nMaintainer: Jane Doe <jane@example.org>\n"
		bad := false
	keys:
		for _, k := range keys {
			for _, doc := range []string{k + ": yes\n", base + k + ": yes\n", base + k + ": 1\n"} {
				_, _, why := newC09Run(p).unmarshal(n, doc)
				if strings.HasPrefix(why, "PANIC") {
					np.bad(key, p.Pos(n.Obj().Pos()), fmt.Sprintf("the paragraph %q (a field named like the Go field %s of the type or of a struct nested in it) makes the decoder panic: %s", doc, k, strings.TrimPrefix(why, "PANIC: ")), nil)
					bad = true
					break keys
				}
				if why != "" {
					np.undecided(key, p.Pos(n.Obj().Pos()), why)
					bad = true
					break keys
				}
			}
		}
		if !bad {
			np.ok(key, p.Pos(n.Obj().Pos()), fmt.Sprintf("%d paragraphs, each with one of the %d Go field names of the type and its nested structs as a field name (alone, and after ordinary fields): decoded or rejected, no panic state", 3*len(keys), len(keys)))
		}
	}
}

// c18Env: "the outcome depends only on the input": nothing reachable from the parsers consults the process
// environment — the clock, the local time zone, environment variables, the host, random numbers. time.Parse is
// environment free only for layouts without a zone abbreviation ("MST"): an abbreviation is resolved against
// time.Local.
func c18Env(p *Prog, rp *Report, fns []*ssa.Function) {
	r := rp.Rule("C18-ENV", "no parser consults the process environment (clock, local time zone, environment variables, random numbers)", 1)
	deny := map[string]string{
		"time.Now": "the clock", "time.Since": "the clock", "time.Until": "the clock", "time.LoadLocation": "the time zone database",
		"os.Getenv": "an environment variable", "os.LookupEnv": "an environment variable", "os.Environ": "the environment", "os.ExpandEnv": "the environment",
		"os.Hostname": "the host name", "os.Getwd": "the working directory", "os.Getpid": "the process id", "os.UserHomeDir": "the user's home directory",
		"(time.Time).Local": "the local time zone", "(time.Time).In": "a time zone",
	}
	// layouts with a zone abbreviation anywhere in the packages (constants that may reach a non-constant layout argument)
	zoneLayouts := map[string]bool{}
	isZoneLayout := func(s string) bool {
		return strings.Contains(s, "MST") && (strings.Contains(s, "2006") || strings.Contains(s, "15:04") || strings.Contains(s, "Jan"))
	}
	scanConsts := func(fn *ssa.Function) {
		for _, b := range fn.Blocks {
			for _, ins := range b.Instrs {
				for _, op := range ins.Operands(nil) {
					if s, ok := constString(*op); ok && isZoneLayout(s) {
						zoneLayouts[s] = true
					}
				}
			}
		}
	}
	for _, fn := range fns {
		scanConsts(fn)
	}
	for _, k := range parserPkgs {
		if sp := p.SPkg[k]; sp != nil {
			if init := sp.Func("init"); init != nil {
				scanConsts(init)
			}
		}
	}
	n := 0
	for _, fn := range fns {
		for _, b := range fn.Blocks {
			for _, ins := range b.Instrs {
				if u, ok := ins.(*ssa.UnOp); ok && u.Op == token.MUL {
					if g, isG := u.X.(*ssa.Global); isG && g.Pkg != nil && g.Pkg.Pkg.Path() == "time" && g.Name() == "Local" {
						n++
						r.bad(fname(fn)+":time.Local", p.Pos(u.Pos()), "reads time.Local: the result depends on the time zone of the process", nil)
					}
				}
				c, ok := ins.(ssa.CallInstruction)
				if !ok {
					continue
				}
				name := calleeName(c.Common())
				if what, bad := deny[name]; bad {
					n++
					r.bad(fname(fn)+":"+shortFn(name), p.Pos(ins.Pos()), "calls "+shortFn(name)+": the result depends on "+what+", not only on the input", nil)
					continue
				}
				if strings.HasPrefix(name, "math/rand.") || strings.HasPrefix(name, "math/rand/v2.") || strings.HasPrefix(name, "crypto/rand.") {
					n++
					r.bad(fname(fn)+":"+shortFn(name), p.Pos(ins.Pos()), "calls "+shortFn(name)+": the result depends on random numbers", nil)
					continue
				}
				if name == "time.Parse" && len(c.Common().Args) == 2 {
					if layout, isConst := constString(c.Common().Args[0]); isConst {
						if isZoneLayout(layout) {
							n++
							r.bad(fname(fn)+":time.Parse", p.Pos(ins.Pos()), fmt.Sprintf("parses with the layout %q: a zone abbreviation is resolved against the local time zone of the process, so the same bytes give different instants", layout), nil)
						}
					} else if len(zoneLayouts) > 0 {
						var ls []string
						for l := range zoneLayouts {
							ls = append(ls, l)
						}
						sort.Strings(ls)
						n++
						r.bad(fname(fn)+":time.Parse", p.Pos(ins.Pos()), fmt.Sprintf("parses with a layout chosen at run time, and layouts with a zone abbreviation are among the candidates (%q): an abbreviation is resolved against the local time zone of the process", ls), nil)
					}
				}
			}
		}
	}
	if n == 0 {
		r.ok("parser entry points", "", fmt.Sprintf("%d functions reachable from the parsers: no clock, time zone, environment, host or random source; time.Parse only with layouts that carry a numeric zone", len(fns)))
	}
}

// c18StateFamily interprets every kind of parser once or twice on concrete inputs from an initialised
// state. It reports nothing itself: the interpreter records any package-level variable whose value a call
// changes (also through aliases), and the C18-STATE rule lists those.
func c18StateFamily(p *Prog) {
	call := func(pkg, fn string, inputs ...string) {
		f := p.Func(pkg, fn)
		if f == nil || f.Signature.Params().Len() != 1 || !isStringT(f.Signature.Params().At(0).Type()) {
			return
		}
		for _, in := range inputs {
			m := NewMachine(p, nil)
			st := initState(m, pkg)
			if st.Status == stStuck {
				return
			}
			st.Status = stRun
			st.push(f, []Val{in}, nil)
			m.Run(st)
		}
	}
	call("version", "Parse", "1:2.0~rc1-3", "2.0", "x", "")
	call("dependency", "Parse", "foo [!amd64]", "bar", "foo [amd64 i386] <!stage1 cross> (>= 1.0) | baz:any, ${misc:Depends}", "foo [!", "a (>> 1", "")
	call("dependency", "ParseArch", "linux-any", "amd64", "gnu-kfreebsd-i386", "")
	call("dependency", "ParseArchitectures", "amd64 i386", "")
	readParagraphs(p, "A: 1\nB: 2\n more\n\nC: 3\n")
	if dsc := p.Named("control", "DSC"); dsc != nil {
		newC09Run(p).unmarshal(dsc, "Format: 3.0 (quilt)\nSource: x\nBinary: a, b\nArchitecture: any all\nVersion: 1.0-1\nBuild-Depends: foo [!amd64], bar\nFiles:\n 0123456789abcdef0123456789abcdef 10 x_1.0.dsc\n")
	}
	if fn := p.Func("changelog", "Parse"); fn != nil {
		m := readerMachine(p, []string{"hello (1.0-1) unstable; urgency=low\n", "\n", "  * change\n", "\n", " -- A <a@b>  Mon, 02 Jan 2006 15:04:05 -0700\n"})
		m.Hooks["bufio.NewReader"] = func(m *Machine, st *State, call *ssa.CallCommon, args []Val) ([]Val, bool) {
			id := st.alloc(types.Typ[types.Int], OpaqueV{"bufio"})
			return []Val{Ptr{Obj: id}}, true
		}
		m.Hooks["time.Parse"] = func(m *Machine, st *State, call *ssa.CallCommon, args []Val) ([]Val, bool) {
			return []Val{&TupleV{E: []Val{OpaqueV{"time"}, nilV{}}}}, true
		}
		st := initState(m, "changelog", "version")
		if st.Status != stStuck {
			st.Status = stRun
			st.push(fn, []Val{IfaceV{T: types.NewPointer(types.Typ[types.Int]), V: OpaqueV{"the-input"}}}, nil)
			m.Run(st)
		}
	}
}

// ---- loops ---------------------------------------------------------------------------

type loopInfo struct {
	header *ssa.BasicBlock
	blocks map[*ssa.BasicBlock]bool
}

func naturalLoops(fn *ssa.Function) []loopInfo {
	var out []loopInfo
	byHeader := map[*ssa.BasicBlock]*loopInfo{}
	for _, b := range fn.Blocks {
		for _, s := range b.Succs {
			if s.Dominates(b) { // back edge b -> s
				li := byHeader[s]
				if li == nil {
					out = append(out, loopInfo{header: s, blocks: map[*ssa.BasicBlock]bool{s: true}})
					li = &out[len(out)-1]
					byHeader[s] = li
				}
				// blocks that reach b without passing s
				var stack []*ssa.BasicBlock
				if !li.blocks[b] {
					li.blocks[b] = true
					stack = append(stack, b)
				}
				for len(stack) > 0 {
					x := stack[len(stack)-1]
					stack = stack[:len(stack)-1]
					for _, pr := range x.Preds {
						if !li.blocks[pr] {
							li.blocks[pr] = true
							stack = append(stack, pr)
						}
					}
				}
			}
		}
	}
	// byHeader pointers may be stale after append growth; rebuild result from map
	var res []loopInfo
	seen := map[*ssa.BasicBlock]bool{}
	for _, li := range out {
		if !seen[li.header] {
			seen[li.header] = true
			res = append(res, *byHeader[li.header])
		}
	}
	return res
}

var readCalls = map[string]bool{
	"(*bufio.Reader).ReadString": true, "(*bufio.Reader).ReadBytes": true, "(*bufio.Reader).ReadLine": true,
	"(*archive/tar.Reader).Next": true,
}

func classifyLoop(p *Prog, fn *ssa.Function, li loopInfo) (string, bool) {
	tm := newTermer()
	// (i) counted / range loop: header (or a loop block) ends in `idx < bound` with idx = phi + positive const
	for b := range li.blocks {
		ifi, ok := b.Instrs[len(b.Instrs)-1].(*ssa.If)
		if !ok {
			continue
		}
		// must be an exit test: one successor outside the loop
		if li.blocks[b.Succs[0]] && li.blocks[b.Succs[1]] {
			continue
		}
		bo, ok := ifi.Cond.(*ssa.BinOp)
		if !ok || (bo.Op != token.LSS && bo.Op != token.LEQ && bo.Op != token.GTR && bo.Op != token.GEQ && bo.Op != token.NEQ) {
			continue
		}
		idx, bound := bo.X, bo.Y
		if bo.Op == token.GTR || bo.Op == token.GEQ {
			idx, bound = bo.Y, bo.X
		}
		// bound invariant: defined outside the loop, or a length accessor applied to values defined outside
		if bi, ok := bound.(ssa.Instruction); ok && li.blocks[bi.Block()] {
			call, isCall := bound.(*ssa.Call)
			okAcc := false
			if isCall {
				n := calleeName(call.Common())
				if n == "builtin:len" || n == "(reflect.Value).NumField" || n == "(reflect.Value).Len" {
					okAcc = true
					for _, a := range call.Call.Args {
						if ai, ok := a.(ssa.Instruction); ok && li.blocks[ai.Block()] {
							okAcc = false
						}
					}
				}
			}
			if !okAcc {
				continue
			}
		}
		// idx = phi (+ const) where the phi's back-edge value is phi + positive const
		var ph *ssa.Phi
		switch x := idx.(type) {
		case *ssa.Phi:
			ph = x
		case *ssa.BinOp:
			if x.Op == token.ADD {
				if q, ok := x.X.(*ssa.Phi); ok {
					ph = q
				} else if q, ok := x.Y.(*ssa.Phi); ok {
					ph = q
				}
			}
		}
		if ph == nil || ph.Block() != li.header {
			continue
		}
		okInc := true
		for i, pred := range li.header.Preds {
			if !li.blocks[pred] {
				continue
			}
			e := ph.Edges[i]
			inc, ok := e.(*ssa.BinOp)
			if !ok || inc.Op != token.ADD {
				okInc = false
				continue
			}
			var c ssa.Value
			if inc.X == ssa.Value(ph) {
				c = inc.Y
			} else if inc.Y == ssa.Value(ph) {
				c = inc.X
			}
			n, isC := int64(0), false
			if c != nil {
				n, isC = constInt(c)
			}
			if !isC || n <= 0 {
				okInc = false
			}
		}
		if okInc {
			return "counted loop: " + tm.term(ifi.Cond), true
		}
	}
	// (i') range loop over a string or a map: the exit test is the ok result of the iterator's Next
	for b := range li.blocks {
		ifi, ok := b.Instrs[len(b.Instrs)-1].(*ssa.If)
		if !ok || (li.blocks[b.Succs[0]] && li.blocks[b.Succs[1]]) {
			continue
		}
		if ex, ok := ifi.Cond.(*ssa.Extract); ok && ex.Index == 0 {
			if nx, ok := ex.Tuple.(*ssa.Next); ok && li.blocks[nx.Block()] {
				if rg, ok := nx.Iter.(*ssa.Range); ok && !li.blocks[rg.Block()] {
					// every cycle must pass the Next: the header (or the block of Next) dominates the back edges
					okDom := true
					for _, pred := range li.header.Preds {
						if li.blocks[pred] && !nx.Block().Dominates(pred) {
							okDom = false
						}
					}
					if okDom {
						return "range loop over a string or map: one element per iteration", true
					}
				}
			}
		}
	}
	// (ii) reader loop: every cycle passes a read call whose error can leave the loop
	through := map[*ssa.BasicBlock]bool{}
	for b := range li.blocks {
		for _, ins := range b.Instrs {
			if c, ok := ins.(*ssa.Call); ok {
				n := calleeName(c.Common())
				callee := c.Call.StaticCallee()
				isRead := readCalls[n]
				if callee != nil && inRepo(callee) && errResultIndex(callee.Signature) >= 0 {
					// a repository function that itself reads (ParseOne, Next): its error must be able to end the loop
					for _, rc := range reachableRepoFuncs(callee) {
						for _, c2 := range allCalls(rc) {
							if readCalls[calleeName(c2.Common())] {
								isRead = true
							}
						}
					}
				}
				if isRead {
					through[b] = true
				}
			}
		}
	}
	if len(through) > 0 {
		// every back edge source must be reachable from the header only through a read block
		okAll := true
		for _, pred := range li.header.Preds {
			if !li.blocks[pred] {
				continue
			}
			// path from header to pred avoiding `through`
			seen := map[*ssa.BasicBlock]bool{}
			var walk func(b *ssa.BasicBlock) bool
			walk = func(b *ssa.BasicBlock) bool {
				if through[b] || seen[b] || !li.blocks[b] {
					return false
				}
				seen[b] = true
				if b == pred {
					return true
				}
				for _, s := range b.Succs {
					if walk(s) {
						return true
					}
				}
				return false
			}
			if walk(li.header) {
				okAll = false
			}
		}
		if okAll {
			return "reader loop: every iteration reads from the input and leaves on its error / end of input", true
		}
	}
	// (iv) descent loop: a loop-carried value is replaced, on every way round the loop, by something
	// strictly smaller of a well-founded kind: v = v.Elem() (reflection: type nesting is finite) or
	// s = s[k:] with a constant k >= 1 (a string or slice gets shorter).
	for _, ins := range li.header.Instrs {
		ph, ok := ins.(*ssa.Phi)
		if !ok {
			break
		}
		all, any := true, false
		how := ""
		for i, pred := range li.header.Preds {
			if !li.blocks[pred] {
				continue
			}
			any = true
			switch e := ph.Edges[i].(type) {
			case *ssa.Call:
				if n := calleeName(e.Common()); (n == "(reflect.Value).Elem" || n == "(reflect.Value).Field") && len(e.Call.Args) > 0 && e.Call.Args[0] == ssa.Value(ph) {
					how = "descent loop: the reflected value is replaced by its Elem() on every iteration (type nesting is finite)"
					continue
				}
				all = false
			case *ssa.Extract:
				// el, rest, more = strings.Cut(rest, sep): rest gets shorter by at least len(sep) while more holds,
				// provided the loop is left when more is false
				if c, isCall := e.Tuple.(*ssa.Call); isCall && e.Index == 1 && calleeName(c.Common()) == "strings.Cut" && c.Call.Args[0] == ssa.Value(ph) {
					if sep, isC := constString(c.Call.Args[1]); isC && sep != "" && exitsOnCutFlag(li, c) {
						how = "descent loop: the remainder returned by strings.Cut is shorter on every iteration and the loop ends when nothing was cut"
						continue
					}
				}
				all = false
			case *ssa.Slice:
				if k, isC := int64(0), false; e.X == ssa.Value(ph) && e.High == nil && e.Low != nil {
					if k, isC = constInt(e.Low); isC && k >= 1 {
						how = "descent loop: the string/slice loses at least one element on every iteration"
						continue
					}
				}
				all = false
			default:
				all = false
			}
		}
		if any && all && how != "" {
			return how, true
		}
	}
	return "", false
}

// exitsOnCutFlag: some exit test of the loop is the `found` result of the given strings.Cut call (possibly
// carried to the header by a phi): the loop cannot continue after a Cut that found nothing.
func exitsOnCutFlag(li loopInfo, cut *ssa.Call) bool {
	isFlag := func(v ssa.Value) bool {
		if ex, ok := v.(*ssa.Extract); ok && ex.Tuple == ssa.Value(cut) && ex.Index == 2 {
			return true
		}
		if ph, ok := v.(*ssa.Phi); ok {
			for i, pred := range ph.Block().Preds {
				if !li.blocks[pred] {
					continue
				}
				if ex, ok := ph.Edges[i].(*ssa.Extract); !ok || ex.Tuple != ssa.Value(cut) || ex.Index != 2 {
					return false
				}
			}
			return true
		}
		return false
	}
	for b := range li.blocks {
		ifi, ok := b.Instrs[len(b.Instrs)-1].(*ssa.If)
		if !ok {
			continue
		}
		if li.blocks[b.Succs[0]] && li.blocks[b.Succs[1]] {
			continue
		}
		if isFlag(ifi.Cond) && !li.blocks[b.Succs[1]] {
			return true
		}
	}
	return false
}

func c18Term(p *Prog, rp *Report, fns []*ssa.Function, cursorFns map[*ssa.Function]string, parserOK, cmpOK bool, pm *parserModel, prod *productResult, why string) {
	r := rp.Rule("C18-TERM", "every loop of the parsers terminates", 8) // floor well below today's 25: rewrites that use library helpers legitimately remove loops
	var pendingLoops []pendingLoop
	for _, fn := range fns {
		loops := naturalLoops(fn)
		sort.Slice(loops, func(i, j int) bool { return loops[i].header.Index < loops[j].header.Index })
		for _, li := range loops {
			key := fmt.Sprintf("%s:loop@b%d", fname(fn), li.header.Index)
			pos := ""
			for _, ins := range li.header.Instrs {
				if ins.Pos().IsValid() {
					pos = p.Pos(ins.Pos())
					break
				}
			}
			if how, ok := cursorFns[fn]; ok {
				good := parserOK
				if strings.HasPrefix(how, "version") {
					good = cmpOK
				}
				if good && strings.HasPrefix(how, "bounded") {
					r.ok(key, pos, "loop of the "+how+": every explored run ends within the step limit")
				} else if good {
					r.ok(key, pos, "cursor loop covered by the "+how+": every run between two input symbols is finite and the input is finite")
				} else {
					msg := why
					if pm != nil && len(pm.nonterm) > 0 {
						msg = pm.nonterm[0]
					} else if pm != nil && len(pm.undec) > 0 {
						msg = pm.undec[0]
					} else if prod != nil && len(prod.NonTerm) > 0 {
						msg = fmt.Sprint(prod.NonTerm[0])
					}
					if (pm != nil && len(pm.nonterm) > 0) || (prod != nil && len(prod.NonTerm) > 0) {
						r.bad(key, pos, "the "+how+" finds a run that stops consuming input: "+msg, nil)
					} else {
						r.undecided(key, pos, "the "+how+" is not conclusive: "+msg)
					}
				}
				continue
			}
			how, ok := classifyLoop(p, fn, li)
			if ok {
				r.ok(key, pos, how)
			} else {
				pendingLoops = append(pendingLoops, pendingLoop{fn, li.header, key, pos})
			}
		}
	}
	// loops that no idiom classifies: bounded evidence from the scenario families (as for C18-BOUNDS)
	if len(pendingLoops) > 0 {
		runScenarioFamilies(p)
		for _, pl := range pendingLoops {
			switch {
			case nontermFns[pl.fn] != "":
				r.bad(pl.key, pl.pos, "no termination idiom applies to this loop, and the scenario families find a run that does not end: "+nontermFns[pl.fn], nil)
			case blockCount[pl.header] > 0:
				r.ok(pl.key, pl.pos, fmt.Sprintf("(bounded) no termination idiom applies; the loop was entered %d times by the scenario families of C03/C05/C07/C09/C10/C17 and every run ended within the step limit", blockCount[pl.header]))
			default:
				r.bad(pl.key, pl.pos, "this loop is neither a counted/range loop, nor a reader loop that leaves on a read error, nor a descent loop, nor a cursor loop of an explored parser, and no scenario family reaches it: termination on every input is not established", nil)
			}
		}
	}
	// recursion
	rec := map[string]bool{}
	for _, fn := range fns {
		for _, c := range allCalls(fn) {
			if callee := c.Common().StaticCallee(); callee != nil {
				for _, f2 := range reachableRepoFuncs(callee) {
					if f2 == fn {
						rec[fname(fn)] = true
					}
				}
			}
		}
	}
	allowedRec := map[string]string{
		"(*dependency.Arch).Is": "swaps operands once: the recursive call has a non-wildcard receiver",
	}
	isReflectValue := func(t types.Type) bool { return types.TypeString(t, nil) == "reflect.Value" }
	// structural recursion over reflected values: every function on a cycle takes a reflect.Value, and no cycle
	// consists only of calls that hand the caller's own reflected value on unchanged (some call on the way round
	// passes v.Elem(), v.Field(i), v.Index(i), a new element, ...): the recursion follows the finite nesting of
	// the caller's type
	byName := map[string]*ssa.Function{}
	for _, fn := range fns {
		byName[fname(fn)] = fn
	}
	unchanged := map[*ssa.Function][]*ssa.Function{} // edges that pass the own value on unchanged
	for _, fn := range fns {
		if !rec[fname(fn)] {
			continue
		}
		var own []ssa.Value
		for _, prm := range fn.Params {
			if isReflectValue(prm.Type()) {
				own = append(own, prm)
			}
		}
		for _, c := range allCalls(fn) {
			callee := c.Common().StaticCallee()
			if callee == nil || !rec[fname(callee)] {
				continue
			}
			same := false
			hasRV := false
			for _, a := range c.Common().Args {
				if !isReflectValue(a.Type()) {
					continue
				}
				hasRV = true
				for _, o := range own {
					if a == o {
						same = true
					}
				}
			}
			if same || !hasRV {
				unchanged[fn] = append(unchanged[fn], callee)
			}
		}
	}
	onUnchangedCycle := func(start *ssa.Function) bool {
		seen := map[*ssa.Function]bool{}
		var walk func(f *ssa.Function) bool
		walk = func(f *ssa.Function) bool {
			for _, g := range unchanged[f] {
				if g == start {
					return true
				}
				if !seen[g] {
					seen[g] = true
					if walk(g) {
						return true
					}
				}
			}
			return false
		}
		return walk(start)
	}
	for _, fn := range fns {
		name := fname(fn)
		if !rec[name] {
			continue
		}
		if reason, ok := allowedRec[name]; ok {
			r.ok(name+":recursion", "", reason)
			continue
		}
		hasRV := false
		for _, prm := range fn.Params {
			if isReflectValue(prm.Type()) {
				hasRV = true
			}
		}
		for _, fv := range fn.FreeVars {
			// a closure working on the reflected value of the function that made it
			t := fv.Type()
			if pt, isPtr := t.(*types.Pointer); isPtr {
				t = pt.Elem()
			}
			if isReflectValue(t) {
				hasRV = true
			}
		}
		switch {
		case !hasRV:
			r.bad(name+":recursion", p.Pos(fn.Pos()), "recursive function without a recorded termination argument", nil)
		case onUnchangedCycle(fn):
			r.bad(name+":recursion", p.Pos(fn.Pos()), "the function can call itself again (directly or through its helpers) with the very reflected value it was given: nothing gets smaller on the way round", nil)
		default:
			r.ok(name+":recursion", p.Pos(fn.Pos()), "structural recursion over reflected values: on every way back to this function some call passes a component (Elem, Field, Index, a new element), never only the value itself")
		}
	}
}

// ---- bounds -----------------------------------------------------------------------------

// everyPathUsesEdge: every path from entry to target uses one of the edges.
func everyPathUsesEdge(fn *ssa.Function, edges map[[2]*ssa.BasicBlock]bool, target *ssa.BasicBlock) bool {
	seen := map[*ssa.BasicBlock]bool{}
	var walk func(b *ssa.BasicBlock) bool
	walk = func(b *ssa.BasicBlock) bool {
		if seen[b] {
			return false
		}
		seen[b] = true
		if b == target {
			return true
		}
		for _, s := range b.Succs {
			if edges[[2]*ssa.BasicBlock{b, s}] {
				continue
			}
			if walk(s) {
				return true
			}
		}
		return false
	}
	return !walk(fn.Blocks[0])
}

func c18Bounds(p *Prog, rp *Report, fns []*ssa.Function, cursorFns map[*ssa.Function]string, parserOK, cmpOK bool) {
	r := rp.Rule("C18-BOUNDS", "every index and slice expression of the parsers is in range", 40)
	var pending []pendingSite
	for _, fn := range fns {
		tm := newTermer()
		gs := guardsOf(fn)
		n := 0
		for _, b := range fn.Blocks {
			for _, ins := range b.Instrs {
				var base, idx, lo, hi ssa.Value
				kind := ""
				switch x := ins.(type) {
				case *ssa.Index:
					base, idx, kind = x.X, x.Index, "index"
				case *ssa.IndexAddr:
					base, idx, kind = x.X, x.Index, "index"
				case *ssa.Slice:
					base, lo, hi, kind = x.X, x.Low, x.High, "slice"
				default:
					continue
				}
				n++
				key := fmt.Sprintf("%s:%s#%d", fname(fn), kind, n)
				pos := p.Pos(ins.Pos())
				bt := tm.term(base)
				// fixed arrays (variadic argument arrays, buffers): compile-time checked
				if al, ok := base.(*ssa.Alloc); ok {
					if _, isArr := al.Type().Underlying().(*types.Pointer).Elem().Underlying().(*types.Array); isArr {
						r.ok(key, pos, "fixed-size array with constant bounds")
						continue
					}
				}
				if how, ok := cursorFns[fn]; ok {
					good := parserOK
					if strings.HasPrefix(how, "version") {
						good = cmpOK
					}
					if good {
						r.ok(key, pos, "covered by the "+how+": no reachable state indexes out of range")
					} else {
						r.undecided(key, pos, "the "+how+" is not conclusive")
					}
					continue
				}
				if kind == "index" {
					if why, ok := indexInRange(fn, gs, tm, b, base, bt, idx); ok {
						r.ok(key, pos, why)
					} else {
						pending = append(pending, pendingSite{ins, key, pos, fmt.Sprintf("%s[%s] is not proven in range: %s", bt, tm.term(idx), why)})
					}
					continue
				}
				if why, ok := sliceInRange(fn, gs, tm, b, base, bt, lo, hi); ok {
					r.ok(key, pos, why)
				} else {
					l, h := "", ""
					if lo != nil {
						l = tm.term(lo)
					}
					if hi != nil {
						h = tm.term(hi)
					}
					pending = append(pending, pendingSite{ins, key, pos, fmt.Sprintf("%s[%s:%s] is not proven in range: %s", bt, l, h, why)})
				}
			}
		}
	}
	if len(pending) == 0 {
		return
	}
	// Sites that none of the proof idioms covers: bounded evidence from the scenario families of the
	// checks that interpret these parsers (C03 version strings, C05 dependency fields, C07 reader scripts,
	// C09/C10 documents, C17 changelog scripts). A site is accepted when those families went through it
	// and no run panicked there; a panic at the site is the violation; a site never reached stays unproven.
	runScenarioFamilies(p)
	for _, ps := range pending {
		switch {
		case execPanics[ps.ins] != "":
			r.bad(ps.key, ps.pos, ps.msg+"; and the scenario families reach it out of range: "+execPanics[ps.ins], nil)
		case execCount[ps.ins] > 0:
			r.ok(ps.key, ps.pos, fmt.Sprintf("(bounded) no proof idiom applies (%s); interpreted %d times by the scenario families of C03/C05/C07/C09/C10/C17 without leaving the range", clip(ps.msg, 120), execCount[ps.ins]))
		default:
			r.bad(ps.key, ps.pos, ps.msg+" (and no scenario family reaches it)", nil)
		}
	}
}

type pendingLoop struct {
	fn       *ssa.Function
	header   *ssa.BasicBlock
	key, pos string
}

// runScenarioFamilies interprets the families of the checks that exercise the parsers (once per process), so
// that execCount / blockCount / execPanics / nontermFns describe what those families reach.
var familiesRun = map[*Prog]bool{}

func runScenarioFamilies(p *Prog) {
	if familiesRun[p] {
		return
	}
	familiesRun[p] = true
	for _, id := range []string{"C03", "C05", "C07", "C09", "C10", "C17"} {
		if fn := registry[id]; fn != nil {
			rp := NewReport(id, "quick")
			fn(p, rp)
			familyReports[p] = append(familyReports[p], rp)
		}
	}
}

// familyReports: what the scenario families found when C18 ran them.
var familyReports = map[*Prog][]*Report{}

// c18Carry: "every call is independent of every other": the families that parse one input after another in the
// state the previous call left behind (a pool of scratch buffers, a cache) report a result that differs from the
// one a first call gives, or an earlier result that changes; those findings are violations of this property too.
func c18Carry(p *Prog, rp *Report) {
	r := rp.Rule("C18-CARRY", "a parse gives the same result whatever was parsed before it, and leaves earlier results alone", 1)
	runScenarioFamilies(p)
	var problems []string
	for _, fr := range familyReports[p] {
		for _, rule := range fr.Rules {
			for _, in := range rule.Instances {
				if in.Status == "violated" && (strings.Contains(in.Detail, "(parsed next)") || strings.Contains(in.Detail, "changes when the next") || strings.Contains(in.Detail, "a second call") || strings.Contains(in.Detail, "second Update") || strings.Contains(in.Detail, "share")) {
					problems = append(problems, rule.ID+": "+clip(in.Detail, 400))
				}
			}
		}
	}
	fillProblems(r, "parsers", "", problems, "no family that calls a parser twice in one state (C05-FIXPOINT, C05-ALIAS, C07-INV, C09-MERGE, C10 accessors) sees a call influenced by an earlier one")
}

type pendingSite struct {
	ins           ssa.Instruction
	key, pos, msg string
}

func lenGuardFor(fn *ssa.Function, gs []guard, blk *ssa.BasicBlock, bt string, k int64) (string, bool) {
	q := regexp.QuoteMeta(bt)
	for _, g := range gs {
		t := g.Term
		side := -1 // successor on which len(base) > k is known
		var n int64
		if m := regexp.MustCompile(`^\((\d+) != len\(` + q + `\)\)$`).FindStringSubmatch(t); m != nil {
			fmt.Sscan(m[1], &n)
			if n > k {
				side = 1
			}
		} else if m := regexp.MustCompile(`^\((\d+) == len\(` + q + `\)\)$`).FindStringSubmatch(t); m != nil {
			fmt.Sscan(m[1], &n)
			if n > k {
				side = 0
			} else if n == 0 && k == 0 {
				side = 1
			}
		} else if m := regexp.MustCompile(`^\(len\(` + q + `\) < (\d+)\)$`).FindStringSubmatch(t); m != nil {
			fmt.Sscan(m[1], &n)
			if n > k {
				side = 1
			}
		} else if m := regexp.MustCompile(`^\((\d+) < len\(` + q + `\)\)$`).FindStringSubmatch(t); m != nil {
			fmt.Sscan(m[1], &n)
			if n >= k {
				side = 0
			}
		} else if m := regexp.MustCompile(`^\((\d+) <= len\(` + q + `\)\)$`).FindStringSubmatch(t); m != nil {
			fmt.Sscan(m[1], &n)
			if n > k {
				side = 0
			}
		} else if t == `("" == `+bt+`)` && k == 0 {
			side = 1
		} else if t == `("" != `+bt+`)` && k == 0 {
			side = 0
		}
		if side < 0 {
			continue
		}
		succ := g.If.Block().Succs[side]
		if succ.Dominates(blk) && (len(succ.Preds) == 1 || everyPathUsesEdge(fn, map[[2]*ssa.BasicBlock]bool{{g.If.Block(), succ}: true}, blk)) {
			if storeBetween(fn, "&"+bt, succ, blk) {
				continue // the tested memory location is overwritten between the test and the use
			}
			return "dominated by the length test " + t, true
		}
	}
	return "no dominating length test establishes len > " + fmt.Sprint(k), false
}

func indexInRange(fn *ssa.Function, gs []guard, tm *termer, blk *ssa.BasicBlock, base ssa.Value, bt string, idx ssa.Value) (string, bool) {
	if k, ok := constInt(idx); ok {
		if k == 0 && regexp.MustCompile(`^strings\.(Split|SplitN|SplitAfter)\(`).MatchString(bt) {
			return "strings.Split returns at least one element", true
		}
		return lenGuardFor(fn, gs, blk, bt, k)
	}
	// induction variable bounded by len of the same value (or of a value the base was made from)
	it := tm.term(idx)
	// an array (value or pointer to one) ranged over: the induction variable is tested against the array's length,
	// a constant
	arrLen := int64(-1)
	bt0 := base.Type().Underlying()
	if pt, isPtr := bt0.(*types.Pointer); isPtr {
		bt0 = pt.Elem().Underlying()
	}
	if at, isArr := bt0.(*types.Array); isArr {
		arrLen = at.Len()
	}
	if arrLen >= 0 {
		for _, g := range gs {
			m := regexp.MustCompile(`^\(` + regexp.QuoteMeta(it) + ` < (\d+)(:int)?\)$`).FindStringSubmatch(g.Term)
			if m == nil || !g.If.Block().Succs[0].Dominates(blk) {
				continue
			}
			if n, err := strconv.ParseInt(m[1], 10, 64); err == nil && n <= arrLen && (nonNeg(idx, map[ssa.Value]bool{}, 0) || rangeCounter(idx)) {
				return "range induction variable tested against the length of the array", true
			}
		}
	}
	for _, g := range gs {
		m := regexp.MustCompile(`^\(` + regexp.QuoteMeta(it) + ` < len\((.*)\)\)$`).FindStringSubmatch(g.Term)
		if m == nil {
			continue
		}
		if !g.If.Block().Succs[0].Dominates(blk) {
			continue
		}
		if m[1] == bt {
			return "range induction variable tested against len of the same slice", true
		}
		// base = make([]T, len(X)) and the bound is len(X)
		if ms, ok := base.(*ssa.MakeSlice); ok {
			if tm.term(ms.Len) == "len("+m[1]+")" {
				return "index bounded by the length the slice was made with", true
			}
		}
		// phi of two slices both produced from the same string (Fields / Split): bound on the phi itself
	}
	return "index " + it + " is not a constant and no dominating test bounds it by len of this value", false
}

func sliceInRange(fn *ssa.Function, gs []guard, tm *termer, blk *ssa.BasicBlock, base ssa.Value, bt string, lo, hi ssa.Value) (string, bool) {
	found := func(idxTerm string) bool {
		// the block is dominated by the "found" side of a test of idxTerm against -1
		for _, g := range gs {
			x, side, ok := idxTest(g.Term)
			if !ok || x != idxTerm {
				continue
			}
			succ := g.If.Block().Succs[side]
			if succ.Dominates(blk) {
				return true
			}
		}
		return false
	}
	idxRe := regexp.MustCompile(`^strings\.(Index|LastIndex|IndexByte|LastIndexByte|IndexRune)\(` + regexp.QuoteMeta(bt) + `,`)
	checkBound := func(v ssa.Value, isLow bool) (string, bool) {
		if v == nil {
			return "", true
		}
		t := tm.term(v)
		if k, ok := constInt(v); ok {
			if k == 0 {
				return "", true
			}
			// s[k:] needs len >= k
			if why, ok := lenGuardFor(fn, gs, blk, bt, k-1); ok {
				return why, true
			}
			// HasPrefix(s, const) with len(const) >= k on every path
			edges := map[[2]*ssa.BasicBlock]bool{}
			for _, g := range gs {
				m := regexp.MustCompile(`^strings\.HasPrefix\(` + regexp.QuoteMeta(bt) + `,"((?:[^"\\]|\\.)*)"\)$`).FindStringSubmatch(g.Term)
				if m != nil && int64(len(unquoteLen(m[1]))) >= k {
					edges[[2]*ssa.BasicBlock{g.If.Block(), g.If.Block().Succs[0]}] = true
				}
			}
			if len(edges) > 0 && everyPathUsesEdge(fn, edges, blk) {
				return "every path passes a true strings.HasPrefix test on the same string", true
			}
			return "constant bound " + t + " without a length or prefix test", false
		}
		if idxRe.MatchString(t) && found(t) {
			return "position returned by " + t[:strings.Index(t, "(")] + " on the found branch", true
		}
		if m := regexp.MustCompile(`^\(1 \+ (.*)\)$`).FindStringSubmatch(t); m != nil && idxRe.MatchString(m[1]) {
			if found(m[1]) {
				return "1 + a found position is at most the length", true
			}
			if isLow {
				// s[Index+1:] without a found test: Index = -1 gives s[0:], also in range
				return "1 + Index(...) is between 0 and the length whether or not the separator was found", true
			}
		}
		if strings.HasPrefix(t, "len("+bt+")") {
			return "", true
		}
		// a scanning position: never negative (it starts at a constant and grows by constants, by the widths that
		// utf8.DecodeRune* report, or is such a position found earlier) and tested against the length of this very
		// string by a guard that dominates the use: s[pos:] inside `for pos < len(s)`
		if nonNeg(v, map[ssa.Value]bool{}, 0) {
			for _, g := range gs {
				for side, rel := range []string{`^\(` + regexp.QuoteMeta(t) + ` (<|<=) len\(` + regexp.QuoteMeta(bt) + `\)\)$`, `^\(` + regexp.QuoteMeta(t) + ` (>=|>) len\(` + regexp.QuoteMeta(bt) + `\)\)$`} {
					if regexp.MustCompile(rel).MatchString(g.Term) && g.If.Block().Succs[side].Dominates(blk) && !storeBetween(fn, "&"+bt, g.If.Block().Succs[side], blk) {
						return "a scanning position tested against the length of the same string", true
					}
				}
			}
		}
		return "bound " + t + " is not derived from a position found in the same string", false
	}
	w1, ok1 := checkBound(lo, true)
	if !ok1 {
		return w1, false
	}
	w2, ok2 := checkBound(hi, false)
	if !ok2 {
		return w2, false
	}
	// both bounds within [0, len] is not enough: s[lo:hi] also needs lo <= hi
	if lo != nil && hi != nil {
		if k, isConst := constInt(lo); !isConst || k != 0 {
			lt, ht := tm.term(lo), tm.term(hi)
			ordered := false
			if kl, ok := constInt(lo); ok {
				if kh, ok := constInt(hi); ok && kl <= kh {
					ordered = true
				}
			}
			for _, g := range gs {
				for side, pats := range [][]string{
					{"(" + lt + " <= " + ht + ")", "(" + lt + " < " + ht + ")", "(" + ht + " >= " + lt + ")", "(" + ht + " > " + lt + ")"},
					{"(" + lt + " > " + ht + ")", "(" + ht + " < " + lt + ")"},
				} {
					for _, pat := range pats {
						if g.Term == pat && g.If.Block().Succs[side].Dominates(blk) {
							ordered = true
						}
					}
				}
			}
			if !ordered {
				return "both bounds lie within the string, but nothing orders " + lt + " <= " + ht, false
			}
		}
	}
	why := strings.TrimSpace(w1 + " " + w2)
	if why == "" {
		why = "full or zero-based slice"
	}
	return why, true
}

func unquoteLen(s string) string {
	// length of a Go-escaped string literal body (only simple escapes occur)
	out := strings.NewReplacer(`\t`, "\t", `\n`, "\n", `\r`, "\r", `\\`, `\`, `\"`, `"`).Replace(s)
	return out
}

// ---- value xor error -----------------------------------------------------------------------

func c18Xor(p *Prog, rp *Report) {
	r := rp.Rule("C18-XOR", "exported (value, error) functions return no usable value together with an error", 15)
	for _, fn := range p.SrcFuncs(parserPkgs...) {
		if fn.Parent() != nil || !token.IsExported(fn.Name()) {
			continue
		}
		if fn.Signature.Recv() != nil {
			if n, ok := derefNamed(fn.Signature.Recv().Type()); !ok || !n.Obj().Exported() {
				continue
			}
		}
		sig := fn.Signature
		if sig.Results().Len() != 2 || errResultIndex(sig) != 1 {
			continue
		}
		key := fname(fn)
		bad := ""
		for _, b := range fn.Blocks {
			ret, ok := b.Instrs[len(b.Instrs)-1].(*ssa.Return)
			if !ok || b == fn.Recover {
				continue // the recover block only runs after a panic was recovered, which these functions never do
			}
			val, errv := ret.Results[0], ret.Results[1]
			// named / address-taken results are stored to cells and loaded for the return
			val, errv = resolveSpillAt(val, ret), resolveSpillAt(errv, ret)
			// results of one call passed through unchanged: the callee's own discipline applies
			if ev, ok := errv.(*ssa.Extract); ok {
				if vv, ok := val.(*ssa.Extract); ok && vv.Tuple == ev.Tuple {
					if c, ok := ev.Tuple.(*ssa.Call); ok {
						callee := c.Call.StaticCallee()
						if callee == nil || !inRepo(callee) || xorOK(p, callee, 0) {
							continue
						}
					}
				}
			}
			st := errStatus(errv, knownNonNilAt(b), 0)
			if knownNilAt(b)[errv] {
				st = "nil"
			}
			// the error of a repository function that never fails (every return of it has a nil error):
			// `s, err := v.MarshalControl(); return []byte(s), err`
			if ev, ok := errv.(*ssa.Extract); ok {
				if c, ok := ev.Tuple.(*ssa.Call); ok {
					if callee := c.Call.StaticCallee(); callee != nil && inRepo(callee) && errAlwaysNil(callee, ev.Index, 0) {
						st = "nil"
					}
				}
			}
			if st == "nil" {
				continue
			}
			if isZeroValue(val) {
				continue
			}
			if xorPathwise(fn, ret) {
				continue
			}
			// a result cell shared with the body of a range-over-func loop (`return nil, err` inside the loop body
			// stores into the cells and leaves through the function's common exit): the value cell only ever
			// receives zero values
			if rangefuncReturnOK(ret) {
				continue
			}
			tm := newTermer()
			bad = fmt.Sprintf("at %s the error may be non-nil (%s) while the value returned is %s", p.Pos(ret.Pos()), tm.term(errv), tm.term(val))
		}
		r.check(bad == "", key, p.Pos(fn.Pos()), "every return with a possibly non-nil error returns nil / the zero value", bad)
	}
}

func derefNamed(t types.Type) (*types.Named, bool) {
	if pt, ok := t.(*types.Pointer); ok {
		t = pt.Elem()
	}
	n, ok := t.(*types.Named)
	return n, ok
}

// resolveSpill: `*alloc` loads of a result cell whose stores are all the same value
func resolveSpill(v ssa.Value) ssa.Value {
	u, ok := v.(*ssa.UnOp)
	if !ok || u.Op != token.MUL {
		return v
	}
	al, ok := u.X.(*ssa.Alloc)
	if !ok {
		return v
	}
	var only ssa.Value
	n := 0
	for _, r := range *al.Referrers() {
		if st, ok := r.(*ssa.Store); ok && st.Addr == al {
			n++
			only = st.Val
		}
	}
	if n == 1 {
		return only
	}
	return v
}

func isZeroValue(v ssa.Value) bool {
	switch x := v.(type) {
	case *ssa.Const:
		if x.Value == nil {
			return true
		}
		return x.Value.ExactString() == "0" || x.Value.ExactString() == `""` || x.Value.ExactString() == "false"
	case *ssa.UnOp:
		// load of a freshly allocated, never written struct (Version{})
		if x.Op == token.MUL {
			if al, ok := x.X.(*ssa.Alloc); ok {
				for _, r := range *al.Referrers() {
					switch r.(type) {
					case *ssa.Store, *ssa.FieldAddr, *ssa.IndexAddr, *ssa.Call:
						return false
					}
				}
				return true
			}
		}
	case *ssa.Slice:
		// an empty slice literal: slice of a zero-length array
		if al, ok := x.X.(*ssa.Alloc); ok {
			if at, ok := al.Type().Underlying().(*types.Pointer).Elem().Underlying().(*types.Array); ok && at.Len() == 0 {
				return true
			}
		}
	case *ssa.ChangeType:
		return isZeroValue(x.X)
	case *ssa.MakeInterface:
		return false
	}
	return false
}

// resolveSpillAt: for `*cell` loaded for a return, the value last stored to
// the cell in the return's block (or the only store at all).
func resolveSpillAt(v ssa.Value, ret *ssa.Return) ssa.Value {
	u, ok := v.(*ssa.UnOp)
	if !ok || u.Op != token.MUL {
		return v
	}
	al, ok := u.X.(*ssa.Alloc)
	if !ok {
		return v
	}
	var last ssa.Value
	for _, ins := range ret.Block().Instrs {
		if st, ok := ins.(*ssa.Store); ok && st.Addr == ssa.Value(al) {
			last = st.Val
		}
	}
	if last != nil {
		return last
	}
	// a store in a block that dominates the return, with no other store in between on any path: use the unique dominating store if it is the only store besides the zero initialisation
	return resolveSpill(v)
}

// xorPathwise decides one return path by path, for loop-free functions: along every path
// from the entry to ret either the error is nil (a constant, or refuted by a nil test on
// the path) or the value is zero (a zero constant, or a load of a result cell whose last
// write on that path stored a zero value, with no call or address computation on the cell
// in between). Functions with a back edge are left to the path-insensitive rule.
func xorPathwise(fn *ssa.Function, ret *ssa.Return) bool {
	for _, b := range fn.Blocks {
		for _, s := range b.Succs {
			if s.Dominates(b) {
				return false // a loop
			}
		}
	}
	type cellState int
	const (
		zero cellState = iota
		written
	)
	budget := 4000
	ok := true
	var path []*ssa.BasicBlock
	evalPath := func() bool {
		phi := map[*ssa.Phi]ssa.Value{}
		nilFact := map[ssa.Value]string{}
		cells := map[*ssa.Alloc]cellState{}
		loads := map[*ssa.UnOp]cellState{}
		var resolve func(v ssa.Value) ssa.Value
		resolve = func(v ssa.Value) ssa.Value {
			for i := 0; i < 20; i++ {
				if ph, ok := v.(*ssa.Phi); ok {
					if e, ok := phi[ph]; ok {
						v = e
						continue
					}
				}
				break
			}
			return v
		}
		for i, b := range path {
			if i > 0 {
				prev := path[i-1]
				idx := -1
				for k, pb := range b.Preds {
					if pb == prev {
						idx = k
					}
				}
				news := map[*ssa.Phi]ssa.Value{}
				for _, ins := range b.Instrs {
					ph, ok := ins.(*ssa.Phi)
					if !ok {
						break
					}
					if idx >= 0 {
						news[ph] = resolve(ph.Edges[idx])
					}
				}
				for k, v := range news {
					phi[k] = v
				}
				if ifi, ok := prev.Instrs[len(prev.Instrs)-1].(*ssa.If); ok && prev.Succs[0] != prev.Succs[1] {
					if x, side, ok := nilTest(ifi.Cond); ok {
						x = resolve(x)
						if prev.Succs[side] == b {
							nilFact[x] = "nonnil"
						} else {
							nilFact[x] = "nil"
						}
					}
				}
			}
			for _, ins := range b.Instrs {
				switch x := ins.(type) {
				case *ssa.Alloc:
					cells[x] = zero
				case *ssa.Store:
					if al, ok := x.Addr.(*ssa.Alloc); ok {
						if u, isLoad := x.Val.(*ssa.UnOp); isLoad && u.Op == token.MUL {
							if st, seen := loads[u]; seen {
								cells[al] = st // a copy of a cell (the spill of a named result)
								break
							}
						}
						if isZeroValue(x.Val) {
							cells[al] = zero
						} else {
							cells[al] = written
						}
					}
					if al, ok := x.Val.(*ssa.Alloc); ok {
						cells[al] = written // the address escapes
					}
				case *ssa.UnOp:
					if al, ok := x.X.(*ssa.Alloc); ok && x.Op == token.MUL {
						loads[x] = cells[al]
					}
				default:
					for _, op := range ins.Operands(nil) {
						if al, ok := (*op).(*ssa.Alloc); ok {
							cells[al] = written // passed to a call, field address taken, captured, ...
						}
					}
				}
			}
		}
		errv := resolve(ret.Results[1])
		if u, ok := errv.(*ssa.UnOp); ok && u.Op == token.MUL {
			// an error cell: its value on this path is the last value stored
			if al, ok := u.X.(*ssa.Alloc); ok {
				var last ssa.Value
				seenOther := false
				for _, b := range path {
					for _, ins := range b.Instrs {
						if ins == ssa.Instruction(u) {
							goto done
						}
						if st, ok := ins.(*ssa.Store); ok && st.Addr == ssa.Value(al) {
							last = st.Val
							seenOther = false
							continue
						}
						if _, isLoad := ins.(*ssa.UnOp); isLoad {
							continue
						}
						for _, op := range ins.Operands(nil) {
							if *op == ssa.Value(al) {
								seenOther = true
							}
						}
					}
				}
			done:
				if last != nil && !seenOther {
					errv = resolve(last)
				} else if last == nil && !seenOther {
					return true // never assigned on this path: nil
				}
			}
		}
		if nilFact[errv] == "nil" || isNilConst(errv) {
			return true
		}
		if errStatus(errv, nil, 0) == "nil" {
			return true
		}
		val := resolve(ret.Results[0])
		if isZeroValue(val) {
			return true
		}
		if u, ok := val.(*ssa.UnOp); ok && u.Op == token.MUL {
			if _, isCell := u.X.(*ssa.Alloc); isCell {
				if st, seen := loads[u]; seen && st == zero {
					return true
				}
			}
		}
		return false
	}
	var walk func(b *ssa.BasicBlock)
	walk = func(b *ssa.BasicBlock) {
		if !ok || budget <= 0 {
			ok = false
			return
		}
		path = append(path, b)
		defer func() { path = path[:len(path)-1] }()
		if b == ret.Block() {
			budget--
			if !evalPath() {
				ok = false
			}
			return
		}
		for i, s := range b.Succs {
			if i == 1 && b.Succs[0] == s {
				continue
			}
			if reachableFrom(s)[ret.Block()] || s == ret.Block() {
				walk(s)
			}
		}
	}
	if len(fn.Blocks) == 0 {
		return false
	}
	walk(fn.Blocks[0])
	return ok
}

var xorMemo = map[*ssa.Function]bool{}

// xorOK: does fn itself return nil/zero with every possibly non-nil error?
func xorOK(p *Prog, fn *ssa.Function, depth int) bool {
	if v, ok := xorMemo[fn]; ok {
		return v
	}
	if depth > 5 || fn.Blocks == nil {
		return true
	}
	xorMemo[fn] = true
	sig := fn.Signature
	if sig.Results().Len() != 2 || errResultIndex(sig) != 1 {
		return true
	}
	for _, b := range fn.Blocks {
		ret, ok := b.Instrs[len(b.Instrs)-1].(*ssa.Return)
		if !ok || b == fn.Recover {
			continue
		}
		val, errv := resolveSpillAt(ret.Results[0], ret), resolveSpillAt(ret.Results[1], ret)
		st := errStatus(errv, knownNonNilAt(b), 0)
		if knownNilAt(b)[errv] {
			st = "nil"
		}
		if st == "nil" || isZeroValue(val) {
			continue
		}
		if ev, ok := errv.(*ssa.Extract); ok {
			if vv, ok := val.(*ssa.Extract); ok && vv.Tuple == ev.Tuple {
				if c, ok := ev.Tuple.(*ssa.Call); ok {
					callee := c.Call.StaticCallee()
					if callee == nil || !inRepo(callee) || xorOK(p, callee, depth+1) {
						continue
					}
				}
			}
		}
		if xorPathwise(fn, ret) {
			continue
		}
		if rangefuncReturnOK(ret) {
			continue
		}
		xorMemo[fn] = false
		return false
	}
	return true
}

// storeBetween: is there a store to the address rendered as addrTerm in a block
// that lies on a path from `from` to `to`? (A load term such as p0.Version does
// not identify a value across such a store.)
func storeBetween(fn *ssa.Function, addrTerm string, from, to *ssa.BasicBlock) bool {
	tm := newTermer()
	reachFrom := reachableFrom(from)
	for _, b := range fn.Blocks {
		if !reachFrom[b] {
			continue
		}
		for _, ins := range b.Instrs {
			st, ok := ins.(*ssa.Store)
			if !ok || tm.term(st.Addr) != addrTerm {
				continue
			}
			if b == to || reachableFrom(b)[to] {
				return true
			}
		}
	}
	return false
}

// rangeCounter: idx is the hidden counter of a range loop, phi(-1, idx) + 1, which is never negative.
func rangeCounter(idx ssa.Value) bool {
	bo, ok := idx.(*ssa.BinOp)
	if !ok || bo.Op != token.ADD {
		return false
	}
	var ph *ssa.Phi
	for _, pair := range [][2]ssa.Value{{bo.X, bo.Y}, {bo.Y, bo.X}} {
		if k, isConst := constInt(pair[1]); isConst && k == 1 {
			ph, _ = pair[0].(*ssa.Phi)
		}
	}
	if ph == nil {
		return false
	}
	for _, e := range ph.Edges {
		if e == ssa.Value(bo) {
			continue
		}
		if k, isConst := constInt(e); !isConst || k < -1 {
			return false
		}
	}
	return true
}

// errAlwaysNil: result idx of every return of fn is the nil constant (or the same result of a repository function
// of which that holds).
func errAlwaysNil(fn *ssa.Function, idx int, depth int) bool {
	if fn.Blocks == nil || depth > 3 {
		return false
	}
	for _, b := range fn.Blocks {
		ret, ok := b.Instrs[len(b.Instrs)-1].(*ssa.Return)
		if !ok {
			continue
		}
		if idx >= len(ret.Results) {
			return false
		}
		v := resolveSpillAt(ret.Results[idx], ret)
		if c, isConst := v.(*ssa.Const); isConst && c.Value == nil {
			continue
		}
		if ev, isExt := v.(*ssa.Extract); isExt {
			if c, isCall := ev.Tuple.(*ssa.Call); isCall {
				if callee := c.Call.StaticCallee(); callee != nil && inRepo(callee) && errAlwaysNil(callee, ev.Index, depth+1) {
					continue
				}
			}
		}
		return false
	}
	return true
}

// pooledType: the assertion is on the result of Get on a package-level sync.Pool of the repository whose New
// returns a value of the asserted type and into which only values of that type are ever Put.
func pooledType(ta *ssa.TypeAssert) bool {
	c, ok := ta.X.(*ssa.Call)
	if !ok {
		return false
	}
	callee := c.Call.StaticCallee()
	if callee == nil || callee.String() != "(*sync.Pool).Get" || len(c.Call.Args) != 1 {
		return false
	}
	g, ok := c.Call.Args[0].(*ssa.Global)
	if !ok || g.Pkg == nil || !strings.HasPrefix(g.Pkg.Pkg.Path(), repoModule) {
		return false
	}
	want := ta.AssertedType
	sameType := func(v ssa.Value) bool {
		mi, ok := v.(*ssa.MakeInterface)
		return ok && types.Identical(mi.X.Type(), want)
	}
	// the initialiser: &sync.Pool{New: func() any { return <want> }} stored into g in the package's init
	newOK := false
	for _, fn := range []*ssa.Function{g.Pkg.Func("init")} {
		if fn == nil {
			continue
		}
		for _, b := range fn.Blocks {
			for _, ins := range b.Instrs {
				st, ok := ins.(*ssa.Store)
				if !ok {
					continue
				}
				fa, ok := st.Addr.(*ssa.FieldAddr)
				if !ok || fa.X != ssa.Value(g) {
					continue
				}
				var f *ssa.Function
				switch x := st.Val.(type) {
				case *ssa.Function:
					f = x
				case *ssa.MakeClosure:
					f, _ = x.Fn.(*ssa.Function)
				}
				if f == nil || f.Blocks == nil {
					continue
				}
				all := true
				for _, fb := range f.Blocks {
					if ret, ok := fb.Instrs[len(fb.Instrs)-1].(*ssa.Return); ok {
						if len(ret.Results) != 1 || !sameType(ret.Results[0]) {
							all = false
						}
					}
				}
				newOK = all
			}
		}
	}
	if !newOK {
		return false
	}
	for fn := range ssautil.AllFunctions(ta.Parent().Prog) {
		if fn.Blocks == nil || !inRepoOrRef(fn) {
			continue
		}
		for _, b := range fn.Blocks {
			for _, ins := range b.Instrs {
				pc, ok := ins.(ssa.CallInstruction)
				if !ok {
					continue
				}
				if cal := pc.Common().StaticCallee(); cal != nil && cal.String() == "(*sync.Pool).Put" && len(pc.Common().Args) == 2 && pc.Common().Args[0] == ssa.Value(g) {
					if !sameType(pc.Common().Args[1]) {
						return false
					}
				}
			}
		}
	}
	return true
}

// memoType: the assertion is on what Load / LoadOrStore on a per-key memo table (pureMemos) returned, to the type
// of the only values its function ever stores.
func memoType(ta *ssa.TypeAssert) bool {
	ex, ok := ta.X.(*ssa.Extract)
	if !ok || ex.Index != 0 {
		return false
	}
	c, ok := ex.Tuple.(*ssa.Call)
	if !ok {
		return false
	}
	callee := c.Call.StaticCallee()
	if callee == nil || (callee.String() != "(*sync.Map).Load" && callee.String() != "(*sync.Map).LoadOrStore") || len(c.Call.Args) < 2 {
		return false
	}
	g, ok := c.Call.Args[0].(*ssa.Global)
	if !ok || !pureMemos(ta.Parent().Prog)[g] {
		return false
	}
	// every value published in this function has the asserted type
	for _, b := range ta.Parent().Blocks {
		for _, ins := range b.Instrs {
			pc, ok := ins.(*ssa.Call)
			if !ok || len(pc.Call.Args) != 3 || pc.Call.Args[0] != ssa.Value(g) {
				continue
			}
			mi, ok := pc.Call.Args[2].(*ssa.MakeInterface)
			if !ok || !types.Identical(mi.X.Type(), ta.AssertedType) {
				return false
			}
		}
	}
	return true
}

// cellAlwaysZero: every store to the cell, in its function and in the closures that capture it, stores a zero
// value, and the cell's address goes nowhere else.
func cellAlwaysZero(cell ssa.Value, depth int) bool {
	if depth > 3 || cell.Referrers() == nil {
		return false
	}
	for _, ref := range *cell.Referrers() {
		switch x := ref.(type) {
		case *ssa.DebugRef:
		case *ssa.UnOp:
			if x.Op != token.MUL {
				return false
			}
		case *ssa.Store:
			if x.Addr != cell || !isZeroValue(x.Val) {
				return false
			}
		case *ssa.MakeClosure:
			f, ok := x.Fn.(*ssa.Function)
			if !ok {
				return false
			}
			for i, b := range x.Bindings {
				if b == cell {
					if i >= len(f.FreeVars) || !cellAlwaysZero(f.FreeVars[i], depth+1) {
						return false
					}
				}
			}
		default:
			return false
		}
	}
	return true
}

// rangefuncReturnOK: ret is the exit through which a `return` statement inside the body of a range-over-func loop
// leaves the function (go/ssa: block rangefunc.resume.match): it returns the result cells as the loop body (a
// closure) last stored them. In every block of such a closure that stores to the value cell, the value stored is
// zero or the error stored next to it is the nil constant.
func rangefuncReturnOK(ret *ssa.Return) bool {
	if !strings.HasPrefix(ret.Block().Comment, "rangefunc.") || len(ret.Results) != 2 {
		return false
	}
	cellOf := func(v ssa.Value) *ssa.Alloc {
		if u, ok := v.(*ssa.UnOp); ok && u.Op == token.MUL {
			if al, ok := u.X.(*ssa.Alloc); ok {
				return al
			}
		}
		return nil
	}
	vc, ec := cellOf(ret.Results[0]), cellOf(ret.Results[1])
	if vc == nil || ec == nil || vc.Referrers() == nil {
		return false
	}
	found := false
	for _, ref := range *vc.Referrers() {
		mc, ok := ref.(*ssa.MakeClosure)
		if !ok {
			continue
		}
		f, ok := mc.Fn.(*ssa.Function)
		if !ok {
			return false
		}
		var vfv, efv ssa.Value
		for i, b := range mc.Bindings {
			if i < len(f.FreeVars) {
				if b == ssa.Value(vc) {
					vfv = f.FreeVars[i]
				}
				if b == ssa.Value(ec) {
					efv = f.FreeVars[i]
				}
			}
		}
		if vfv == nil || efv == nil {
			return false
		}
		for _, b := range f.Blocks {
			var vs, es *ssa.Store
			for _, ins := range b.Instrs {
				if st, ok := ins.(*ssa.Store); ok {
					if st.Addr == vfv {
						vs = st
					}
					if st.Addr == efv {
						es = st
					}
				}
			}
			if vs == nil {
				continue
			}
			found = true
			if isZeroValue(vs.Val) {
				continue
			}
			if es != nil {
				if c, ok := es.Val.(*ssa.Const); ok && c.Value == nil {
					continue
				}
			}
			return false
		}
	}
	return found
}
