package main

// Flow rules shared by several properties: error discipline, map-order
// dependence, reachability of fatal calls, package-level state.

import (
	"fmt"
	"go/constant"
	"go/token"
	"go/types"
	"os"
	"sort"
	"strings"

	"golang.org/x/tools/go/ssa"
	"golang.org/x/tools/go/ssa/ssautil"
)

// ---- error discipline -------------------------------------------------------------

type errSite struct {
	Call   *ssa.Call
	Callee string
	Status string // "returned", "checked", "dropped", "unclear"
	Detail string
}

// errorValue returns the SSA value carrying the error result of call (the call
// itself for single-result functions, else the Extract), or nil if unused.
func errorValueOf(call *ssa.Call) (ssa.Value, bool) {
	sig := call.Call.Signature()
	ei := errResultIndex(sig)
	if ei < 0 {
		return nil, false
	}
	if sig.Results().Len() == 1 {
		return call, true
	}
	for _, r := range *call.Referrers() {
		if ex, ok := r.(*ssa.Extract); ok && ex.Index == ei {
			return ex, true
		}
	}
	return nil, true // has an error result, but it is never extracted
}

// errDiscipline classifies every call in fn whose callee satisfies want and
// returns an error.
func errDiscipline(fn *ssa.Function, want func(name string, call *ssa.Call) bool) []errSite {
	var out []errSite
	gs := guardsOf(fn)
	ei := errResultIndex(fn.Signature)
	for _, b := range fn.Blocks {
		for _, ins := range b.Instrs {
			call, ok := ins.(*ssa.Call)
			if !ok {
				continue
			}
			name := calleeName(call.Common())
			if name == "" && call.Call.IsInvoke() {
				name = "invoke:" + call.Call.Method.Name()
			}
			if !want(name, call) {
				continue
			}
			ev, has := errorValueOf(call)
			if !has {
				continue
			}
			site := errSite{Call: call, Callee: shortFn(name)}
			if ev == nil {
				site.Status, site.Detail = "dropped", "the error result is never looked at"
				out = append(out, site)
				continue
			}
			status := "dropped"
			detail := "the error result is never looked at"
			var visit func(v ssa.Value, depth int)
			seen := map[ssa.Value]bool{}
			visit = func(v ssa.Value, depth int) {
				if depth > 6 || seen[v] {
					return
				}
				seen[v] = true
				for _, r := range *v.Referrers() {
					switch x := r.(type) {
					case *ssa.Return:
						if ei >= 0 && x.Results[ei] == v {
							status = "returned"
						}
					case *ssa.BinOp:
						if x.Op == token.NEQ || x.Op == token.EQL {
							for _, g := range gs {
								if g.If.Cond == x {
									_, side, ok := nilTest(x)
									if ok && rejectsOn(fn, g, side) {
										if status != "returned" {
											status = "checked"
										}
									} else if status == "dropped" {
										status, detail = "unclear", "the error is tested but the failing side does not always return an error"
									}
								}
							}
							// comparison with io.EOF etc.: keep looking at other uses
						}
					case *ssa.Phi:
						visit(x, depth+1)
					case *ssa.MakeInterface:
						visit(x, depth+1)
					case *ssa.Store:
						// stored into a variadic array for fmt.Errorf("%v", err): wrapped
						if status == "dropped" {
							status, detail = "unclear", "the error is only stored"
						}
					}
				}
			}
			visit(ev, 0)
			site.Status = status
			if status == "dropped" || status == "unclear" {
				site.Detail = detail
			}
			out = append(out, site)
		}
	}
	return out
}

// ---- map-order dependence -----------------------------------------------------------

type mapLoop struct {
	Fn    *ssa.Function
	Range *ssa.Range
	Next  *ssa.Next
	OK    bool
	Why   string
}

var pureCallees = map[string]bool{
	"strings.HasPrefix": true, "strings.HasSuffix": true, "strings.Contains": true, "strings.EqualFold": true,
	"path.Clean": true, "path/filepath.Ext": true, "strings.TrimSpace": true, "builtin:len": true,
}

// mapOrderLoops analyses every range-over-map loop of fn: the loop's effect
// must not depend on the iteration order.
func mapOrderLoops(fn *ssa.Function) []mapLoop {
	var out []mapLoop
	for _, b := range fn.Blocks {
		for _, ins := range b.Instrs {
			rg, ok := ins.(*ssa.Range)
			if !ok {
				continue
			}
			if _, isMap := rg.X.Type().Underlying().(*types.Map); !isMap {
				continue
			}
			ml := mapLoop{Fn: fn, Range: rg}
			for _, r := range *rg.Referrers() {
				if n, ok := r.(*ssa.Next); ok {
					ml.Next = n
				}
			}
			if ml.Next == nil {
				ml.OK = true
				out = append(out, ml)
				continue
			}
			ml.OK, ml.Why = analyseMapLoop(fn, ml.Next)
			out = append(out, ml)
		}
	}
	return out
}

func analyseMapLoop(fn *ssa.Function, next *ssa.Next) (bool, string) {
	header := next.Block()
	// loop blocks: those that can reach the header again and are dominated by it
	// the loop body: everything dominated by the successor taken while the
	// iterator still yields elements (this includes blocks that return from
	// inside the loop, which never reach the header again)
	inLoop := map[*ssa.BasicBlock]bool{header: true}
	var bodyEntry *ssa.BasicBlock
	if ifi, ok := header.Instrs[len(header.Instrs)-1].(*ssa.If); ok {
		if ex, ok := ifi.Cond.(*ssa.Extract); ok && ex.Tuple == next && ex.Index == 0 {
			bodyEntry = header.Succs[0]
		}
	}
	if bodyEntry == nil {
		return false, "range-over-map loop of unrecognised shape"
	}
	for _, b := range fn.Blocks {
		if bodyEntry.Dominates(b) {
			inLoop[b] = true
		}
	}
	elemDerived := func(v ssa.Value) bool {
		return derivesFrom(v, func(x ssa.Value) bool {
			if ex, ok := x.(*ssa.Extract); ok && ex.Tuple == next && ex.Index > 0 {
				return true
			}
			return false
		}, 0)
	}
	// (1)+(3): instructions inside the loop
	for b := range inLoop {
		for _, ins := range b.Instrs {
			switch x := ins.(type) {
			case *ssa.Return:
				for _, r := range x.Results {
					if elemDerived(r) {
						return false, fmt.Sprintf("returns a value derived from the current map element from inside the loop (the first element in iteration order wins)")
					}
				}
			case *ssa.Store:
				if elemDerived(x.Val) || elemDerived(x.Addr) {
					return false, "stores an element-derived value from inside the loop to memory that outlives the iteration"
				}
			case *ssa.MapUpdate:
				// keyed by the element: order independent
				if !elemDerived(x.Key) && (elemDerived(x.Value)) {
					return false, "writes an element-derived value under an element-independent key"
				}
			case *ssa.Call:
				n := calleeName(x.Common())
				if pureCallees[n] {
					continue
				}
				if n == "fmt.Errorf" || n == "errors.New" {
					for _, a := range x.Call.Args {
						if elemDerived(a) {
							return false, "builds an error message from the current map element (the message depends on iteration order)"
						}
					}
					continue
				}
				if b2, ok := x.Call.Value.(*ssa.Builtin); ok && b2.Name() == "delete" && len(x.Call.Args) == 2 && elemDerived(x.Call.Args[1]) {
					continue // delete(m, k) keyed by the element: order independent (the clear-a-map idiom)
				}
				if b2, ok := x.Call.Value.(*ssa.Builtin); ok && (b2.Name() == "append") {
					return false, "appends inside a map iteration: the result's order follows the map order"
				}
				anyElem := false
				for _, a := range x.Call.Args {
					if elemDerived(a) {
						anyElem = true
					}
				}
				if anyElem || n == "" {
					return false, "calls " + shortFn(n) + " with the current map element inside the loop"
				}
			case *ssa.Defer, *ssa.Go, *ssa.Send:
				return false, "defer/go/send inside a map iteration"
			}
		}
	}
	// (2): loop-carried values
	for _, ins := range header.Instrs {
		ph, ok := ins.(*ssa.Phi)
		if !ok {
			break
		}
		for i, pred := range header.Preds {
			if !inLoop[pred] {
				continue
			}
			e := ph.Edges[i]
			if e == ph || !elemDerived(e) {
				continue
			}
			// the assignment must happen only while ph is still nil: the edge source
			// must be dominated by the nil side of a test of ph
			nilKnown := knownNilAt(pred)
			if nilKnown[ph] {
				continue
			}
			// counting matches is fine too (n++): not element-derived, handled above
			return false, fmt.Sprintf("carries an element-derived value (%s) to the next iteration without a 'still unset' guard: with several candidates the iteration order decides", ph.Comment)
		}
	}
	// exits carrying element-derived values through non-header phis (break with a value)
	for b := range inLoop {
		for _, s := range b.Succs {
			if inLoop[s] {
				continue
			}
			for _, ins := range s.Instrs {
				ph, ok := ins.(*ssa.Phi)
				if !ok {
					break
				}
				for i, pred := range s.Preds {
					if pred == b && b != header {
						if elemDerived(ph.Edges[i]) {
							if hp, isHeaderPhi := ph.Edges[i].(*ssa.Phi); isHeaderPhi && hp.Block() == header {
								continue
							}
							return false, "leaves the loop early with a value derived from the current element (break at the first match)"
						}
					}
				}
			}
		}
	}
	return true, ""
}

// ---- fatal calls ----------------------------------------------------------------------

type fatalSite struct {
	Fn   *ssa.Function
	Pos  token.Pos
	What string
	// Soft: an explicit panic statement behind a branch that panicInfeasible could not refute and that no
	// interpretation in this process has entered. Whether an input reaches it is not decided statically: it
	// may be an assertion that cannot fire (round 9: twelve of twenty behaviour-preserving refactorings added
	// such assertions) or a real exit on hostile input, which the interpreted families report with a witness.
	Soft    bool
	Guarded int // how often the interpreted scenarios of this process evaluated the guard
}

// hardSites / softSites split the result of fatalSites.
func hardSites(all []fatalSite) (hard, soft []fatalSite) {
	for _, s := range all {
		if s.Soft {
			soft = append(soft, s)
		} else {
			hard = append(hard, s)
		}
	}
	return
}

func softNote(soft []fatalSite) string {
	if len(soft) == 0 {
		return ""
	}
	var parts []string
	for _, s := range soft {
		parts = append(parts, fmt.Sprintf("%s (guard evaluated %d times by the interpreted scenarios, never taken)", fname(s.Fn), s.Guarded))
	}
	return fmt.Sprintf("; %d explicit panic statement(s) behind a guard are not decided statically: %s", len(soft), strings.Join(parts, ", "))
}

func fatalSites(roots []*ssa.Function) []fatalSite {
	var out []fatalSite
	seen := map[*ssa.Function]bool{}
	for _, r := range roots {
		for _, f := range reachableRepoFuncs(r) {
			if seen[f] {
				continue
			}
			seen[f] = true
			for _, b := range f.Blocks {
				for _, ins := range b.Instrs {
					switch x := ins.(type) {
					case *ssa.Panic:
						if panicInfeasible(x) {
							continue // guarded by a condition that cannot hold (see panicInfeasible)
						}
						site := fatalSite{Fn: f, Pos: x.Pos(), What: "panic"}
						if len(b.Preds) > 0 && blockCount[b] == 0 {
							// guarded, and never entered by an interpretation so far
							site.Soft = true
							for _, pr := range b.Preds {
								site.Guarded += blockCount[pr]
							}
						}
						out = append(out, site)
					case ssa.CallInstruction:
						n := calleeName(x.Common())
						if strings.HasPrefix(n, "log.Fatal") || strings.HasPrefix(n, "log.Panic") || n == "os.Exit" || n == "(*log.Logger).Fatal" || n == "(*log.Logger).Fatalf" || n == "(*log.Logger).Fatalln" || n == "runtime.Goexit" {
							out = append(out, fatalSite{Fn: f, Pos: x.Pos(), What: shortFn(n)})
						}
					}
				}
			}
		}
	}
	sort.Slice(out, func(i, j int) bool { return out[i].Pos < out[j].Pos })
	return out
}

// ---- package-level state ------------------------------------------------------------

type globalWrite struct {
	Fn  *ssa.Function
	G   string
	Pos token.Pos
	How string
}

// globalWrites lists stores to package-level variables (and updates of maps /
// slices loaded from them) outside init functions, in the given packages.
// onceInitialisers: functions that run only as the argument of Do on a package-level sync.Once and take
// nothing from their caller (no parameters, no captured variables): a lazily built table. What they store
// is written once, before any reader can see it, and is the same whoever triggers it.
func onceInitialisers(p *Prog, pkgs ...string) map[*ssa.Function]bool {
	cand := map[*ssa.Function]bool{}
	other := map[*ssa.Function]bool{} // referenced anywhere else
	for _, fn := range p.SrcFuncs(pkgs...) {
		for _, b := range fn.Blocks {
			for _, ins := range b.Instrs {
				var doArg ssa.Value
				if c, ok := ins.(ssa.CallInstruction); ok {
					if callee := c.Common().StaticCallee(); callee != nil && callee.String() == "(*sync.Once).Do" && len(c.Common().Args) == 2 {
						if _, onGlobal := c.Common().Args[0].(*ssa.Global); onGlobal {
							doArg = c.Common().Args[1]
						}
					}
				}
				for _, op := range ins.Operands(nil) {
					var f *ssa.Function
					switch x := (*op).(type) {
					case *ssa.Function:
						f = x
					case *ssa.MakeClosure:
						if len(x.Bindings) == 0 {
							f, _ = x.Fn.(*ssa.Function)
						} else if g, ok := x.Fn.(*ssa.Function); ok {
							other[g] = true
						}
					}
					if f == nil {
						continue
					}
					if *op == doArg && f.Signature.Params().Len() == 0 && len(f.FreeVars) == 0 {
						cand[f] = true
					} else {
						other[f] = true
					}
				}
			}
		}
	}
	for f := range other {
		delete(cand, f)
	}
	return cand
}

func globalWrites(p *Prog, pkgs ...string) []globalWrite {
	memo := map[string]bool{}
	for g := range pureMemos(p.SSA) {
		memo[g.Name()] = true
		pureMemoNames[shortGlobal(g)] = true
	}
	all := globalWrites0(p, pkgs...)
	var out []globalWrite
	for _, w := range all {
		if w.How == "sync/atomic update" && memo[w.G] {
			continue // a per-key memo table (see pureMemos)
		}
		out = append(out, w)
	}
	return out
}

// pureMemoNames: the memo tables found, under the names the interpreter's record of stores uses.
var pureMemoNames = map[string]bool{}

func shortGlobal(g *ssa.Global) string {
	return strings.TrimPrefix(g.Pkg.Pkg.Path(), repoModule+"/") + "." + g.Name()
}

func globalWrites0(p *Prog, pkgs ...string) []globalWrite {
	var out []globalWrite
	once := onceInitialisers(p, pkgs...)
	for _, fn := range p.SrcFuncs(pkgs...) {
		if fn.Name() == "init" || strings.HasPrefix(fn.Name(), "init#") || once[fn] {
			continue
		}
		// fromGlobal: the address (or map / slice / pointer) designates storage reachable from a package-level
		// variable of the repository. Reading a global yields a copy unless the value read is itself a
		// reference (pointer, slice, map, channel, function, interface); only addresses are followed.
		isRef := func(t types.Type) bool {
			switch t.Underlying().(type) {
			case *types.Pointer, *types.Slice, *types.Map, *types.Chan, *types.Signature, *types.Interface:
				return true
			}
			return false
		}
		var walk func(v ssa.Value, depth int) (string, bool)
		walk = func(v ssa.Value, depth int) (string, bool) {
			if depth > 12 || v == nil {
				return "", false
			}
			switch x := v.(type) {
			case *ssa.Global:
				if x.Pkg != nil && strings.HasPrefix(x.Pkg.Pkg.Path(), repoModule) {
					return x.Name(), true
				}
			case *ssa.FieldAddr:
				return walk(x.X, depth+1)
			case *ssa.IndexAddr:
				return walk(x.X, depth+1)
			case *ssa.Slice:
				return walk(x.X, depth+1)
			case *ssa.UnOp:
				if x.Op == token.MUL && isRef(x.Type()) { // a reference loaded from shared storage
					return walk(x.X, depth+1)
				}
			case *ssa.Field:
				if isRef(x.Type()) {
					return walk(x.X, depth+1)
				}
			case *ssa.Lookup:
				if isRef(x.Type()) {
					return walk(x.X, depth+1)
				}
			case *ssa.Extract:
				if lk, ok := x.Tuple.(*ssa.Lookup); ok && isRef(x.Type()) {
					return walk(lk.X, depth+1)
				}
			case *ssa.Phi:
				for _, e := range x.Edges {
					if g, ok := walk(e, depth+1); ok {
						return g, true
					}
				}
			case *ssa.ChangeType:
				return walk(x.X, depth+1)
			case *ssa.Convert:
				return walk(x.X, depth+1)
			case *ssa.MakeInterface:
				return walk(x.X, depth+1)
			case *ssa.TypeAssert:
				return walk(x.X, depth+1)
			}
			return "", false
		}
		fromGlobal := func(v ssa.Value) (string, bool) { return walk(v, 0) }
		for _, b := range fn.Blocks {
			for _, ins := range b.Instrs {
				switch x := ins.(type) {
				case *ssa.Store:
					if g, ok := fromGlobal(x.Addr); ok {
						out = append(out, globalWrite{fn, g, x.Pos(), "store"})
					}
				case *ssa.MapUpdate:
					if g, ok := fromGlobal(x.Map); ok {
						out = append(out, globalWrite{fn, g, x.Pos(), "map update"})
					}
				case *ssa.Call:
					// sync.Map / sync.Pool / atomic values at package level are shared mutable state too
					if callee := x.Call.StaticCallee(); callee != nil && callee.Pkg != nil && len(x.Call.Args) > 0 {
						if pp := callee.Pkg.Pkg.Path(); pp == "sync" || pp == "sync/atomic" {
							switch callee.Name() {
							case "Store", "LoadOrStore", "LoadAndDelete", "Delete", "Swap", "CompareAndSwap", "CompareAndDelete", "Add", "Range", "Clear":
								// (a sync.Pool is not listed: what it recycles is decided by interpretation, with a pool
								// that hands back the object Put last)
								if g, ok := fromGlobal(x.Call.Args[0]); ok {
									out = append(out, globalWrite{fn, g, x.Pos(), "sync/atomic update"})
								}
							}
						}
					}
				}
			}
		}
	}
	return out
}

// stateRule: nothing reachable from the given entry points writes package-level state of the repository
// (a store to a global, an update of a map or sync.Map reachable from one): a result then depends on
// nothing but the arguments, and calls cannot interfere with one another.
func stateRule(p *Prog, rp *Report, id string, roots ...*ssa.Function) {
	r := rp.Rule(id, "no entry point of this property writes package-level state: results depend only on the arguments", 1)
	onPath := map[*ssa.Function]bool{}
	var names []string
	for _, root := range roots {
		if root == nil {
			continue
		}
		names = append(names, fname(root))
		for _, f := range reachableRepoFuncs(root) {
			onPath[f] = true
		}
	}
	if len(onPath) == 0 {
		r.undecided("entry points", "", "none of the entry points was found")
		return
	}
	pkgs := map[string]bool{}
	for f := range onPath {
		pkgs[shortPkg(f)] = true
	}
	var plist []string
	for k := range pkgs {
		plist = append(plist, k)
	}
	sort.Strings(plist)
	n := 0
	for _, w := range globalWrites(p, plist...) {
		if !onPath[w.Fn] {
			continue
		}
		n++
		r.bad(shortPkg(w.Fn)+":"+w.G+":writer("+fname(w.Fn)+")", p.Pos(w.Pos), w.How+" of the package-level variable "+w.G+": what a call returns can depend on earlier calls, and concurrent calls share mutable state", nil)
	}
	// a package-level object of a foreign, stateful type (a decoder, a buffer, a hash) on which reachable code calls
	// methods is shared mutable state too, although no store to the variable is ever seen
	immutable := map[string]bool{"regexp.Regexp": true, "strings.Replacer": true, "time.Location": true, "text/template.Template": true, "html/template.Template": true, "sync.Once": true, "sync.Mutex": true, "sync.RWMutex": true, "sync.Map": true, "sync.Pool": true, "math/big.Int": false}
	for f := range onPath {
		for _, c := range allCalls(f) {
			cc := c.Common()
			callee := cc.StaticCallee()
			if callee == nil || callee.Signature.Recv() == nil || inRepoOrRef(callee) || len(cc.Args) == 0 {
				continue
			}
			// receiver loaded from a package-level variable of the repository
			recv := cc.Args[0]
			if u, ok := recv.(*ssa.UnOp); ok && u.Op == token.MUL {
				recv = u.X
			}
			g, isGlobal := recv.(*ssa.Global)
			if !isGlobal || g.Pkg == nil || !strings.HasPrefix(g.Pkg.Pkg.Path(), repoModule) {
				continue
			}
			rt := callee.Signature.Recv().Type()
			if pt, isPtr := rt.(*types.Pointer); isPtr {
				rt = pt.Elem()
			}
			nt, isNamed := rt.(*types.Named)
			if !isNamed || nt.Obj().Pkg() == nil {
				continue
			}
			tn := nt.Obj().Pkg().Path() + "." + nt.Obj().Name()
			if immutable[tn] {
				continue
			}
			if _, isErr := callee.Signature.Recv().Type().Underlying().(*types.Interface); isErr {
				continue
			}
			n++
			r.bad(shortPkg(f)+":"+g.Name()+":shared("+fname(f)+")", p.Pos(c.Pos()), fmt.Sprintf("calls %s on the package-level %s object %s: one stateful object serves every call, so calls that overlap (or follow each other) interfere", callee.Name(), tn, g.Name()), nil)
		}
	}
	if n == 0 {
		r.ok(strings.Join(names, ", "), "", fmt.Sprintf("%d functions reachable from the entry points: none stores to a package-level variable, updates a map / sync.Map reachable from one, or calls methods on a package-level object of a foreign stateful type", len(onPath)))
	}
}

// ---- panics that cannot happen ---------------------------------------------------------

// panicInfeasible: the block of the panic is entered only over branch edges whose condition is refuted by one of a
// few sound facts about integers: a value is never negative when it is a constant >= 0, a len or cap, a conversion
// from an unsigned byte, such a value plus a non-negative constant (overflow of a counter that grows by constants
// from zero is not considered), a phi of such values, a parameter of an unexported, never address-taken function
// whose every call site passes such a value, or a load of an unexported integer field every store to which, anywhere
// in the repository, stores such a value (the field's own value included) and whose address never escapes.
// Anything else is not refuted and the panic counts as reachable.
func panicInfeasible(p *ssa.Panic) bool {
	b := p.Block()
	if os.Getenv("GDSA_DBG_PANIC") != "" {
		fmt.Fprintf(os.Stderr, "panic in %s block %d preds %d\n", p.Parent(), b.Index, len(b.Preds))
		for _, pred := range b.Preds {
			fmt.Fprintf(os.Stderr, "  pred %d last %T %v\n", pred.Index, pred.Instrs[len(pred.Instrs)-1], pred.Instrs[len(pred.Instrs)-1])
			if ifi, ok := pred.Instrs[len(pred.Instrs)-1].(*ssa.If); ok {
				fmt.Fprintf(os.Stderr, "  cond %T %v\n", ifi.Cond, ifi.Cond)
			}
		}
	}
	if len(b.Preds) == 0 {
		return false
	}
	for _, pred := range b.Preds {
		ifi, ok := pred.Instrs[len(pred.Instrs)-1].(*ssa.If)
		if !ok || len(pred.Succs) != 2 || pred.Succs[0] == pred.Succs[1] {
			return false
		}
		onTrue := pred.Succs[0] == b
		if !condRefuted(ifi.Cond, onTrue, 0) {
			return false
		}
	}
	return true
}

// condRefuted: cond cannot have the value `want`.
func condRefuted(cond ssa.Value, want bool, depth int) bool {
	if depth > 4 {
		return false
	}
	switch c := cond.(type) {
	case *ssa.UnOp:
		if c.Op == token.NOT {
			return condRefuted(c.X, !want, depth+1)
		}
	case *ssa.BinOp:
		k, isConst := intConst(c.Y)
		if !isConst {
			return false
		}
		nn := map[ssa.Value]bool{}
		switch {
		case want && ((c.Op == token.LSS && k <= 0) || (c.Op == token.LEQ && k < 0)): // v < 0 cannot hold
			return nonNeg(c.X, nn, 0)
		case !want && ((c.Op == token.GEQ && k <= 0) || (c.Op == token.GTR && k < 0)): // v >= 0 cannot fail
			return nonNeg(c.X, nn, 0)
		}
	}
	return false
}

func intConst(v ssa.Value) (int64, bool) {
	c, ok := v.(*ssa.Const)
	if !ok || c.Value == nil || c.Value.Kind() != constant.Int {
		return 0, false
	}
	return constant.Int64Val(c.Value)
}

func nonNeg(v ssa.Value, assumed map[ssa.Value]bool, depth int) bool {
	if depth > 12 {
		return false
	}
	if assumed[v] {
		return true // coinductive: a cycle through phis / the field's own stores
	}
	if bt, ok := v.Type().Underlying().(*types.Basic); ok && bt.Info()&types.IsUnsigned != 0 {
		return true
	}
	switch x := v.(type) {
	case *ssa.Const:
		k, ok := intConst(x)
		return ok && k >= 0
	case *ssa.Call:
		if bi, ok := x.Call.Value.(*ssa.Builtin); ok && (bi.Name() == "len" || bi.Name() == "cap") {
			return true
		}
	case *ssa.Convert:
		if bt, ok := x.X.Type().Underlying().(*types.Basic); ok && bt.Info()&types.IsUnsigned != 0 {
			if rt, ok := x.Type().Underlying().(*types.Basic); ok && rt.Info()&types.IsInteger != 0 && sizeOfBasic(rt) > sizeOfBasic(bt) {
				return true
			}
		}
	case *ssa.BinOp:
		if x.Op == token.ADD {
			if k, ok := intConst(x.Y); ok && k >= 0 {
				return nonNeg(x.X, assumed, depth+1)
			}
			if k, ok := intConst(x.X); ok && k >= 0 {
				return nonNeg(x.Y, assumed, depth+1)
			}
			// plus the width of a rune just decoded (0 to 4)
			if runeWidth(x.Y) {
				return nonNeg(x.X, assumed, depth+1)
			}
			if runeWidth(x.X) {
				return nonNeg(x.Y, assumed, depth+1)
			}
		}
	case *ssa.Extract:
		if runeWidth(x) {
			return true
		}
	case *ssa.Phi:
		assumed[v] = true
		for _, e := range x.Edges {
			if !nonNeg(e, assumed, depth+1) {
				delete(assumed, v)
				return false
			}
		}
		return true
	case *ssa.UnOp:
		if x.Op == token.MUL {
			if fa, ok := x.X.(*ssa.FieldAddr); ok {
				return fieldNonNeg(fa.X.Type(), fa.Field, fa.Parent().Prog, assumed, depth+1)
			}
		}
	case *ssa.Field:
		return fieldNonNeg(x.X.Type(), x.Field, x.Parent().Prog, assumed, depth+1)
	case *ssa.Parameter:
		return paramNonNeg(x, assumed, depth+1)
	}
	return false
}

func sizeOfBasic(b *types.Basic) int {
	switch b.Kind() {
	case types.Int8, types.Uint8:
		return 1
	case types.Int16, types.Uint16:
		return 2
	case types.Int32, types.Uint32:
		return 4
	}
	return 8
}

type fieldKey struct {
	s *types.Struct
	i int
}

var fieldNonNegCache = map[fieldKey]bool{}

func fieldNonNeg(t types.Type, idx int, prog *ssa.Program, assumed map[ssa.Value]bool, depth int) bool {
	s := derefStruct(t)
	if s == nil {
		if st, ok := t.Underlying().(*types.Struct); ok {
			s = st
		}
	}
	if s == nil || idx >= s.NumFields() {
		return false
	}
	f := s.Field(idx)
	if f.Exported() || f.Pkg() == nil || !strings.HasPrefix(f.Pkg().Path(), repoModule) {
		return false // anybody may store into an exported field
	}
	if bt, ok := f.Type().Underlying().(*types.Basic); !ok || bt.Info()&types.IsInteger == 0 {
		return false
	}
	key := fieldKey{s, idx}
	if r, ok := fieldNonNegCache[key]; ok {
		return r
	}
	fieldNonNegCache[key] = true // coinductive: the field's own value may be stored back (index++)
	ok := true
	for fn := range ssautil.AllFunctions(prog) {
		if !ok {
			break
		}
		if fn.Blocks == nil || !inRepoOrRef(fn) {
			continue
		}
		for _, b := range fn.Blocks {
			for _, ins := range b.Instrs {
				switch x := ins.(type) {
				case *ssa.FieldAddr:
					if derefStruct(x.X.Type()) != s || x.Field != idx {
						continue
					}
					for _, ref := range *x.Referrers() {
						switch r := ref.(type) {
						case *ssa.UnOp:
							if r.Op != token.MUL {
								ok = false
							}
						case *ssa.Store:
							if r.Addr != ssa.Value(x) || !nonNeg(r.Val, assumed, depth+1) {
								ok = false
							}
						case *ssa.DebugRef:
						default:
							ok = false // the address goes somewhere else
						}
					}
				case *ssa.Convert, *ssa.ChangeType:
					// a value of another struct type with the same fields is turned into this one
					v := ins.(ssa.Value)
					if ds := derefStruct(v.Type()); ds == s {
						ok = false
					} else if st, isS := v.Type().Underlying().(*types.Struct); isS && st == s {
						ok = false
					}
				}
			}
		}
	}
	fieldNonNegCache[key] = ok
	if !ok {
		// answers obtained while this one was assumed may depend on it
		for k, v := range fieldNonNegCache {
			if v {
				delete(fieldNonNegCache, k)
			}
		}
		fieldNonNegCache[key] = false
	}
	return ok
}

func paramNonNeg(p *ssa.Parameter, assumed map[ssa.Value]bool, depth int) bool {
	fn := p.Parent()
	if fn == nil || fn.Object() == nil || fn.Object().Exported() {
		return false
	}
	if fn.Signature.Recv() != nil {
		// methods can be reached through interfaces and method values: only plain functions
		return false
	}
	idx := -1
	for i, q := range fn.Params {
		if q == p {
			idx = i
		}
	}
	if idx < 0 {
		return false
	}
	assumed[p] = true
	sites := 0
	for g := range ssautil.AllFunctions(fn.Prog) {
		if g.Blocks == nil {
			continue
		}
		for _, b := range g.Blocks {
			for _, ins := range b.Instrs {
				// any use of fn as a value other than as the callee of a static call: unknown callers
				for _, op := range ins.Operands(nil) {
					if *op == ssa.Value(fn) {
						c, isCall := ins.(ssa.CallInstruction)
						if !isCall || c.Common().Value != ssa.Value(fn) || c.Common().IsInvoke() {
							delete(assumed, p)
							return false
						}
						for _, a := range c.Common().Args {
							if a == ssa.Value(fn) {
								delete(assumed, p)
								return false
							}
						}
						if _, isGo := ins.(*ssa.Call); !isGo {
							// go / defer of fn: still a static call with these arguments
						}
						sites++
						if idx >= len(c.Common().Args) || !nonNeg(c.Common().Args[idx], assumed, depth+1) {
							delete(assumed, p)
							return false
						}
					}
				}
			}
		}
	}
	if sites == 0 {
		delete(assumed, p)
		return false
	}
	return true
}

// runeWidth: v is the width result of utf8.DecodeRune / DecodeRuneInString / DecodeLastRune*, or a utf8.RuneLen.
func runeWidth(v ssa.Value) bool {
	if ex, ok := v.(*ssa.Extract); ok && ex.Index == 1 {
		if c, ok := ex.Tuple.(*ssa.Call); ok {
			if callee := c.Call.StaticCallee(); callee != nil && strings.HasPrefix(callee.String(), "unicode/utf8.Decode") {
				return true
			}
		}
	}
	return false
}

// ---- per-key memo tables ------------------------------------------------------------------

// pureMemos: package-level sync.Map variables of the repository that are nothing but a memo of a function of the
// key, the way encoding/json caches what it learnt about a type: (M1) every use of the variable is a Load, a
// LoadOrStore or a Store in one plain function with a single parameter; (M2) the key is that parameter itself;
// (M3) the value stored is a slice or struct allocated in that function, completely filled before it is published
// (no store into it is reachable from the publishing call); (M4) what the function returns is only read by its
// callers: indexed, ranged over, measured, its elements' fields loaded, passed on to repository functions that do
// no more with it, and never stored anywhere or returned from an exported function. Such a table does not make a
// result depend on earlier calls and is safe for concurrent use, so the state rules leave it alone. A cache keyed
// by something derived from the parameter, published before it is filled, or handing its entries to callers who
// may write to them is not a memo in this sense and is reported like any other shared state.
var pureMemoCache = map[*ssa.Program]map[*ssa.Global]bool{}

func pureMemos(prog *ssa.Program) map[*ssa.Global]bool {
	if r, ok := pureMemoCache[prog]; ok {
		return r
	}
	out := map[*ssa.Global]bool{}
	pureMemoCache[prog] = out
	uses := map[*ssa.Global][]ssa.Instruction{}
	for fn := range ssautil.AllFunctions(prog) {
		if fn.Blocks == nil || !inRepoOrRef(fn) {
			continue
		}
		for _, b := range fn.Blocks {
			for _, ins := range b.Instrs {
				for _, op := range ins.Operands(nil) {
					if g, ok := (*op).(*ssa.Global); ok && g.Pkg != nil && strings.HasPrefix(g.Pkg.Pkg.Path(), repoModule) {
						if pt, ok := g.Type().Underlying().(*types.Pointer); ok && pt.Elem().String() == "sync.Map" {
							uses[g] = append(uses[g], ins)
						}
					}
				}
			}
		}
	}
	for g, list := range uses {
		if memoOK(g, list) {
			out[g] = true
		} else if os.Getenv("GDSA_DBG_MEMO") != "" {
			fmt.Fprintf(os.Stderr, "not a memo: %s\n", g.Name())
		}
	}
	return out
}

func memoOK(g *ssa.Global, list []ssa.Instruction) bool {
	var f *ssa.Function
	var publishes []*ssa.Call
	var published []ssa.Value
	for _, ins := range list {
		c, ok := ins.(*ssa.Call)
		if !ok {
			return memoNo(g, 1)
		}
		callee := c.Call.StaticCallee()
		if callee == nil || len(c.Call.Args) < 2 || c.Call.Args[0] != ssa.Value(g) {
			return memoNo(g, 2)
		}
		switch callee.String() {
		case "(*sync.Map).Load":
		case "(*sync.Map).LoadOrStore", "(*sync.Map).Store":
			publishes = append(publishes, c)
			published = append(published, c.Call.Args[2])
		default:
			return memoNo(g, 3)
		}
		if f == nil {
			f = c.Parent()
		} else if f != c.Parent() {
			return memoNo(g, 4)
		}
		// M2: the key is the function's only parameter
		k := c.Call.Args[1]
		if mi, ok := k.(*ssa.MakeInterface); ok {
			k = mi.X
		}
		if ci, ok := k.(*ssa.ChangeInterface); ok {
			k = ci.X
		}
		if f.Signature.Recv() != nil || len(f.Params) != 1 || k != ssa.Value(f.Params[0]) {
			return memoNo(g, 5)
		}
	}
	if f == nil || len(publishes) == 0 || f.Object() == nil || f.Object().Exported() {
		return memoNo(g, 6)
	}
	// M3: fresh, and filled before it is published
	for i, v := range published {
		if mi, ok := v.(*ssa.MakeInterface); ok {
			v = mi.X
		}
		root := v
		if sl, ok := root.(*ssa.Slice); ok {
			root = sl.X
		}
		switch root.(type) {
		case *ssa.MakeSlice, *ssa.Alloc:
		default:
			return memoNo(g, 7)
		}
		after := map[*ssa.BasicBlock]bool{}
		var walk func(b *ssa.BasicBlock)
		walk = func(b *ssa.BasicBlock) {
			for _, s := range b.Succs {
				if !after[s] {
					after[s] = true
					walk(s)
				}
			}
		}
		walk(publishes[i].Block())
		derived := map[ssa.Value]bool{root: true, v: true}
		for changed := true; changed; {
			changed = false
			for _, b := range f.Blocks {
				for _, ins := range b.Instrs {
					switch x := ins.(type) {
					case *ssa.IndexAddr:
						if derived[x.X] && !derived[x] {
							derived[x], changed = true, true
						}
					case *ssa.FieldAddr:
						if derived[x.X] && !derived[x] {
							derived[x], changed = true, true
						}
					case *ssa.Slice:
						if derived[x.X] && !derived[x] {
							derived[x], changed = true, true
						}
					}
				}
			}
		}
		for _, b := range f.Blocks {
			for idx, ins := range b.Instrs {
				st, ok := ins.(*ssa.Store)
				if !ok || !derived[st.Addr] {
					continue
				}
				if after[b] {
					return memoNo(g, 8)
				}
				if b == publishes[i].Block() && idx > instrIndex(publishes[i]) {
					return memoNo(g, 9)
				}
			}
		}
	}
	// M4: the callers only read what they get
	return readOnlyResult(f, 0)
}

// readOnlyResult: every caller of f only reads the value f returns.
func readOnlyResult(f *ssa.Function, depth int) bool {
	if depth > 2 {
		return false
	}
	for g := range ssautil.AllFunctions(f.Prog) {
		if g.Blocks == nil {
			continue
		}
		for _, b := range g.Blocks {
			for _, ins := range b.Instrs {
				for _, op := range ins.Operands(nil) {
					if *op != ssa.Value(f) {
						continue
					}
					c, ok := ins.(*ssa.Call)
					if !ok || c.Call.Value != ssa.Value(f) {
						return false // f used as a value, or deferred / started as a goroutine
					}
					if !readOnlyUse(c, map[ssa.Value]bool{}, depth) {
						return false
					}
				}
			}
		}
	}
	return true
}

func readOnlyUse(v ssa.Value, seen map[ssa.Value]bool, depth int) bool {
	if seen[v] {
		return true
	}
	seen[v] = true
	refs := v.Referrers()
	if refs == nil {
		return true
	}
	for _, ref := range *refs {
		switch x := ref.(type) {
		case *ssa.DebugRef:
		case *ssa.Index, *ssa.Lookup, *ssa.Field:
			// an element or field by value: a copy
		case *ssa.IndexAddr:
			if x.X != v || !readOnlyAddr(x, seen) {
				if os.Getenv("GDSA_DBG_MEMO") != "" {
					fmt.Fprintf(os.Stderr, "  element address not read-only: %v in %s\n", x, x.Parent())
				}
				return false
			}
		case *ssa.Range:
		case *ssa.Slice, *ssa.Phi, *ssa.ChangeType, *ssa.Extract, *ssa.TypeAssert:
			if !readOnlyUse(x.(ssa.Value), seen, depth) {
				return false
			}
		case *ssa.UnOp, *ssa.BinOp, *ssa.If:
		case *ssa.Call:
			if bi, ok := x.Call.Value.(*ssa.Builtin); ok && (bi.Name() == "len" || bi.Name() == "cap") {
				continue
			}
			callee := x.Call.StaticCallee()
			if callee == nil || callee.Blocks == nil || !inRepoOrRef(callee) || depth > 1 {
				return false
			}
			for i, a := range x.Call.Args {
				if a == v {
					if i >= len(callee.Params) || !readOnlyUse(callee.Params[i], seen, depth+1) {
						return false
					}
				}
			}
		case *ssa.Return:
			fn := x.Parent()
			if fn.Object() == nil || fn.Object().Exported() || !readOnlyResult(fn, depth+1) {
				return false
			}
		default:
			if os.Getenv("GDSA_DBG_MEMO") != "" {
				fmt.Fprintf(os.Stderr, "  use refused: %T %v in %s\n", ref, ref, ref.Parent())
			}
			return false // stored, sent, captured, converted to an interface, ...
		}
	}
	return true
}

func readOnlyAddr(a ssa.Value, seen map[ssa.Value]bool) bool {
	refs := a.Referrers()
	if refs == nil {
		return true
	}
	for _, ref := range *refs {
		switch x := ref.(type) {
		case *ssa.DebugRef:
		case *ssa.UnOp:
			if x.Op != token.MUL {
				return false
			}
			// the element loaded by value: a struct copy, whose own reference fields are read through
		case *ssa.FieldAddr:
			if !readOnlyAddr(x, seen) {
				return false
			}
		case *ssa.IndexAddr:
			if !readOnlyAddr(x, seen) {
				return false
			}
		case *ssa.Call:
			// the element's address handed to a repository function that only reads through it
			callee := x.Call.StaticCallee()
			if callee == nil || callee.Blocks == nil || !inRepoOrRef(callee) {
				if os.Getenv("GDSA_DBG_MEMO") != "" {
					fmt.Fprintf(os.Stderr, "    address passed to %v\n", x)
				}
				return false
			}
			if seen[callee] {
				continue // already looked at (or being looked at: recursion)
			}
			seen[callee] = true
			for i, arg := range x.Call.Args {
				if arg == a {
					if i >= len(callee.Params) || !readOnlyAddr(callee.Params[i], seen) {
						return false
					}
				}
			}
		case *ssa.Phi:
			if !readOnlyAddr(x, seen) {
				return false
			}
		default:
			if os.Getenv("GDSA_DBG_MEMO") != "" {
				fmt.Fprintf(os.Stderr, "    address use refused: %T %v in %s\n", ref, ref, ref.Parent())
			}
			return false
		}
	}
	return true
}

func memoNo(g *ssa.Global, where int) bool {
	if os.Getenv("GDSA_DBG_MEMO") != "" {
		fmt.Fprintf(os.Stderr, "memo %s refused at check %d\n", g.Name(), where)
	}
	return false
}
