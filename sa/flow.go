package main

// Flow rules shared by several properties: error discipline, map-order
// dependence, reachability of fatal calls, package-level state.

import (
	"fmt"
	"go/token"
	"go/types"
	"sort"
	"strings"

	"golang.org/x/tools/go/ssa"
)

// ---- error discipline -------------------------------------------------------------

type errSite struct {
	Call   *ssa.Call
	Callee string
	Status string // "returned", "checked", "dropped", "unclear"
	Detail string
}

// errorValue returns the SSA value carrying the error result of call (the call
// itself for single-result functions, else the Extract), or nil if unused.
func errorValueOf(call *ssa.Call) (ssa.Value, bool) {
	sig := call.Call.Signature()
	ei := errResultIndex(sig)
	if ei < 0 {
		return nil, false
	}
	if sig.Results().Len() == 1 {
		return call, true
	}
	for _, r := range *call.Referrers() {
		if ex, ok := r.(*ssa.Extract); ok && ex.Index == ei {
			return ex, true
		}
	}
	return nil, true // has an error result, but it is never extracted
}

// errDiscipline classifies every call in fn whose callee satisfies want and
// returns an error.
func errDiscipline(fn *ssa.Function, want func(name string, call *ssa.Call) bool) []errSite {
	var out []errSite
	gs := guardsOf(fn)
	ei := errResultIndex(fn.Signature)
	for _, b := range fn.Blocks {
		for _, ins := range b.Instrs {
			call, ok := ins.(*ssa.Call)
			if !ok {
				continue
			}
			name := calleeName(call.Common())
			if name == "" && call.Call.IsInvoke() {
				name = "invoke:" + call.Call.Method.Name()
			}
			if !want(name, call) {
				continue
			}
			ev, has := errorValueOf(call)
			if !has {
				continue
			}
			site := errSite{Call: call, Callee: shortFn(name)}
			if ev == nil {
				site.Status, site.Detail = "dropped", "the error result is never looked at"
				out = append(out, site)
				continue
			}
			status := "dropped"
			detail := "the error result is never looked at"
			var visit func(v ssa.Value, depth int)
			seen := map[ssa.Value]bool{}
			visit = func(v ssa.Value, depth int) {
				if depth > 6 || seen[v] {
					return
				}
				seen[v] = true
				for _, r := range *v.Referrers() {
					switch x := r.(type) {
					case *ssa.Return:
						if ei >= 0 && x.Results[ei] == v {
							status = "returned"
						}
					case *ssa.BinOp:
						if x.Op == token.NEQ || x.Op == token.EQL {
							for _, g := range gs {
								if g.If.Cond == x {
									_, side, ok := nilTest(x)
									if ok && rejectsOn(fn, g, side) {
										if status != "returned" {
											status = "checked"
										}
									} else if status == "dropped" {
										status, detail = "unclear", "the error is tested but the failing side does not always return an error"
									}
								}
							}
							// comparison with io.EOF etc.: keep looking at other uses
						}
					case *ssa.Phi:
						visit(x, depth+1)
					case *ssa.MakeInterface:
						visit(x, depth+1)
					case *ssa.Store:
						// stored into a variadic array for fmt.Errorf("%v", err): wrapped
						if status == "dropped" {
							status, detail = "unclear", "the error is only stored"
						}
					}
				}
			}
			visit(ev, 0)
			site.Status = status
			if status == "dropped" || status == "unclear" {
				site.Detail = detail
			}
			out = append(out, site)
		}
	}
	return out
}

// ---- map-order dependence -----------------------------------------------------------

type mapLoop struct {
	Fn    *ssa.Function
	Range *ssa.Range
	Next  *ssa.Next
	OK    bool
	Why   string
}

var pureCallees = map[string]bool{
	"strings.HasPrefix": true, "strings.HasSuffix": true, "strings.Contains": true, "strings.EqualFold": true,
	"path.Clean": true, "path/filepath.Ext": true, "strings.TrimSpace": true, "builtin:len": true,
}

// mapOrderLoops analyses every range-over-map loop of fn: the loop's effect
// must not depend on the iteration order.
func mapOrderLoops(fn *ssa.Function) []mapLoop {
	var out []mapLoop
	for _, b := range fn.Blocks {
		for _, ins := range b.Instrs {
			rg, ok := ins.(*ssa.Range)
			if !ok {
				continue
			}
			if _, isMap := rg.X.Type().Underlying().(*types.Map); !isMap {
				continue
			}
			ml := mapLoop{Fn: fn, Range: rg}
			for _, r := range *rg.Referrers() {
				if n, ok := r.(*ssa.Next); ok {
					ml.Next = n
				}
			}
			if ml.Next == nil {
				ml.OK = true
				out = append(out, ml)
				continue
			}
			ml.OK, ml.Why = analyseMapLoop(fn, ml.Next)
			out = append(out, ml)
		}
	}
	return out
}

func analyseMapLoop(fn *ssa.Function, next *ssa.Next) (bool, string) {
	header := next.Block()
	// loop blocks: those that can reach the header again and are dominated by it
	// the loop body: everything dominated by the successor taken while the
	// iterator still yields elements (this includes blocks that return from
	// inside the loop, which never reach the header again)
	inLoop := map[*ssa.BasicBlock]bool{header: true}
	var bodyEntry *ssa.BasicBlock
	if ifi, ok := header.Instrs[len(header.Instrs)-1].(*ssa.If); ok {
		if ex, ok := ifi.Cond.(*ssa.Extract); ok && ex.Tuple == next && ex.Index == 0 {
			bodyEntry = header.Succs[0]
		}
	}
	if bodyEntry == nil {
		return false, "range-over-map loop of unrecognised shape"
	}
	for _, b := range fn.Blocks {
		if bodyEntry.Dominates(b) {
			inLoop[b] = true
		}
	}
	elemDerived := func(v ssa.Value) bool {
		return derivesFrom(v, func(x ssa.Value) bool {
			if ex, ok := x.(*ssa.Extract); ok && ex.Tuple == next && ex.Index > 0 {
				return true
			}
			return false
		}, 0)
	}
	// (1)+(3): instructions inside the loop
	for b := range inLoop {
		for _, ins := range b.Instrs {
			switch x := ins.(type) {
			case *ssa.Return:
				for _, r := range x.Results {
					if elemDerived(r) {
						return false, fmt.Sprintf("returns a value derived from the current map element from inside the loop (the first element in iteration order wins)")
					}
				}
			case *ssa.Store:
				if elemDerived(x.Val) || elemDerived(x.Addr) {
					return false, "stores an element-derived value from inside the loop to memory that outlives the iteration"
				}
			case *ssa.MapUpdate:
				// keyed by the element: order independent
				if !elemDerived(x.Key) && (elemDerived(x.Value)) {
					return false, "writes an element-derived value under an element-independent key"
				}
			case *ssa.Call:
				n := calleeName(x.Common())
				if pureCallees[n] {
					continue
				}
				if n == "fmt.Errorf" || n == "errors.New" {
					for _, a := range x.Call.Args {
						if elemDerived(a) {
							return false, "builds an error message from the current map element (the message depends on iteration order)"
						}
					}
					continue
				}
				if b2, ok := x.Call.Value.(*ssa.Builtin); ok && (b2.Name() == "append") {
					return false, "appends inside a map iteration: the result's order follows the map order"
				}
				anyElem := false
				for _, a := range x.Call.Args {
					if elemDerived(a) {
						anyElem = true
					}
				}
				if anyElem || n == "" {
					return false, "calls " + shortFn(n) + " with the current map element inside the loop"
				}
			case *ssa.Defer, *ssa.Go, *ssa.Send:
				return false, "defer/go/send inside a map iteration"
			}
		}
	}
	// (2): loop-carried values
	for _, ins := range header.Instrs {
		ph, ok := ins.(*ssa.Phi)
		if !ok {
			break
		}
		for i, pred := range header.Preds {
			if !inLoop[pred] {
				continue
			}
			e := ph.Edges[i]
			if e == ph || !elemDerived(e) {
				continue
			}
			// the assignment must happen only while ph is still nil: the edge source
			// must be dominated by the nil side of a test of ph
			nilKnown := knownNilAt(pred)
			if nilKnown[ph] {
				continue
			}
			// counting matches is fine too (n++): not element-derived, handled above
			return false, fmt.Sprintf("carries an element-derived value (%s) to the next iteration without a 'still unset' guard: with several candidates the iteration order decides", ph.Comment)
		}
	}
	// exits carrying element-derived values through non-header phis (break with a value)
	for b := range inLoop {
		for _, s := range b.Succs {
			if inLoop[s] {
				continue
			}
			for _, ins := range s.Instrs {
				ph, ok := ins.(*ssa.Phi)
				if !ok {
					break
				}
				for i, pred := range s.Preds {
					if pred == b && b != header {
						if elemDerived(ph.Edges[i]) {
							if hp, isHeaderPhi := ph.Edges[i].(*ssa.Phi); isHeaderPhi && hp.Block() == header {
								continue
							}
							return false, "leaves the loop early with a value derived from the current element (break at the first match)"
						}
					}
				}
			}
		}
	}
	return true, ""
}

// ---- fatal calls ----------------------------------------------------------------------

type fatalSite struct {
	Fn   *ssa.Function
	Pos  token.Pos
	What string
}

func fatalSites(roots []*ssa.Function) []fatalSite {
	var out []fatalSite
	seen := map[*ssa.Function]bool{}
	for _, r := range roots {
		for _, f := range reachableRepoFuncs(r) {
			if seen[f] {
				continue
			}
			seen[f] = true
			for _, b := range f.Blocks {
				for _, ins := range b.Instrs {
					switch x := ins.(type) {
					case *ssa.Panic:
						out = append(out, fatalSite{f, x.Pos(), "panic"})
					case ssa.CallInstruction:
						n := calleeName(x.Common())
						if strings.HasPrefix(n, "log.Fatal") || strings.HasPrefix(n, "log.Panic") || n == "os.Exit" || n == "(*log.Logger).Fatal" || n == "(*log.Logger).Fatalf" || n == "(*log.Logger).Fatalln" || n == "runtime.Goexit" {
							out = append(out, fatalSite{f, x.Pos(), shortFn(n)})
						}
					}
				}
			}
		}
	}
	sort.Slice(out, func(i, j int) bool { return out[i].Pos < out[j].Pos })
	return out
}

// ---- package-level state ------------------------------------------------------------

type globalWrite struct {
	Fn  *ssa.Function
	G   string
	Pos token.Pos
	How string
}

// globalWrites lists stores to package-level variables (and updates of maps /
// slices loaded from them) outside init functions, in the given packages.
func globalWrites(p *Prog, pkgs ...string) []globalWrite {
	var out []globalWrite
	for _, fn := range p.SrcFuncs(pkgs...) {
		if fn.Name() == "init" || strings.HasPrefix(fn.Name(), "init#") {
			continue
		}
		fromGlobal := func(v ssa.Value) (string, bool) {
			name := ""
			ok := derivesFrom(v, func(x ssa.Value) bool {
				if g, isG := x.(*ssa.Global); isG && g.Pkg != nil && strings.HasPrefix(g.Pkg.Pkg.Path(), repoModule) {
					name = g.Name()
					return true
				}
				return false
			}, 0)
			return name, ok
		}
		for _, b := range fn.Blocks {
			for _, ins := range b.Instrs {
				switch x := ins.(type) {
				case *ssa.Store:
					if g, ok := fromGlobal(x.Addr); ok {
						out = append(out, globalWrite{fn, g, x.Pos(), "store"})
					}
				case *ssa.MapUpdate:
					if g, ok := fromGlobal(x.Map); ok {
						out = append(out, globalWrite{fn, g, x.Pos(), "map update"})
					}
				}
			}
		}
	}
	return out
}
