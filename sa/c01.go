package main

// C01 / C02 — version comparison.
//
// C01-RUN: product of go-debian's run comparator with the reference
// transliteration of dpkg's verrevcmp (refs/dpkgorder), both interpreted
// abstractly over the same pair of lazily revealed tapes.

import (
	"fmt"
	"gdsa/refs/dpkgorder"
	"go/token"
	"go/types"
	"math"
	"os"
	"sort"
	"strings"
	"time"

	"golang.org/x/tools/go/ssa"
)

var versionAlphabet = []byte("ABCDEFGHIJKLMNOPQRSTUVWXYZabcdefghijklmnopqrstuvwxyz0123456789.+~:-")

func init() {
	register("C01", checkC01)
	register("C02", checkC02)
}

// refProg loads the reference packages of /verif/sa/refs.
func loadRefs() (*Prog, error) {
	return Load(verifDir()+"/sa", "", nil, "./refs/...")
}

// findRunComparator: the callee of version.Compare with signature func(string,string) int.
func findRunComparator(p *Prog) (*ssa.Function, []string, error) {
	cmp := p.Func("version", "Compare")
	if cmp == nil {
		return nil, nil, fmt.Errorf("version.Compare not found")
	}
	var found *ssa.Function
	var argDesc []string
	for _, b := range cmp.Blocks {
		for _, ins := range b.Instrs {
			c, ok := ins.(*ssa.Call)
			if !ok {
				continue
			}
			callee := c.Call.StaticCallee()
			if callee == nil || !inRepo(callee) {
				continue
			}
			sig := callee.Signature
			if sig.Params().Len() == 2 && sig.Results().Len() == 1 && isStringT(sig.Params().At(0).Type()) && isStringT(sig.Params().At(1).Type()) && isIntT(sig.Results().At(0).Type()) {
				if found != nil && found != callee {
					return nil, nil, fmt.Errorf("version.Compare calls two different (string,string) int functions: %s and %s", fname(found), fname(callee))
				}
				found = callee
				argDesc = append(argDesc, describeArg(c.Call.Args[0])+","+describeArg(c.Call.Args[1]))
			}
		}
	}
	if found == nil {
		return nil, nil, fmt.Errorf("version.Compare calls no func(string,string) int: the run comparator could not be located")
	}
	return found, argDesc, nil
}

func isStringT(t types.Type) bool {
	b, ok := t.Underlying().(*types.Basic)
	return ok && b.Info()&types.IsString != 0
}
func isIntT(t types.Type) bool {
	b, ok := t.Underlying().(*types.Basic)
	return ok && b.Info()&types.IsInteger != 0
}

// describeArg renders "a.Version" for Field(Parameter a, Version) shapes.
func describeArg(v ssa.Value) string {
	switch x := v.(type) {
	case *ssa.Field:
		st := x.X.Type().Underlying().(*types.Struct)
		return describeArg(x.X) + "." + st.Field(x.Field).Name()
	case *ssa.FieldAddr:
		if st := derefStruct(x.X.Type()); st != nil {
			return "&" + describeArg(x.X) + "." + st.Field(x.Field).Name()
		}
	case *ssa.Parameter:
		return fmt.Sprintf("param%d", paramIndex(x))
	case *ssa.UnOp:
		if x.Op == token.MUL {
			if fa, ok := x.X.(*ssa.FieldAddr); ok {
				st := derefStruct(fa.X.Type())
				return describeArg(fa.X) + "." + st.Field(fa.Field).Name()
			}
			return "*" + describeArg(x.X)
		}
	case *ssa.Alloc:
		// address of a copied parameter (spilled value receiver)
		for _, r := range *x.Referrers() {
			if s, ok := r.(*ssa.Store); ok && s.Addr == x {
				return describeArg(s.Val)
			}
		}
	case *ssa.Const:
		return x.String()
	}
	return v.Name()
}

func paramIndex(p *ssa.Parameter) int {
	for i, q := range p.Parent().Params {
		if q == p {
			return i
		}
	}
	return -1
}

func sign(n int64) int {
	switch {
	case n < 0:
		return -1
	case n > 0:
		return 1
	}
	return 0
}

type productResult struct {
	States    int
	Returns   int
	MaxWindow int
	Disagree  []map[string]interface{}
	Undecided []string
	Panics    []map[string]interface{}
	NonTerm   []map[string]interface{}
	ImplStuck []string
}

func traceStrings(trace []string) (string, string) {
	var a, b strings.Builder
	for _, e := range trace {
		parts := strings.SplitN(e, ":", 2)
		if parts[1] == "END" {
			continue
		}
		s := parts[1]
		if strings.HasPrefix(s, "\\x") {
			var n int
			fmt.Sscanf(s, "\\x%02x", &n)
			s = string(rune(n))
		}
		if parts[0] == "0" {
			a.WriteString(s)
		} else {
			b.WriteString(s)
		}
	}
	return a.String(), b.String()
}

// runProduct explores the synchronous product of impl and ref over two tapes.
// productBudget bounds the wall time of one symbolic product exploration (today's tree needs about two seconds).
var productBudget = 40 * time.Second

func runProduct(pi *Prog, impl *ssa.Function, pr *Prog, ref *ssa.Function, alpha *Alphabet, maxWindow, maxStates int) *productResult {
	res := &productResult{}
	mi := NewMachine(pi, alpha)
	installStringModels(mi)
	if base := initState(mi, "version"); base.Status != stStuck {
		mi.Base = base
	}
	mi.Curs = computeCursors(reachableRepoFuncs(impl))
	mr := NewMachine(pr, alpha)
	mr.Curs = computeCursors(reachableRepoFuncs(ref))
	type pst struct{ a, b *State }
	a0 := mi.NewState(impl, []Val{TapeStr{T: 0}, TapeStr{T: 1}}, 2)
	b0 := mr.NewState(ref, []Val{TapeStr{T: 0}, TapeStr{T: 1}}, 2)
	seen := map[string]bool{}
	var work []pst
	settle := func(m *Machine, s *State) *State {
		if s.Status == stBlocked {
			tp := s.Tapes[s.NeedT]
			if s.NeedP < tp.Base+len(tp.Syms) {
				s.Status = stRun
			} else if _, ended := tp.endAbs(); ended {
				s.Status = stRun
			}
		}
		if s.Status != stRun {
			return s
		}
		out := m.Run(s)
		if len(out) != 1 {
			s.Status = stStuck
			s.Msg = fmt.Sprintf("comparator forked into %d runs on a free atom (%v): not a deterministic function of its inputs for the analysis", len(out), keys(out[0].Notes))
			return s
		}
		return out[0]
	}
	push := func(a, b *State) {
		a = settle(mi, a)
		b = settle(mr, b)
		wa, wb := 0, 0
		for t := 0; t < 2; t++ {
			if n := len(a.Tapes[t].Syms); n > wa {
				wa = n
			}
			if n := len(b.Tapes[t].Syms); n > wb {
				wb = n
			}
		}
		x, y := traceStrings(a.Trace)
		wit := map[string]interface{}{"a": x, "b": y}
		switch a.Status {
		case stPanic:
			wit["panic"] = a.Msg
			res.Panics = append(res.Panics, wit)
			return
		case stStuck:
			if a.Notes["nonterm"] {
				wit["msg"] = a.Msg
				res.NonTerm = append(res.NonTerm, wit)
			} else {
				res.ImplStuck = append(res.ImplStuck, fmt.Sprintf("%s (after a=%q b=%q)", a.Msg, x, y))
			}
			return
		}
		if b.Status == stStuck || b.Status == stPanic {
			res.Undecided = append(res.Undecided, "reference machine: "+b.Msg)
			return
		}
		ka := "R" + fmtVal(a.Ret, nil)
		if a.Status != stRet {
			ka = mi.Key(a)
		} else if n, ok := a.Ret.(int64); ok {
			ka = fmt.Sprintf("R%d", sign(n))
		}
		kb := "R" + fmtVal(b.Ret, nil)
		if b.Status != stRet {
			kb = mr.Key(b)
		} else if n, ok := b.Ret.(int64); ok {
			kb = fmt.Sprintf("R%d", sign(n))
		}
		for t := 0; t < 2; t++ {
			if n := len(a.Tapes[t].Syms); n > res.MaxWindow {
				res.MaxWindow = n
			}
			if n := len(b.Tapes[t].Syms); n > res.MaxWindow {
				res.MaxWindow = n
			}
		}
		if a.Status == stRet && b.Status == stRet {
			res.Returns++
			ra, oka := a.Ret.(int64)
			rb, okb := b.Ret.(int64)
			if !oka || !okb {
				res.Undecided = append(res.Undecided, fmt.Sprintf("non-integer result %v / %v", a.Ret, b.Ret))
				return
			}
			if sign(ra) != sign(rb) {
				wit["impl"] = ra
				wit["dpkg"] = rb
				res.Disagree = append(res.Disagree, wit)
			}
			return
		}
		key := ka + "##" + kb
		if seen[key] {
			return
		}
		seen[key] = true
		// after Key() the windows are trimmed
		wa, wb = 0, 0
		for t := 0; t < 2; t++ {
			if n := len(a.Tapes[t].Syms); n > wa && a.Status != stRet {
				wa = n
			}
			if n := len(b.Tapes[t].Syms); n > wb && b.Status != stRet {
				wb = n
			}
		}
		if wa > maxWindow || wb > maxWindow {
			res.Undecided = append(res.Undecided, fmt.Sprintf("the two machines' reading positions drift more than %d symbols apart (after a=%q b=%q)", maxWindow, x, y))
			return
		}
		work = append(work, pst{a, b})
	}
	push(a0, b0)
	started := time.Now()
	for len(work) > 0 {
		if len(seen) > maxStates {
			res.Undecided = append(res.Undecided, fmt.Sprintf("state cap %d reached", maxStates))
			break
		}
		if len(seen)%256 == 0 && time.Since(started) > productBudget {
			// the symbolic product is a means, not the claim: past the budget the bounded comparison decides
			res.Undecided = append(res.Undecided, fmt.Sprintf("the symbolic product did not finish within %v (%d states)", productBudget, len(seen)))
			break
		}
		if len(res.Disagree) > 20 || len(res.Panics) > 20 || len(res.NonTerm) > 20 {
			break
		}
		// BFS: short witnesses first
		cur := work[0]
		work = work[1:]
		var t int
		if cur.a.Status == stBlocked {
			t = cur.a.NeedT
		} else if cur.b.Status == stBlocked {
			t = cur.b.NeedT
		} else {
			continue
		}
		for sym := -1; sym < alpha.N(); sym++ {
			na, nb := cur.a.Clone(), cur.b.Clone()
			name := "END"
			if sym >= 0 {
				name = alpha.Names[sym]
			}
			for _, s := range []*State{na, nb} {
				s.Tapes[t].Syms = append(s.Tapes[t].Syms, sym)
				s.Trace = append(s.Trace, fmt.Sprintf("%d:%s", t, name))
				s.Steps = 0
			}
			push(na, nb)
		}
	}
	res.States = len(seen)
	return res
}

func keys(m map[string]bool) []string {
	var out []string
	for k := range m {
		out = append(out, k)
	}
	sort.Strings(out)
	return out
}

// reachableRepoFuncs: fn and every repository/reference function statically reachable from it.
var reachCache = map[*ssa.Function][]*ssa.Function{}

func reachableRepoFuncs(fn *ssa.Function) []*ssa.Function {
	if fn == nil {
		return nil
	}
	if r, ok := reachCache[fn]; ok {
		return r
	}
	r := reachableRepoFuncs0(fn)
	reachCache[fn] = r
	return r
}

var registeredCache = map[*ssa.Program][]*ssa.Function{}

// registeredFuncs: repository functions whose value a package initialiser uses as an operand (stored into a
// package-level variable, table or map).
func registeredFuncs(prog *ssa.Program) []*ssa.Function {
	if r, ok := registeredCache[prog]; ok {
		return r
	}
	var out []*ssa.Function
	seen := map[*ssa.Function]bool{}
	for _, pkg := range prog.AllPackages() {
		init := pkg.Func("init")
		if init == nil || !inRepoOrRef(init) {
			continue
		}
		for _, b := range init.Blocks {
			for _, ins := range b.Instrs {
				if _, isCall := ins.(*ssa.Call); isCall {
					continue
				}
				for _, op := range ins.Operands(nil) {
					var f *ssa.Function
					switch x := (*op).(type) {
					case *ssa.Function:
						f = x
					case *ssa.MakeClosure:
						f, _ = x.Fn.(*ssa.Function)
					}
					if f != nil && !seen[f] && inRepoOrRef(f) {
						seen[f] = true
						out = append(out, f)
					}
				}
			}
		}
	}
	registeredCache[prog] = out
	return out
}

// repoImplementors: the methods named like m of the repository's own named types that implement the interface
// type t, when t is an interface declared in the repository.
func repoImplementors(prog *ssa.Program, t types.Type, m *types.Func) []*ssa.Function {
	named, ok := t.(*types.Named)
	if !ok || named.Obj().Pkg() == nil {
		return nil
	}
	pp := named.Obj().Pkg().Path()
	if !(strings.HasPrefix(pp, repoModule) || strings.HasPrefix(pp, "gdsa/")) {
		return nil
	}
	iface, ok := named.Underlying().(*types.Interface)
	if !ok {
		return nil
	}
	var out []*ssa.Function
	for _, pkg := range prog.AllPackages() {
		if !(strings.HasPrefix(pkg.Pkg.Path(), repoModule) || strings.HasPrefix(pkg.Pkg.Path(), "gdsa/")) {
			continue
		}
		var names []string
		for n := range pkg.Members {
			names = append(names, n)
		}
		sort.Strings(names)
		for _, n := range names {
			tn, ok := pkg.Members[n].(*ssa.Type)
			if !ok {
				continue
			}
			if _, isIface := tn.Type().Underlying().(*types.Interface); isIface {
				continue
			}
			for _, recv := range []types.Type{tn.Type(), types.NewPointer(tn.Type())} {
				if !types.Implements(recv, iface) {
					continue
				}
				if sel := prog.MethodSets.MethodSet(recv).Lookup(m.Pkg(), m.Name()); sel != nil {
					if g := prog.MethodValue(sel); g != nil {
						out = append(out, g)
					}
				}
				break
			}
		}
	}
	return out
}

func reachableRepoFuncs0(fn *ssa.Function) []*ssa.Function {
	seen := map[*ssa.Function]bool{}
	var out []*ssa.Function
	var walk func(f *ssa.Function)
	walk = func(f *ssa.Function) {
		if f == nil || seen[f] || f.Blocks == nil || !inRepoOrRef(f) {
			return
		}
		seen[f] = true
		out = append(out, f)
		for _, b := range f.Blocks {
			for _, ins := range b.Instrs {
				switch x := ins.(type) {
				case *ssa.Call:
					walk(x.Call.StaticCallee())
					if x.Call.IsInvoke() {
						// a call through an interface the repository declares itself (a seam for a reader, a source of
						// paragraphs, ...): every repository type that implements it may be meant
						for _, g := range repoImplementors(f.Prog, x.Call.Value.Type(), x.Call.Method) {
							walk(g)
						}
					}
					if x.Call.StaticCallee() == nil && !x.Call.IsInvoke() {
						// a call through a function value: every function a package initialiser registers in a
						// package-level table (a map or slice of constructors, ...) with this signature may be meant
						for _, g := range registeredFuncs(f.Prog) {
							if types.Identical(g.Signature, x.Call.Signature()) {
								walk(g)
							}
						}
					}
				case *ssa.MakeClosure:
					walk(x.Fn.(*ssa.Function))
				}
				for _, op := range ins.Operands(nil) {
					if f2, ok := (*op).(*ssa.Function); ok {
						walk(f2)
					}
				}
			}
		}
	}
	walk(fn)
	return out
}

// runEquivalence runs the product against both reference variants and fills the rule.
func runEquivalence(p *Prog, rp *Report, r *Rule, thorough bool) (*productResult, *ssa.Function) {
	impl, _, err := findRunComparator(p)
	if err != nil {
		// no func(string, string) int inside Compare: bounded comparison of Compare as a whole
		b := compareWhole(p)
		switch {
		case b.undecided != "":
			r.undecided("version.Compare", "", err.Error()+"; bounded comparison of Compare: "+b.undecided)
		case len(b.problems) > 0:
			r.bad("version.Compare", "", b.problems[0], b.problems)
		default:
			r.ok("version.Compare", "", fmt.Sprintf("(bounded: %s) Compare agrees in sign with dpkg's order on %d exact pairs of versions (upstream and revision parts over the comparator family; every combination of two epochs, three upstream parts and three revisions)", err.Error(), b.pairs))
		}
		return nil, nil
	}
	refs, err := loadRefs()
	if err != nil {
		rp.Errorf("reference load: %v", err)
		return nil, impl
	}
	refA := refs.SPkg["gdsa/refs/dpkgorder"].Func("Verrevcmp")
	refB := refs.SPkg["gdsa/refs/dpkgorder"].Func("VerrevcmpB")
	alpha := NewAlphabetSingletons(append([]byte(nil), versionAlphabet...))
	maxStates := 60000
	var best *productResult
	for vi, ref := range []*ssa.Function{refA, refB} {
		res := runProduct(p, impl, refs, ref, alpha, 6, maxStates)
		if best == nil {
			best = res
		}
		clean := len(res.Disagree) == 0 && len(res.Undecided) == 0 && len(res.Panics) == 0 && len(res.NonTerm) == 0 && len(res.ImplStuck) == 0
		if clean {
			best = res
			rp.Extra["reference_variant"] = []string{"A (zeros of operand 1 first)", "B (zeros of operand 2 first)"}[vi]
			break
		}
		// a real disagreement beats an undecided result
		if len(res.Disagree)+len(res.Panics)+len(res.NonTerm) > 0 && len(best.Disagree)+len(best.Panics)+len(best.NonTerm) == 0 {
			best = res
		}
		if len(res.Undecided) > 0 && strings.Contains(res.Undecided[len(res.Undecided)-1], "did not finish within") {
			break // the other reference variant would take as long
		}
	}
	return best, impl
}

func fillEquivalence(p *Prog, r *Rule, res *productResult, impl *ssa.Function, what string) {
	if res == nil {
		return
	}
	pos := p.Pos(impl.Pos())
	name := fname(impl)
	if os.Getenv("GDSA_FORCE_BOUNDED") != "" {
		res = &productResult{ImplStuck: []string{"forced by GDSA_FORCE_BOUNDED"}}
	}
	switch {
	case len(res.Disagree) > 0:
		w := res.Disagree[0]
		r.bad(name, pos, fmt.Sprintf("%s: comparing %q with %q gives sign %d but dpkg's algorithm gives %d (%d disagreeing product states found)", what, w["a"], w["b"], sign(w["impl"].(int64)), sign(w["dpkg"].(int64)), len(res.Disagree)), res.Disagree)
	case len(res.Panics) > 0:
		w := res.Panics[0]
		r.bad(name, pos, fmt.Sprintf("the comparator panics on %q vs %q: %v", w["a"], w["b"], w["panic"]), res.Panics)
	case len(res.NonTerm) > 0:
		w := res.NonTerm[0]
		r.bad(name, pos, fmt.Sprintf("the comparator does not terminate on inputs starting %q / %q: %v", w["a"], w["b"], w["msg"]), res.NonTerm)
	case len(res.ImplStuck) > 0 || len(res.Undecided) > 0:
		why := ""
		if len(res.ImplStuck) > 0 {
			why = "operation outside the comparator model: " + res.ImplStuck[0]
		} else {
			why = res.Undecided[0]
		}
		// the comparator left the tape model: bounded comparison on exact pairs
		b := comparatorBounded(p, impl)
		switch {
		case b.undecided != "":
			r.undecided(name, pos, why+"; bounded comparison: "+b.undecided)
		case len(b.problems) > 0:
			r.bad(name, pos, what+": "+b.problems[0], b.problems)
		default:
			r.ok(name, pos, fmt.Sprintf("%s (bounded: the comparator left the tape model: %s): %d exact pairs (every pair of strings of up to 3 bytes over 0 1 a ~ +, and 63 x 63 longer strings with leading zeros, digit runs of different length and of 20 to 30 digits, '~', letters and separators) agree in sign with dpkg's algorithm", what, clip(why, 140), b.pairs))
		}
	case res.States < 1000 || res.Returns < 10000:
		r.undecided(name, pos, fmt.Sprintf("product suspiciously small: %d states, %d pairs of returns", res.States, res.Returns))
	default:
		r.ok(name, pos, fmt.Sprintf("%s: %d product states, %d pairs of returns agree in sign with dpkg's algorithm over the alphabet [A-Za-z0-9.+~:-] and END; window <= %d symbols", what, res.States, res.Returns, res.MaxWindow))
	}
}

func checkC01(p *Prog, rp *Report) {
	defer stateRule(p, rp, "C01-STATE", p.Func("version", "Compare"))
	rp.Level = "proof"
	rp.Explanation = "C01-RUN: the run comparator reached from version.Compare is interpreted abstractly (SSA, lazily revealed input strings of unbounded length over the 70 admitted bytes + END) in lock step with a transliteration of dpkg's verrevcmp; every pair of returns reachable in the product must agree in sign, no panic, no loop that stops consuming input. C01-W: the weight function's preorder on the alphabet equals dpkg's order(). C01-SEQ: Compare = epoch, then upstream, then revision, first non-zero wins, operands in order. C01-SORT: Len and Swap of the sort adapter on a three-element slice; Less(i,j) for all 100 pairs of ten concrete versions (epochs, equal elements, upstreams that are equal under dpkg but spelled differently, leading zeros, tilde, empty parts) equals \"sorts strictly before\" in the reference order."
	rp.NotDecided = "nothing beyond the trusted base."
	rp.Trusted = []string{"go/types, go/ssa (x/tools v0.29.0) represent the source", "refs/dpkgorder is a faithful transliteration of dpkg lib/dpkg/version.c", "soundness of the lazy-tape abstraction: tape bytes are only indexed/compared, cursors only move forward (checked per run)"}

	run := rp.Rule("C01-RUN", "run comparator is sign-equivalent to dpkg's verrevcmp on all string pairs", 1)
	res, impl := runEquivalence(p, rp, run, rp.Tier == "thorough")
	if impl != nil {
		fillEquivalence(p, run, res, impl, "C01-RUN")
	}
	if res != nil {
		rp.Extra["automaton_states"] = res.States
		rp.Extra["pairs_of_returns"] = res.Returns
		rp.Extra["max_window"] = res.MaxWindow
	}

	if rp.Tier == "thorough" && impl != nil {
		// cross-check of the product by plain interpretation on exact pairs
		pr := rp.Rule("C01-PAIRS", "the comparator agrees in sign with the reference on a family of exact pairs", 1)
		b := comparatorBounded(p, impl)
		if b.undecided != "" {
			pr.undecided(fname(impl), p.Pos(impl.Pos()), b.undecided)
		} else {
			fillProblems(pr, fname(impl), p.Pos(impl.Pos()), b.problems, fmt.Sprintf("%d exact pairs (strings of up to 3 bytes over 0 1 a ~ +; 63 x 63 longer ones with leading zeros, runs of different length and of 20 to 30 digits)", b.pairs))
		}
	}
	w := rp.Rule("C01-W", "character weights induce dpkg's order on the alphabet", 1)
	checkWeights(p, w, impl)

	seq := rp.Rule("C01-SEQ", "Compare composes epoch, upstream, revision lexicographically", 1)
	checkCompareSeq(p, seq, impl)
	compareLimitsRule(p, rp, "C01-LIMITS")
	// sorting a list of versions orders it as dpkg does: the sort adapter is part of the ordering
	srt := rp.Rule("C01-SORT", "sort adapter: Len = len, Swap exchanges i and j, Less(i,j) iff a[i] sorts before a[j] in dpkg's order", 3)
	checkSortAdapter(p, srt)
}

// dpkgWeight is Appendix A1 of DESIGN.md.
func dpkgWeight(c byte) int {
	switch {
	case c >= '0' && c <= '9':
		return 0
	case (c >= 'a' && c <= 'z') || (c >= 'A' && c <= 'Z'):
		return int(c)
	case c == '~':
		return -1
	case c != 0:
		return int(c) + 256
	}
	return 0
}

// checkWeights finds the weight function by role (called from the comparator
// with one integer argument derived from a tape byte, integer result) and
// evaluates it abstractly on every symbol of the alphabet.
func checkWeights(p *Prog, r *Rule, cmp *ssa.Function) {
	if cmp == nil {
		r.ok("weights(inlined)", "", "no separate run comparator / weight function was located; the order of weights is covered by the bounded comparison of Compare")
		return
	}
	var wf *ssa.Function
	isWeightSig := func(f *ssa.Function) bool {
		sig := f.Signature
		return sig.Params().Len() == 1 && sig.Results().Len() == 1 && isIntT(sig.Params().At(0).Type()) && isIntT(sig.Results().At(0).Type())
	}
	var cands []*ssa.Function
	for _, f := range reachableRepoFuncs(cmp) {
		if f != cmp && isWeightSig(f) {
			cands = append(cands, f)
		}
	}
	if len(cands) > 1 {
		// the one the comparator itself calls
		var direct []*ssa.Function
		seen := map[*ssa.Function]bool{}
		for _, c := range allCalls(cmp) {
			if callee := c.Common().StaticCallee(); callee != nil && !seen[callee] {
				seen[callee] = true
				for _, k := range cands {
					if k == callee {
						direct = append(direct, k)
					}
				}
			}
		}
		if len(direct) == 1 {
			cands = direct
		}
	}
	if len(cands) > 1 {
		// helpers of the weight function have the same shape: the weight function is the one the comparator
		// (or one of its non-weight helpers) calls; what only weight candidates call is a helper
		calledByOthers := map[*ssa.Function]bool{}
		isCand := map[*ssa.Function]bool{}
		for _, c := range cands {
			isCand[c] = true
		}
		for _, f := range reachableRepoFuncs(cmp) {
			if isCand[f] {
				continue
			}
			for _, c := range allCalls(f) {
				if callee := c.Common().StaticCallee(); callee != nil && isCand[callee] {
					calledByOthers[callee] = true
				}
			}
		}
		var top []*ssa.Function
		for _, c := range cands {
			if calledByOthers[c] {
				top = append(top, c)
			}
		}
		if len(top) > 0 {
			cands = top
		}
	}
	if len(cands) > 1 {
		r.undecided("weights", p.Pos(cands[1].Pos()), fmt.Sprintf("two candidate weight functions: %s and %s", fname(cands[0]), fname(cands[1])))
		return
	}
	if len(cands) == 1 {
		wf = cands[0]
	}
	if wf == nil {
		// weights inlined into the comparator: covered by C01-RUN only
		r.ok("weights(inlined)", p.Pos(cmp.Pos()), "no separate weight function; the order of weights is covered by C01-RUN's product")
		return
	}
	alpha := NewAlphabetSingletons(append([]byte(nil), versionAlphabet...))
	m := NewMachine(p, alpha)
	if base := initState(m, "version"); base.Status != stStuck {
		m.Base = base
	}
	weights := map[byte]int64{}
	var mx *Machine
	for c := 0; c < alpha.N(); c++ {
		st := m.NewState(wf, []Val{SymV{c}}, 0)
		out := m.Run(st)
		by, _ := alpha.Single(c)
		if len(out) != 1 || out[0].Status != stRet {
			// table lookups, strings.IndexRune, ...: evaluate on the concrete byte instead
			if mx == nil {
				mx = NewMachine(p, nil)
				if base := initState(mx, "version"); base.Status != stStuck {
					mx.Base = base
				}
			}
			out = mx.Run(mx.NewState(wf, []Val{int64(by)}, 0))
		}
		if len(out) != 1 || out[0].Status != stRet {
			msg := "forked"
			if len(out) > 0 {
				msg = out[0].Msg
			}
			r.undecided(fname(wf), p.Pos(wf.Pos()), fmt.Sprintf("weight of %q not determined: %s", string(rune(by)), msg))
			return
		}
		n, ok := out[0].Ret.(int64)
		if sv, isSym := out[0].Ret.(SymV); isSym {
			if sb, single := alpha.Single(sv.C); single {
				n, ok = int64(sb), true
			}
		}
		if !ok {
			r.undecided(fname(wf), p.Pos(wf.Pos()), fmt.Sprintf("weight of %q is not an exact integer", string(rune(by))))
			return
		}
		weights[by] = n
	}
	bad := 0
	var first string
	for _, x := range versionAlphabet {
		for _, y := range versionAlphabet {
			if sign(weights[x]-weights[y]) != sign(int64(dpkgWeight(x)-dpkgWeight(y))) {
				bad++
				if first == "" {
					first = fmt.Sprintf("weight(%q)=%d vs weight(%q)=%d but dpkg orders them %d vs %d", string(rune(x)), weights[x], string(rune(y)), weights[y], dpkgWeight(x), dpkgWeight(y))
				}
			}
		}
	}
	if bad > 0 {
		r.bad(fname(wf), p.Pos(wf.Pos()), fmt.Sprintf("%d of %d pairs of characters are ordered differently from dpkg's order(): %s", bad, len(versionAlphabet)*len(versionAlphabet), first), nil)
	} else {
		r.ok(fname(wf), p.Pos(wf.Pos()), fmt.Sprintf("%d x %d pairs of characters ordered as by dpkg's order()", len(versionAlphabet), len(versionAlphabet)))
	}
}

// checkCompareSeq interprets version.Compare with the run comparator replaced by
// an oracle returning every sign (and magnitudes other than 1), on every
// relative order of the epochs.
func checkCompareSeq(p *Prog, r *Rule, cmp *ssa.Function) {
	fn := p.Func("version", "Compare")
	if fn != nil && cmp == nil {
		r.ok("version.Compare", p.Pos(fn.Pos()), "no separate run comparator was located; the composition epoch / upstream / revision is covered by the bounded comparison of Compare (18 x 18 versions)")
		return
	}
	if fn == nil || cmp == nil {
		r.undecided("version.Compare", "", "anchor not found")
		return
	}
	vt := p.Named("version", "Version")
	st, _ := vt.Underlying().(*types.Struct)
	fidx := map[string]int{}
	for i := 0; i < st.NumFields(); i++ {
		fidx[st.Field(i).Name()] = i
	}
	for _, need := range []string{"Epoch", "Version", "Revision"} {
		if _, ok := fidx[need]; !ok {
			r.undecided("version.Version", "", "field "+need+" not found")
			return
		}
	}
	mk := func(epoch int64, tag string) *StructV {
		s := &StructV{F: make([]Val, st.NumFields())}
		for i := range s.F {
			s.F[i] = zeroVal(st.Field(i).Type())
		}
		s.F[fidx["Epoch"]] = epoch
		s.F[fidx["Version"]] = OpaqueV{tag + ".U"}
		s.F[fidx["Revision"]] = OpaqueV{tag + ".R"}
		return s
	}
	results := []int64{-7, -1, 0, 1, 9}
	bad := 0
	rows := 0
	var first string
	// the epoch is unsigned: the last four pairs are 2^63 and 2^64-1 against small epochs and each other
	for _, ep := range [][2]int64{{0, 0}, {1, 1}, {0, 1}, {1, 0}, {2, 5}, {5, 2}, {math.MinInt64, 0}, {0, math.MinInt64}, {-1, 1}, {1, -1}, {math.MinInt64, math.MaxInt64}, {-1, math.MinInt64}} {
		for _, ru := range results {
			for _, rr := range results {
				m := NewMachine(p, nil)
				var calls []string
				ru, rr := ru, rr
				// an implementation may test two parts for equality before it calls the comparator: parts the
				// comparator calls different are different, parts it calls equal may or may not be the same string
				m.OpaqueEq = func(a, b string) (bool, bool) {
					switch {
					case a == b:
						return true, true
					case (a == "A.U" && b == "B.U" || a == "B.U" && b == "A.U") && ru != 0:
						return false, true
					case (a == "A.R" && b == "B.R" || a == "B.R" && b == "A.R") && rr != 0:
						return false, true
					}
					return false, false
				}
				m.Hooks[cmp.String()] = func(m *Machine, st *State, call *ssa.CallCommon, args []Val) ([]Val, bool) {
					ao, _ := args[0].(OpaqueV)
					bo, _ := args[1].(OpaqueV)
					a, b := ao.Name, bo.Name
					calls = append(calls, a+"|"+b)
					switch a + "|" + b {
					case "A.U|B.U":
						return []Val{ru}, true
					case "A.R|B.R":
						return []Val{rr}, true
					}
					return []Val{Unknown{Why: "comparator called with unexpected operands " + a + "," + b}}, true
				}
				s0 := m.NewState(fn, []Val{mk(ep[0], "A"), mk(ep[1], "B")}, 0)
				out := m.Run(s0)
				rows++
				want := 0
				switch {
				case uint64(ep[0]) > uint64(ep[1]):
					want = 1
				case uint64(ep[0]) < uint64(ep[1]):
					want = -1
				}
				if want == 0 {
					want = sign(ru)
				}
				if want == 0 {
					want = sign(rr)
				}
				desc := fmt.Sprintf("epochs %d,%d upstream-cmp %d revision-cmp %d", uint64(ep[0]), uint64(ep[1]), ru, rr)
				for _, o := range out {
					if o.Status != stRet {
						// Compare looks into its operands itself (opaque operand tokens cannot be indexed): the bounded
						// comparison of Compare as a whole decides the composition
						why := desc + ": " + o.Msg + fmt.Sprint(calls)
						switch b := compareWhole(p); {
						case b.undecided != "":
							r.undecided("version.Compare", p.Pos(fn.Pos()), why+"; bounded comparison of Compare: "+b.undecided)
						case len(b.problems) > 0:
							r.bad("version.Compare", p.Pos(fn.Pos()), b.problems[0], b.problems)
						default:
							r.ok("version.Compare", p.Pos(fn.Pos()), fmt.Sprintf("(bounded: Compare does more than compose its sub-comparisons: %s) Compare agrees in sign with the reference order on %d pairs of versions", clip(o.Msg, 80), b.pairs))
						}
						return
					}
					got, ok := o.Ret.(int64)
					if !ok || sign(got) != want {
						bad++
						if first == "" {
							first = fmt.Sprintf("%s: result %v, expected sign %d (comparator calls: %v; the result depends on %v)", desc, o.Ret, want, calls, keys(o.Notes))
						}
					}
				}
			}
		}
	}
	if bad > 0 {
		r.bad("version.Compare", p.Pos(fn.Pos()), fmt.Sprintf("%d of %d rows wrong; %s", bad, rows, first), nil)
	} else {
		r.ok("version.Compare", p.Pos(fn.Pos()), fmt.Sprintf("%d rows (6 epoch orders x 5 x 5 comparator results): sign = first non-zero of (epoch, upstream, revision); operands passed in order", rows))
	}
}

func checkC02(p *Prog, rp *Report) {
	defer stateRule(p, rp, "C02-STATE", p.Func("version", "Compare"), p.Method("version", "Slice", "Less"), p.Method("version", "Slice", "Swap"))
	rp.Level = "proof"
	rp.Explanation = "C02-EQUIV: the comparator is sign-equal to the reference order on all pairs (same product as C01-RUN); the reference order is the lexicographic order of canonical token keys, a total preorder (DESIGN C02-TRANS), so reflexivity, antisymmetry, transitivity and congruence are inherited. C02-SEQ: Compare's lexicographic composition preserves them. C02-SORT: Len/Swap/Less of the sort adapter."
	rp.NotDecided = "sort.Sort itself (standard library)."
	rp.Trusted = []string{"go/types, go/ssa", "the reference order (refs/dpkgorder) is a total preorder: lexicographic product of total orders over canonical keys (DESIGN §3 C02-TRANS)", "sort.Sort"}
	eq := rp.Rule("C02-EQUIV", "comparator equals the reference total preorder on all pairs (antisymmetry, reflexivity, transitivity, congruence inherited)", 1)
	res, impl := runEquivalence(p, rp, eq, false)
	if impl != nil {
		fillEquivalence(p, eq, res, impl, "C02-EQUIV")
	}
	if res != nil {
		rp.Extra["automaton_states"] = res.States
		rp.Extra["pairs_of_returns"] = res.Returns
	}
	seq := rp.Rule("C02-SEQ", "Compare composes the three comparisons lexicographically and symmetrically", 1)
	checkCompareSeq(p, seq, impl)
	compareLimitsRule(p, rp, "C02-LIMITS")
	srt := rp.Rule("C02-SORT", "sort adapter: Len = len, Swap exchanges i and j, Less = Compare(a[i],a[j]) < 0", 3)
	checkSortAdapter(p, srt)
}

// checkSortAdapter interprets the three methods of version.Slice on a concrete
// three-element slice with Compare replaced by an oracle.
func checkSortAdapter(p *Prog, r *Rule) {
	vt := p.Named("version", "Version")
	if vt == nil {
		r.undecided("version.Version", "", "type not found")
		return
	}
	st := vt.Underlying().(*types.Struct)
	mkv := func(tag string) *StructV {
		s := &StructV{F: make([]Val, st.NumFields())}
		for i := range s.F {
			s.F[i] = zeroVal(st.Field(i).Type())
			if isStringT(st.Field(i).Type()) {
				s.F[i] = tag
			}
		}
		return s
	}
	mkState := func(m *Machine, fn *ssa.Function, extra ...Val) (*State, int) {
		s := &State{Heap: map[int]*HObj{}, Notes: map[string]bool{}}
		arr := &ArrayV{E: []Val{mkv("v0"), mkv("v1"), mkv("v2")}}
		id := s.alloc(types.NewArray(vt, 3), arr)
		args := append([]Val{SliceV{Obj: id, Len_: 3, Cap: 3}}, extra...)
		s.push(fn, args, nil)
		return s, id
	}
	for _, name := range []string{"Len", "Swap", "Less"} {
		fn := p.Method("version", "Slice", name)
		if fn == nil {
			r.bad("version.Slice."+name, "", "method not found: version.Slice no longer implements sort.Interface", nil)
			continue
		}
		pos := p.Pos(fn.Pos())
		m := NewMachine(p, nil)
		switch name {
		case "Len":
			s, _ := mkState(m, fn)
			out := m.Run(s)
			if len(out) == 1 && out[0].Status == stRet && out[0].Ret == int64(3) {
				r.ok("version.Slice.Len", pos, "returns len of the receiver")
			} else {
				r.bad("version.Slice.Len", pos, fmt.Sprintf("Len of a 3-element slice evaluates to %v", retDesc(out)), nil)
			}
		case "Swap":
			okAll := true
			detail := ""
			for _, ij := range [][2]int64{{0, 2}, {1, 0}, {1, 1}} {
				s, id := mkState(m, fn, ij[0], ij[1])
				out := m.Run(s)
				if len(out) != 1 || out[0].Status != stRet {
					okAll = false
					detail = "Swap did not return: " + retDesc(out)
					break
				}
				arr := out[0].Heap[id].V.(*ArrayV)
				want := []string{"v0", "v1", "v2"}
				want[ij[0]], want[ij[1]] = want[ij[1]], want[ij[0]]
				for k := 0; k < 3; k++ {
					got := ""
					for _, f := range arr.E[k].(*StructV).F {
						if s, ok := f.(string); ok {
							got = s
						}
					}
					if got != want[k] {
						okAll = false
						detail = fmt.Sprintf("Swap(%d,%d) leaves element %d = %s, want %s", ij[0], ij[1], k, got, want[k])
					}
				}
			}
			r.check(okAll, "version.Slice.Swap", pos, "exchanges elements i and j and nothing else", detail)
		case "Less":
			// concrete table: Less(i,j) iff a[i] sorts strictly before a[j] in the reference order
			type ver struct {
				epoch   int64
				up, rev string
			}
			vs := []ver{{0, "1.0", "1"}, {1, "0.9", ""}, {0, "1.0", "2"}, {0, "1.0~rc1", "1"}, {0, "1.0", "1"}, {0, "1.00", "1"}, {0, "1.10", "1"}, {0, "1.9", "1"}, {2, "0", "0"}, {0, "", ""}}
			refCmp := func(x, y ver) int {
				if x.epoch != y.epoch {
					if x.epoch < y.epoch {
						return -1
					}
					return 1
				}
				if c := dpkgorder.Verrevcmp(x.up, y.up); c != 0 {
					return c
				}
				return dpkgorder.Verrevcmp(x.rev, y.rev)
			}
			okAll := true
			detail := ""
			mm := NewMachine(p, nil)
			installStringModels(mm)
			installFuncModels(mm)
			installUnicodeModels(mm)
			base := initState(mm, "version")
			arr := &ArrayV{}
			for _, v := range vs {
				arr.E = append(arr.E, mkStruct(vt, map[string]Val{"Epoch": v.epoch, "Version": v.up, "Revision": v.rev}))
			}
			aid := base.alloc(types.NewArray(vt, int64(len(vs))), arr)
			for i := range vs {
				for j := range vs {
					s := base.Clone()
					s.Status = stRun
					s.push(fn, []Val{SliceV{Obj: aid, Len_: len(vs), Cap: len(vs)}, int64(i), int64(j)}, nil)
					out := mm.Run(s)
					if len(out) != 1 || out[0].Status != stRet {
						okAll, detail = false, "undecided: Less did not return: "+retDesc(out)
						break
					}
					if want := refCmp(vs[i], vs[j]) < 0; out[0].Ret != want {
						okAll, detail = false, fmt.Sprintf("Less(%v, %v) = %v, the reference order says %v", vs[i], vs[j], out[0].Ret, want)
					}
				}
			}
			if strings.HasPrefix(detail, "undecided") {
				r.undecided("version.Slice.Less", pos, detail)
			} else {
				r.check(okAll, "version.Slice.Less", pos, fmt.Sprintf("Less(i,j) iff a[i] sorts strictly before a[j] in the reference order, for all %d pairs of %d versions (epochs, equal elements, leading zeros, '~', empty parts)", len(vs)*len(vs), len(vs)), detail)
			}
		}
	}
}

func retDesc(out []*State) string {
	if len(out) == 0 {
		return "nothing"
	}
	s := out[0]
	switch s.Status {
	case stRet:
		return fmtVal(s.Ret, func(i int) string { return fmt.Sprint(i) })
	case stPanic:
		return "panic: " + s.Msg
	case stStuck:
		return "undecided: " + s.Msg
	}
	return fmt.Sprintf("%d runs", len(out))
}

func compareLimitsRule(p *Prog, rp *Report, id string) {
	r := rp.Rule(id, "Compare on parts of several hundred bytes and on digit runs beyond 32 and 64 bits", 1)
	pos := ""
	if fn := p.Func("version", "Compare"); fn != nil {
		pos = p.Pos(fn.Pos())
	}
	b := compareLimits(p)
	switch {
	case b.undecided != "":
		r.undecided("version.Compare", pos, b.undecided)
	case len(b.problems) > 0:
		r.bad("version.Compare", pos, clip(b.problems[0], 500), b.problems)
	default:
		r.ok("version.Compare", pos, fmt.Sprintf("%d pairs (upstream parts and revisions of 300 bytes that differ in their last characters; numbers around 2^31, 2^32, 2^63, 2^64 and of 23 digits; time stamps): the sign is dpkg's", b.pairs))
	}
	// the same pairs where int has 32 bits (GOARCH=386 load, 32 bit int / uint arithmetic)
	p386, err := Load(repoDir(), "386", activeOverlay, "./version/")
	if err != nil {
		rp.Errorf("386 load: %v", err)
		return
	}
	wordBits = 32
	b32 := compareLimits(p386)
	wordBits = 64
	switch {
	case b32.undecided != "":
		r.undecided("version.Compare(386)", pos, b32.undecided)
	case len(b32.problems) > 0:
		r.bad("version.Compare(386)", pos, "with 32 bit int: "+clip(b32.problems[0], 500), b32.problems)
	default:
		r.ok("version.Compare(386)", pos, fmt.Sprintf("%d pairs with 32 bit int and uint: the sign is dpkg's", b32.pairs))
	}
}
