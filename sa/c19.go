package main

// C19 — build ordering. OrderDSCForBuild is interpreted abstractly on exact
// source descriptions with the topological sorter replaced by a recording
// oracle (AddNode / AddEdge / Sort), every outcome of which is enumerated.

import (
	"os"
	"fmt"
	"go/types"
	"sort"
	"strings"

	"golang.org/x/tools/go/ssa"
)

func init() { register("C19", checkC19) }

type c19alt struct {
	name   string
	archs  []string // e.g. "amd64", "!amd64": a bracketed list
	substv bool
}

func checkC19(p *Prog, rp *Report) {
	defer stateRule(p, rp, "C19-STATE", p.Func("control", "OrderDSCForBuild"))
	rp.Explanation = "OrderDSCForBuild is interpreted abstractly on eight sources (lib: libfoo1, libfoo-dev; tool; app; extra; gtk, gtk-doc, doc-tools, tools: hyphenated names whose concatenations coincide) whose build dependencies are placed, in turn, in each of Build-Depends, Build-Depends-Arch and Build-Depends-Indep, with alternatives that are substvars, not admitted on the build architecture, or unknown packages; the sorter is an oracle recording AddNode/AddEdge/Sort. C19-FIELDS: each of the three fields yields its edges, through the first admitted non-substvar alternative per relation (C06 semantics, interpreted, not mocked). C19-EDGE: edges run provider -> dependent, one node per input added before any edge, both dependents of one provider get their edge. C19-ERR: errors of AddEdge and Sort are returned with no order. C19-PERM: the result is the values of the nodes Sort returned, in that order. C19-TRIM: DSC.Binaries is a trimmed comma list (C10-TAGS instance). C19-DET: no range over a map in the function; the caller's list of sources is left unchanged."
	rp.NotDecided = "that pault.ag/go/topsort computes a correct topological order and detects cycles (60 lines, read: Sort walks an ordered slice; AddEdge(from,to) emits from before to)."
	rp.Trusted = []string{"go/types, go/ssa", "pault.ag/go/topsort v0.1.1: AddEdge(from, to) orders from before to; Sort is deterministic", "C06 (selection of alternatives)"}

	fn := p.Func("control", "OrderDSCForBuild")
	fields := rp.Rule("C19-FIELDS", "all three build-dependency fields contribute edges through GetPossibilities(arch)", 3)
	edge := rp.Rule("C19-EDGE", "edges provider -> dependent; nodes first; no edge lost", 1)
	errs := rp.Rule("C19-ERR", "errors of AddEdge and Sort are returned with no order", 2)
	perm := rp.Rule("C19-PERM", "result = values of the sorted nodes in order", 1)
	if fn == nil {
		fields.bad("control.OrderDSCForBuild", "", "function not found", nil)
		return
	}
	pos := p.Pos(fn.Pos())
	dscT := p.Named("control", "DSC")
	depT := p.Named("dependency", "Dependency")
	relT := p.Named("dependency", "Relation")
	posT := p.Named("dependency", "Possibility")
	setT := p.Named("dependency", "ArchSet")
	archT := p.Named("dependency", "Arch")
	var nodeT *types.Named
	for _, pk := range p.SSA.AllPackages() {
		if pk.Pkg.Path() == "pault.ag/go/topsort" {
			if o := pk.Pkg.Scope().Lookup("Node"); o != nil {
				nodeT, _ = o.Type().(*types.Named)
			}
		}
	}
	c19Order(p, rp)
	if dscT != nil && depT != nil && nodeT == nil {
		// the function does not use the topsort package: there is no sorter to put an oracle in place of; the
		// clauses below are decided on the result by C19-ORDER
		note := "not applicable: OrderDSCForBuild does not use pault.ag/go/topsort; decided on the result by C19-ORDER"
		for _, w := range []string{"Build-Depends", "Build-Depends-Arch", "Build-Depends-Indep"} {
			fields.ok("control.OrderDSCForBuild:"+w, pos, note)
		}
		edge.ok("control.OrderDSCForBuild", pos, note)
		errs.ok("control.OrderDSCForBuild:AddEdge", pos, note)
		errs.ok("control.OrderDSCForBuild:Sort", pos, note)
		perm.ok("control.OrderDSCForBuild", pos, note)
		c19Rest(p, rp, fn)
		return
	}
	if dscT == nil || depT == nil || nodeT == nil {
		fields.undecided("control.OrderDSCForBuild", pos, "types not found (DSC / Dependency / topsort.Node)")
		return
	}
	mkArch := func(cpu string) *StructV {
		return mkStruct(archT, map[string]Val{"ABI": "gnu", "OS": "linux", "CPU": cpu})
	}
	mkDep := func(st *State, rels [][]c19alt) *StructV {
		relArr := &ArrayV{}
		for _, alts := range rels {
			pa := &ArrayV{}
			for _, a := range alts {
				archArr := &ArrayV{}
				not := false
				for _, s := range a.archs {
					if strings.HasPrefix(s, "!") {
						not = true
						s = s[1:]
					}
					archArr.E = append(archArr.E, mkArch(s))
				}
				aid := st.alloc(types.NewArray(archT, int64(len(archArr.E))), archArr)
				setID := st.alloc(setT, mkStruct(setT, map[string]Val{"Not": not, "Architectures": SliceV{Obj: aid, Len_: len(archArr.E), Cap: len(archArr.E)}}))
				pa.E = append(pa.E, mkStruct(posT, map[string]Val{"Name": a.name, "Substvar": a.substv, "Architectures": Ptr{Obj: setID}}))
			}
			pid := st.alloc(types.NewArray(posT, int64(len(alts))), pa)
			relArr.E = append(relArr.E, mkStruct(relT, map[string]Val{"Possibilities": SliceV{Obj: pid, Len_: len(alts), Cap: len(alts)}}))
		}
		rid := st.alloc(types.NewArray(relT, int64(len(rels))), relArr)
		return mkStruct(depT, map[string]Val{"Relations": SliceV{Obj: rid, Len_: len(rels), Cap: len(rels)}})
	}
	type outcome struct {
		effects []string
		errNil  bool
		result  []string
		resNil  bool
		status  string
	}
	run := func(field string, edgeFails, sortFails bool) ([]outcome, string) {
		m := NewMachine(p, nil)
		installStringModels(m)
		ifT := types.NewPointer(types.Typ[types.Int])
		var nodeVals []Val
		var nodeNames []string
		m.Hooks["pault.ag/go/topsort.NewNetwork"] = func(m *Machine, st *State, call *ssa.CallCommon, args []Val) ([]Val, bool) {
			id := st.alloc(types.Typ[types.Int], OpaqueV{"network"})
			return []Val{Ptr{Obj: id}}, true
		}
		m.Hooks["(*pault.ag/go/topsort.Network).AddNode"] = func(m *Machine, st *State, call *ssa.CallCommon, args []Val) ([]Val, bool) {
			name, _ := args[1].(string)
			st.Effects = append(st.Effects, "node:"+name)
			nodeNames = append(nodeNames, name)
			nodeVals = append(nodeVals, cloneVal(args[2]))
			return []Val{nilV{}}, true
		}
		m.Hooks["(*pault.ag/go/topsort.Network).AddEdge"] = func(m *Machine, st *State, call *ssa.CallCommon, args []Val) ([]Val, bool) {
			from, _ := args[1].(string)
			to, _ := args[2].(string)
			st.Effects = append(st.Effects, "edge:"+from+"->"+to)
			if edgeFails {
				return []Val{IfaceV{T: errType, V: "no such node"}}, true
			}
			return []Val{nilV{}}, true
		}
		m.Hooks["(*pault.ag/go/topsort.Network).AddEdgeAndNodes"] = m.Hooks["(*pault.ag/go/topsort.Network).AddEdge"]
		m.Hooks["(*pault.ag/go/topsort.Network).Sort"] = func(m *Machine, st *State, call *ssa.CallCommon, args []Val) ([]Val, bool) {
			st.Effects = append(st.Effects, "sort")
			if sortFails {
				return []Val{&TupleV{E: []Val{nilV{}, IfaceV{T: errType, V: "Cycle detected :("}}}}, true
			}
			arr := &ArrayV{}
			for i := len(nodeVals) - 1; i >= 0; i-- { // the oracle answers in REVERSE insertion order
				nid := st.alloc(nodeT, mkStruct(nodeT, map[string]Val{"Name": nodeNames[i], "Value": cloneVal(nodeVals[i])}))
				arr.E = append(arr.E, Ptr{Obj: nid})
			}
			aid := st.alloc(types.NewArray(types.NewPointer(nodeT), int64(len(arr.E))), arr)
			return []Val{&TupleV{E: []Val{SliceV{Obj: aid, Len_: len(arr.E), Cap: len(arr.E)}, nilV{}}}}, true
		}
		_ = ifT
		st := initState(m, "control", "dependency")
		strs := func(xs ...string) Val { return strSlice(st, xs) }
		appDeps := [][]c19alt{
			{{name: "subst", substv: true}, {name: "libfoo-dev"}},
			{{name: "tool", archs: []string{"!i386", "!amd64"}}, {name: "missing-pkg"}},
			{{name: "libfoo1", archs: []string{"sparc", "i386"}}},
			{{name: "libfoo-dev"}, {name: "extra-bin"}},
			{{name: "extra-bin", archs: []string{"!amd64"}}},
		}
		toolDeps := [][]c19alt{{{name: "libfoo1", archs: []string{"amd64", "sparc"}}}}
		empty := func() *StructV { return mkDep(st, nil) }
		dsc := func(source string, bins Val, deps [][]c19alt) *StructV {
			f := map[string]Val{"Source": source, "Binaries": bins, "BuildDepends": empty(), "BuildDependsArch": empty(), "BuildDependsIndep": empty()}
			if deps != nil {
				f[field] = mkDep(st, deps)
			}
			return mkStruct(dscT, f)
		}
		arr := &ArrayV{E: []Val{
			dsc("lib", strs("libfoo1", "libfoo-dev"), nil),
			dsc("tool", strs("tool"), toolDeps),
			dsc("app", strs("app"), appDeps),
			dsc("extra", strs("extra-bin"), nil),
			// hyphenated names whose concatenations coincide: gtk + doc-tools / gtk-doc + tools
			dsc("gtk", strs("gtk"), nil),
			dsc("gtk-doc", strs("gtk-doc"), nil),
			dsc("doc-tools", strs("doc-tools"), [][]c19alt{{{name: "gtk"}}}),
			dsc("tools", strs("tools-bin"), [][]c19alt{{{name: "gtk-doc"}}}),
		}}
		aid := st.alloc(types.NewArray(dscT, 8), arr)
		inputBefore := deepRender(st, SliceV{Obj: aid, Len_: 8, Cap: 8}, 0)
		st.push(fn, []Val{SliceV{Obj: aid, Len_: 8, Cap: 8}, mkArch("amd64")}, nil)
		m.SampleOrders = true
		outs := m.Run(st)
		if why := sampledOrders(outs); why != "" {
			return nil, why
		}
		for _, o := range outs {
			if o.Status == stRet {
				if after := deepRender(o, SliceV{Obj: aid, Len_: 8, Cap: 8}, 0); after != inputBefore {
					return nil, "PURITY: OrderDSCForBuild modifies the list of sources it is given (the caller's slice): " + clip(after, 200)
				}
			}
		}
		var res []outcome
		for _, o := range outs {
			if o.Status != stRet {
				return nil, retDesc([]*State{o})
			}
			tv := o.Ret.(*TupleV)
			oc := outcome{effects: o.Effects}
			_, oc.errNil = tv.E[1].(nilV)
			_, oc.resNil = tv.E[0].(nilV)
			if !oc.resNil {
				elems, _, ok := m.sliceElems(o, tv.E[0])
				if !ok {
					return nil, "result is not a slice"
				}
				for _, e := range elems {
					sv, _ := e.(*StructV)
					if sv == nil {
						return nil, "result element is not a DSC"
					}
					s, _ := sv.F[fieldIndex(structOf(dscT), "Source")].(string)
					oc.result = append(oc.result, s)
				}
			}
			res = append(res, oc)
		}
		return res, ""
	}
	wantEdges := []string{"edge:gtk->doc-tools", "edge:gtk-doc->tools", "edge:lib->app", "edge:lib->tool"}
	undecided := ""
	var edgeProblems, permProblems []string
	for _, f := range []struct{ goName, wire string }{{"BuildDepends", "Build-Depends"}, {"BuildDependsArch", "Build-Depends-Arch"}, {"BuildDependsIndep", "Build-Depends-Indep"}} {
		if fieldIndex(structOf(dscT), f.goName) < 0 {
			fields.bad("control.DSC:"+f.wire, pos, "DSC has no field "+f.goName, nil)
			continue
		}
		outs, why := run(f.goName, false, false)
		if strings.HasPrefix(why, "PURITY: ") {
			fields.bad("control.OrderDSCForBuild:"+f.wire, pos, strings.TrimPrefix(why, "PURITY: "), nil)
			continue
		}
		if strings.HasPrefix(why, "ORDER: ") {
			fields.bad("control.OrderDSCForBuild:"+f.wire, pos, strings.TrimPrefix(why, "ORDER: "), nil)
			continue
		}
		if why != "" {
			undecided = why
			fields.undecided("control.OrderDSCForBuild:"+f.wire, pos, why)
			continue
		}
		if len(outs) != 1 {
			fields.undecided("control.OrderDSCForBuild:"+f.wire, pos, fmt.Sprintf("%d runs", len(outs)))
			continue
		}
		o := outs[0]
		var edges []string
		firstEdge, lastNode := -1, -1
		for i, e := range o.effects {
			if strings.HasPrefix(e, "edge:") {
				edges = append(edges, e)
				if firstEdge < 0 {
					firstEdge = i
				}
			}
			if strings.HasPrefix(e, "node:") {
				lastNode = i
			}
		}
		sorted := append([]string(nil), edges...)
		sort.Strings(sorted)
		sorted = uniq(sorted)
		if strings.Join(sorted, " ") != strings.Join(wantEdges, " ") {
			var miss []string
			have := map[string]bool{}
			for _, e := range sorted {
				have[e] = true
			}
			for _, e := range wantEdges {
				if !have[e] {
					miss = append(miss, strings.TrimPrefix(e, "edge:"))
				}
			}
			var extra []string
			for _, e := range sorted {
				found := false
				for _, w := range wantEdges {
					if w == e {
						found = true
					}
				}
				if !found {
					extra = append(extra, strings.TrimPrefix(e, "edge:"))
				}
			}
			fields.bad("control.OrderDSCForBuild:"+f.wire, pos, fmt.Sprintf("with the dependencies in %s: missing edges %v, unexpected edges %v (provider->dependent; app needs '${subst} | libfoo-dev', 'tool [!i386 !amd64] | missing-pkg', 'libfoo1 [sparc i386]', 'libfoo-dev | extra-bin', 'extra-bin [!amd64]'; tool needs 'libfoo1 [amd64 sparc]'; built for amd64)", f.wire, miss, extra), nil)
		} else {
			fields.ok("control.OrderDSCForBuild:"+f.wire, pos, "edges lib->app, lib->tool, gtk->doc-tools, gtk-doc->tools and no others (substvar skipped, negated and positive arch lists honoured, first admitted alternative only, hyphenated names kept apart)")
		}
		nodes := 0
		for _, e := range o.effects {
			if strings.HasPrefix(e, "node:") {
				nodes++
			}
		}
		if nodes != 8 {
			edgeProblems = append(edgeProblems, fmt.Sprintf("%d nodes added for 8 sources", nodes))
		}
		if firstEdge >= 0 && lastNode > firstEdge {
			edgeProblems = append(edgeProblems, "an edge is added before every source has its node")
		}
		if !o.errNil {
			permProblems = append(permProblems, "error on an acyclic input")
		} else if strings.Join(o.result, ",") != "tools,doc-tools,gtk-doc,gtk,extra,app,tool,lib" {
			permProblems = append(permProblems, fmt.Sprintf("Sort returned tools,doc-tools,gtk-doc,gtk,extra,app,tool,lib but the result is %v", o.result))
		}
	}
	if undecided == "" {
		edge.check(len(edgeProblems) == 0, "control.OrderDSCForBuild", pos, "one node per source, all nodes before the first edge", strings.Join(uniq(edgeProblems), "; "))
		perm.check(len(permProblems) == 0, "control.OrderDSCForBuild", pos, "the result lists exactly the sorted nodes' values in the sorter's order", strings.Join(uniq(permProblems), "; "))
		for _, tc := range []struct {
			name         string
			edgeF, sortF bool
		}{{"AddEdge", true, false}, {"Sort", false, true}} {
			outs, why := run("BuildDepends", tc.edgeF, tc.sortF)
			key := "control.OrderDSCForBuild:" + tc.name
			if why != "" || len(outs) != 1 {
				errs.undecided(key, pos, why)
				continue
			}
			o := outs[0]
			errs.check(!o.errNil && o.resNil, key, pos, "its error is returned and no order", fmt.Sprintf("when %s fails: error returned = %v, order returned = %v", tc.name, !o.errNil, o.result))
		}
	} else {
		edge.undecided("control.OrderDSCForBuild", pos, undecided)
	}

	c19Rest(p, rp, fn)
}

func c19Rest(p *Prog, rp *Report, fn *ssa.Function) {
	pos := p.Pos(fn.Pos())
	_ = pos
	trim := rp.Rule("C19-TRIM", "DSC.Binaries is a trimmed comma list", 1)
	tagRule(p, trim, func(doc string, ti tagInfo, kind string) bool { return doc == "control.DSC" && ti.Wire == "Binary" })
	det := rp.Rule("C19-DET", "no range over a map in OrderDSCForBuild", 1)
	loops := mapOrderLoops(fn)
	okDet := true
	why := ""
	for _, l := range loops {
		if !l.OK {
			okDet, why = false, l.Why
		}
	}
	det.check(okDet, "control.OrderDSCForBuild", pos, fmt.Sprintf("%d range-over-map loops, none order dependent", len(loops)), why)
}

// c19Order: OrderDSCForBuild interpreted end to end (the sorter included) on the eight-source scenario, with
// the dependencies placed in each of the three fields in turn, and on a two-source cycle: the result is a
// permutation of the input in which every provider precedes its dependents; a cycle is an error.
func c19Order(p *Prog, rp *Report) {
	r := rp.Rule("C19-ORDER", "the returned order puts every source after the sources that provide its build dependencies; a cycle is an error", 4)
	fn := p.Func("control", "OrderDSCForBuild")
	parse := p.Func("dependency", "Parse")
	dscT := p.Named("control", "DSC")
	archT := p.Named("dependency", "Arch")
	if fn == nil || parse == nil || dscT == nil || archT == nil {
		r.undecided("control.OrderDSCForBuild", "", "anchors not found")
		return
	}
	pos := p.Pos(fn.Pos())
	type src struct {
		name string
		bins []string
		deps string
	}
	scenario := []src{
		{"app", []string{"app"}, "${subst} | libfoo-dev, tool [!i386 !amd64] | missing-pkg, libfoo1 [sparc i386], libfoo-dev | extra-bin, extra-bin [!amd64]"},
		{"tools", []string{"tools-bin"}, "gtk-doc"},
		{"doc-tools", []string{"doc-tools"}, "gtk"},
		{"tool", []string{"tool"}, "libfoo1 [amd64 sparc]"},
		{"lib", []string{"libfoo1", "libfoo-dev"}, ""},
		{"extra", []string{"extra-bin"}, ""},
		{"gtk-doc", []string{"gtk-doc"}, ""},
		{"gtk", []string{"gtk"}, ""},
	}
	edges := [][2]string{{"lib", "tool"}, {"lib", "app"}, {"gtk", "doc-tools"}, {"gtk-doc", "tools"}}
	buildArch := [3]string{"gnu", "linux", "amd64"}
	run := func(field string, srcs []src) (order []string, errNil bool, why string) {
		m := NewMachine(p, nil)
		st := initState(m, "control", "dependency")
		mkDep := func(text string) (Val, string) {
			st.Status = stRun
			st.Frames = nil
			st.push(parse, []Val{text}, nil)
			out := m.Run(st)
			if len(out) != 1 || out[0].Status != stRet {
				return nil, retDesc(out)
			}
			tv := st.Ret.(*TupleV)
			pp, ok := tv.E[0].(Ptr)
			if !ok {
				return nil, "dependency.Parse rejects " + text
			}
			v, _ := st.load(pp)
			return cloneVal(v), ""
		}
		arr := &ArrayV{}
		for _, s := range srcs {
			f := map[string]Val{"Source": s.name, "Binaries": strSlice(st, s.bins)}
			for _, fld := range []string{"BuildDepends", "BuildDependsArch", "BuildDependsIndep"} {
				text := ""
				if fld == field {
					text = s.deps
				}
				d, why := mkDep(text)
				if why != "" {
					return nil, false, why
				}
				f[fld] = d
			}
			arr.E = append(arr.E, mkStruct(dscT, f))
		}
		aid := st.alloc(types.NewArray(dscT, int64(len(srcs))), arr)
		st.Status = stRun
		st.Frames = nil
		st.push(fn, []Val{SliceV{Obj: aid, Len_: len(srcs), Cap: len(srcs)}, mkStruct(archT, map[string]Val{"ABI": buildArch[0], "OS": buildArch[1], "CPU": buildArch[2]})}, nil)
		m.SampleOrders = true
		out := m.Run(st)
		if why := sampledOrders(out); why != "" {
			return nil, false, why
		}
		if len(out) != 1 {
			return nil, false, fmt.Sprintf("%d paths", len(out))
		}
		if out[0].Status == stPanic {
			return nil, false, "PANIC: " + out[0].Msg
		}
		if out[0].Status != stRet {
			return nil, false, retDesc(out)
		}
		tv := st.Ret.(*TupleV)
		_, errNil = tv.E[1].(nilV)
		elems, _, _ := m.sliceElems(st, tv.E[0])
		for _, e := range elems {
			if sv, ok := e.(*StructV); ok {
				s, _ := sv.F[fieldIndex(structOf(dscT), "Source")].(string)
				order = append(order, s)
			}
		}
		return order, errNil, ""
	}
	for _, f := range []struct{ goName, wire string }{{"BuildDepends", "Build-Depends"}, {"BuildDependsArch", "Build-Depends-Arch"}, {"BuildDependsIndep", "Build-Depends-Indep"}} {
		key := "control.OrderDSCForBuild:" + f.wire
		order, errNil, why := run(f.goName, scenario)
		switch {
		case strings.HasPrefix(why, "PANIC"):
			r.bad(key, pos, "ordering eight sources panics: "+why, nil)
			continue
		case strings.HasPrefix(why, "ORDER: "):
			r.bad(key, pos, strings.TrimPrefix(why, "ORDER: "), nil)
			continue
		case why != "":
			r.undecided(key, pos, why)
			continue
		case !errNil:
			r.bad(key, pos, "an acyclic set of sources is rejected", nil)
			continue
		}
		var problems []string
		idx := map[string]int{}
		for i, s := range order {
			idx[s] = i
		}
		if len(order) != len(scenario) || len(idx) != len(scenario) {
			problems = append(problems, fmt.Sprintf("the result %v is not a permutation of the %d sources", order, len(scenario)))
		} else {
			for _, e := range edges {
				if idx[e[0]] > idx[e[1]] {
					problems = append(problems, fmt.Sprintf("%s is ordered before %s, which provides one of its build dependencies (in %s): %v", e[1], e[0], f.wire, order))
				}
			}
		}
		fillProblems(r, key, pos, problems, "eight sources with the dependencies in this field: a permutation with lib before tool and app, gtk before doc-tools, gtk-doc before tools")
	}
	// a build architecture whose ABI is not gnu: restrictions spelt with the wildcard names <os>-any and any-<cpu>
	// cover it (Policy 11.1), negated ones exclude it. app depends on lib and tool; extra-bin [!linux-any] does not
	// apply, and extra itself depends on app: an edge from extra to app would close a cycle.
	{
		buildArch = [3]string{"musl", "linux", "amd64"}
		key := "control.OrderDSCForBuild:non-gnu-build-architecture"
		order, errNil, why := run("BuildDepends", []src{
			{"extra", []string{"extra-bin"}, "app"},
			{"app", []string{"app"}, "libfoo-dev [linux-any] | missing-pkg, tool-bin [any-amd64], extra-bin [!linux-any], other [kfreebsd-any]"},
			{"tool", []string{"tool-bin"}, ""},
			{"lib", []string{"libfoo-dev"}, ""},
			{"other", []string{"other"}, "app"},
		})
		buildArch = [3]string{"gnu", "linux", "amd64"}
		switch {
		case strings.HasPrefix(why, "PANIC"):
			r.bad(key, pos, "ordering five sources for musl-linux-amd64 panics: "+why, nil)
		case strings.HasPrefix(why, "ORDER: "):
			r.bad(key, pos, strings.TrimPrefix(why, "ORDER: "), nil)
		case why != "":
			r.undecided(key, pos, why)
		case !errNil:
			r.bad(key, pos, "built for musl-linux-amd64, an acyclic set of sources is rejected: 'extra-bin [!linux-any]' and 'other [kfreebsd-any]' do not apply to a linux architecture, whatever its ABI", nil)
		default:
			idx := map[string]int{}
			for i, s := range order {
				idx[s] = i
			}
			var problems []string
			if len(idx) != 5 || len(order) != 5 {
				problems = append(problems, fmt.Sprintf("the result %v is not a permutation of the 5 sources", order))
			} else {
				for _, e := range [][2]string{{"lib", "app"}, {"tool", "app"}, {"app", "extra"}, {"app", "other"}} {
					if idx[e[0]] > idx[e[1]] {
						problems = append(problems, fmt.Sprintf("built for musl-linux-amd64, %s is ordered before %s, which provides one of its build dependencies ('libfoo-dev [linux-any]', 'tool-bin [any-amd64]': wildcard names cover every ABI): %v", e[1], e[0], order))
					}
				}
			}
			fillProblems(r, key, pos, problems, "five sources built for musl-linux-amd64: [linux-any] and [any-amd64] apply, [!linux-any] and [kfreebsd-any] do not")
		}
	}
	// the same eight sources, each parsed from an ordinary multi-binary .dsc (the decoder included)
	{
		key := "control.OrderDSCForBuild:from-dsc-documents"
		r9 := newC09Run(p)
		arr := &ArrayV{}
		why := ""
		for i, s := range scenario {
			bins := strings.Join(s.bins, ", ")
			if len(s.bins) > 1 {
				bins = strings.Join(s.bins, ",\n ") // folded, as dpkg-source writes long lists
			}
			text := "Format: 3.0 (quilt)\nSource: " + s.name + "\nBinary: " + bins + "\nArchitecture: any all\nVersion: 1.0-" + fmt.Sprint(i+1) + "\nMaintainer: A <a@b>\n"
			if s.deps != "" {
				deps := s.deps
				if s.name == "tool" {
					// a single physical line longer than any reader buffer, the dependency that matters at its end
					var filler []string
					for k := 0; k < 330; k++ {
						filler = append(filler, fmt.Sprintf("filler-pkg-%04d", k)) // byte 4096 of the line falls inside a name
					}
					deps = strings.Join(filler, ", ") + ", " + deps
				}
				text += []string{"Build-Depends", "Build-Depends-Arch", "Build-Depends-Indep"}[i%3] + ": " + deps + "\n"
			}
			text += "Files:\n 0123456789abcdef0123456789abcdef 10 " + s.name + "_1.0.tar.gz\n"
			obj, isErr, w := r9.unmarshal(dscT, text)
			if os.Getenv("GDSA_DEBUG_C19") != "" {
				fmt.Fprintf(os.Stderr, "dsc %s: len=%d isErr=%v why=%q\n", s.name, len(text), isErr, w)
			}
			if w != "" || isErr {
				why = fmt.Sprintf("decoding the .dsc of %s: %s (rejected: %v)", s.name, w, isErr)
				break
			}
			arr.E = append(arr.E, cloneVal(r9.st.Heap[obj].V))
		}
		if why == "" {
			aid := r9.st.alloc(types.NewArray(dscT, int64(len(arr.E))), arr)
			ret, w := r9.call(fn, SliceV{Obj: aid, Len_: len(arr.E), Cap: len(arr.E)}, mkStruct(archT, map[string]Val{"ABI": "gnu", "OS": "linux", "CPU": "amd64"}))
			why = w
			if why == "" {
				tv := ret.(*TupleV)
				var problems []string
				if _, errNil := tv.E[1].(nilV); !errNil {
					problems = append(problems, "an acyclic set of sources parsed from .dsc files is rejected")
				} else {
					elems, _, _ := r9.m.sliceElems(r9.st, tv.E[0])
					idx := map[string]int{}
					var order []string
					for i, e := range elems {
						if sv, ok := e.(*StructV); ok {
							n, _ := sv.F[fieldIndex(structOf(dscT), "Source")].(string)
							idx[n] = i
							order = append(order, n)
						}
					}
					if len(order) != len(scenario) || len(idx) != len(scenario) {
						problems = append(problems, fmt.Sprintf("the result %v is not a permutation of the %d sources", order, len(scenario)))
					} else {
						for _, e := range edges {
							if idx[e[0]] > idx[e[1]] {
								problems = append(problems, fmt.Sprintf("%s is ordered before %s, which builds a binary it build-depends on (sources parsed from .dsc documents; %s lists its binaries folded over two lines): %v", e[1], e[0], e[0], order))
							}
						}
					}
				}
				fillProblems(r, key, pos, problems, "eight sources decoded from .dsc documents (a folded multi-binary list, the dependencies spread over the three fields): providers precede their dependents")
			}
		}
		if strings.HasPrefix(why, "PANIC") {
			r.bad(key, pos, "ordering sources parsed from .dsc documents panics: "+why, nil)
		} else if strings.HasSuffix(why, ":  (rejected: true)") {
			r.bad(key, pos, "a well-formed .dsc (its Build-Depends on one line of more than 4096 bytes) is refused: "+why, nil)
		} else if why != "" {
			r.undecided(key, pos, why)
		}
	}
	order, errNil, why := run("BuildDepends", []src{{"x", []string{"x-bin"}, "y-bin"}, {"y", []string{"y-bin"}, "x-bin"}, {"z", []string{"z-bin"}, ""}})
	switch {
	case strings.HasPrefix(why, "PANIC"):
		r.bad("control.OrderDSCForBuild:cycle", pos, "a dependency cycle makes the function panic: "+why, nil)
	case why != "":
		r.undecided("control.OrderDSCForBuild:cycle", pos, why)
	default:
		r.check(!errNil && len(order) == 0, "control.OrderDSCForBuild:cycle", pos, "two sources that build-depend on each other: an error and no order", fmt.Sprintf("two sources that build-depend on each other give the order %v (error nil: %v)", order, errNil))
	}
}

// sampledOrders: the run went through a range over a map too large to enumerate and forked over three of its
// orders. Outcomes that differ are a witness ("ORDER: ..."); a single outcome proves nothing and is undecided.
func sampledOrders(outs []*State) string {
	sampled := false
	for _, o := range outs {
		if o.Notes["map-order-sampled"] {
			sampled = true
		}
	}
	if !sampled {
		return ""
	}
	if len(outs) > 1 {
		var descs []string
		for _, o := range outs {
			d := retDesc([]*State{o})
			if o.Status == stRet {
				d = clip(deepRender(o, o.Ret, 0), 160)
			}
			descs = append(descs, d)
		}
		return "ORDER: the result depends on the iteration order of a map (of more than six entries; three orders were tried): " + strings.Join(uniq(descs), " versus ")
	}
	return "range over a map of more than six entries: the three orders tried agree, all orders were not enumerated (permutation bound)"
}
