package main

// Scenario interpretation of the .deb loader and of CheckDebsig: the ar
// iterator, the decompressor constructors, archive/tar, control.Unmarshal, the
// OpenPGP check and the member readers are oracles that record provenance and
// order; range-over-map forks over every iteration order.

import (
	"strconv"
	"fmt"
	"go/types"
	"sort"
	"strings"

	"golang.org/x/tools/go/ssa"
)

type debScenario struct {
	members      []string // member names in archive order
	nextErr      bool     // Next fails after the members instead of io.EOF
	binary       string   // content of debian-binary ("" = empty file)
	tarEntries   []string // names in the control tarball
	ctorErr      string   // constructor name whose call fails ("" = none)
	unmarshalErr bool
	closeErr     bool
}

type debOutcome struct {
	errNil          bool
	resNil          bool
	controlExt      string
	dataExt         string
	dataProv        string
	unmarshaled     string // provenance of the reader given to control.Unmarshal ("" = not called)
	unmarshalTarget string
	indexKeys       []string
	effects         []string
	undecided       string
	errText         string // what went into the error returned (format and operands), "" when it is not one of fmt.Errorf's
}

func (o debOutcome) sig() string {
	return fmt.Sprintf("err=%v%s ext=%s/%s data=%s control-from=%s keys=%v", !o.errNil, o.errText, o.controlExt, o.dataExt, o.dataProv, o.unmarshaled, o.indexKeys)
}

var ctorNames = map[string]string{
	"compress/gzip.NewReader":                      "gzip",
	"compress/bzip2.NewReader":                     "bzip2",
	"github.com/xi2/xz.NewReader":                  "xz",
	"github.com/kjk/lzma.NewReader":                "lzma",
	"github.com/klauspost/compress/zstd.NewReader": "zstd",
}

// tarEntrySize: the length of every entry of a scripted tar stream.
const tarEntrySize = 100

func debProv(st *State, v Val) string {
	switch x := v.(type) {
	case nilV:
		return "nil"
	case OpaqueV:
		return x.Name
	case IfaceV:
		return debProv(st, x.V)
	case Ptr:
		if o, ok := st.Heap[x.Obj]; ok {
			if ov, ok := o.V.(OpaqueV); ok {
				return ov.Name
			}
		}
		return fmt.Sprintf("obj%d", x.Obj)
	case string:
		return fmt.Sprintf("%q", x)
	}
	return fmt.Sprintf("%T", v)
}

// debRangeCover: the range-over-map instructions the loader/verifier scenarios went through.
var debRangeCover = map[*ssa.Range]int{}

// debMachine installs the oracles shared by the loader and the verifier.
func debMachine(p *Prog, sc debScenario) *Machine {
	m := NewMachine(p, nil)
	installStringModels(m)
	installIOGlobals(m)
	m.MergeAtRange = true
	m.RangeCover = debRangeCover
	ifT := types.NewPointer(types.Typ[types.Int])
	opaque := func(st *State, name string) Val {
		return Ptr{Obj: st.alloc(types.Typ[types.Int], OpaqueV{name})}
	}
	note := func(st *State, s string) { st.Effects = append(st.Effects, s) }
	for full, short := range ctorNames {
		full, short := full, short
		m.Hooks[full] = func(m *Machine, st *State, call *ssa.CallCommon, args []Val) ([]Val, bool) {
			extra := ""
			for _, a := range args[1:] {
				if elems, _, ok := m.sliceElems(st, a); ok && call.Signature().Variadic() {
					// decoder options
					for _, e := range elems {
						extra += "," + debProv(st, e)
					}
					continue
				}
				extra += "," + valStr(a)
			}
			note(st, "ctor:"+short+"("+debProv(st, args[0])+extra+")")
			res := opaque(st, short+"("+debProv(st, args[0])+")")
			sig := call.Signature().Results()
			if sig.Len() == 1 {
				return []Val{res}, true
			}
			if sc.ctorErr == short {
				return []Val{&TupleV{E: []Val{nilV{}, IfaceV{T: errType, V: short + " header error"}}}}, true
			}
			return []Val{&TupleV{E: []Val{res, nilV{}}}}, true
		}
	}
	// options of the zstd decoder: opaque values that name themselves
	for _, opt := range []string{"WithDecoderLowmem", "WithDecoderConcurrency", "WithDecoderMaxMemory", "WithDecoderDicts", "WithDecoderMaxWindow", "WithDecoderDictRaw", "WithDecodeAllCapLimit", "WithDecodeBuffersBelow", "IgnoreChecksum"} {
		opt := opt
		m.Hooks["github.com/klauspost/compress/zstd."+opt] = func(m *Machine, st *State, call *ssa.CallCommon, args []Val) ([]Val, bool) {
			var as []string
			for _, a := range args {
				as = append(as, valStr(a))
			}
			return []Val{OpaqueV{"zstdopt:" + opt + "(" + strings.Join(as, " ") + ")"}}, true
		}
	}
	// errors made by fmt.Errorf without %w carry their format and operands, so that two runs can be compared for
	// the error they report (the text is all a caller can compare, log or deduplicate on)
	plainErrorf := m.Hooks["fmt.Errorf"]
	m.Hooks["fmt.Errorf"] = func(m *Machine, st *State, call *ssa.CallCommon, args []Val) ([]Val, bool) {
		format, ok := args[0].(string)
		if !ok || strings.Contains(format, "%w") || len(args) < 2 {
			return plainErrorf(m, st, call, args)
		}
		elems, many, ok := m.sliceElems(st, args[1])
		if !ok || many {
			return plainErrorf(m, st, call, args)
		}
		var ops []string
		for _, e := range elems {
			if iv, isI := e.(IfaceV); isI {
				e = iv.V
			}
			if sv, isStr := e.(string); isStr {
				ops = append(ops, strconv.Quote(sv))
			} else {
				ops = append(ops, "_")
			}
		}
		return []Val{IfaceV{T: errType, V: "error: " + format + " <- " + strings.Join(ops, ", ")}}, true
	}
	m.Hooks["io.NopCloser"] = func(m *Machine, st *State, call *ssa.CallCommon, args []Val) ([]Val, bool) {
		return []Val{IfaceV{T: ifT, V: opaque(st, debProv(st, args[0]))}}, true
	}
	m.Hooks["io/ioutil.NopCloser"] = m.Hooks["io.NopCloser"]
	m.Hooks["archive/tar.NewReader"] = func(m *Machine, st *State, call *ssa.CallCommon, args []Val) ([]Val, bool) {
		note(st, "tarnew:"+debProv(st, args[0]))
		return []Val{opaque(st, "tar("+debProv(st, args[0])+")")}, true
	}
	tarHdr := extNamed(p, "archive/tar", "Header")
	m.Hooks["(*archive/tar.Reader).Next"] = func(m *Machine, st *State, call *ssa.CallCommon, args []Val) ([]Val, bool) {
		who := debProv(st, args[0])
		n := 0
		for _, e := range st.Effects {
			if e == "tarnext:"+who {
				n++
			}
		}
		note(st, "tarnext:"+who)
		if n >= len(sc.tarEntries) || tarHdr == nil {
			return []Val{&TupleV{E: []Val{nilV{}, eofVal}}}, true
		}
		id := st.alloc(tarHdr, mkStruct(tarHdr, map[string]Val{"Name": sc.tarEntries[n], "Size": int64(tarEntrySize)}))
		return []Val{&TupleV{E: []Val{Ptr{Obj: id}, nilV{}}}}, true
	}
	// reading an entry of a tar stream: every entry is tarEntrySize bytes long; one Read hands out at most 60 of
	// them (a Reader may always return less than asked for), io.ReadAll and io.ReadFull what is left / asked for.
	// filled[array object] remembers where the bytes of a buffer came from.
	type fill struct {
		from string
		n    int
	}
	filled := map[int]fill{}
	delivered := func(st *State, who string) int {
		n := 0
		for _, e := range st.Effects {
			if strings.HasPrefix(e, "tarread:"+who+":") {
				k, _ := strconv.Atoi(e[len("tarread:"+who+":"):])
				n += k
			}
			if e == "tarnext:"+who {
				n = 0
			}
		}
		return n
	}
	readInto := func(st *State, who string, dst Val, most int) (int, bool) {
		sl, ok := dst.(SliceV)
		if !ok || sl.Abs {
			return 0, false
		}
		left := tarEntrySize - delivered(st, who)
		n := sl.Len_
		if n > most {
			n = most
		}
		if n > left {
			n = left
		}
		note(st, fmt.Sprintf("tarread:%s:%d", who, n))
		f := filled[sl.Obj]
		filled[sl.Obj] = fill{who, f.n + n}
		return n, true
	}
	m.Hooks["(*archive/tar.Reader).Read"] = func(m *Machine, st *State, call *ssa.CallCommon, args []Val) ([]Val, bool) {
		who := debProv(st, args[0])
		if tarEntrySize-delivered(st, who) == 0 {
			return []Val{&TupleV{E: []Val{int64(0), eofVal}}}, true
		}
		n, ok := readInto(st, who, args[1], 60)
		if !ok {
			return nil, false
		}
		return []Val{&TupleV{E: []Val{int64(n), nilV{}}}}, true
	}
	readFull := func(m *Machine, st *State, call *ssa.CallCommon, args []Val) ([]Val, bool) {
		who := debProv(st, args[0])
		if !strings.HasPrefix(who, "tar(") {
			return nil, false
		}
		sl, _ := args[1].(SliceV)
		n, ok := readInto(st, who, args[1], 1<<30)
		if !ok {
			return nil, false
		}
		if n < sl.Len_ {
			return []Val{&TupleV{E: []Val{int64(n), unexpectedEOFVal}}}, true
		}
		return []Val{&TupleV{E: []Val{int64(n), nilV{}}}}, true
	}
	m.Hooks["io.ReadFull"] = readFull
	readAll := func(m *Machine, st *State, call *ssa.CallCommon, args []Val) ([]Val, bool) {
		who := debProv(st, args[0])
		if !strings.HasPrefix(who, "tar(") {
			return nil, false
		}
		left := tarEntrySize - delivered(st, who)
		arr := &ArrayV{}
		for i := 0; i < left; i++ {
			arr.E = append(arr.E, int64('x'))
		}
		id := st.alloc(types.NewArray(types.Typ[types.Uint8], int64(left)), arr)
		note(st, fmt.Sprintf("tarread:%s:%d", who, left))
		filled[id] = fill{who, left}
		return []Val{&TupleV{E: []Val{SliceV{Obj: id, Len_: left, Cap: left}, nilV{}}}}, true
	}
	m.Hooks["io.ReadAll"] = readAll
	m.Hooks["io/ioutil.ReadAll"] = readAll
	bytesReader := func(kind string) HookFn {
		return func(m *Machine, st *State, call *ssa.CallCommon, args []Val) ([]Val, bool) {
			if sl, ok := args[0].(SliceV); ok && !sl.Abs {
				if f, has := filled[sl.Obj]; has {
					if sl.Len_ == tarEntrySize && f.n >= tarEntrySize {
						// the whole entry, read into memory first: as good as the stream itself
						return []Val{opaque(st, f.from)}, true
					}
					got := sl.Len_
					if f.n < got {
						got = f.n
					}
					return []Val{opaque(st, fmt.Sprintf("%s(%d of the %d bytes of an entry of %s)", kind, got, tarEntrySize, f.from))}, true
				}
			}
			return []Val{opaque(st, kind+"("+valStr(args[0])+")")}, true
		}
	}
	m.Hooks["bytes.NewBuffer"] = bytesReader("bytes")
	m.Hooks["bytes.NewReader"] = bytesReader("bytes")
	// gzip in single-member mode
	m.Hooks["(*compress/gzip.Reader).Multistream"] = func(m *Machine, st *State, call *ssa.CallCommon, args []Val) ([]Val, bool) {
		note(st, fmt.Sprintf("multistream:%s:%s", debProv(st, args[0]), valStr(args[1])))
		return []Val{nil}, true
	}
	// the zstd decoder's own closer
	m.Hooks["(*github.com/klauspost/compress/zstd.Decoder).IOReadCloser"] = func(m *Machine, st *State, call *ssa.CallCommon, args []Val) ([]Val, bool) {
		return []Val{IfaceV{T: ifT, V: opaque(st, debProv(st, args[0]))}}, true
	}
	// a recycled buffered reader pointed at another source is a new buffered reader over it
	m.Hooks["(*bufio.Reader).Reset"] = func(m *Machine, st *State, call *ssa.CallCommon, args []Val) ([]Val, bool) {
		pp, ok := args[0].(Ptr)
		if !ok {
			return nil, false
		}
		o, has := st.Heap[pp.Obj]
		if !has {
			return nil, false
		}
		if _, isOpaque := o.V.(OpaqueV); !isOpaque {
			return nil, false
		}
		note(st, "bufionew:"+debProv(st, args[1]))
		o.V = OpaqueV{"bufio(" + debProv(st, args[1]) + ")"}
		return []Val{nil}, true
	}
	m.Hooks["bufio.NewReader"] = func(m *Machine, st *State, call *ssa.CallCommon, args []Val) ([]Val, bool) {
		note(st, "bufionew:"+debProv(st, args[0])) // a new buffered reader starts at the member's beginning
		return []Val{opaque(st, "bufio("+debProv(st, args[0])+")")}, true
	}
	// the version line of debian-binary: one line, then the end of the member
	installLineReader(m, func(st *State) (string, bool) {
		n := 0
		for _, ef := range st.Effects {
			if ef == "readline:debian-binary" {
				n++
			}
			if strings.HasPrefix(ef, "bufionew:") {
				n = 0
			}
		}
		st.Effects = append(st.Effects, "readline:debian-binary")
		if n > 0 || sc.binary == "" {
			return "", false
		}
		if i := strings.Index(sc.binary, "\n"); i >= 0 {
			return sc.binary[:i+1], true
		}
		return sc.binary, true
	})
	m.Hooks[repoModule+"/control.Unmarshal"] = func(m *Machine, st *State, call *ssa.CallCommon, args []Val) ([]Val, bool) {
		note(st, "unmarshal:"+debProv(st, args[1]))
		tgt := "?"
		if iv, ok := args[0].(IfaceV); ok {
			if pp, ok := iv.V.(Ptr); ok {
				tgt = pp.Path
			}
		}
		note(st, "unmarshal-target:"+tgt)
		if sc.unmarshalErr {
			return []Val{IfaceV{T: errType, V: "bad control file"}}, true
		}
		return []Val{nilV{}}, true
	}
	m.Hooks["(*io.SectionReader).Seek"] = func(m *Machine, st *State, call *ssa.CallCommon, args []Val) ([]Val, bool) {
		note(st, fmt.Sprintf("seek:%s:%s:%s", debProv(st, args[0]), valStr(args[1]), valStr(args[2])))
		return []Val{&TupleV{E: []Val{int64(0), nilV{}}}}, true
	}
	// readers of their own over a member: io.NewSectionReader(member, off, n); every scripted member k is 1000+k bytes
	m.Hooks["io.NewSectionReader"] = func(m *Machine, st *State, call *ssa.CallCommon, args []Val) ([]Val, bool) {
		return []Val{opaque(st, fmt.Sprintf("section(%s,%s,%s)", debProv(st, args[0]), valStr(args[1]), valStr(args[2])))}, true
	}
	m.Hooks["(*io.SectionReader).Size"] = func(m *Machine, st *State, call *ssa.CallCommon, args []Val) ([]Val, bool) {
		who := debProv(st, args[0])
		if i := strings.LastIndex(who, "#"); i >= 0 && strings.HasPrefix(who, "data(") && strings.HasSuffix(who, ")") {
			if k, err := strconv.Atoi(who[i+1 : len(who)-1]); err == nil {
				return []Val{int64(1000 + k)}, true
			}
		}
		return nil, false
	}
	m.Hooks["strings.NewReader"] = func(m *Machine, st *State, call *ssa.CallCommon, args []Val) ([]Val, bool) {
		return []Val{opaque(st, "strings("+valStr(args[0])+")")}, true
	}

	m.Hooks["io.MultiReader"] = func(m *Machine, st *State, call *ssa.CallCommon, args []Val) ([]Val, bool) {
		elems, _, ok := m.sliceElems(st, args[0])
		if !ok {
			return nil, false
		}
		var ps []string
		for _, e := range elems {
			ps = append(ps, debProv(st, e))
		}
		note(st, "multireader:"+strings.Join(ps, "+"))
		return []Val{IfaceV{T: ifT, V: opaque(st, "multi("+strings.Join(ps, "+")+")")}}, true
	}
	m.InvokeHook = func(m *Machine, st *State, call *ssa.CallCommon, recv Val, args []Val) ([]Val, bool) {
		if _, isNil := recv.(nilV); isNil {
			return nil, false // a method call on a nil interface panics (handled by the interpreter)
		}
		switch call.Method.Name() {
		case "Close":
			note(st, "close:"+debProv(st, recv))
			if sc.closeErr {
				return []Val{IfaceV{T: errType, V: "close failed"}}, true
			}
			return []Val{nilV{}}, true
		case "Seek":
			note(st, fmt.Sprintf("seek:%s:%s:%s", debProv(st, recv), valStr(args[0]), valStr(args[1])))
			return []Val{&TupleV{E: []Val{int64(0), nilV{}}}}, true
		}
		return nil, false
	}
	return m
}

func mkArEntry(p *Prog, st *State, name string, k int) Val {
	entT := p.Named("deb", "ArEntry")
	d := st.alloc(types.Typ[types.Int], OpaqueV{fmt.Sprintf("data(%s#%d)", name, k)})
	id := st.alloc(entT, mkStruct(entT, map[string]Val{"Name": name, "Data": Ptr{Obj: d}, "Size": int64(1000 + k)}))
	return Ptr{Obj: id}
}

// runLoadDeb interprets the loader on a scripted archive; one outcome per map iteration order.
func runLoadDeb(p *Prog, sc debScenario) ([]debOutcome, string) {
	loader := p.Func("deb", "Load")
	loadAr := p.Func("deb", "LoadAr")
	next := p.Method("deb", "Ar", "Next")
	debT := p.Named("deb", "Deb")
	if loader == nil || loadAr == nil || next == nil || debT == nil {
		return nil, "deb.Load / LoadAr / Ar.Next / Deb not found"
	}
	m := debMachine(p, sc)
	// the archive iterator is an oracle: LoadAr yields it, Next plays the scripted members
	m.Hooks[loadAr.String()] = func(m *Machine, st *State, call *ssa.CallCommon, args []Val) ([]Val, bool) {
		arT := p.Named("deb", "Ar")
		id := st.alloc(arT, zeroVal(arT))
		return []Val{&TupleV{E: []Val{Ptr{Obj: id}, nilV{}}}}, true
	}
	m.Hooks[next.String()] = func(m *Machine, st *State, call *ssa.CallCommon, args []Val) ([]Val, bool) {
		n := 0
		for _, e := range st.Effects {
			if e == "next" {
				n++
			}
		}
		st.Effects = append(st.Effects, "next")
		if n >= len(sc.members) {
			if sc.nextErr {
				return []Val{&TupleV{E: []Val{nilV{}, IfaceV{T: errType, V: "short read"}}}}, true
			}
			return []Val{&TupleV{E: []Val{nilV{}, eofVal}}}, true
		}
		return []Val{&TupleV{E: []Val{mkArEntry(p, st, sc.members[n], n), nilV{}}}}, true
	}
	st := initState(m, "deb")
	if st.Status == stStuck {
		return nil, st.Msg
	}
	inID := st.alloc(types.Typ[types.Int], OpaqueV{"the-archive-file"})
	st.push(loader, []Val{IfaceV{T: types.NewPointer(types.Typ[types.Int]), V: Ptr{Obj: inID}}, "pool/p_1_amd64.deb"}, nil)
	var outs []debOutcome
	res := m.Run(st)
	for _, o := range res {
		var oc debOutcome
		if o.Status != stRet {
			return nil, retDesc([]*State{o})
		}
		tv := o.Ret.(*TupleV)
		_, oc.errNil = tv.E[1].(nilV)
		_, oc.resNil = tv.E[0].(nilV)
		if iv, isI := tv.E[1].(IfaceV); isI {
			if txt, isStr := iv.V.(string); isStr && strings.HasPrefix(txt, "error: ") {
				oc.errText = " (" + txt + ")"
			}
		}
		if dp, ok := tv.E[0].(Ptr); ok {
			dv, _ := o.load(dp)
			sv := dv.(*StructV)
			ds := structOf(debT)
			oc.controlExt, _ = sv.F[fieldIndex(ds, "ControlExt")].(string)
			oc.dataExt, _ = sv.F[fieldIndex(ds, "DataExt")].(string)
			oc.dataProv = debProv(o, sv.F[fieldIndex(ds, "Data")])
			if mv, ok := sv.F[fieldIndex(ds, "ArContent")].(MapV); ok {
				for _, k := range o.Heap[mv.Obj].V.(*MapObjV).K {
					ks, _ := k.(string)
					oc.indexKeys = append(oc.indexKeys, ks)
				}
				sort.Strings(oc.indexKeys)
			}
		}
		oc.effects = o.Effects
		for _, e := range o.Effects {
			if strings.HasPrefix(e, "unmarshal:") {
				oc.unmarshaled = strings.TrimPrefix(e, "unmarshal:")
			}
			if strings.HasPrefix(e, "unmarshal-target:") {
				oc.unmarshalTarget = strings.TrimPrefix(e, "unmarshal-target:")
			}
		}
		outs = append(outs, oc)
	}
	return outs, ""
}

type sigOutcome struct {
	errNil   bool
	signer   string
	verified []string // keyring|signed|signature
	seeks    []string
	effects  []string
}

// runCheckDebsig interprets CheckDebsig on a Deb whose index holds the given members.
func runCheckDebsig(p *Prog, members []string, role string, verifyOK bool) ([]sigOutcome, string) {
	fn := p.Method("deb", "Deb", "CheckDebsig")
	debT := p.Named("deb", "Deb")
	if fn == nil || debT == nil {
		return nil, "deb.Deb.CheckDebsig not found"
	}
	m := debMachine(p, debScenario{binary: "2.0\n"})
	var verified []string
	verify := func(m *Machine, st *State, call *ssa.CallCommon, args []Val) ([]Val, bool) {
		// effects so far in THIS run are in st.Effects (copied below)
		verified = append(verified, debProv(st, args[0])+"|"+debProv(st, args[1])+"|"+debProv(st, args[2]))
		st.Effects = append(st.Effects, "verify:"+debProv(st, args[0])+"|"+debProv(st, args[1])+"|"+debProv(st, args[2]))
		if !verifyOK {
			return []Val{&TupleV{E: []Val{nilV{}, IfaceV{T: errType, V: "bad signature"}}}}, true
		}
		id := st.alloc(types.Typ[types.Int], OpaqueV{"the-signing-entity"})
		return []Val{&TupleV{E: []Val{Ptr{Obj: id}, nilV{}}}}, true
	}
	m.Hooks["golang.org/x/crypto/openpgp.CheckDetachedSignature"] = verify
	m.Hooks["golang.org/x/crypto/openpgp.CheckArmoredDetachedSignature"] = verify
	st := initState(m, "deb")
	mid := st.alloc(structOf(debT).Field(fieldIndex(structOf(debT), "ArContent")).Type(), &MapObjV{})
	mo := st.Heap[mid].V.(*MapObjV)
	for i, n := range members {
		mo.K = append(mo.K, n)
		mo.V = append(mo.V, mkArEntry(p, st, n, i))
	}
	did := st.alloc(debT, mkStruct(debT, map[string]Val{"ArContent": MapV{Obj: mid}}))
	kr := Ptr{Obj: st.alloc(types.Typ[types.Int], OpaqueV{"the-keyring"})}
	// the keyring parameter is an openpgp.EntityList (a slice): pass an opaque value
	st.push(fn, []Val{Ptr{Obj: did}, OpaqueV{"the-keyring"}, role}, nil)
	_ = kr
	res := m.Run(st)
	var outs []sigOutcome
	for _, o := range res {
		if o.Status != stRet {
			return nil, retDesc([]*State{o})
		}
		tv := o.Ret.(*TupleV)
		oc := sigOutcome{effects: o.Effects}
		_, oc.errNil = tv.E[1].(nilV)
		if s := debProv(o, tv.E[0]); s != "nil" {
			oc.signer = s
		}
		for _, e := range o.Effects {
			if strings.HasPrefix(e, "verify:") {
				oc.verified = append(oc.verified, strings.TrimPrefix(e, "verify:"))
			}
			if strings.HasPrefix(e, "seek:") {
				oc.seeks = append(oc.seeks, strings.TrimPrefix(e, "seek:"))
			}
		}
		outs = append(outs, oc)
	}
	return outs, ""
}

// runCheckDebsigTwice: one Deb checked twice, first against a keyring the library accepts, then against one it
// rejects. Returns the second call's outcome (error nil?, verification calls of the second call).
func runCheckDebsigTwice(p *Prog, members []string, role string) (secondErrNil bool, secondVerified []string, why string) {
	fn := p.Method("deb", "Deb", "CheckDebsig")
	debT := p.Named("deb", "Deb")
	if fn == nil || debT == nil {
		return false, nil, "deb.Deb.CheckDebsig not found"
	}
	m := debMachine(p, debScenario{binary: "2.0\n"})
	verify := func(m *Machine, st *State, call *ssa.CallCommon, args []Val) ([]Val, bool) {
		kr := debProv(st, args[0])
		st.Effects = append(st.Effects, "verify:"+kr+"|"+debProv(st, args[1])+"|"+debProv(st, args[2]))
		if kr != "the-good-keyring" {
			return []Val{&TupleV{E: []Val{nilV{}, IfaceV{T: errType, V: "signature made by unknown entity"}}}}, true
		}
		id := st.alloc(types.Typ[types.Int], OpaqueV{"the-signing-entity"})
		return []Val{&TupleV{E: []Val{Ptr{Obj: id}, nilV{}}}}, true
	}
	m.Hooks["golang.org/x/crypto/openpgp.CheckDetachedSignature"] = verify
	m.Hooks["golang.org/x/crypto/openpgp.CheckArmoredDetachedSignature"] = verify
	st := initState(m, "deb")
	mid := st.alloc(structOf(debT).Field(fieldIndex(structOf(debT), "ArContent")).Type(), &MapObjV{})
	mo := st.Heap[mid].V.(*MapObjV)
	for i, n := range members {
		mo.K = append(mo.K, n)
		mo.V = append(mo.V, mkArEntry(p, st, n, i))
	}
	did := st.alloc(debT, mkStruct(debT, map[string]Val{"ArContent": MapV{Obj: mid}}))
	st.push(fn, []Val{Ptr{Obj: did}, OpaqueV{"the-good-keyring"}, role}, nil)
	res := m.Run(st)
	if len(res) == 0 || res[0].Status != stRet {
		return false, nil, retDesc(res)
	}
	first := res[0]
	if tv, ok := first.Ret.(*TupleV); !ok || len(tv.E) != 2 {
		return false, nil, "unexpected result shape"
	} else if _, ok := tv.E[1].(nilV); !ok {
		return false, nil, "the first verification (good keyring) does not succeed"
	}
	nBefore := len(first.Effects)
	first.Status = stRun
	first.Frames = nil
	first.push(fn, []Val{Ptr{Obj: did}, OpaqueV{"an-unrelated-keyring"}, role}, nil)
	res2 := m.Run(first)
	if len(res2) == 0 || res2[0].Status != stRet {
		return false, nil, retDesc(res2)
	}
	for _, o := range res2 {
		tv := o.Ret.(*TupleV)
		_, errNil := tv.E[1].(nilV)
		var ver []string
		for _, e := range o.Effects[nBefore:] {
			if strings.HasPrefix(e, "verify:") {
				ver = append(ver, strings.TrimPrefix(e, "verify:"))
			}
		}
		if errNil {
			return true, ver, ""
		}
		secondVerified = ver
	}
	return false, secondVerified, ""
}
