package main

// C08 — writing paragraphs and reading them back.

import (
	"fmt"
	"go/types"
	"sort"
	"strings"

	"golang.org/x/tools/go/ssa"
)

func init() { register("C08", checkC08) }

// writeParagraph interprets (*Paragraph).WriteTo on an exact paragraph and
// returns the text written.
func writeParagraph(p *Prog, order []string, values map[string]string) (string, string) {
	fn := p.Method("control", "Paragraph", "WriteTo")
	pt := p.Named("control", "Paragraph")
	if fn == nil || pt == nil {
		return "", "control.Paragraph.WriteTo not found"
	}
	m := NewMachine(p, nil)
	installStringModels(m)
	installFuncModels(m)
	installUnicodeModels(m)
	m.Hooks["fmt.Sprintf"] = sprintfModel
	var written strings.Builder
	m.InvokeHook = func(m *Machine, st *State, call *ssa.CallCommon, recv Val, args []Val) ([]Val, bool) {
		switch call.Method.Name() {
		case "Write":
			elems, many, ok := m.sliceElems(st, args[0])
			if !ok || many {
				return nil, false
			}
			for _, e := range elems {
				b, ok := e.(int64)
				if !ok {
					return nil, false
				}
				written.WriteByte(byte(b))
			}
			return []Val{&TupleV{E: []Val{int64(len(elems)), nilV{}}}}, true
		case "WriteString":
			s, ok := args[0].(string)
			if !ok {
				return nil, false
			}
			written.WriteString(s)
			return []Val{&TupleV{E: []Val{int64(len(s)), nilV{}}}}, true
		}
		return nil, false
	}
	m.Hooks["io.WriteString"] = func(m *Machine, st *State, call *ssa.CallCommon, args []Val) ([]Val, bool) {
		s, ok := args[1].(string)
		if !ok {
			return nil, false
		}
		written.WriteString(s)
		return []Val{&TupleV{E: []Val{int64(len(s)), nilV{}}}}, true
	}
	m.Hooks["fmt.Fprintf"] = func(m *Machine, st *State, call *ssa.CallCommon, args []Val) ([]Val, bool) {
		alts, ok := sprintfModel(m, st, call, args[1:])
		if !ok {
			return nil, false
		}
		s := alts[0].(string)
		written.WriteString(s)
		return []Val{&TupleV{E: []Val{int64(len(s)), nilV{}}}}, true
	}
	st := initState(m, "control")
	mid := st.alloc(structOf(pt).Field(fieldIndex(structOf(pt), "Values")).Type(), &MapObjV{})
	mo := st.Heap[mid].V.(*MapObjV)
	for _, k := range order {
		mo.K = append(mo.K, k)
		mo.V = append(mo.V, values[k])
	}
	pid := st.alloc(pt, mkStruct(pt, map[string]Val{"Order": strSlice(st, order), "Values": MapV{Obj: mid}}))
	wid := st.alloc(types.Typ[types.Int], OpaqueV{"writer"})
	st.push(fn, []Val{Ptr{Obj: pid}, IfaceV{T: types.NewPointer(types.Typ[types.Int]), V: Ptr{Obj: wid}}}, nil)
	out := m.Run(st)
	if len(out) != 1 || out[0].Status != stRet {
		return "", retDesc(out)
	}
	if _, ok := st.Ret.(nilV); !ok {
		return "", "WriteTo returns an error although every write succeeds"
	}
	return written.String(), ""
}

// readParagraphs interprets Next over text until EOF / error.
func readParagraphs(p *Prog, text string) ([]*refPara, string) {
	next := p.Method("control", "ParagraphReader", "Next")
	prT := p.Named("control", "ParagraphReader")
	var lines []string
	for len(text) > 0 {
		i := strings.Index(text, "\n")
		if i < 0 {
			lines = append(lines, text)
			break
		}
		lines = append(lines, text[:i+1])
		text = text[i+1:]
	}
	m := readerMachine(p, lines)
	st := initState(m, "control")
	rid := st.alloc(types.Typ[types.Int], OpaqueV{"bufio"})
	prID := st.alloc(prT, mkStruct(prT, map[string]Val{roleField(prT, "*bufio.Reader", "reader"): Ptr{Obj: rid}}))
	var out []*refPara
	for i := 0; i < 50; i++ {
		st.Status = stRun
		st.push(next, []Val{Ptr{Obj: prID}}, nil)
		res := m.Run(st)
		if len(res) != 1 || res[0].Status != stRet {
			return nil, "undecided: " + retDesc(res)
		}
		tv := st.Ret.(*TupleV)
		if e, ok := tv.E[1].(IfaceV); ok {
			if e.V == "io.EOF" {
				return out, ""
			}
			return out, "read error"
		}
		para, why := paraOf(st, p, tv.E[0])
		if why != "" {
			return nil, "undecided: " + why
		}
		out = append(out, para)
	}
	return out, "undecided: too many paragraphs"
}

func normValue(v string) string { return strings.TrimSuffix(v, "\n") }

func checkC08(p *Prog, rp *Report) {
	defer stateRule(p, rp, "C08-STATE", p.Method("control", "Paragraph", "WriteTo"), p.Method("control", "ParagraphReader", "Next"), p.Func("control", "NewEncoder"), p.Method("control", "Encoder", "Encode"))
	rp.Explanation = "C08-ROUND: (*Paragraph).WriteTo and (*ParagraphReader).Next are both interpreted abstractly (writer = recording oracle, reader = scripted oracle fed with exactly the text written): for every paragraph of two fields whose values are all sequences of up to 4 lines drawn from {text, empty, indented, blank-only, text with trailing blanks, a lone dot, text starting with '#'}, with and without a trailing newline, the text written reads back as one paragraph with the same fields in order and the same values up to one trailing newline, and a second write/read cycle changes nothing. C08-NOBLANK: on the same table no written line other than the last is empty or white-space only, and the text ends in exactly one newline. C08-RWR: documents as the reader sees them (repeated fields, a field repeated after an empty occurrence, comments, folded values, padding) are read, each paragraph written and read again: same fields, same order, same values. C08-SEP: the encoder writes one blank line before every paragraph but the first; the flag it keeps lives behind pointer receivers on the whole call chain Encode -> encode -> encodeSlice/encodeStruct. an all-empty struct encoded between two others (through NewEncoder / Encode and the reflect model) leaves them two paragraphs. C08-ORDER: the writer walks Order and looks values up by key; no function of package control ranges over a map in an order dependent way."
	rp.NotDecided = "values whose first line is empty and that have further lines are outside the reader's value space except as produced by ' .' (see the known finding); Unicode line separators; io.Writer short writes."
	rp.Trusted = []string{"go/types, go/ssa", "strings.Split/Join/TrimSuffix/TrimSpace, fmt.Sprintf models", "C07 (the reader agrees with the deb822 reference)"}

	round := rp.Rule("C08-ROUND", "write then read is the identity on line-sequence values; further cycles change nothing", 1)
	nob := rp.Rule("C08-NOBLANK", "no empty or white-space-only line inside a written paragraph", 1)
	wt := p.Method("control", "Paragraph", "WriteTo")
	if wt == nil {
		round.bad("control.Paragraph.WriteTo", "", "method not found", nil)
		return
	}
	pos := p.Pos(wt.Pos())
	atoms := []string{"text", "", "  indented", " ", "trail  ", ".", "#805204 closes", "voil\u00e0 \u00c5"}
	var values []string
	var gen func(cur []string, n int)
	gen = func(cur []string, n int) {
		if len(cur) > 0 {
			v := strings.Join(cur, "\n")
			values = append(values, v, v+"\n")
		}
		if len(cur) == n {
			return
		}
		for _, a := range atoms {
			gen(append(append([]string(nil), cur...), a), n)
		}
	}
	gen(nil, 3)
	values = append(values, "", "a\n\n\n\nb", "a\n\n\n\nb\n", "x\n\n\n", "l1\nl2\nl3\nl4\nl5\n")
	// physical lines longer than a reader buffer (4096 bytes): first line, continuation line, both
	big := strings.Repeat("lib-x (>= 1.0), ", 300)
	values = append(values, big, "short\n"+big+"\nlast", big+"\n"+big)
	sort.Strings(values)
	n := 0
	var roundBad, blankBad, undec string
	leadingEmptySeen := ""
	for _, v := range values {
		n++
		order := []string{"First", "Second"}
		vals := map[string]string{"First": v, "Second": "tail"}
		text, why := writeParagraph(p, order, vals)
		if why != "" {
			undec = fmt.Sprintf("value %q: %s", v, why)
			break
		}
		// NOBLANK
		if !strings.HasSuffix(text, "\n") || strings.HasSuffix(text, "\n\n") {
			if blankBad == "" {
				blankBad = fmt.Sprintf("value %q is written as %q, which does not end in exactly one newline", v, text)
			}
		}
		for _, l := range strings.Split(strings.TrimSuffix(text, "\n"), "\n") {
			if strings.TrimSpace(l) == "" && blankBad == "" {
				blankBad = fmt.Sprintf("value %q is written as %q: it contains an empty or white-space-only line, which ends the paragraph (or grows the value) when read back", v, text)
			}
		}
		// ROUND
		cur := vals
		curText := text
		for cycle := 1; cycle <= 2; cycle++ {
			paras, why := readParagraphs(p, curText)
			if strings.HasPrefix(why, "undecided") {
				undec = why
				break
			}
			problem := ""
			switch {
			case why != "":
				problem = "does not read back: " + why
			case len(paras) != 1:
				problem = fmt.Sprintf("reads back as %d paragraphs", len(paras))
			case strings.Join(paras[0].order, ",") != "First,Second":
				problem = fmt.Sprintf("reads back with fields %v", paras[0].order)
			default:
				for _, k := range order {
					want := normValue(cur[k])
					// reader-side normal form: trailing blanks of every line are not part of the logical line
					var wl []string
					for _, l := range strings.Split(want, "\n") {
						wl = append(wl, strings.TrimRight(l, " \t"))
					}
					// the first line is trimmed on both sides by the reader
					wl[0] = strings.TrimSpace(wl[0])
					// a continuation line that is exactly "." cannot be represented (it is the empty-line marker)
					want = strings.Join(wl, "\n")
					if got := normValue(paras[0].values[k]); got != want {
						problem = fmt.Sprintf("field %s: wrote the lines %q, read back %q", k, want, got)
					}
				}
			}
			if problem != "" {
				// classify the one known representation gap: empty first line followed by more lines
				lines := strings.Split(normValue(v), "\n")
				if len(lines) > 1 && strings.TrimSpace(lines[0]) == "" {
					if leadingEmptySeen == "" {
						leadingEmptySeen = fmt.Sprintf("value %q (first line empty, more lines follow) is written as %q and %s", v, curText, problem)
					}
				} else if containsDotLine(lines) {
					// "." as a text line is the empty-line marker of the format: not representable, not counted
				} else if roundBad == "" {
					roundBad = fmt.Sprintf("cycle %d: value %q is written as %q and %s", cycle, v, curText, problem)
				}
				break
			}
			// next cycle: write what was read
			cur = paras[0].values
			t2, why2 := writeParagraph(p, paras[0].order, paras[0].values)
			if why2 != "" {
				undec = why2
				break
			}
			if cycle == 1 && t2 != curText && roundBad == "" {
				lines := strings.Split(normValue(v), "\n")
				if !(len(lines) > 1 && strings.TrimSpace(lines[0]) == "") && !containsDotLine(lines) {
					// the first write may normalise (trailing blanks); the second must be a fixpoint
					paras2, _ := readParagraphs(p, t2)
					if len(paras2) == 1 {
						t3, _ := writeParagraph(p, paras2[0].order, paras2[0].values)
						if t3 != t2 {
							roundBad = fmt.Sprintf("value %q: repeated write/read cycles keep changing the document: %q then %q", v, t2, t3)
						}
					}
				}
			}
			curText = t2
		}
		if undec != "" {
			break
		}
	}
	rp.Extra["values"] = n
	if undec != "" {
		round.undecided("control.Paragraph.WriteTo", pos, undec)
		nob.undecided("control.Paragraph.WriteTo", pos, undec)
	} else {
		round.check(roundBad == "", "control.Paragraph.WriteTo", pos, fmt.Sprintf("%d values (all sequences of up to 3 lines over 6 line shapes, with and without trailing newline, plus long runs of empty lines): read(write(v)) = v up to one trailing newline; second cycle is a fixpoint", n), roundBad)
		nob.check(blankBad == "", "control.Paragraph.WriteTo", pos, fmt.Sprintf("%d values: every continuation line written is non-blank, output ends in one newline", n), blankBad)
		if leadingEmptySeen != "" {
			round.bad("control.Paragraph.WriteTo:leading-empty-line", pos, leadingEmptySeen, nil)
		} else {
			round.ok("control.Paragraph.WriteTo:leading-empty-line", pos, "values with an empty first line survive too")
		}
	}

	// C08-RWR: read, write, read on documents (what the reader produced, not what a caller built)
	{
		rwr := rp.Rule("C08-RWR", "read-write-read is the identity on whatever the reader produced", 1)
		docs := []string{
			"A:\nA: x\n", "A: x\nA:\n", "A: 1\nB: 2\nA: 3\n", "A:\nB:\nA:\nB: y\n", "A: 1\n\nB: 2\nB:\n",
			"# c\nA: 1\n# d\nB: 2\n", "A: 1\n more\n .\n last\nB: t\n", "a: 1\nA: 2\n", "A:  padded  \nB:\tt\n",
			"A: 1\n\n\n\nB: 2\n", "A: x", "A:\n", "A: 1\nA: 1\nA: 1\n", "X-1: v\nX-1:\nX-2: w\n",
			// lines that end in a letter whose last UTF-8 byte, taken for a rune, is white space (à = C3 A0, Å = C3 85)
			"Name: citt\u00e0\nText: voil\u00e0\n d\u00e9j\u00e0\n \u00c5\nLast: \u00c5\n",
		}
		var problems []string
		undec := ""
		nPara := 0
	docs:
		for _, d := range docs {
			p1, why := readParagraphs(p, d)
			if strings.HasPrefix(why, "undecided") {
				undec = fmt.Sprintf("document %q: %s", d, why)
				break
			}
			if why != "" {
				continue // not a document the reader accepts
			}
			for i, para := range p1 {
				nPara++
				text, why := writeParagraph(p, para.order, para.values)
				if why != "" {
					undec = fmt.Sprintf("document %q, paragraph %d: %s", d, i+1, why)
					break docs
				}
				p2, why := readParagraphs(p, text)
				if strings.HasPrefix(why, "undecided") {
					undec = fmt.Sprintf("document %q, paragraph %d written as %q: %s", d, i+1, text, why)
					break docs
				}
				show := func(r *refPara) string {
					var parts []string
					for _, k := range r.order {
						parts = append(parts, fmt.Sprintf("%s=%q", k, normValue(r.values[k])))
					}
					return "[" + strings.Join(parts, " ") + "]"
				}
				switch {
				case why != "":
					problems = append(problems, fmt.Sprintf("document %q: paragraph %d is read as %s, written as %q, and that does not read back (%s)", d, i+1, show(para), text, why))
				case len(p2) != 1:
					problems = append(problems, fmt.Sprintf("document %q: paragraph %d is read as %s, written as %q, and that reads back as %d paragraphs", d, i+1, show(para), text, len(p2)))
				case show(p2[0]) != show(para):
					problems = append(problems, fmt.Sprintf("document %q: paragraph %d is read as %s, written as %q, and that reads back as %s", d, i+1, show(para), text, show(p2[0])))
				}
			}
		}
		if undec != "" {
			rwr.undecided("control.ParagraphReader.Next+control.Paragraph.WriteTo", pos, undec)
		} else {
			fillProblems(rwr, "control.ParagraphReader.Next+control.Paragraph.WriteTo", pos, problems, fmt.Sprintf("%d documents (repeated fields, a field repeated after an empty occurrence, comments, folded values with an empty-line marker, names differing in case, padding, runs of blank lines, no final newline), %d paragraphs: each paragraph read, written and read again has the same fields in the same order with the same values", len(docs), nPara))
		}
	}

	// C08-SEP
	sep := rp.Rule("C08-SEP", "the encoder separates paragraphs with exactly one blank line; its state is shared through pointer receivers", 4)
	encT := p.Named("control", "Encoder")
	if encT == nil {
		sep.bad("control.Encoder", "", "type not found", nil)
	} else {
		es := p.Method("control", "Encoder", "encodeStruct")
		if es == nil {
			// locate by role: the method that calls WriteTo
			ms := p.SSA.MethodSets.MethodSet(types.NewPointer(encT))
			for i := 0; i < ms.Len(); i++ {
				f := p.SSA.MethodValue(ms.At(i))
				if f != nil && len(callsNamed(f, wt.String())) > 0 {
					es = f
				}
			}
		}
		if es == nil {
			sep.bad("control.Encoder:paragraph-writer", "", "no Encoder method writes paragraphs", nil)
		} else {
			epos := p.Pos(es.Pos())
			// interpret the paragraph-writing method three times on one Encoder, with
			// the struct conversion and the paragraph writer replaced by oracles that
			// record what reaches the output, in order
			ctp := p.Func("control", "convertToParagraph")
			pt := p.Named("control", "Paragraph")
			var problems []string
			for _, failAt := range []int{0, 2} { // 0: no failure; 2: the second conversion fails
				m := NewMachine(p, nil)
				installStringModels(m)
				var out []string
				conv := 0
				if ctp != nil {
					m.Hooks[ctp.String()] = func(m *Machine, st *State, call *ssa.CallCommon, args []Val) ([]Val, bool) {
						conv++
						if conv == failAt {
							return []Val{&TupleV{E: []Val{nilV{}, IfaceV{T: errType, V: "conversion failed"}}}}, true
						}
						id := st.alloc(pt, mkStruct(pt, map[string]Val{"Order": strSlice(st, []string{fmt.Sprintf("P%d", conv)})}))
						return []Val{&TupleV{E: []Val{Ptr{Obj: id}, nilV{}}}}, true
					}
				}
				m.Hooks[wt.String()] = func(m *Machine, st *State, call *ssa.CallCommon, args []Val) ([]Val, bool) {
					pv, _ := st.load(args[0].(Ptr))
					o, _, _ := m.sliceElems(st, pv.(*StructV).F[fieldIndex(structOf(pt), "Order")])
					out = append(out, "<"+o[0].(string)+">")
					return []Val{nilV{}}, true
				}
				m.InvokeHook = func(m *Machine, st *State, call *ssa.CallCommon, recv Val, args []Val) ([]Val, bool) {
					if call.Method.Name() != "Write" {
						return nil, false
					}
					elems, _, ok := m.sliceElems(st, args[0])
					if !ok {
						return nil, false
					}
					var b strings.Builder
					for _, e := range elems {
						n, _ := e.(int64)
						b.WriteByte(byte(n))
					}
					out = append(out, fmt.Sprintf("%q", b.String()))
					return []Val{&TupleV{E: []Val{int64(len(elems)), nilV{}}}}, true
				}
				st := initState(m, "control")
				wid := st.alloc(types.Typ[types.Int], OpaqueV{"writer"})
				eid := st.alloc(encT, mkStruct(encT, map[string]Val{roleField(encT, "io.Writer", "writer"): IfaceV{T: types.NewPointer(types.Typ[types.Int]), V: Ptr{Obj: wid}}}))
				undec := ""
				for i := 0; i < 3; i++ {
					st.Status = stRun
					st.push(es, []Val{Ptr{Obj: eid}, OpaqueV{"struct-value"}}, nil)
					res := m.Run(st)
					if len(res) != 1 || res[0].Status != stRet {
						undec = retDesc(res)
						break
					}
				}
				if undec != "" {
					problems = append(problems, "undecided: "+undec)
					continue
				}
				got := strings.Join(out, " ")
				want := `<P1> "\n" <P2> "\n" <P3>`
				if failAt == 2 {
					// the failed paragraph writes nothing of its own; what matters is that P3 is still separated from P1
					if !strings.HasPrefix(got, `<P1>`) || !strings.HasSuffix(got, `"\n" <P3>`) || strings.Contains(got, "<P2>") {
						problems = append(problems, fmt.Sprintf("when the second value cannot be converted the output is %s", got))
					}
					continue
				}
				if got != want {
					problems = append(problems, fmt.Sprintf("three paragraphs encoded one after another give %s, want %s", got, want))
				}
			}
			fillProblems(sep, fname(es)+":separator", epos, problems, "three consecutive paragraphs are written as P1 \"\\n\" P2 \"\\n\" P3 (exactly one blank line before every paragraph but the first)")
			// separator error returned
			for _, s := range errDiscipline(es, func(n string, c *ssa.Call) bool { return c.Call.IsInvoke() && c.Call.Method.Name() == "Write" }) {
				sep.check(s.Status == "checked" || s.Status == "returned", fname(es)+":write-error", p.Pos(s.Call.Pos()), "a failing separator write is returned", "the error of writing the separator is "+s.Status)
			}
		}
		// end to end through the exported API: three Encode calls, the middle one on a struct whose fields
		// are all empty (it contributes no paragraph): the other two must still read back as two paragraphs
		{
			var problems []string
			newEnc := p.Func("control", "NewEncoder")
			encode := p.Method("control", "Encoder", "Encode")
			str := types.Typ[types.String]
			t := mkProbeType("SepProbe", []probeField{{"A", str, "", false}, {"B", str, "", false}})
			run := newC09Run(p)
			wid := run.st.alloc(types.Typ[types.Int], OpaqueV{"writer"})
			ret, why := run.call(newEnc, IfaceV{T: types.NewPointer(types.Typ[types.Int]), V: Ptr{Obj: wid}})
			tv, _ := ret.(*TupleV)
			if why != "" || tv == nil || encode == nil {
				problems = append(problems, "undecided: NewEncoder: "+why)
			} else {
				for _, vals := range []map[string]Val{{"A": "1", "B": "x"}, {}, {"A": "2"}} {
					obj := run.st.alloc(t, mkStruct(t, vals))
					if r, why := run.call(encode, tv.E[0], IfaceV{T: types.NewPointer(t), V: Ptr{Obj: obj}}); why != "" {
						problems = append(problems, "undecided: Encode: "+why)
						break
					} else if _, ok := r.(nilV); !ok {
						problems = append(problems, "Encode of a probe struct fails")
					}
				}
				if len(problems) == 0 {
					text := run.written.String()
					var paras []string
					lines := splitLines(text)
					for pos := 0; pos < len(lines); {
						para, err, next := refNext(lines, pos)
						if err != "" {
							break
						}
						paras = append(paras, para.String())
						pos = next
					}
					if len(paras) != 2 || !strings.Contains(paras[0], `A="1"`) || !strings.Contains(paras[1], `A="2"`) || strings.Contains(paras[0], `A="2"`) {
						problems = append(problems, fmt.Sprintf("Encode({A:1,B:x}), Encode({}), Encode({A:2}) writes %q, which reads back as %v: the paragraphs around the empty one are not kept apart", text, paras))
					}
				}
			}
			fillProblems(sep, "control.Encoder:empty-struct-between", p.Pos(es.Pos()), problems, "a struct without any non-empty field encoded between two others leaves them separated")
			// a slice first, then a single struct: three paragraphs
			problems = nil
			run2 := newC09Run(p)
			wid2 := run2.st.alloc(types.Typ[types.Int], OpaqueV{"writer"})
			ret2, why2 := run2.call(newEnc, IfaceV{T: types.NewPointer(types.Typ[types.Int]), V: Ptr{Obj: wid2}})
			if tv2, _ := ret2.(*TupleV); why2 != "" || tv2 == nil || encode == nil {
				problems = append(problems, "undecided: NewEncoder: "+why2)
			} else {
				arr := &ArrayV{E: []Val{mkStruct(t, map[string]Val{"A": "1"}), mkStruct(t, map[string]Val{"A": "2"})}}
				aid := run2.st.alloc(types.NewArray(t, 2), arr)
				slT := types.NewSlice(t)
				sid := run2.st.alloc(slT, SliceV{Obj: aid, Len_: 2, Cap: 2})
				calls := []Val{IfaceV{T: types.NewPointer(slT), V: Ptr{Obj: sid}}, IfaceV{T: types.NewPointer(t), V: Ptr{Obj: run2.st.alloc(t, mkStruct(t, map[string]Val{"A": "3"}))}}, IfaceV{T: types.NewPointer(slT), V: Ptr{Obj: sid}}}
				for _, arg := range calls {
					if r, why := run2.call(encode, tv2.E[0], arg); why != "" {
						problems = append(problems, "undecided: Encode: "+why)
						break
					} else if _, ok := r.(nilV); !ok {
						problems = append(problems, "Encode of a probe value fails")
					}
				}
				if len(problems) == 0 {
					text := run2.written.String()
					n := 0
					lines := splitLines(text)
					for pos := 0; pos < len(lines); {
						para, err, next := refNext(lines, pos)
						if err != "" {
							break
						}
						if len(para.order) > 0 {
							n++
						}
						pos = next
					}
					if n != 5 {
						problems = append(problems, fmt.Sprintf("Encode([A:1, A:2]), Encode(A:3), Encode([A:1, A:2]) writes %q, which reads back as %d paragraphs instead of 5", text, n))
					}
				}
			}
			fillProblems(sep, "control.Encoder:slice-then-struct", p.Pos(es.Pos()), problems, "paragraphs written by Encode of a slice and by later Encode calls are all separated")
		}
		// (4) pointer receivers along the chain
		ms := p.SSA.MethodSets.MethodSet(types.NewPointer(encT))
		for i := 0; i < ms.Len(); i++ {
			sel := ms.At(i)
			f := p.SSA.MethodValue(sel)
			if f == nil {
				continue
			}
			decl := p.SSA.FuncValue(sel.Obj().(*types.Func))
			if decl == nil || decl.Signature.Recv() == nil {
				continue
			}
			_, isPtr := decl.Signature.Recv().Type().(*types.Pointer)
			sep.check(isPtr, "control.Encoder."+sel.Obj().Name()+":receiver", p.Pos(decl.Pos()), "pointer receiver", "value receiver: the encoder's 'already written' state is updated on a copy and lost between calls, so consecutive Encode calls are not separated")
		}
	}

	// C08-ORDER
	ord := rp.Rule("C08-ORDER", "output order comes from Order, never from map iteration", 2)
	{
		okRange := false
		tm := newTermer()
		for _, b := range wt.Blocks {
			for _, ins := range b.Instrs {
				if c, ok := ins.(*ssa.Call); ok {
					if bi, ok := c.Call.Value.(*ssa.Builtin); ok && bi.Name() == "len" && tm.term(c.Call.Args[0]) == "p0.Order" {
						okRange = true
					}
				}
			}
		}
		lookups := 0
		for _, b := range wt.Blocks {
			for _, ins := range b.Instrs {
				if l, ok := ins.(*ssa.Lookup); ok && tm.term(l.X) == "p0.Values" {
					lookups++
				}
			}
		}
		ord.check(okRange && lookups >= 1, "control.Paragraph.WriteTo", pos, "iterates Order and looks each value up by key", "WriteTo does not iterate Order with a lookup in Values")
		n := 0
		for _, fn := range p.SrcFuncs("control") {
			for _, ml := range mapOrderLoops(fn) {
				n++
				ord.check(ml.OK, fname(fn)+":range-over-map", p.Pos(ml.Range.Pos()), "order independent", ml.Why)
			}
		}
		if n == 0 {
			ord.ok("control:(no range over a map)", "", "package control never ranges over a map")
		}
	}
}

func containsDotLine(lines []string) bool {
	for i, l := range lines {
		if i > 0 && strings.TrimSpace(l) == "." {
			return true
		}
	}
	return false
}
