package main

// Abstract values of the SSA abstract interpreter (engine "TapeAI" of DESIGN §2.3 C).
//
// Everything the interpreted code can observe through control flow is kept
// exact; what is abstract is the *input string* ("tape"): its length is unknown
// and its symbols are revealed lazily. No input string is ever constructed.

import (
	"fmt"
	"go/types"
	"sort"
	"strings"
)

type Val interface{}

// exact scalars: int64 (all integer kinds), bool, string (exact Go string), float64 unsupported

type nilV struct{} // nil pointer / slice / map / interface / func

// Unknown is a scalar about which nothing is known; branching on it forks.
// Atom, when set, names the condition canonically; the branch taken is then
// recorded in State.Path.
type Unknown struct {
	Why  string
	Atom string
}

// LinV is a symbolic integer: C + sum of coeff*symbol.
type LinV struct {
	C int64
	T map[string]int64
}

func linOf(v Val) (LinV, bool) {
	switch x := v.(type) {
	case LinV:
		return x, true
	case int64:
		return LinV{C: x}, true
	}
	return LinV{}, false
}

func linSym(name string) LinV { return LinV{T: map[string]int64{name: 1}} }

func (a LinV) add(b LinV, sign int64) LinV {
	out := LinV{C: a.C + sign*b.C, T: map[string]int64{}}
	for k, v := range a.T {
		out.T[k] = v
	}
	for k, v := range b.T {
		out.T[k] += sign * v
		if out.T[k] == 0 {
			delete(out.T, k)
		}
	}
	return out
}

func (a LinV) scale(c int64) LinV {
	out := LinV{C: a.C * c, T: map[string]int64{}}
	if c == 0 {
		return out
	}
	for k, v := range a.T {
		out.T[k] = v * c
	}
	return out
}

func (a LinV) isConst() bool { return len(a.T) == 0 }

func (a LinV) String() string {
	var ks []string
	for k := range a.T {
		ks = append(ks, k)
	}
	sort.Strings(ks)
	var parts []string
	for _, k := range ks {
		if a.T[k] == 1 {
			parts = append(parts, k)
		} else {
			parts = append(parts, fmt.Sprintf("%d*%s", a.T[k], k))
		}
	}
	if a.C != 0 || len(parts) == 0 {
		parts = append(parts, fmt.Sprint(a.C))
	}
	return strings.Join(parts, " + ")
}

// SymV is one input symbol: an index into the machine's alphabet (a class of
// bytes). Conversions byte->rune->int keep it; arithmetic needs a singleton class.
type SymV struct{ C int }

// TapeStr is a view of an input string: the suffix of tape T that starts at the
// absolute position Off (0 = the whole input). Off only ever grows (s = s[k:]).
type TapeStr struct {
	T   int
	Off int64
}

// TapeLen is len(view) = len(tape T) - Off: only comparable with a position.
type TapeLen struct {
	T   int
	Off int64
}

// AbsStr is a string built by the code from symbols: an exact short sequence of
// symbols, or only its emptiness.
type AbsStr struct {
	Exact bool
	Syms  []int // when Exact
	NonE  bool  // when !Exact: known non-empty (else: may be empty)
}

// OpaqueV is a value the analysis only allows to be passed around (e.g. a
// string handed to a comparator that is replaced by an oracle). Any operation
// that inspects it yields Unknown, so control flow depending on it forks.
type OpaqueV struct{ Name string }

// Ptr addresses a component of a heap object.
type Ptr struct {
	Obj  int
	Path string // "/"-joined component indexes, "" = whole object
	RO   bool   // the slot stands for every slot selected by a class of input bytes (all hold the same value): loads only
}

// WrapErrV is the dynamic value of an error made by fmt.Errorf with %w: it wraps Inner (errors.Is / Unwrap see through it).
type WrapErrV struct{ Inner Val }

// StructV / ArrayV are composite values (stored inline in objects or registers).
type StructV struct{ F []Val }
type ArrayV struct{ E []Val }

// SliceV: exact view into an array object, or an abstract slice of which only
// emptiness is known.
type SliceV struct {
	Abs      bool
	Many     bool // Abs: len >= 1 (else len == 0)
	Obj      int
	Path     string
	Lo, Len_ int
	Cap      int
}

type TupleV struct{ E []Val }

// IfaceV is a non-nil interface value.
type IfaceV struct {
	T types.Type
	V Val
}

type FuncV struct {
	Fn   interface{} // *ssa.Function or *ssa.Builtin
	Bind []Val
	Once *Ptr // sync.OnceValue / OnceFunc: the cell that keeps the first call's result
}

type MapV struct{ Obj int }

// MapIterV is a range-over-map iterator: the keys in the (nondeterministic)
// order chosen when the range started, and the position reached.
type MapIterV struct {
	Obj   int
	Order []int
	Pos   int
	Keys  []Val // the keys as they were when the range started, in iteration order (entries deleted meanwhile are skipped)
}

// StrIterV is a range-over-string iterator (exact strings only).
type StrIterV struct {
	S   string
	Pos int
}

// MapObjV is the content of a map object: exact keys in insertion order.
type MapObjV struct {
	K []Val
	V []Val
}

// ---------------------------------------------------------------------------

func pathAppend(p string, i int) string {
	if p == "" {
		return fmt.Sprint(i)
	}
	return p + "/" + fmt.Sprint(i)
}

func cloneVal(v Val) Val {
	switch x := v.(type) {
	case *StructV:
		n := &StructV{F: make([]Val, len(x.F))}
		for i, f := range x.F {
			n.F[i] = cloneVal(f)
		}
		return n
	case *ArrayV:
		n := &ArrayV{E: make([]Val, len(x.E))}
		for i, f := range x.E {
			n.E[i] = cloneVal(f)
		}
		return n
	case *TupleV:
		n := &TupleV{E: make([]Val, len(x.E))}
		for i, f := range x.E {
			n.E[i] = cloneVal(f)
		}
		return n
	case *MapIterV:
		n := &MapIterV{Obj: x.Obj, Order: append([]int(nil), x.Order...), Pos: x.Pos}
		for _, k := range x.Keys {
			n.Keys = append(n.Keys, cloneVal(k))
		}
		return n
	case *StrIterV:
		return &StrIterV{S: x.S, Pos: x.Pos}
	case *MapObjV:
		n := &MapObjV{}
		for i := range x.K {
			n.K = append(n.K, cloneVal(x.K[i]))
			n.V = append(n.V, cloneVal(x.V[i]))
		}
		return n
	case AbsStr:
		if x.Exact {
			return AbsStr{Exact: true, Syms: append([]int(nil), x.Syms...)}
		}
		return x
	case RValue:
		x.V = cloneVal(x.V)
		return x
	case *FuncV:
		n := &FuncV{Fn: x.Fn, Bind: make([]Val, len(x.Bind)), Once: x.Once}
		for i, f := range x.Bind {
			n.Bind[i] = cloneVal(f)
		}
		return n
	}
	return v
}

// zeroVal builds the zero value of a Go type.
func zeroVal(t types.Type) Val {
	switch u := t.Underlying().(type) {
	case *types.Basic:
		switch {
		case u.Info()&types.IsBoolean != 0:
			return false
		case u.Info()&types.IsInteger != 0:
			return int64(0)
		case u.Info()&types.IsString != 0:
			return ""
		case u.Kind() == types.UnsafePointer:
			return nilV{}
		}
		return Unknown{Why: "zero of " + t.String()}
	case *types.Struct:
		s := &StructV{F: make([]Val, u.NumFields())}
		for i := 0; i < u.NumFields(); i++ {
			s.F[i] = zeroVal(u.Field(i).Type())
		}
		return s
	case *types.Array:
		a := &ArrayV{E: make([]Val, int(u.Len()))}
		for i := range a.E {
			a.E[i] = zeroVal(u.Elem())
		}
		return a
	case *types.Tuple:
		tv := &TupleV{E: make([]Val, u.Len())}
		for i := 0; i < u.Len(); i++ {
			tv.E[i] = zeroVal(u.At(i).Type())
		}
		return tv
	}
	return nilV{}
}

// fmtVal renders a value canonically; ptrName renames heap objects.
func fmtVal(v Val, ptrName func(int) string) string {
	switch x := v.(type) {
	case nil:
		return "<unset>"
	case int64:
		return fmt.Sprintf("i%d", x)
	case bool:
		if x {
			return "T"
		}
		return "F"
	case string:
		return fmt.Sprintf("%q", x)
	case nilV:
		return "nil"
	case Unknown:
		return "?"
	case OpaqueV:
		return "opaque(" + x.Name + ")"
	case LinV:
		return "lin(" + x.String() + ")"
	case PosInt:
		return "int>=1"
	case SymV:
		return fmt.Sprintf("s%d", x.C)
	case TapeStr:
		if x.Off != 0 {
			return fmt.Sprintf("tape%d+%d", x.T, x.Off)
		}
		return fmt.Sprintf("tape%d", x.T)
	case TapeLen:
		if x.Off != 0 {
			return fmt.Sprintf("len(tape%d)-%d", x.T, x.Off)
		}
		return fmt.Sprintf("len(tape%d)", x.T)
	case AbsStr:
		if x.Exact {
			return fmt.Sprintf("str%v", x.Syms)
		}
		if x.NonE {
			return "str+"
		}
		return "str*"
	case Ptr:
		return "&" + ptrName(x.Obj) + "." + x.Path
	case *StructV:
		parts := make([]string, len(x.F))
		for i, f := range x.F {
			parts[i] = fmtVal(f, ptrName)
		}
		return "{" + strings.Join(parts, ",") + "}"
	case *ArrayV:
		parts := make([]string, len(x.E))
		for i, f := range x.E {
			parts[i] = fmtVal(f, ptrName)
		}
		return "[" + strings.Join(parts, ",") + "]"
	case *TupleV:
		parts := make([]string, len(x.E))
		for i, f := range x.E {
			parts[i] = fmtVal(f, ptrName)
		}
		return "(" + strings.Join(parts, ",") + ")"
	case SliceV:
		if x.Abs {
			if x.Many {
				return "slice+"
			}
			return "slice0"
		}
		return fmt.Sprintf("slice(%s.%s,%d,%d,%d)", ptrName(x.Obj), x.Path, x.Lo, x.Len_, x.Cap)
	case IfaceV:
		return "iface(" + x.T.String() + ":" + fmtVal(x.V, ptrName) + ")"
	case WrapErrV:
		return "wraps<" + fmtVal(x.Inner, ptrName) + ">"
	case *FuncV:
		parts := make([]string, len(x.Bind))
		for i, f := range x.Bind {
			parts[i] = fmtVal(f, ptrName)
		}
		if x.Once != nil {
			return fmt.Sprintf("oncefunc(%v|%s|%s)", x.Fn, strings.Join(parts, ","), ptrName(x.Once.Obj))
		}
		return fmt.Sprintf("func(%v|%s)", x.Fn, strings.Join(parts, ","))
	case MapV:
		return "map" + ptrName(x.Obj)
	case RType:
		return "rtype(" + x.T.String() + ")"
	case RValue:
		if !x.Valid {
			return "rvalue(invalid)"
		}
		if x.Addr {
			return "rvalue(" + x.T.String() + "@" + fmtVal(x.P, ptrName) + ")"
		}
		return "rvalue(" + x.T.String() + ":" + fmtVal(x.V, ptrName) + ")"
	case *MapIterV:
		return fmt.Sprintf("mapiter(%s,%v,%d)", ptrName(x.Obj), x.Order, x.Pos)
	case *StrIterV:
		return fmt.Sprintf("striter(%q,%d)", x.S, x.Pos)
	case *MapObjV:
		parts := make([]string, len(x.K))
		for i := range x.K {
			parts[i] = fmtVal(x.K[i], ptrName) + ":" + fmtVal(x.V[i], ptrName)
		}
		return "map{" + strings.Join(parts, ",") + "}"
	}
	return fmt.Sprintf("<%T>", v)
}

// refs lists heap objects directly referenced by a value.
func valRefs(v Val, out *[]int) {
	switch x := v.(type) {
	case Ptr:
		*out = append(*out, x.Obj)
	case SliceV:
		if !x.Abs {
			*out = append(*out, x.Obj)
		}
	case MapV:
		*out = append(*out, x.Obj)
	case *MapIterV:
		*out = append(*out, x.Obj)
	case *StructV:
		for _, f := range x.F {
			valRefs(f, out)
		}
	case *ArrayV:
		for _, f := range x.E {
			valRefs(f, out)
		}
	case *TupleV:
		for _, f := range x.E {
			valRefs(f, out)
		}
	case IfaceV:
		valRefs(x.V, out)
	case WrapErrV:
		valRefs(x.Inner, out)
	case RValue:
		if x.Addr {
			*out = append(*out, x.P.Obj)
		} else {
			valRefs(x.V, out)
		}
	case *MapObjV:
		for i := range x.K {
			valRefs(x.K[i], out)
			valRefs(x.V[i], out)
		}
	case *FuncV:
		for _, f := range x.Bind {
			valRefs(f, out)
		}
		if x.Once != nil {
			*out = append(*out, x.Once.Obj)
		}
	}
}

// Alphabet partitions the byte values 0..255 into classes.
type Alphabet struct {
	Class   [256]int // byte -> class index (or -1 if excluded from the tape alphabet)
	Members [][]byte // class -> bytes
	Names   []string
}

// NewAlphabetSingletons: every listed byte is its own class; nothing else exists.
func NewAlphabetSingletons(bytes []byte) *Alphabet {
	a := &Alphabet{}
	for i := range a.Class {
		a.Class[i] = -1
	}
	sort.Slice(bytes, func(i, j int) bool { return bytes[i] < bytes[j] })
	for _, b := range bytes {
		if a.Class[b] >= 0 {
			continue
		}
		a.Class[b] = len(a.Members)
		a.Members = append(a.Members, []byte{b})
		a.Names = append(a.Names, byteName(b))
	}
	return a
}

// NewAlphabetCuts: every cut byte is a singleton class; the maximal runs of
// bytes between cuts form one class each.
func NewAlphabetCuts(cuts []byte) *Alphabet {
	a := &Alphabet{}
	iscut := [256]bool{}
	for _, c := range cuts {
		iscut[c] = true
	}
	cur := -1
	for b := 0; b < 256; b++ {
		if iscut[b] {
			a.Class[b] = len(a.Members)
			a.Members = append(a.Members, []byte{byte(b)})
			a.Names = append(a.Names, byteName(byte(b)))
			cur = -1
			continue
		}
		if cur < 0 {
			cur = len(a.Members)
			a.Members = append(a.Members, nil)
			a.Names = append(a.Names, "")
		}
		a.Class[b] = cur
		a.Members[cur] = append(a.Members[cur], byte(b))
	}
	for i, m := range a.Members {
		if len(m) > 1 {
			a.Names[i] = fmt.Sprintf("[%s-%s]", byteName(m[0]), byteName(m[len(m)-1]))
		}
	}
	return a
}

func byteName(b byte) string {
	if b > 32 && b < 127 {
		return string(rune(b))
	}
	return fmt.Sprintf("\\x%02x", b)
}

func (a *Alphabet) N() int { return len(a.Members) }

// Single returns the byte of a singleton class.
func (a *Alphabet) Single(c int) (byte, bool) {
	if c >= 0 && c < len(a.Members) && len(a.Members[c]) == 1 {
		return a.Members[c][0], true
	}
	return 0, false
}

// NewAlphabetGroups: every byte of `singles` is its own class; each group is one
// class (minus singles); all remaining bytes form classes by the given default
// ranges (low control bytes, other ASCII, high bytes).
func NewAlphabetGroups(singles []byte, groups map[string][]byte) *Alphabet {
	a := &Alphabet{}
	for i := range a.Class {
		a.Class[i] = -1
	}
	add := func(name string, bs []byte) {
		var ms []byte
		for _, b := range bs {
			if a.Class[b] < 0 {
				ms = append(ms, b)
			}
		}
		if len(ms) == 0 {
			return
		}
		id := len(a.Members)
		for _, b := range ms {
			a.Class[b] = id
		}
		a.Members = append(a.Members, ms)
		if len(ms) == 1 {
			a.Names = append(a.Names, byteName(ms[0]))
		} else {
			a.Names = append(a.Names, "["+name+"]")
		}
	}
	sort.Slice(singles, func(i, j int) bool { return singles[i] < singles[j] })
	for _, b := range singles {
		add("", []byte{b})
	}
	var gnames []string
	for k := range groups {
		gnames = append(gnames, k)
	}
	sort.Strings(gnames)
	for _, k := range gnames {
		add(k, groups[k])
	}
	var low, mid, high []byte
	for b := 0; b < 256; b++ {
		switch {
		case b < 0x20 || b == 0x7f:
			low = append(low, byte(b))
		case b < 0x80:
			mid = append(mid, byte(b))
		default:
			high = append(high, byte(b))
		}
	}
	add("ctrl", low)
	add("punct", mid)
	add("high", high)
	return a
}
