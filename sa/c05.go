package main

// C05 — rendering a parsed dependency and re-parsing it loses nothing.

import (
	"regexp"
	"fmt"
	"go/types"
	"sort"
	"strings"

	"golang.org/x/tools/go/ssa"
)

func init() { register("C05", checkC05) }

// depMachine: exact interpretation of the dependency package (parser and
// renderer) on concrete strings.
func depMachine(p *Prog) *Machine {
	m := NewMachine(p, nil)
	installStringModels(m)
	installFuncModels(m)
	installUnicodeModels(m)
	return m
}

// dumpDep renders a parsed Dependency canonically from the heap.
func dumpDep(p *Prog, st *State, v Val) string {
	depT := p.Named("dependency", "Dependency")
	relT := p.Named("dependency", "Relation")
	posT := p.Named("dependency", "Possibility")
	m := &Machine{}
	str := func(v Val) string { s, _ := v.(string); return s }
	deref := func(v Val) (*StructV, bool) {
		switch x := v.(type) {
		case *StructV:
			return x, true
		case Ptr:
			lv, ok := st.load(x)
			sv, ok2 := lv.(*StructV)
			return sv, ok && ok2
		}
		return nil, false
	}
	arch := func(v Val) string {
		sv, ok := deref(v)
		if !ok {
			return "nil"
		}
		return str(sv.F[0]) + "/" + str(sv.F[1]) + "/" + str(sv.F[2])
	}
	d, ok := deref(v)
	if !ok {
		return "<not a dependency>"
	}
	var out []string
	rels, _, _ := m.sliceElems(st, d.F[fieldIndex(structOf(depT), "Relations")])
	for _, r := range rels {
		rs, _ := deref(r)
		var alts []string
		poss, _, _ := m.sliceElems(st, rs.F[fieldIndex(structOf(relT), "Possibilities")])
		for _, po := range poss {
			ps, _ := deref(po)
			f := func(n string) Val { return ps.F[fieldIndex(structOf(posT), n)] }
			s := "name=" + str(f("Name"))
			if b, _ := f("Substvar").(bool); b {
				s += " substvar"
			}
			if _, isNil := f("Arch").(nilV); !isNil {
				s += " qual=" + arch(f("Arch"))
			}
			if vs, ok := deref(f("Version")); ok {
				s += " ver=(" + str(vs.F[1]) + " " + str(vs.F[0]) + ")"
			}
			if as, ok := deref(f("Architectures")); ok {
				els, _, _ := m.sliceElems(st, as.F[1])
				if len(els) > 0 {
					var xs []string
					for _, e := range els {
						xs = append(xs, arch(e))
					}
					s += fmt.Sprintf(" archs(not=%v)=%v", as.F[0], xs)
				}
			}
			sets, _, _ := m.sliceElems(st, f("StageSets"))
			for _, ss := range sets {
				sv, _ := deref(ss)
				stages, _, _ := m.sliceElems(st, sv.F[0])
				var xs []string
				for _, e := range stages {
					ev, _ := deref(e)
					xs = append(xs, fmt.Sprintf("%v:%s", ev.F[0], str(ev.F[1])))
				}
				s += fmt.Sprintf(" stages=%v", xs)
			}
			alts = append(alts, s)
		}
		out = append(out, "{"+strings.Join(alts, " | ")+"}")
	}
	return strings.Join(out, " , ")
}

func checkC05(p *Prog, rp *Report) {
	defer stateRule(p, rp, "C05-STATE", p.Func("dependency", "Parse"), p.Func("dependency", "ParseArch"), p.Func("dependency", "ParseArchitectures"), p.Method("dependency", "Dependency", "UnmarshalControl"), p.Method("dependency", "Arch", "UnmarshalControl"), p.Method("dependency", "Dependency", "String"), p.Method("dependency", "Arch", "String"), p.Method("dependency", "Dependency", "MarshalControl"), p.Method("dependency", "Arch", "MarshalControl"))
	rp.Explanation = "C05-FIELDS: every field of the dependency structures that the parser's call tree stores into is loaded somewhere in the call tree of Dependency.String (a field the renderer never looks at cannot survive a round trip). C05-BYTES: no function reachable from the parser converts an integer (a byte of the input) to a string, which would re-encode bytes >= 0x80. C05-NOEMPTY: (parser transition system of C04) no relation without alternatives and no empty profile group or profile is ever stored, so nothing the parser stores renders to nothing. C05-ALIAS: decode, copy the value, decode again into the same variable: the copy is unchanged and the variable holds exactly the second value. C05-ARCH: parse / render / parse of architecture names interpreted abstractly on every name of 1 to 4 hyphen separated components over {any, all, gnu, linux, x, y}, through ParseArch and through Arch.UnmarshalControl: the (abi, os, cpu) triple is unchanged. C05-FIXPOINT: Parse, Dependency.String and Parse again interpreted on a family of accepted fields (every combination of qualifier, version clause, positive/negated architecture list, profile groups, substvar, alternatives and relations, with regular and irregular spacing): the rendering is accepted and parses to the same structure."
	rp.NotDecided = "the fixpoint for every accepted string (C05-FIXPOINT covers a generated family, the other clauses are universal); bytes >= 0x80 inside names."
	rp.Trusted = []string{"go/types, go/ssa", "strings.SplitN / Join / Contains models", "C04 (parser transition system)"}
	parse := p.Func("dependency", "Parse")
	strFn := p.Method("dependency", "Dependency", "String")
	fld := rp.Rule("C05-FIELDS", "every field the parser writes is read by the renderer", 10)
	if parse == nil || strFn == nil {
		fld.bad("dependency.Parse/String", "", "anchor not found", nil)
		return
	}
	// written fields
	written := map[string]token_pos{}
	for _, f := range reachableRepoFuncs(parse) {
		if shortPkg(f) != "dependency" {
			continue
		}
		for _, b := range f.Blocks {
			for _, ins := range b.Instrs {
				if st, ok := ins.(*ssa.Store); ok {
					if fa, ok := st.Addr.(*ssa.FieldAddr); ok {
						if n, ok := derefNamed(fa.X.Type()); ok && n.Obj().Pkg() != nil && strings.HasSuffix(n.Obj().Pkg().Path(), "/dependency") && n.Obj().Exported() {
							s := derefStruct(fa.X.Type())
							written[n.Obj().Name()+"."+s.Field(fa.Field).Name()] = token_pos{p.Pos(st.Pos())}
						}
					}
				}
			}
		}
	}
	read := map[string]bool{}
	for _, f := range reachableRepoFuncs(strFn) {
		for _, b := range f.Blocks {
			for _, ins := range b.Instrs {
				var t types.Type
				var idx int
				switch x := ins.(type) {
				case *ssa.Field:
					t, idx = x.X.Type(), x.Field
				case *ssa.FieldAddr:
					t, idx = x.X.Type(), x.Field
				default:
					continue
				}
				if n, ok := derefNamed(t); ok {
					if s := derefStruct(t); s != nil {
						read[n.Obj().Name()+"."+s.Field(idx).Name()] = true
					}
				}
			}
		}
	}
	var ws []string
	for k := range written {
		ws = append(ws, k)
	}
	sort.Strings(ws)
	for _, k := range ws {
		fld.check(read[k], "dependency."+k, written[k].s, "written by the parser, read by the renderer", "the parser stores into this field but no String method reads it: two parse results differing only here render alike")
	}

	// C05-BYTES
	by := rp.Rule("C05-BYTES", "input bytes are copied, never re-encoded", 1)
	{
		// (a) on the parser transition system: a conversion integer -> string (or []rune -> string) of an input
		// symbol whose class contains a byte >= 0x80 is a re-encoding; (b) a concrete probe with such bytes.
		pmB, whyB := buildParserModel(p)
		if pmB != nil && len(pmB.undec) == 0 {
			if w, bad := pmB.events["int-to-string"]; bad {
				by.bad("dependency.parser", p.Pos(parse.Pos()), fmt.Sprintf("an input byte >= 0x80 is converted through its code point (string(b) / string([]rune{...})): it becomes two bytes, and every render/parse cycle doubles it again (input starting %q)", w), nil)
			} else {
				by.ok("dependency.parser", p.Pos(parse.Pos()), "on the parser transition system no input symbol that can be a byte >= 0x80 is converted to a string through its code point")
			}
		} else {
			if pmB != nil {
				whyB = pmB.undec[0]
			}
			probe := "f\xe9\xffo:a\xe9y (>= 1\xe9) [a\xe9 b] <p\xe9>, ${v\xe9r}"
			m := NewMachine(p, nil)
			installStringModels(m)
			installFuncModels(m)
			installUnicodeModels(m)
			st := initState(m, "dependency")
			st.push(parse, []Val{probe}, nil)
			out := m.Run(st)
			if len(out) != 1 || out[0].Status != stRet {
				by.undecided("dependency.parser", p.Pos(parse.Pos()), "parser transition system: "+whyB+"; concrete probe: "+retDesc(out))
			} else {
				r := deepRender(st, st.Ret, 0)
				okAll := true
				for _, frag := range []string{`"f\xe9\xffo"`, `"a\xe9y"`, `"1\xe9"`, `"p\xe9"`, `"v\xe9r"`} {
					if !strings.Contains(r, frag) {
						okAll = false
					}
				}
				by.check(okAll, "dependency.parser", p.Pos(parse.Pos()), "(bounded: the parser left the transition-system model) a probe with bytes >= 0x80 in every token kind parses to tokens holding exactly those bytes", "bytes >= 0x80 of the input do not arrive unchanged in the parsed tokens: "+clip(r, 300))
			}
		}
	}

	// C05-NOEMPTY (from the parser model)
	ne := rp.Rule("C05-NOEMPTY", "the parser stores nothing that renders to nothing", 1)
	pm, why := buildParserModel(p)
	if pm == nil || len(pm.undec) > 0 {
		if pm != nil {
			why = pm.undec[0]
		}
		b := parserBounded(p)
		if b.undecided != "" {
			ne.undecided("dependency.Parse", p.Pos(parse.Pos()), "parser transition system: "+why+"; bounded exploration: "+b.undecided)
		} else {
			fillProblems(ne, "dependency.Parse", p.Pos(parse.Pos()), b.noempty, fmt.Sprintf("(bounded: the parser left the transition-system model) %d accepted grammar words and every string of up to 3 bytes over the parser's punctuation (%d): no relation without alternatives, no empty profile group or architecture list is stored", b.nClass["valid"], b.nSweep))
		}
	} else {
		n := 0
		var evs []string
		for e := range pm.events {
			evs = append(evs, e)
		}
		sort.Strings(evs)
		for _, e := range evs {
			if strings.HasPrefix(e, "empty-list-pushed:") || (strings.HasPrefix(e, "empty-name-pushed:") && !strings.Contains(e, "Possibility")) {
				n++
				ne.bad(e, p.Pos(parse.Pos()), fmt.Sprintf("an entry that renders to nothing is stored, e.g. after reading %q: the rendering parses to a different structure", pm.events[e]), nil)
			}
		}
		if n == 0 {
			ne.ok("dependency.Parse", p.Pos(parse.Pos()), fmt.Sprintf("%d automaton states: no relation without alternatives, no empty profile group, no profile without a name is stored", pm.nodes))
		}
	}

	// a parsed value keeps rendering the same: later decodes into the same variable do not reach into it
	al := rp.Rule("C05-ALIAS", "a decoded dependency is not changed by later decodes into the variable it was copied from", 1)
	if rp2, und := receiverReuse(p); und != "" {
		al.undecided("dependency.Dependency.UnmarshalControl", p.Pos(parse.Pos()), und)
	} else {
		fillProblems(al, "dependency.Dependency.UnmarshalControl", p.Pos(parse.Pos()), rp2, "decode, copy, decode again: the copy is unchanged and the variable holds exactly the second value")
	}
	c05Arch(p, rp)
	c05Fixpoint(p, rp)
}

type token_pos struct{ s string }

// c05ArchList: ParseArchitectures on blank separated lists equals ParseArch element by element.
func c05ArchList(p *Prog, r *Rule) {
	pl := p.Func("dependency", "ParseArchitectures")
	pa := p.Func("dependency", "ParseArch")
	if pl == nil || pa == nil {
		return
	}
	m := NewMachine(p, nil)
	var problems []string
	for _, tc := range []struct {
		text  string
		elems []string
	}{{"amd64", []string{"amd64"}}, {"amd64 i386  linux-any", []string{"amd64", "i386", "linux-any"}}, {" any-arm64\n musl-linux-arm\t", []string{"any-arm64", "musl-linux-arm"}}, {"", nil}, {"  ", nil}, {"all", []string{"all"}}} {
		st := initState(m, "dependency")
		st.push(pl, []Val{tc.text}, nil)
		out := m.Run(st)
		if len(out) != 1 || out[0].Status != stRet {
			problems = append(problems, "undecided: ParseArchitectures: "+retDesc(out))
			break
		}
		tv, _ := st.Ret.(*TupleV)
		if tv == nil || len(tv.E) != 2 {
			problems = append(problems, "undecided: unexpected result shape")
			break
		}
		if _, errNil := tv.E[1].(nilV); !errNil {
			problems = append(problems, fmt.Sprintf("ParseArchitectures(%q) fails", tc.text))
			continue
		}
		elems, _, _ := m.sliceElems(st, tv.E[0])
		var want []string
		for _, e := range tc.elems {
			st2 := initState(m, "dependency")
			st2.push(pa, []Val{e}, nil)
			o2 := m.Run(st2)
			if len(o2) != 1 || o2[0].Status != stRet {
				problems = append(problems, "undecided: ParseArch: "+retDesc(o2))
				break
			}
			want = append(want, strings.TrimPrefix(deepRender(st2, st2.Ret.(*TupleV).E[0], 0), "&"))
		}
		var got []string
		for _, e := range elems {
			got = append(got, deepRender(st, e, 0))
		}
		if strings.Join(got, " ") != strings.Join(want, " ") {
			problems = append(problems, fmt.Sprintf("ParseArchitectures(%q) = %v, element by element ParseArch gives %v", tc.text, got, want))
		}
	}
	fillProblems(r, "dependency.ParseArchitectures", p.Pos(pl.Pos()), problems, "6 blank separated lists (single, several blanks, folded, empty) parse to the architectures of their elements")
}

func c05Arch(p *Prog, rp *Report) {
	r := rp.Rule("C05-ARCH", "architecture names survive parse / render / parse", 2)
	c05ArchList(p, r)
	pa := p.Func("dependency", "ParseArch")
	um := p.Method("dependency", "Arch", "UnmarshalControl")
	as := p.Method("dependency", "Arch", "String")
	archT := p.Named("dependency", "Arch")
	if pa == nil || um == nil || as == nil || archT == nil {
		r.bad("dependency.Arch", "", "anchor not found", nil)
		return
	}
	comps := []string{"any", "all", "gnu", "linux", "x", "y"}
	var names []string
	for _, a := range comps {
		names = append(names, a)
		for _, b := range comps {
			names = append(names, a+"-"+b)
			for _, c := range comps {
				names = append(names, a+"-"+b+"-"+c, a+"-"+b+"-"+c+"-z")
			}
		}
	}
	// names with an empty component (accepted or not, what is accepted has to survive)
	names = append(names, "-", "--", "x-", "-x", "gnu-linux-", "gnu--amd64", "-linux-amd64", "any-any-", "x--", "--x", "linux-", "-amd64")
	m := depMachine(p)
	parseVia := func(entry string, name string) (string, string) {
		st := initState(m, "dependency")
		if entry == "ParseArch" {
			st.push(pa, []Val{name}, nil)
			out := m.Run(st)
			if len(out) != 1 || out[0].Status != stRet {
				return "", "undecided: " + retDesc(out)
			}
			tv := st.Ret.(*TupleV)
			if _, ok := tv.E[1].(nilV); !ok {
				return "", "error"
			}
			lv, _ := st.load(tv.E[0].(Ptr))
			sv := lv.(*StructV)
			return fmt.Sprintf("%v/%v/%v", sv.F[0], sv.F[1], sv.F[2]), ""
		}
		id := st.alloc(archT, zeroVal(archT))
		st.push(um, []Val{Ptr{Obj: id}, name}, nil)
		out := m.Run(st)
		if len(out) != 1 || out[0].Status != stRet {
			return "", "undecided: " + retDesc(out)
		}
		if _, ok := st.Ret.(nilV); !ok {
			return "", "error"
		}
		sv := st.Heap[id].V.(*StructV)
		return fmt.Sprintf("%v/%v/%v", sv.F[0], sv.F[1], sv.F[2]), ""
	}
	render := func(triple string) (string, string) {
		parts := strings.Split(triple, "/")
		st := initState(m, "dependency")
		st.push(as, []Val{mkStruct(archT, map[string]Val{"ABI": parts[0], "OS": parts[1], "CPU": parts[2]})}, nil)
		out := m.Run(st)
		if len(out) != 1 || out[0].Status != stRet {
			return "", "undecided: " + retDesc(out)
		}
		s, ok := st.Ret.(string)
		if !ok {
			return "", "undecided: non-string rendering"
		}
		return s, ""
	}
	for _, entry := range []string{"ParseArch", "UnmarshalControl"} {
		var problems []string
		for _, n := range names {
			t1, err := parseVia(entry, n)
			if err != "" {
				problems = append(problems, fmt.Sprintf("%q: %s", n, err))
				continue
			}
			s, err := render(t1)
			if err != "" {
				problems = append(problems, err)
				continue
			}
			t2, err := parseVia(entry, s)
			if err != "" {
				problems = append(problems, fmt.Sprintf("%q renders as %q, which does not parse: %s", n, s, err))
				continue
			}
			if t1 != t2 {
				problems = append(problems, fmt.Sprintf("%q parses to %s, renders as %q, which parses to %s", n, t1, s, t2))
			}
		}
		fillProblems(r, "dependency.Arch:"+entry, p.Pos(as.Pos()), problems, fmt.Sprintf("%d names (1 to 4 components over any, all, gnu, linux, x, y): the (abi, os, cpu) triple is a fixpoint of render then parse", len(names)))
	}
}

func c05Fixpoint(p *Prog, rp *Report) {
	r := rp.Rule("C05-FIXPOINT", "render then parse reproduces the parsed structure on a generated family of fields", 1)
	parse := p.Func("dependency", "Parse")
	strFn := p.Method("dependency", "Dependency", "String")
	m := depMachine(p)
	parseStr := func(s string) (*State, Val, string) {
		st := initState(m, "dependency")
		st.push(parse, []Val{s}, nil)
		out := m.Run(st)
		if len(out) != 1 || out[0].Status != stRet {
			return nil, nil, "undecided: " + retDesc(out)
		}
		tv := st.Ret.(*TupleV)
		if _, ok := tv.E[1].(nilV); !ok {
			return nil, nil, "rejected"
		}
		return st, tv.E[0], ""
	}
	quals := []string{"", ":any", ":amd64", ":linux-any", ":gnu-kfreebsd-amd64"}
	vers := []string{"", " (>= 1.0)", "(<< 2:1.2~rc1-3)", " ( = 0.5 )", " (>>1)"}
	archs := []string{"", " [amd64]", " [amd64 i386]", " [!amd64 !linux-any]", " [ any-arm64\tmusl-linux-arm ]"}
	stages := []string{"", " <stage1>", " <!cross stage1> <!nocheck>", " < a  b >"}
	var alts []string
	for _, q := range quals {
		for _, v := range vers {
			for _, a := range archs {
				for _, s := range stages {
					alts = append(alts, "pkg-a"+q+v+a+s, "lib+b.c"+q+a+v+s)
				}
			}
		}
	}
	alts = append(alts, "${misc:Depends}", "${shlibs:Depends} ", "x")
	var fields []string
	fields = append(fields, alts...)
	for i := 0; i+2 < len(alts); i += 7 {
		fields = append(fields, alts[i]+" | "+alts[i+1]+"|"+alts[i+2], alts[i]+",\n "+alts[i+1]+" ,"+alts[i+2]+",", " "+alts[i]+" |\t${v} , "+alts[i+2])
	}
	fields = append(fields, "", " ", "a,,b", "a, ,b", "foo |", "| foo", "|", "foo <>", "a (>= 1)[amd64]<x>")
	// whatever else the parser may choose to accept has to survive the round trip as well
	for _, sv := range []string{"${perl:Depends}", "${v}"} {
		for _, rest := range []string{" (>= 5.30)", "(= 1)", " [amd64]", " [!amd64 !i386]", " <stage1>", ":any", " (>= 1) [amd64] <p>"} {
			fields = append(fields, sv+rest, sv+rest+", perl", "a | "+sv+rest)
		}
	}
	fields = append(fields, "foo (< 1.0)", "foo (> 1.0)", "foo (<1)", "foo (>1)", "foo (== 1)", "foo (!= 1)", "foo(>=1)", "foo [amd64] [i386]", "foo <a> [amd64] (>= 1)", "foo:any:amd64", "foo [amd64 !i386]")
	// clauses that are present but empty (accepted or not, the answer has to survive rendering)
	// bytes that are white space to strings.Fields / unicode.IsSpace but not to the parser stay inside their token
	fields = append(fields, "lib\u00a0foo (>= 1.0)", "foo\vbar", "a\fb | c", "x\u0085y [amd64]", "foo (>= 1\u00a02)", "foo [amd\u00a064]", "foo <a\vb>", "foo:amd\f64", "\u2003foo")
	// architecture names with an empty component, as qualifier and in a list
	fields = append(fields, "foo:gnu-linux-", "foo [gnu-linux-]", "foo [gnu-linux- amd64]", "foo [!gnu-linux-]", "foo [x-]", "foo [-]", "foo:-", "foo:x-", "foo:-x", "foo [any-any-]", "foo:gnu--")
	fields = append(fields, "foo (>= )", "foo (>=)", "foo ( = )", "foo (<< ) [amd64]", "foo ()", "foo ( )", "foo []", "foo [ ]", "foo [!]", "foo < >", "foo <> <a>", "foo (>= 1 )", "foo ( >= 1)", "foo (>= ) | bar (<< )", "${}", "${ }", "foo:any ()")
	var problems []string
	n, accepted := 0, 0
	for _, f := range fields {
		n++
		st1, d1, err := parseStr(f)
		if strings.HasPrefix(err, "undecided") {
			problems = append(problems, err)
			break
		}
		if err != "" {
			continue // not accepted: nothing to round-trip
		}
		accepted++
		a := dumpDep(p, st1, d1)
		// render
		dv, _ := st1.load(d1.(Ptr))
		st1.Status = stRun
		st1.push(strFn, []Val{cloneVal(dv)}, nil)
		out := m.Run(st1)
		if len(out) != 1 || out[0].Status != stRet {
			problems = append(problems, "undecided: rendering "+retDesc(out))
			break
		}
		rendered, ok := st1.Ret.(string)
		if !ok {
			problems = append(problems, "undecided: non-string rendering")
			break
		}
		// rendering is a query: the parsed value is the same before and after
		if after := dumpDep(p, st1, d1); after != a {
			problems = append(problems, fmt.Sprintf("rendering the value parsed from %q changes it: %s became %s", f, a, after))
			continue
		}
		// the rendering is parsed in the state the first parse left behind (scratch buffers handed back to a pool,
		// caches): a parser keeps nothing from one call to the next, and the first result stays what it was
		st1.Status = stRun
		st1.Frames = nil
		st1.push(parse, []Val{rendered}, nil)
		out = m.Run(st1)
		if len(out) != 1 || out[0].Status != stRet {
			problems = append(problems, "undecided: parsing the rendering "+retDesc(out))
			break
		}
		tv2 := st1.Ret.(*TupleV)
		if _, ok := tv2.E[1].(nilV); !ok {
			problems = append(problems, fmt.Sprintf("%q is accepted and renders as %q, which is rejected", f, rendered))
			continue
		}
		st2, d2 := st1, tv2.E[0]
		b := dumpDep(p, st2, d2)
		if a != b {
			problems = append(problems, fmt.Sprintf("%q parses to %s, renders as %q, which (parsed next) parses to %s", f, a, rendered, b))
		}
		if again := dumpDep(p, st1, d1); again != a {
			problems = append(problems, fmt.Sprintf("the value parsed from %q changes when the next field is parsed: %s became %s", f, a, again))
		}
	}
	for _, pr := range longNameRows(p) {
		n++
		problems = append(problems, pr)
	}
	// a long field written compactly (no blanks after the commas): its rendering, which has them, is longer, and is
	// accepted all the same (Policy sets no maximum length; real Depends lines of metapackages run to tens of
	// kilobytes)
	if rp.Tier == "thorough" { // a minute and a half of interpretation: not on every change
		var names []string
		for i := 0; i < 9200; i++ {
			names = append(names, fmt.Sprintf("p%05d", i))
		}
		fields = nil
		compact := strings.Join(names, ",")
		m.StepLimit = 50000000
		st1, d1, err := parseStr(compact)
		n++
		switch {
		case strings.HasPrefix(err, "undecided"):
			problems = append(problems, err)
		case err != "":
			problems = append(problems, fmt.Sprintf("a field of %d bytes (9200 names separated by commas) is rejected", len(compact)))
		default:
			dv, _ := st1.load(d1.(Ptr))
			st1.Status = stRun
			st1.Frames = nil
			st1.push(strFn, []Val{cloneVal(dv)}, nil)
			out := m.Run(st1)
			if len(out) != 1 || out[0].Status != stRet {
				problems = append(problems, "undecided: rendering the long field "+retDesc(out))
			} else if rendered, ok := st1.Ret.(string); ok {
				if _, _, err := parseStr(rendered); err != "" {
					problems = append(problems, fmt.Sprintf("a field of %d bytes is accepted and renders as %d bytes, which is %s", len(compact), len(rendered), err))
				}
			}
		}
	}
	rp.Extra["fixpoint_fields"] = n
	rp.Extra["fixpoint_accepted"] = accepted
	fillProblems(r, "dependency.Dependency.String", p.Pos(strFn.Pos()), problems, fmt.Sprintf("%d generated fields, %d accepted: each rendering is accepted and parses to a structurally identical value", n, accepted))
}

// longNameRows: names of every length are names. Lengths that are multiples of a likely chunk or buffer size (16, 32,
// 64, 128, 256 bytes) and one byte to either side, as package, architecture and profile names: the field is
// accepted and the names come back whole.
func longNameRows(p *Prog) []string {
	parse := p.Func("dependency", "Parse")
	if parse == nil {
		return []string{"undecided: dependency.Parse not found"}
	}
	m := depMachine(p)
	var problems []string
	for _, k := range []int{15, 16, 17, 31, 32, 33, 63, 64, 65, 127, 128, 129, 255, 256, 257} {
		long := strings.Repeat("libboost-program-options1.74-dev", 9)[:k]
		plain := strings.Repeat("amd64x", 50)[:k] // no hyphen: one component of an architecture name
		f := "first, " + long + " (>= 1.74.0) [" + plain + "] <" + plain + "> | alt, last"
		st := initState(m, "dependency")
		st.push(parse, []Val{f}, nil)
		out := m.Run(st)
		if len(out) != 1 || out[0].Status != stRet {
			return append(problems, "undecided: "+retDesc(out))
		}
		tv := st.Ret.(*TupleV)
		if _, ok := tv.E[1].(nilV); !ok {
			problems = append(problems, fmt.Sprintf("a field with a %d byte package, architecture and profile name is rejected", k))
			continue
		}
		d := dumpDep(p, st, tv.E[0])
		var names []string
		for _, g := range regexp.MustCompile(`name=([^ }]+)`).FindAllStringSubmatch(d, -1) {
			names = append(names, g[1])
		}
		if want := "first," + long + ",alt,last"; strings.Join(names, ",") != want {
			problems = append(problems, fmt.Sprintf("a field whose second package name is %d bytes long parses to the names %v, want first, that name, alt, last", k, names))
		} else if strings.Count(d, plain) < 2 {
			problems = append(problems, fmt.Sprintf("a %d byte name used as architecture and as profile name does not come back twice: %s", k, clip(d, 300)))
		}
	}
	return problems
}
