package main

// Bounded fallback for the version comparator: when the run comparator leaves
// the tape model (it slices prefixes out of its operands, counts digit runs,
// consumes the operands out of lock step), it is interpreted on exact pairs of
// strings instead and compared in sign with the dpkg reference.

import (
	"strings"
	"fmt"

	"gdsa/refs/dpkgorder"

	"golang.org/x/tools/go/ssa"
)

type cmpBounded struct {
	pairs     int
	problems  []string
	undecided string
}

var cmpBoundedCache = map[*ssa.Function]*cmpBounded{}

func comparatorBounded(p *Prog, impl *ssa.Function) *cmpBounded {
	if r, ok := cmpBoundedCache[impl]; ok {
		return r
	}
	res := &cmpBounded{}
	cmpBoundedCache[impl] = res
	m := NewMachine(p, nil)
	installStringModels(m)
	installFuncModels(m)
	installUnicodeModels(m)
	m.StepLimit = 100000
	base := initState(m, "version")
	if base.Status == stStuck {
		res.undecided = base.Msg
		return res
	}
	// every string of up to 3 bytes over one representative per class of dpkg's order, and digits that
	// exercise leading zeros and run lengths
	sigma := []byte("01a~+")
	var short []string
	var gen func(prefix string, n int)
	gen = func(prefix string, n int) {
		short = append(short, prefix)
		if n == 0 {
			return
		}
		for _, c := range sigma {
			gen(prefix+string(c), n-1)
		}
	}
	gen("", 3)
	long := []string{"", "0", "00", "1", "01", "001", "10", "9", "09", "99", "100", "0100", "1.1", "1.10", "1.9", "1.09", "1.010", "1.0", "1.00", "1.0.0",
		"a9", "a10", "a010", "1~rc1", "1~~", "1~", "1", "1+b1", "1a", "1.", "1-1", "1:1", "2.30", "2.4", "1.2.3", "1.2.10", "12345678901234567890", "12345678901234567891", "9999999999", "10000000000",
		"z", "Z", "a.", "a+", "a-", "a:", "a~", "a0",
		// digit runs beyond the machine integers: a comparator must not compute with their values
		"10000000000000000000", "20000000000000000000", "28446744073709551616", "18446744073709551616", "18446744073709551615",
		"9223372036854775807", "9223372036854775808", "19223372036854775808", "99999999999999999999", "00000000000000000001",
		"1.20000000000000000000", "1.10000000000000000000", "123456789012345678901234567890", "123456789012345678901234567891", "223456789012345678901234567890"}
	run := func(a, b string) bool {
		res.pairs++
		st := base.Clone()
		st.Status = stRun
		st.push(impl, []Val{a, b}, nil)
		out := m.Run(st)
		if len(out) != 1 {
			res.undecided = fmt.Sprintf("comparing %q with %q: %d paths", a, b, len(out))
			return false
		}
		switch out[0].Status {
		case stPanic:
			res.problems = append(res.problems, fmt.Sprintf("the comparator panics on %q vs %q: %s", a, b, out[0].Msg))
			return len(res.problems) < 10
		case stRet:
			got, ok := out[0].Ret.(int64)
			if !ok {
				res.undecided = fmt.Sprintf("comparing %q with %q: non-integer result", a, b)
				return false
			}
			if want := dpkgorder.Verrevcmp(a, b); sign(got) != sign(int64(want)) {
				res.problems = append(res.problems, fmt.Sprintf("comparing %q with %q gives sign %d but dpkg's algorithm gives %d", a, b, sign(got), sign(int64(want))))
				return len(res.problems) < 10
			}
			return true
		}
		if out[0].Notes["nonterm"] {
			res.problems = append(res.problems, fmt.Sprintf("the comparator does not terminate on %q vs %q", a, b))
			return len(res.problems) < 10
		}
		res.undecided = fmt.Sprintf("comparing %q with %q: %s", a, b, out[0].Msg)
		return false
	}
	for _, a := range long {
		for _, b := range long {
			if !run(a, b) {
				return res
			}
		}
	}
	for _, a := range short {
		for _, b := range short {
			if !run(a, b) {
				return res
			}
		}
	}
	return res
}

// compareWhole: bounded check of version.Compare itself (used when no separate run comparator can be
// located in it): pairs of versions whose upstream parts run through the family of comparatorBounded, and
// every combination of two epochs, two upstream parts and three revisions for the composition.
// compareLimits: Compare, interpreted as a whole on exact versions, on parts far longer than any plausible buffer
// or cap and on digit runs beyond 32 and 64 bits: Policy and dpkg bound neither.
func compareLimits(p *Prog) *cmpBounded {
	return compareFamily(p, true)
}

func compareWhole(p *Prog) *cmpBounded {
	return compareFamily(p, false)
}

func compareFamily(p *Prog, limits bool) *cmpBounded {
	res := &cmpBounded{}
	fn := p.Func("version", "Compare")
	vt := p.Named("version", "Version")
	if fn == nil || vt == nil {
		res.undecided = "version.Compare not found"
		return res
	}
	m := NewMachine(p, nil)
	m.StepLimit = 100000
	base := initState(m, "version")
	if base.Status == stStuck {
		res.undecided = base.Msg
		return res
	}
	type ver struct {
		epoch    int64
		up, rev string
	}
	ref := func(x, y ver) int {
		if x.epoch != y.epoch {
			if x.epoch < y.epoch {
				return -1
			}
			return 1
		}
		if c := dpkgorder.Verrevcmp(x.up, y.up); c != 0 {
			return c
		}
		return dpkgorder.Verrevcmp(x.rev, y.rev)
	}
	run := func(a, b ver) bool {
		res.pairs++
		st := base.Clone()
		st.Status = stRun
		mk := func(v ver) Val {
			return mkStruct(vt, map[string]Val{"Epoch": v.epoch, "Version": v.up, "Revision": v.rev})
		}
		st.push(fn, []Val{mk(a), mk(b)}, nil)
		out := m.Run(st)
		if len(out) != 1 {
			res.undecided = fmt.Sprintf("Compare(%v, %v): %d paths", a, b, len(out))
			return false
		}
		switch out[0].Status {
		case stPanic:
			res.problems = append(res.problems, fmt.Sprintf("Compare panics on %v vs %v: %s", a, b, out[0].Msg))
			return len(res.problems) < 10
		case stRet:
			got, ok := out[0].Ret.(int64)
			if !ok {
				res.undecided = "non-integer result of Compare"
				return false
			}
			if want := ref(a, b); sign(got) != sign(int64(want)) {
				res.problems = append(res.problems, fmt.Sprintf("Compare(%v, %v) has sign %d but dpkg's order gives %d", a, b, sign(got), sign(int64(want))))
				return len(res.problems) < 10
			}
			return true
		}
		if out[0].Notes["nonterm"] {
			res.problems = append(res.problems, fmt.Sprintf("Compare does not terminate on %v vs %v", a, b))
			return len(res.problems) < 10
		}
		res.undecided = fmt.Sprintf("Compare(%v, %v): %s", a, b, out[0].Msg)
		return false
	}
	if limits {
		lead := "1." + strings.Repeat("0.", 150)
		tail := strings.Repeat("a", 300)
		parts := []string{lead + "1", lead + "2", lead + "1~rc1", lead + "1+b1", lead + "9", lead + "10", tail + "a", tail + "b", tail, tail + "~",
			"18446744073709551615", "18446744073709551616", "18446744073709551617", "18446744073709551616+b1", "99999999999999999999999", "100000000000000000000000", "00000000000000000000001", "1",
			"2147483647", "2147483648", "4294967295", "4294967296", "4294967297", "3000000000", "20221231235959", "20240101120000", "9223372036854775807", "9223372036854775808"}
		for _, a := range parts {
			for _, b := range parts {
				if !run(ver{0, a, ""}, ver{0, b, ""}) || !run(ver{0, "1.0", a}, ver{0, "1.0", b}) {
					return res
				}
			}
		}
		return res
	}
	sigma := []byte("01a~+")
	var short []string
	var gen func(prefix string, n int)
	gen = func(prefix string, n int) {
		short = append(short, prefix)
		if n == 0 {
			return
		}
		for _, c := range sigma {
			gen(prefix+string(c), n-1)
		}
	}
	gen("", 3)
	long := []string{"", "0", "00", "1", "01", "10", "9", "09", "100", "1.1", "1.10", "1.9", "1.09", "1.0", "1.00", "a9", "a10", "1~rc1", "1~~", "1~", "1+b1", "1a", "1.", "1-1", "1:1", "2.30", "2.4",
		"12345678901234567890", "12345678901234567891", "10000000000000000000", "20000000000000000000", "28446744073709551616", "18446744073709551616", "9223372036854775808", "z", "Z", "a.", "a+", "a-", "a~"}
	for _, a := range long {
		for _, b := range long {
			if !run(ver{0, a, ""}, ver{0, b, ""}) || !run(ver{0, "1", a}, ver{0, "1", b}) {
				return res
			}
		}
	}
	for _, a := range short {
		for _, b := range short {
			if !run(ver{0, a, ""}, ver{0, b, ""}) {
				return res
			}
		}
	}
	var vs []ver
	for _, e := range []int64{0, 1} {
		for _, u := range []string{"1.0", "1.00", "2"} {
			for _, r := range []string{"", "1", "2"} {
				vs = append(vs, ver{e, u, r})
			}
		}
	}
	for _, a := range vs {
		for _, b := range vs {
			if !run(a, b) {
				return res
			}
		}
	}
	return res
}
