package main

// Static pre-analyses used by the abstract interpreter: liveness of SSA values
// and discovery of "cursor" values (integers used only as positions in a tape).

import (
	"go/constant"
	"go/token"
	"go/types"

	"golang.org/x/tools/go/ssa"
)

type liveInfo struct {
	in  map[*ssa.BasicBlock]map[ssa.Value]bool
	out map[*ssa.BasicBlock]map[ssa.Value]bool
	idx map[ssa.Value]int // stable numbering of values in the function
}

func isTracked(v ssa.Value) bool {
	switch v.(type) {
	case *ssa.Const, *ssa.Function, *ssa.Global, *ssa.Builtin:
		return false
	case nil:
		return false
	}
	return true
}

func computeLive(fn *ssa.Function) *liveInfo {
	li := &liveInfo{in: map[*ssa.BasicBlock]map[ssa.Value]bool{}, out: map[*ssa.BasicBlock]map[ssa.Value]bool{}, idx: map[ssa.Value]int{}}
	n := 0
	for _, p := range fn.Params {
		li.idx[p] = n
		n++
	}
	for _, p := range fn.FreeVars {
		li.idx[p] = n
		n++
	}
	for _, b := range fn.Blocks {
		for _, ins := range b.Instrs {
			if v, ok := ins.(ssa.Value); ok {
				li.idx[v] = n
				n++
			}
		}
	}
	for _, b := range fn.Blocks {
		li.in[b] = map[ssa.Value]bool{}
		li.out[b] = map[ssa.Value]bool{}
	}
	changed := true
	for changed {
		changed = false
		for i := len(fn.Blocks) - 1; i >= 0; i-- {
			b := fn.Blocks[i]
			out := li.out[b]
			for _, s := range b.Succs {
				// index of b among s.Preds (first occurrence is enough for liveness: add all matching)
				for v := range li.in[s] {
					if ph, ok := v.(*ssa.Phi); ok && ph.Block() == s {
						continue
					}
					if !out[v] {
						out[v] = true
						changed = true
					}
				}
				for _, ins := range s.Instrs {
					ph, ok := ins.(*ssa.Phi)
					if !ok {
						break
					}
					for pi, pred := range s.Preds {
						if pred == b {
							e := ph.Edges[pi]
							if isTracked(e) && !out[e] {
								out[e] = true
								changed = true
							}
						}
					}
				}
			}
			// in = use ∪ (out − def), computed backwards
			cur := map[ssa.Value]bool{}
			for v := range out {
				cur[v] = true
			}
			for k := len(b.Instrs) - 1; k >= 0; k-- {
				ins := b.Instrs[k]
				if v, ok := ins.(ssa.Value); ok {
					delete(cur, v)
				}
				if _, isPhi := ins.(*ssa.Phi); isPhi {
					// phi operands are uses on the edges, not here; the phi itself is
					// defined at block entry, keep it in 'in' as a marker
					continue
				}
				for _, op := range ins.Operands(nil) {
					if *op != nil && isTracked(*op) {
						cur[*op] = true
					}
				}
			}
			// phis defined in this block are "live-in" markers (their value exists at entry after phi evaluation)
			in := li.in[b]
			for v := range cur {
				if !in[v] {
					in[v] = true
					changed = true
				}
			}
		}
	}
	return li
}

// liveBefore returns the values live just before instruction pc of block b
// (phis of b count as already defined when pc is past them).
func (li *liveInfo) liveBefore(b *ssa.BasicBlock, pc int) map[ssa.Value]bool {
	cur := map[ssa.Value]bool{}
	for v := range li.out[b] {
		cur[v] = true
	}
	for k := len(b.Instrs) - 1; k >= pc; k-- {
		ins := b.Instrs[k]
		if v, ok := ins.(ssa.Value); ok {
			delete(cur, v)
		}
		if _, isPhi := ins.(*ssa.Phi); isPhi {
			continue
		}
		for _, op := range ins.Operands(nil) {
			if *op != nil && isTracked(*op) {
				cur[*op] = true
			}
		}
	}
	return cur
}

// ---------------------------------------------------------------------------
// cursor discovery

type fieldCursor struct {
	Cur int // field index holding the position
	Str int // field index holding the string
}

type cursorInfo struct {
	reg     map[ssa.Value]ssa.Value // cursor register -> string register it indexes
	fields  map[*types.Struct]fieldCursor
	forward bool // every update in every web is "+ positive constant"
	other   []string
	views   map[ssa.Value]bool // string registers that hold a moving suffix view (s = s[k:], s = TrimLeft(s, ...))
}

func derefStruct(t types.Type) *types.Struct {
	if p, ok := t.Underlying().(*types.Pointer); ok {
		t = p.Elem()
	}
	s, _ := t.Underlying().(*types.Struct)
	return s
}

// fieldLoad recognises `*(&base.f)` and returns the struct type and field index.
func fieldLoad(v ssa.Value) (*types.Struct, int, ssa.Value, bool) {
	u, ok := v.(*ssa.UnOp)
	if !ok || u.Op != token.MUL {
		return nil, 0, nil, false
	}
	fa, ok := u.X.(*ssa.FieldAddr)
	if !ok {
		return nil, 0, nil, false
	}
	st := derefStruct(fa.X.Type())
	if st == nil {
		return nil, 0, nil, false
	}
	return st, fa.Field, fa.X, true
}

func isLenOf(v ssa.Value) (ssa.Value, bool) {
	c, ok := v.(*ssa.Call)
	if !ok {
		return nil, false
	}
	b, ok := c.Call.Value.(*ssa.Builtin)
	if !ok || b.Name() != "len" || len(c.Call.Args) != 1 {
		return nil, false
	}
	if bt, ok := c.Call.Args[0].Type().Underlying().(*types.Basic); !ok || bt.Info()&types.IsString == 0 {
		return nil, false
	}
	return c.Call.Args[0], true
}

func computeCursors(fns []*ssa.Function) *cursorInfo {
	ci := &cursorInfo{reg: map[ssa.Value]ssa.Value{}, fields: map[*types.Struct]fieldCursor{}, forward: true}
	var tie func(v ssa.Value, root ssa.Value, depth int)
	tie = func(v ssa.Value, root ssa.Value, depth int) {
		if depth > 50 || v == nil {
			return
		}
		if _, seen := ci.reg[v]; seen {
			return
		}
		switch x := v.(type) {
		case *ssa.Const:
			return
		case *ssa.Phi:
			ci.reg[v] = root
			for _, e := range x.Edges {
				tie(e, root, depth+1)
			}
		case *ssa.BinOp:
			if x.Op == token.ADD || x.Op == token.SUB {
				if c, ok := x.Y.(*ssa.Const); ok && c.Value != nil && c.Value.Kind() == constant.Int {
					n, _ := constant.Int64Val(c.Value)
					if x.Op == token.SUB {
						n = -n
					}
					if n < 0 {
						ci.forward = false
					}
					ci.reg[v] = root
					tie(x.X, root, depth+1)
					return
				}
			}
			ci.other = append(ci.other, "cursor computed by "+x.String())
			ci.forward = false
		case *ssa.Parameter:
			ci.reg[v] = root
		case *ssa.UnOp:
			if st, fi, _, ok := fieldLoad(v); ok {
				if rst, rfi, _, ok2 := fieldLoad(root); ok2 && rst == st {
					ci.fields[st] = fieldCursor{Cur: fi, Str: rfi}
				}
			}
			ci.reg[v] = root // the loaded position lives in a register until it is used
		default:
			ci.reg[v] = root
		}
	}
	for _, fn := range fns {
		for _, b := range fn.Blocks {
			for _, ins := range b.Instrs {
				switch x := ins.(type) {
				case *ssa.Index:
					if bt, ok := x.X.Type().Underlying().(*types.Basic); ok && bt.Info()&types.IsString != 0 {
						tie(x.Index, x.X, 0)
					}
				case *ssa.BinOp:
					if root, ok := isLenOf(x.Y); ok {
						tie(x.X, root, 0)
					} else if root, ok := isLenOf(x.X); ok {
						tie(x.Y, root, 0)
					}
				}
			}
		}
	}
	// stores to cursor fields must be "+ positive const" of a load of the same field
	for _, fn := range fns {
		for _, b := range fn.Blocks {
			for _, ins := range b.Instrs {
				st, ok := ins.(*ssa.Store)
				if !ok {
					continue
				}
				fa, ok := st.Addr.(*ssa.FieldAddr)
				if !ok {
					continue
				}
				s := derefStruct(fa.X.Type())
				fc, has := ci.fields[s]
				if s == nil || !has || fc.Cur != fa.Field {
					continue
				}
				okFwd := false
				if bo, ok := st.Val.(*ssa.BinOp); ok && bo.Op == token.ADD {
					if c, ok := bo.Y.(*ssa.Const); ok && c.Value != nil {
						if n, exact := constant.Int64Val(c.Value); exact && n > 0 {
							if s2, f2, _, ok := fieldLoad(bo.X); ok && s2 == s && f2 == fa.Field {
								okFwd = true
							}
						}
					}
				}
				if c, ok := st.Val.(*ssa.Const); ok && c.Value != nil {
					okFwd = true // initialisation
				}
				if !okFwd {
					ci.forward = false
					ci.other = append(ci.other, "cursor field stored from "+st.Val.String())
				}
			}
		}
	}
	// suffix views: strings produced by s[k:] or by a trimming call, and the phis they flow into
	ci.views = map[ssa.Value]bool{}
	isStr := func(t types.Type) bool {
		b, ok := t.Underlying().(*types.Basic)
		return ok && b.Info()&types.IsString != 0
	}
	for changed := true; changed; {
		changed = false
		mark := func(v ssa.Value) {
			if !ci.views[v] {
				ci.views[v] = true
				changed = true
			}
		}
		for _, fn := range fns {
			for _, b := range fn.Blocks {
				for _, ins := range b.Instrs {
					switch x := ins.(type) {
					case *ssa.Slice:
						if isStr(x.X.Type()) && x.High == nil {
							mark(x)
						}
					case *ssa.Call:
						if c := x.Call.StaticCallee(); c != nil && isStr(x.Type()) {
							switch c.String() {
							case "strings.TrimLeft", "strings.TrimPrefix", "strings.TrimLeftFunc":
								mark(x)
							}
						}
					case *ssa.Phi:
						if isStr(x.Type()) {
							for _, e := range x.Edges {
								if ci.views[e] {
									mark(x)
								}
							}
						}
					}
				}
			}
		}
	}
	return ci
}

// readFields: for every struct type, the fields that fns load (through a
// field address, or a Field instruction on a loaded struct value).
func readFields(fns []*ssa.Function) map[*types.Struct]map[int]bool {
	out := map[*types.Struct]map[int]bool{}
	mark := func(s *types.Struct, i int) {
		if s == nil {
			return
		}
		if out[s] == nil {
			out[s] = map[int]bool{}
		}
		out[s][i] = true
	}
	for _, fn := range fns {
		for _, b := range fn.Blocks {
			for _, ins := range b.Instrs {
				switch x := ins.(type) {
				case *ssa.Field:
					if s, ok := x.X.Type().Underlying().(*types.Struct); ok {
						mark(s, x.Field)
					}
				case *ssa.FieldAddr:
					s := derefStruct(x.X.Type())
					// a field address is a read unless it is only stored to
					onlyStored := true
					for _, r := range *x.Referrers() {
						if st, ok := r.(*ssa.Store); ok && st.Addr == x {
							continue
						}
						if _, ok := r.(*ssa.DebugRef); ok {
							continue
						}
						onlyStored = false
					}
					if !onlyStored {
						mark(s, x.Field)
					}
				}
			}
		}
	}
	return out
}
