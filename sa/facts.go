package main

// Facts: helpers over the type-checked program and its SSA form shared by the
// structural rules.

import (
	"go/constant"
	"go/token"
	"go/types"
	"reflect"
	"sort"
	"strings"

	"golang.org/x/tools/go/ssa"
)

// calleeName returns a stable name for the static callee of a call
// ("strings.HasPrefix", "(*bufio.Reader).ReadString", "pault.ag/go/debian/version.Parse"),
// or "" for dynamic calls.
func calleeName(c *ssa.CallCommon) string {
	if c.IsInvoke() {
		return "invoke:" + c.Method.Name()
	}
	if f := c.StaticCallee(); f != nil {
		return f.String()
	}
	if b, ok := c.Value.(*ssa.Builtin); ok {
		return "builtin:" + b.Name()
	}
	return ""
}

// allCalls lists call instructions (Call, Defer, Go) of fn.
func allCalls(fn *ssa.Function) []ssa.CallInstruction {
	var out []ssa.CallInstruction
	for _, b := range fn.Blocks {
		for _, ins := range b.Instrs {
			if c, ok := ins.(ssa.CallInstruction); ok {
				out = append(out, c)
			}
		}
	}
	return out
}

// callsNamed lists calls in fn whose static callee has one of the given names.
func callsNamed(fn *ssa.Function, names ...string) []*ssa.Call {
	var out []*ssa.Call
	for _, c := range allCalls(fn) {
		call, ok := c.(*ssa.Call)
		if !ok {
			continue
		}
		n := calleeName(call.Common())
		for _, w := range names {
			if n == w {
				out = append(out, call)
			}
		}
	}
	return out
}

func constString(v ssa.Value) (string, bool) {
	c, ok := v.(*ssa.Const)
	if !ok || c.Value == nil || c.Value.Kind() != constant.String {
		return "", false
	}
	return constant.StringVal(c.Value), true
}

func constInt(v ssa.Value) (int64, bool) {
	c, ok := v.(*ssa.Const)
	if !ok || c.Value == nil || c.Value.Kind() != constant.Int {
		return 0, false
	}
	n, exact := constant.Int64Val(c.Value)
	return n, exact
}

// tagInfo is the decoded struct tag of one document field.
type tagInfo struct {
	GoName    string
	Wire      string
	Delim     string
	HasDelim  bool
	Strip     string
	Required  bool
	Multiline bool
	Type      types.Type
	Skip      bool
	Embedded  bool
}

func fieldTags(s *types.Struct) []tagInfo {
	var out []tagInfo
	for i := 0; i < s.NumFields(); i++ {
		f := s.Field(i)
		tag := reflect.StructTag(s.Tag(i))
		ti := tagInfo{GoName: f.Name(), Wire: f.Name(), Type: f.Type(), Embedded: f.Embedded()}
		if v := tag.Get("control"); v != "" {
			ti.Wire = v
		}
		if ti.Wire == "-" {
			ti.Skip = true
		}
		if v, ok := tag.Lookup("delim"); ok && v != "" {
			ti.Delim, ti.HasDelim = v, true
		}
		ti.Strip = tag.Get("strip")
		ti.Required = tag.Get("required") == "true"
		ti.Multiline = tag.Get("multiline") == "true"
		out = append(out, ti)
	}
	return out
}

// typeName renders pkgshort.Name for named types, else the type string.
func typeName(t types.Type) string {
	switch x := t.(type) {
	case *types.Named:
		if x.Obj().Pkg() != nil {
			return strings.TrimPrefix(x.Obj().Pkg().Path(), repoModule+"/") + "." + x.Obj().Name()
		}
		return x.Obj().Name()
	case *types.Slice:
		return "[]" + typeName(x.Elem())
	case *types.Pointer:
		return "*" + typeName(x.Elem())
	}
	return t.String()
}

// ---- post-dominators ----------------------------------------------------------

type postDom struct {
	fn   *ssa.Function
	pdom map[*ssa.BasicBlock]map[*ssa.BasicBlock]bool // pdom[b] = set of blocks post-dominating b (incl. b)
}

// exits are blocks ending in Return or Panic.
func isExit(b *ssa.BasicBlock) bool {
	if len(b.Instrs) == 0 {
		return false
	}
	switch b.Instrs[len(b.Instrs)-1].(type) {
	case *ssa.Return, *ssa.Panic:
		return true
	}
	return false
}

// reachableFrom returns the set of blocks reachable from b (inclusive).
func reachableFrom(b *ssa.BasicBlock) map[*ssa.BasicBlock]bool {
	seen := map[*ssa.BasicBlock]bool{}
	var walk func(x *ssa.BasicBlock)
	walk = func(x *ssa.BasicBlock) {
		if seen[x] {
			return
		}
		seen[x] = true
		for _, s := range x.Succs {
			walk(s)
		}
	}
	walk(b)
	return seen
}

// returnsReachable lists the Return instructions reachable from block b.
func returnsReachable(b *ssa.BasicBlock) []*ssa.Return {
	var out []*ssa.Return
	var blocks []*ssa.BasicBlock
	for x := range reachableFrom(b) {
		blocks = append(blocks, x)
	}
	sort.Slice(blocks, func(i, j int) bool { return blocks[i].Index < blocks[j].Index })
	for _, x := range blocks {
		if len(x.Instrs) > 0 {
			if r, ok := x.Instrs[len(x.Instrs)-1].(*ssa.Return); ok {
				out = append(out, r)
			}
		}
	}
	return out
}

// isNilConst reports whether v is the nil constant.
func isNilConst(v ssa.Value) bool {
	c, ok := v.(*ssa.Const)
	return ok && c.Value == nil
}

// errResultIndex returns the index of the (last) error result of fn, or -1.
func errResultIndex(sig *types.Signature) int {
	n := sig.Results().Len()
	if n == 0 {
		return -1
	}
	t := sig.Results().At(n - 1).Type()
	if types.Identical(t, types.Universe.Lookup("error").Type()) {
		return n - 1
	}
	return -1
}

// errStatus classifies the error operand of a Return: "nil", "nonnil", "maybe".
// A value is non-nil if it is the result of errors.New / fmt.Errorf / a
// MakeInterface, or a phi of such; nil if the nil constant.
func errStatus(v ssa.Value, nonNil map[ssa.Value]bool, depth int) string {
	if depth > 20 {
		return "maybe"
	}
	if isNilConst(v) {
		return "nil"
	}
	if nonNil != nil && nonNil[v] {
		return "nonnil"
	}
	switch x := v.(type) {
	case *ssa.MakeInterface:
		return "nonnil"
	case *ssa.Call:
		switch calleeName(x.Common()) {
		case "errors.New", "fmt.Errorf":
			return "nonnil"
		}
	case *ssa.Global:
		// io.EOF, io.ErrUnexpectedEOF ... package-level error variables are non-nil
		return "nonnil"
	case *ssa.UnOp:
		if x.Op == token.MUL {
			if _, ok := x.X.(*ssa.Global); ok {
				return "nonnil"
			}
		}
	case *ssa.Phi:
		st := ""
		for _, e := range x.Edges {
			s := errStatus(e, nonNil, depth+1)
			if st == "" {
				st = s
			} else if st != s {
				return "maybe"
			}
		}
		return st
	}
	return "maybe"
}

// branchFacts: for an If on `x != nil` / `x == nil`, returns x and which
// successor index has x non-nil.
func nilTest(cond ssa.Value) (ssa.Value, int, bool) {
	b, ok := cond.(*ssa.BinOp)
	if !ok || (b.Op != token.NEQ && b.Op != token.EQL) {
		return nil, 0, false
	}
	var x ssa.Value
	switch {
	case isNilConst(b.Y):
		x = b.X
	case isNilConst(b.X):
		x = b.Y
	default:
		return nil, 0, false
	}
	if b.Op == token.NEQ {
		return x, 0, true // succ[0] (then) has x != nil
	}
	return x, 1, true
}

// knownNonNilAt computes, for a block, which values are known non-nil there
// because a dominating branch tested them (edge-sensitive: the block must be
// dominated by the successor on the non-nil side, and that successor must have
// the If block as its only predecessor).
func knownNonNilAt(blk *ssa.BasicBlock) map[ssa.Value]bool {
	out := map[ssa.Value]bool{}
	for _, b := range blk.Parent().Blocks {
		if len(b.Instrs) == 0 {
			continue
		}
		ifi, ok := b.Instrs[len(b.Instrs)-1].(*ssa.If)
		if !ok {
			continue
		}
		x, side, ok := nilTest(ifi.Cond)
		if !ok {
			continue
		}
		succ := b.Succs[side]
		if len(succ.Preds) == 1 && succ.Dominates(blk) {
			out[x] = true
		}
	}
	return out
}

// knownNilAt: values known to be nil at blk.
func knownNilAt(blk *ssa.BasicBlock) map[ssa.Value]bool {
	out := map[ssa.Value]bool{}
	for _, b := range blk.Parent().Blocks {
		if len(b.Instrs) == 0 {
			continue
		}
		ifi, ok := b.Instrs[len(b.Instrs)-1].(*ssa.If)
		if !ok {
			continue
		}
		x, side, ok := nilTest(ifi.Cond)
		if !ok {
			continue
		}
		succ := b.Succs[1-side]
		if len(succ.Preds) == 1 && succ.Dominates(blk) {
			out[x] = true
		}
	}
	return out
}

var derivSeen map[ssa.Value]bool

// derivesFrom reports whether v is computed from src through the given
// permitted instruction kinds only (a light-weight backward slice).
func derivesFrom(v ssa.Value, pred func(ssa.Value) bool, depth int) bool {
	if depth == 0 {
		derivSeen = map[ssa.Value]bool{}
	}
	if depth > 30 || v == nil {
		return false
	}
	if derivSeen[v] {
		return false
	}
	derivSeen[v] = true
	if pred(v) {
		return true
	}
	switch x := v.(type) {
	case *ssa.Phi:
		for _, e := range x.Edges {
			if derivesFrom(e, pred, depth+1) {
				return true
			}
		}
	case *ssa.BinOp:
		return derivesFrom(x.X, pred, depth+1) || derivesFrom(x.Y, pred, depth+1)
	case *ssa.UnOp:
		return derivesFrom(x.X, pred, depth+1)
	case *ssa.Convert:
		return derivesFrom(x.X, pred, depth+1)
	case *ssa.ChangeType:
		return derivesFrom(x.X, pred, depth+1)
	case *ssa.MakeInterface:
		return derivesFrom(x.X, pred, depth+1)
	case *ssa.Slice:
		return derivesFrom(x.X, pred, depth+1)
	case *ssa.Field:
		return derivesFrom(x.X, pred, depth+1)
	case *ssa.FieldAddr:
		return derivesFrom(x.X, pred, depth+1)
	case *ssa.IndexAddr:
		return derivesFrom(x.X, pred, depth+1)
	case *ssa.Index:
		return derivesFrom(x.X, pred, depth+1)
	case *ssa.Extract:
		return derivesFrom(x.Tuple, pred, depth+1)
	case *ssa.Call:
		for _, a := range x.Call.Args {
			if derivesFrom(a, pred, depth+1) {
				return true
			}
		}
		if !x.Call.IsInvoke() {
			if _, isFn := x.Call.Value.(*ssa.Function); !isFn {
				if _, isB := x.Call.Value.(*ssa.Builtin); !isB {
					return derivesFrom(x.Call.Value, pred, depth+1)
				}
			}
		} else {
			return derivesFrom(x.Call.Value, pred, depth+1)
		}
	case *ssa.Alloc:
		// values stored into the cell or into its elements / fields
		var stores func(addr ssa.Value, d int) bool
		stores = func(addr ssa.Value, d int) bool {
			if d > 4 {
				return false
			}
			for _, r := range *addr.Referrers() {
				switch y := r.(type) {
				case *ssa.Store:
					if y.Addr == addr && derivesFrom(y.Val, pred, depth+1) {
						return true
					}
				case *ssa.IndexAddr:
					if y.X == addr && stores(y, d+1) {
						return true
					}
				case *ssa.FieldAddr:
					if y.X == addr && stores(y, d+1) {
						return true
					}
				}
			}
			return false
		}
		if stores(x, 0) {
			return true
		}
	}
	return false
}

// everyPathPasses reports whether every path from the entry of fn to target
// passes through one of the blocks in `through`.
func everyPathPasses(fn *ssa.Function, through map[*ssa.BasicBlock]bool, target *ssa.BasicBlock) bool {
	if through[target] {
		return true
	}
	seen := map[*ssa.BasicBlock]bool{}
	var walk func(b *ssa.BasicBlock) bool // true if target reachable avoiding `through`
	walk = func(b *ssa.BasicBlock) bool {
		if through[b] || seen[b] {
			return false
		}
		seen[b] = true
		if b == target {
			return true
		}
		for _, s := range b.Succs {
			if walk(s) {
				return true
			}
		}
		return false
	}
	return !walk(fn.Blocks[0])
}

// roleField returns the name of the field of struct type n that plays a role identified by its type
// (rendered with full package paths, e.g. "*bufio.Reader", "io.Writer", "int64"): the only field of that
// type, or else the field with the conventional name if it exists. Unexported field names are not part of
// any contract, so the checks find such fields by type.
func roleField(n *types.Named, typeStr, conventional string) string {
	s := structOf(n)
	if s == nil {
		return conventional
	}
	var hits []string
	for i := 0; i < s.NumFields(); i++ {
		if types.TypeString(s.Field(i).Type(), nil) == typeStr {
			hits = append(hits, s.Field(i).Name())
		}
	}
	if len(hits) == 1 {
		return hits[0]
	}
	for _, h := range hits {
		if h == conventional {
			return h
		}
	}
	if fieldIndex(s, conventional) >= 0 {
		return conventional
	}
	if len(hits) > 0 {
		return hits[0]
	}
	return conventional
}
