package main

// The abstract SSA interpreter. See interp_vals.go for the value domain.

import (
	"fmt"
	"go/constant"
	"go/token"
	"go/types"
	"sort"
	"strings"
	"unicode/utf8"

	"golang.org/x/tools/go/ssa"
)

const (
	stRun = iota
	stRet
	stBlocked // needs the symbol at (NeedT, NeedPos)
	stStuck   // unmodelled operation: undecided
	stPanic   // the interpreted code panics
	stMerged  // identical to a state already explored (only with MergeAtRange)
)

const symEND = -1

type Tape struct {
	Base int   // absolute position of Syms[0]
	Syms []int // revealed symbols; symEND only as last element
}

func (t *Tape) endAbs() (int, bool) {
	if n := len(t.Syms); n > 0 && t.Syms[n-1] == symEND {
		return t.Base + n - 1, true
	}
	return 0, false
}

type HObj struct {
	T types.Type
	V Val
}

type Frame struct {
	StoreRet *Ptr // when set, the value this frame returns is also kept (boxed in a one-element tuple) in that cell
	Fn     *ssa.Function
	Blk    *ssa.BasicBlock
	PC     int
	Prev   *ssa.BasicBlock
	Regs   map[ssa.Value]Val
	Defers []deferred
}

type deferred struct {
	Site *ssa.Defer
	Recv Val
	Fn   Val // the function value, evaluated at the defer statement (closures)
	Args []Val
}

type State struct {
	InitMark    int    // objects with a smaller id were allocated by the package initialisers: package-level state
	GlobalWrite string // the first store of this run into such an object ("" = none)
	OnceDepth   int    // > 0: a once-initialiser of a package-level sync.Once is running from this frame depth on
	Owned       map[int]bool // large init-time objects (tables) are shared between states until written: those this state has copied
	Frames  []*Frame
	Heap    map[int]*HObj
	next    int
	Tapes   []*Tape
	Status  int
	Ret     Val
	NeedT   int
	NeedP   int
	Msg     string
	Steps   int
	Trace   []string // revealed symbols so far, for witnesses (not part of the key)
	Notes   map[string]bool
	Path    []string // decided atoms ("<atom>=T/F") of forks on named conditions
	Globals map[*ssa.Global]int
	Effects []string // ordered side effects recorded by hooks
}

type HookFn func(m *Machine, st *State, call *ssa.CallCommon, args []Val) (alts []Val, handled bool)

type Machine struct {
	orderFree  map[*ssa.Range]bool // range-over-map loops proven independent of the iteration order
	PeekRest   func(st *State) string // for (*bufio.Reader).Peek of the line-reader oracle: the unread rest of the input
	inInit     bool // package initialisers are running: their writes to package-level variables are the initial state
	P          *Prog
	Alpha      *Alphabet
	Hooks      map[string]HookFn
	AbsAppend  bool
	MaxExact   int
	StepLimit  int
	Curs       *cursorInfo
	live       map[*ssa.Function]*liveInfo
	fnIdx      map[*ssa.Function]int
	InvokeHook func(m *Machine, st *State, call *ssa.CallCommon, recv Val, args []Val) ([]Val, bool)
	OnAppend   func(st *State, site ssa.Instruction, slice Val, elems []Val)
	OnStore    func(st *State, site *ssa.Store, addr Ptr, v Val)
	skipInit   func(fn *ssa.Function) bool
	// MergeAtRange: before forking over the iteration orders of a map, drop the state when an
	// identical one (canonical key, effects) has already reached the same instruction in this Run.
	MergeAtRange  bool
	Base          *State             // when set, NewState starts from a copy of this state (package initialisers interpreted)
	RangeCover    map[*ssa.Range]int // largest map each range instruction was interpreted on
	rangeSeen     map[string]bool
	AltFilter     func(st *State, v Val) Val     // applied to the alternative a fork takes
	OpaqueEq      func(a, b string) (eq, known bool) // equality of two opaque tokens, when the scenario knows it
	CycleCheck    bool                           // exact runs: the same state at the same place twice is non-termination (scripted-reader scenarios)
	SampleOrders  bool                           // range over a map too large to enumerate: fork three orders (see *ssa.Range)
	ExtGlobals    map[string]Val                 // values of package-level variables outside the repository (io.EOF, ...)
	NoExactConcat bool                           // tape mode: string concatenation keeps only emptiness
	ReadFields    map[*types.Struct]map[int]bool // when set: struct fields never read by the interpreted code are ignored in state keys
	OnConcat      func(st *State, site *ssa.BinOp, a, b Val)
	Stuck         map[string]int
}

func NewMachine(p *Prog, alpha *Alphabet) *Machine {
	m := &Machine{P: p, Alpha: alpha, Hooks: map[string]HookFn{}, MaxExact: 3, StepLimit: 200000,
		live: map[*ssa.Function]*liveInfo{}, fnIdx: map[*ssa.Function]int{}, Stuck: map[string]int{}}
	if alpha == nil {
		// exact mode: every pure library function with a model is available
		installStringModels(m)
		installFuncModels(m)
		installUnicodeModels(m)
		m.Hooks["fmt.Sprintf"] = sprintfModel
	}
	return m
}

func (m *Machine) liveOf(fn *ssa.Function) *liveInfo {
	li := m.live[fn]
	if li == nil {
		li = computeLive(fn)
		m.live[fn] = li
		m.fnIdx[fn] = len(m.fnIdx)
	}
	return li
}

// keyEqual compares a map key that may contain input-class symbols with a stored key.
func (m *Machine) keyEqual(a, b Val) (eq, decided bool) {
	switch x := a.(type) {
	case *ArrayV:
		y, ok := b.(*ArrayV)
		if !ok || len(x.E) != len(y.E) {
			return false, ok
		}
		eq = true
		for i := range x.E {
			e, d := m.keyEqual(x.E[i], y.E[i])
			if !d {
				return false, false
			}
			eq = eq && e
		}
		return eq, true
	case *StructV:
		y, ok := b.(*StructV)
		if !ok || len(x.F) != len(y.F) {
			return false, ok
		}
		eq = true
		for i := range x.F {
			e, d := m.keyEqual(x.F[i], y.F[i])
			if !d {
				return false, false
			}
			eq = eq && e
		}
		return eq, true
	case string, int64, bool:
		switch y := b.(type) {
		case string, int64, bool:
			return x == y, true
		case SymV:
			return m.keyEqual(y, x)
		}
		return false, false
	case SymV:
		if m.Alpha == nil || x.C < 0 || x.C >= len(m.Alpha.Members) {
			return false, false
		}
		switch y := b.(type) {
		case int64:
			in := false
			for _, mb := range m.Alpha.Members[x.C] {
				if int64(mb) == y {
					in = true
				}
			}
			if !in {
				return false, true
			}
			return true, len(m.Alpha.Members[x.C]) == 1
		case SymV:
			if x.C != y.C {
				return false, true
			}
			return true, len(m.Alpha.Members[x.C]) == 1
		}
	}
	return false, false
}

func (m *Machine) NewState(fn *ssa.Function, args []Val, ntapes int) *State {
	st := &State{Heap: map[int]*HObj{}, Notes: map[string]bool{}}
	if m.Base != nil {
		// package-level variables as the interpreted package initialisers left them (lookup tables, ...)
		st = m.Base.Clone()
		st.Status = stRun
		st.Frames = nil
	}
	for i := 0; i < ntapes; i++ {
		st.Tapes = append(st.Tapes, &Tape{})
	}
	st.push(fn, args, nil)
	return st
}

func (st *State) push(fn *ssa.Function, args []Val, bind []Val) {
	fr := &Frame{Fn: fn, Blk: fn.Blocks[0], Regs: map[ssa.Value]Val{}}
	for i, p := range fn.Params {
		fr.Regs[p] = args[i]
	}
	for i, fv := range fn.FreeVars {
		fr.Regs[fv] = bind[i]
	}
	st.Frames = append(st.Frames, fr)
}

func (st *State) top() *Frame { return st.Frames[len(st.Frames)-1] }

func (st *State) Clone() *State {
	n := &State{InitMark: st.InitMark, GlobalWrite: st.GlobalWrite, OnceDepth: st.OnceDepth, next: st.next, Status: st.Status, Ret: cloneVal(st.Ret), NeedT: st.NeedT, NeedP: st.NeedP, Msg: st.Msg, Steps: st.Steps}
	n.Heap = make(map[int]*HObj, len(st.Heap))
	for k, o := range st.Heap {
		if k < st.InitMark && !st.Owned[k] && bigTable(o.V) {
			n.Heap[k] = o // copy on write (own)
			continue
		}
		n.Heap[k] = &HObj{T: o.T, V: cloneVal(o.V)}
	}
	if len(st.Owned) > 0 {
		n.Owned = make(map[int]bool, len(st.Owned))
		for k := range st.Owned {
			n.Owned[k] = true
		}
	}
	for _, t := range st.Tapes {
		n.Tapes = append(n.Tapes, &Tape{Base: t.Base, Syms: append([]int(nil), t.Syms...)})
	}
	for _, f := range st.Frames {
		nf := &Frame{StoreRet: f.StoreRet, Fn: f.Fn, Blk: f.Blk, PC: f.PC, Prev: f.Prev, Regs: make(map[ssa.Value]Val, len(f.Regs)), Defers: append([]deferred(nil), f.Defers...)}
		for k, v := range f.Regs {
			nf.Regs[k] = cloneVal(v)
		}
		n.Frames = append(n.Frames, nf)
	}
	n.Trace = append([]string(nil), st.Trace...)
	n.Path = append([]string(nil), st.Path...)
	n.Effects = append([]string(nil), st.Effects...)
	if st.Globals != nil {
		n.Globals = make(map[*ssa.Global]int, len(st.Globals))
		for k, v := range st.Globals {
			n.Globals[k] = v
		}
	}
	n.Notes = make(map[string]bool, len(st.Notes))
	for k := range st.Notes {
		n.Notes[k] = true
	}
	return n
}

func (st *State) stuck(format string, a ...interface{}) {
	st.Status = stStuck
	st.Msg = fmt.Sprintf(format, a...)
}

func (st *State) alloc(t types.Type, v Val) int {
	st.next++
	st.Heap[st.next] = &HObj{T: t, V: v}
	return st.next
}

// ---- heap access -----------------------------------------------------------

func splitPath(p string) []int {
	if p == "" {
		return nil
	}
	parts := strings.Split(p, "/")
	out := make([]int, len(parts))
	for i, s := range parts {
		fmt.Sscan(s, &out[i])
	}
	return out
}

func (st *State) load(p Ptr) (Val, bool) {
	o := st.Heap[p.Obj]
	if o == nil {
		return nil, false
	}
	v := o.V
	for _, i := range splitPath(p.Path) {
		switch x := v.(type) {
		case *StructV:
			if i >= len(x.F) {
				return nil, false
			}
			v = x.F[i]
		case *ArrayV:
			if i >= len(x.E) {
				return nil, false
			}
			v = x.E[i]
		default:
			return nil, false
		}
	}
	return v, true
}

// bigTable: lookup tables worth sharing between states.
func bigTable(v Val) bool {
	switch x := v.(type) {
	case *ArrayV:
		return len(x.E) > 32
	case *MapObjV:
		return len(x.K) > 16
	}
	return false
}

// own gives the state its private copy of a shared init-time table before it is written.
func (st *State) own(obj int) {
	if obj >= st.InitMark || st.Owned[obj] {
		return
	}
	if o := st.Heap[obj]; o != nil && bigTable(o.V) {
		st.Heap[obj] = &HObj{T: o.T, V: cloneVal(o.V)}
		if st.Owned == nil {
			st.Owned = map[int]bool{}
		}
		st.Owned[obj] = true
	}
}

// noteGlobalWrite records a write into an object that exists since package initialisation.
func (st *State) noteGlobalWrite(obj int) {
	if st.InitMark == 0 || st.GlobalWrite != "" {
		return
	}
	if st.OnceDepth > 0 {
		if len(st.Frames) >= st.OnceDepth {
			return // inside a once-initialiser
		}
		st.OnceDepth = 0
	}
	for g, id := range st.Globals {
		if id == obj && g.Pkg != nil && strings.HasPrefix(g.Pkg.Pkg.Path(), repoModule) {
			st.GlobalWrite = g.Pkg.Pkg.Name() + "." + g.Name()
			return
		}
	}
	if obj < st.InitMark {
		st.GlobalWrite = fmt.Sprintf("an object allocated by a package initialiser (#%d)", obj)
		// name it after the package-level variable it is reachable from
		var names []string
		for g, id := range st.Globals {
			if g.Pkg == nil || !strings.HasPrefix(g.Pkg.Pkg.Path(), repoModule) {
				continue
			}
			seen := map[int]bool{}
			var reach func(id, depth int) bool
			reach = func(id, depth int) bool {
				if id == obj {
					return true
				}
				if seen[id] || depth > 6 {
					return false
				}
				seen[id] = true
				o := st.Heap[id]
				if o == nil {
					return false
				}
				var refs []int
				valRefs(o.V, &refs)
				for _, r := range refs {
					if reach(r, depth+1) {
						return true
					}
				}
				return false
			}
			if reach(id, 0) {
				names = append(names, g.Pkg.Pkg.Name()+"."+g.Name())
			}
		}
		if len(names) > 0 {
			sort.Strings(names)
			st.GlobalWrite = "the object " + names[0] + " points to"
		}
	}
}

func (st *State) store(p Ptr, nv Val) bool {
	st.own(p.Obj)
	o := st.Heap[p.Obj]
	if o == nil {
		return false
	}
	st.noteGlobalWrite(p.Obj)
	path := splitPath(p.Path)
	if len(path) == 0 {
		o.V = nv
		return true
	}
	v := o.V
	for k, i := range path {
		last := k == len(path)-1
		switch x := v.(type) {
		case *StructV:
			if i >= len(x.F) {
				return false
			}
			if last {
				x.F[i] = nv
				return true
			}
			v = x.F[i]
		case *ArrayV:
			if i >= len(x.E) {
				return false
			}
			if last {
				x.E[i] = nv
				return true
			}
			v = x.E[i]
		default:
			return false
		}
	}
	return false
}

// ---- tapes ---------------------------------------------------------------

// symAt returns the symbol at absolute position pos of tape t, or blocks.
func (st *State) symAt(t, pos int) (int, bool) {
	tp := st.Tapes[t]
	if e, ok := tp.endAbs(); ok && pos >= e {
		return symEND, true
	}
	if pos < tp.Base {
		// dropped symbols were all non-END; their identity is gone
		st.stuck("tape %d position %d read again after the window moved past it", t, pos)
		return 0, false
	}
	if pos-tp.Base < len(tp.Syms) {
		return tp.Syms[pos-tp.Base], true
	}
	st.Status = stBlocked
	st.NeedT = t
	st.NeedP = tp.Base + len(tp.Syms) // always reveal the next unrevealed position
	return 0, false
}

// isEndAt answers "pos >= len(tape)" and may block.
func (st *State) isEndAt(t, pos int) (bool, bool) {
	tp := st.Tapes[t]
	if e, ok := tp.endAbs(); ok {
		return pos >= e, true
	}
	if pos < tp.Base+len(tp.Syms) {
		return false, true // a revealed non-END position or one before the window
	}
	st.Status = stBlocked
	st.NeedT = t
	st.NeedP = tp.Base + len(tp.Syms)
	return false, false
}

// Reveal extends tape t by one symbol (must be the blocked position).
func (st *State) Reveal(sym int, name string) {
	tp := st.Tapes[st.NeedT]
	tp.Syms = append(tp.Syms, sym)
	st.Status = stRun
	st.Steps = 0
	st.Trace = append(st.Trace, fmt.Sprintf("%d:%s", st.NeedT, name))
}

// ---- evaluation --------------------------------------------------------------

func (m *Machine) constVal(c *ssa.Const) Val {
	if c.Value == nil {
		return zeroVal(c.Type())
	}
	switch c.Value.Kind() {
	case constant.Bool:
		return constant.BoolVal(c.Value)
	case constant.String:
		return constant.StringVal(c.Value)
	case constant.Int:
		n, ok := constant.Int64Val(c.Value)
		if !ok {
			u, _ := constant.Uint64Val(c.Value)
			return int64(u)
		}
		return n
	}
	return Unknown{Why: "const " + c.String()}
}

func (m *Machine) get(st *State, fr *Frame, v ssa.Value) Val {
	switch x := v.(type) {
	case *ssa.Const:
		return m.constVal(x)
	case *ssa.Function:
		return &FuncV{Fn: x}
	case *ssa.Builtin:
		return &FuncV{Fn: x}
	case *ssa.Global:
		if x.Pkg != nil && (strings.HasPrefix(x.Pkg.Pkg.Path(), repoModule) || strings.HasPrefix(x.Pkg.Pkg.Path(), "gdsa/")) && st.Globals != nil {
			id, ok := st.Globals[x]
			if !ok {
				et := x.Type().Underlying().(*types.Pointer).Elem()
				id = st.alloc(et, zeroVal(et))
				st.Globals[x] = id
			}
			return Ptr{Obj: id}
		}
		if ev, ok := m.ExtGlobals[x.String()]; ok {
			if st.Globals == nil {
				st.Globals = map[*ssa.Global]int{}
			}
			id, ok := st.Globals[x]
			if !ok {
				id = st.alloc(x.Type().Underlying().(*types.Pointer).Elem(), cloneVal(ev))
				st.Globals[x] = id
			}
			return Ptr{Obj: id}
		}
		return Unknown{Why: "global " + x.Name()}
	}
	if r, ok := fr.Regs[v]; ok {
		return r
	}
	st.stuck("read of undefined register %s in %s", v.Name(), fname(fr.Fn))
	return Unknown{Why: "undef"}
}

// Run executes st until every fork is returned, blocked, stuck or panicked.
// execCount / execPanics: how often each index, element-address and slice instruction was interpreted in
// this process, and the first panic message seen at an instruction (used by C18-BOUNDS as bounded evidence
// for sites that none of its proof idioms covers).
var blockCount = map[*ssa.BasicBlock]int{}   // how often each basic block was entered by any interpretation in this process
var nontermFns = map[*ssa.Function]string{} // functions in which a run exceeded the step limit
var execCount = map[ssa.Instruction]int{}
var execPanics = map[ssa.Instruction]string{}

// globalMutations collects, for exact-mode runs that start from an initialised state, the
// package-level variables of the repository whose (deep) value differs between the start and the
// end of a top-level run: name -> description. The Cnn-STATE rules report them.
var globalMutations = map[string]string{}

// nontermSeen counts the interpreted calls of this process (on exact inputs) that ran into the step limit. After a
// few of them further exact calls are not started: the loop that does not end is the finding, and every further
// scenario would only spend its whole step budget on it again.
// oracleProgress counts the input consumed from scripted readers (their position is not part of a State).
var oracleProgress int

var nontermSeen int
var nontermMsg string

func (m *Machine) Run(st *State) []*State {
	if m.Alpha == nil && nontermSeen >= 3 && st.Status == stRun {
		st.Status = stStuck
		st.Msg = nontermMsg + " (seen on earlier scenarios of this run; not interpreted again)"
		st.Notes["nonterm"] = true
		return []*State{st}
	}
	track := m.Alpha == nil && !m.inInit && st.InitMark > 0 && len(st.Frames) == 1 && st.Status == stRun && st.GlobalWrite == ""
	if !track {
		outs := mergeSame(m, m.run(st))
		if len(outs) == 1 && outs[0] != st {
			*st = *outs[0]
			outs[0] = st
		}
		return outs
	}
	entry := st.Frames[0].Fn
	outs := mergeSame(m, m.run(st))
	if len(outs) == 1 && outs[0] != st {
		// callers go on with the state they passed in
		*st = *outs[0]
		outs[0] = st
	}
	for _, o := range outs {
		if o.GlobalWrite != "" {
			if _, seen := globalMutations[o.GlobalWrite]; !seen {
				globalMutations[o.GlobalWrite] = fmt.Sprintf("interpreting %s stores into %s, which exists since package initialisation", fname(entry), o.GlobalWrite)
			}
			o.GlobalWrite = "" // reported once; later runs on this state are judged afresh
		}
	}
	return outs
}

func (m *Machine) run(st *State) []*State {
	var done []*State
	work := []*State{st}
	m.rangeSeen = map[string]bool{}
	for len(work) > 0 {
		s := work[len(work)-1]
		work = work[:len(work)-1]
		var seenKeys map[string]bool
		for s.Status == stRun {
			s.Steps++
			if m.CycleCheck && m.Alpha == nil && s.Steps%5000 == 0 && s.Steps >= 20000 {
				// an exact run is deterministic: the same state at the same place twice is a loop that never ends
				if seenKeys == nil {
					seenKeys = map[string]bool{}
				}
				fr := s.top()
				k := fmt.Sprintf("%p/%d/%d/%d|", fr.Blk, fr.PC, len(s.Frames), oracleProgress) + exactDigest(s)
				if seenKeys[k] {
					s.Status = stStuck
					s.Msg = fmt.Sprintf("NONTERMINATION: the same state is reached again in %s (a loop that changes nothing)", fname(fr.Fn))
					s.Notes["nonterm"] = true
					for _, f := range s.Frames {
						nontermFns[f.Fn] = s.Msg
					}
					nontermSeen++
					nontermMsg = s.Msg
					break
				}
				seenKeys[k] = true
			}
			if s.Steps > m.StepLimit {
				s.Status = stStuck
				s.Msg = fmt.Sprintf("NONTERMINATION: %d steps without consuming input in %s", m.StepLimit, fname(s.top().Fn))
				s.Notes["nonterm"] = true
				for _, fr := range s.Frames {
					nontermFns[fr.Fn] = s.Msg
				}
				if m.Alpha == nil {
					nontermSeen++
					nontermMsg = s.Msg
				}
				break
			}
			var cur ssa.Instruction
			if fr := s.top(); fr.PC < len(fr.Blk.Instrs) {
				if fr.PC == 0 {
					blockCount[fr.Blk]++
				}
				cur = fr.Blk.Instrs[fr.PC]
				switch cur.(type) {
				case *ssa.Index, *ssa.IndexAddr, *ssa.Slice:
					execCount[cur]++
				}
			}
			forks := m.step(s)
			if s.Status == stPanic && cur != nil {
				if _, seen := execPanics[cur]; !seen {
					execPanics[cur] = s.Msg
				}
			}
			work = append(work, forks...)
		}
		if s.Status == stStuck {
			m.Stuck[s.Msg]++
		}
		if s.Status == stMerged {
			continue
		}
		done = append(done, s)
		if len(done)+len(work) > maxPaths {
			// iteration orders of several maps multiplied, an oracle forking at every call, ...: undecided, before the
			// memory budget is
			over := st.Clone()
			over.Status = stStuck
			over.Msg = fmt.Sprintf("more than %d paths through one call (the iteration orders of several maps multiply)", maxPaths)
			m.Stuck[over.Msg]++
			return []*State{over}
		}
	}
	return done
}

// maxPaths bounds the paths of one interpreted call.
const maxPaths = 30000

func (m *Machine) step(st *State) (forks []*State) {
	fr := st.top()
	if fr.PC >= len(fr.Blk.Instrs) {
		st.stuck("fell off block")
		return nil
	}
	ins := fr.Blk.Instrs[fr.PC]
	set := func(v Val) {
		fr.Regs[ins.(ssa.Value)] = v
		fr.PC++
	}
	switch x := ins.(type) {
	case *ssa.DebugRef:
		fr.PC++
	case *ssa.Phi:
		// evaluate all phis of the block simultaneously
		idx := -1
		for i, p := range fr.Blk.Preds {
			if p == fr.Prev {
				idx = i
				break
			}
		}
		if idx < 0 {
			st.stuck("phi without predecessor")
			return nil
		}
		type pv struct {
			ph *ssa.Phi
			v  Val
		}
		var vals []pv
		k := fr.PC
		for k < len(fr.Blk.Instrs) {
			ph, ok := fr.Blk.Instrs[k].(*ssa.Phi)
			if !ok {
				break
			}
			vals = append(vals, pv{ph, cloneVal(m.get(st, fr, ph.Edges[idx]))})
			k++
		}
		for _, e := range vals {
			fr.Regs[e.ph] = e.v
		}
		fr.PC = k
	case *ssa.Jump:
		fr.Prev, fr.Blk, fr.PC = fr.Blk, fr.Blk.Succs[0], 0
	case *ssa.If:
		c := m.get(st, fr, x.Cond)
		switch b := c.(type) {
		case bool:
			i := 1
			if b {
				i = 0
			}
			fr.Prev, fr.Blk, fr.PC = fr.Blk, fr.Blk.Succs[i], 0
		case Unknown:
			// free atom: fork both ways
			other := st.Clone()
			ofr := other.top()
			ofr.Prev, ofr.Blk, ofr.PC = ofr.Blk, ofr.Blk.Succs[1], 0
			fr.Prev, fr.Blk, fr.PC = fr.Blk, fr.Blk.Succs[0], 0
			st.Notes["fork:"+m.P.Pos(x.Cond.Pos())] = true
			other.Notes["fork:"+m.P.Pos(x.Cond.Pos())] = true
			if b.Atom != "" {
				st.Path = append(st.Path, b.Atom+"=T")
				other.Path = append(other.Path, b.Atom+"=F")
			}
			return []*State{other}
		default:
			st.stuck("branch on %s", fmtVal(c, func(i int) string { return fmt.Sprint(i) }))
		}
	case *ssa.Return:
		var rv Val
		switch len(x.Results) {
		case 0:
			rv = nil
		case 1:
			rv = cloneVal(m.get(st, fr, x.Results[0]))
		default:
			t := &TupleV{}
			for _, r := range x.Results {
				t.E = append(t.E, cloneVal(m.get(st, fr, r)))
			}
			rv = t
		}
		if st.Status != stRun {
			return nil
		}
		if fr.StoreRet != nil {
			st.store(*fr.StoreRet, &TupleV{E: []Val{cloneVal(rv)}})
		}
		st.Frames = st.Frames[:len(st.Frames)-1]
		if len(st.Frames) == 0 {
			st.Status = stRet
			st.Ret = rv
			return nil
		}
		caller := st.top()
		call := caller.Blk.Instrs[caller.PC]
		if _, deferredCall := call.(*ssa.RunDefers); deferredCall {
			return nil // a deferred function returned: its results are dropped, the remaining defers run next
		}
		if cv, ok := call.(ssa.Value); ok {
			caller.Regs[cv] = rv
		}
		caller.PC++
	case *ssa.Panic:
		st.Status = stPanic
		st.Msg = "explicit panic at " + m.P.Pos(x.Pos())
	case *ssa.Defer:
		d := deferred{Site: x}
		if x.Call.IsInvoke() {
			d.Recv = m.get(st, fr, x.Call.Value)
		} else if _, isBuiltin := x.Call.Value.(*ssa.Builtin); !isBuiltin {
			d.Fn = m.get(st, fr, x.Call.Value)
		}
		for _, a := range x.Call.Args {
			d.Args = append(d.Args, m.get(st, fr, a))
		}
		fr.Defers = append(fr.Defers, d)
		fr.PC++
	case *ssa.RunDefers:
		// deferred calls, last first: library calls through hooks / opaque receivers; repository
		// functions and closures get a frame of their own, and this instruction is resumed when it returns
		for len(fr.Defers) > 0 {
			d := fr.Defers[len(fr.Defers)-1]
			fr.Defers = fr.Defers[:len(fr.Defers)-1]
			cc := &d.Site.Call
			if cc.IsInvoke() {
				if m.InvokeHook != nil {
					if _, handled := m.InvokeHook(m, st, cc, d.Recv, d.Args); handled {
						continue
					}
				}
				st.stuck("deferred interface call %s", cc.Method.Name())
				return nil
			}
			callee := cc.StaticCallee()
			var bind []Val
			if fv, ok := d.Fn.(*FuncV); ok {
				if f, ok := fv.Fn.(*ssa.Function); ok {
					callee, bind = f, fv.Bind
				}
			}
			if callee == nil {
				st.stuck("deferred dynamic call")
				return nil
			}
			if h, ok := m.Hooks[callee.String()]; ok {
				if _, handled := h(m, st, cc, d.Args); handled {
					if st.Status != stRun {
						return nil
					}
					continue
				}
			}
			if callee.Blocks != nil && inRepoOrRef(callee) && len(st.Frames) <= 64 {
				cargs := make([]Val, len(d.Args))
				for i, a := range d.Args {
					cargs[i] = cloneVal(a)
				}
				st.push(callee, cargs, bind)
				return nil // the Return of that frame comes back to this RunDefers
			}
			st.stuck("deferred call of unmodelled function %s", callee.String())
			return nil
		}
		fr.Defers = nil
		fr.PC++
	case *ssa.Alloc:
		et := x.Type().Underlying().(*types.Pointer).Elem()
		id := st.alloc(et, zeroVal(et))
		set(Ptr{Obj: id})
	case *ssa.Store:
		a := m.get(st, fr, x.Addr)
		v := cloneVal(m.get(st, fr, x.Val))
		p, ok := a.(Ptr)
		if !ok {
			if _, isnil := a.(nilV); isnil {
				st.Status = stPanic
				st.Msg = "nil pointer store at " + m.P.Pos(x.Pos())
				return nil
			}
			st.stuck("store through %T", a)
			return nil
		}
		if p.RO {
			st.stuck("store into a table slot selected by a class of input bytes")
			return nil
		}
		if m.OnStore != nil {
			m.OnStore(st, x, p, v)
		}
		if !st.store(p, v) {
			st.stuck("bad store path %v", p)
			return nil
		}
		fr.PC++
	case *ssa.UnOp:
		v := m.get(st, fr, x.X)
		switch x.Op {
		case token.MUL:
			p, ok := v.(Ptr)
			if !ok {
				if _, isnil := v.(nilV); isnil {
					st.Status = stPanic
					st.Msg = "nil pointer dereference at " + m.P.Pos(x.Pos())
					return nil
				}
				if _, unk := v.(Unknown); unk {
					set(Unknown{Why: "load through unknown"})
					return nil
				}
				st.stuck("load through %T", v)
				return nil
			}
			lv, ok := st.load(p)
			if !ok {
				st.stuck("bad load path %v", p)
				return nil
			}
			set(cloneVal(lv))
		case token.NOT:
			switch b := v.(type) {
			case bool:
				set(!b)
			case Unknown:
				if b.Atom != "" {
					b.Atom = "!(" + b.Atom + ")"
				}
				set(b)
			default:
				st.stuck("! of %T", v)
			}
		case token.SUB:
			switch b := v.(type) {
			case int64:
				set(-b)
			case Unknown:
				set(b)
			default:
				st.stuck("- of %T", v)
			}
		default:
			st.stuck("unop %s", x.Op)
		}
	case *ssa.BinOp:
		a := m.get(st, fr, x.X)
		b := m.get(st, fr, x.Y)
		if st.Status != stRun {
			return nil
		}
		if m.OnConcat != nil && x.Op == token.ADD && isStringT(x.Type()) {
			m.OnConcat(st, x, a, b)
		}
		if oa, isO := a.(OpaqueV); isO && m.OpaqueEq != nil && (x.Op == token.EQL || x.Op == token.NEQ) {
			if ob, isO := b.(OpaqueV); isO {
				if eq, known := m.OpaqueEq(oa.Name, ob.Name); known {
					set(eq == (x.Op == token.EQL))
					return nil
				}
			}
		}
		r, ok := m.binop(st, x.Op, a, b, x.X.Type())
		if !ok {
			return nil // blocked, stuck or panic
		}
		set(r)
	case *ssa.ChangeType:
		set(m.get(st, fr, x.X))
	case *ssa.ChangeInterface:
		set(m.get(st, fr, x.X))
	case *ssa.MakeInterface:
		v := m.get(st, fr, x.X)
		set(IfaceV{T: x.X.Type(), V: cloneVal(v)})
	case *ssa.Convert:
		v := m.get(st, fr, x.X)
		r, ok := m.convert(st, v, x.X.Type(), x.Type())
		if !ok {
			return nil
		}
		set(r)
	case *ssa.Extract:
		v := m.get(st, fr, x.Tuple)
		t, ok := v.(*TupleV)
		if !ok {
			if _, unk := v.(Unknown); unk {
				set(Unknown{Why: "extract of unknown"})
				return nil
			}
			st.stuck("extract from %T", v)
			return nil
		}
		set(cloneVal(t.E[x.Index]))
	case *ssa.Field:
		v := m.get(st, fr, x.X)
		s, ok := v.(*StructV)
		if !ok {
			if _, unk := v.(Unknown); unk {
				set(Unknown{Why: "field of unknown"})
				return nil
			}
			st.stuck("field of %T", v)
			return nil
		}
		set(cloneVal(s.F[x.Field]))
	case *ssa.FieldAddr:
		v := m.get(st, fr, x.X)
		p, ok := v.(Ptr)
		if !ok {
			if _, isnil := v.(nilV); isnil {
				st.Status = stPanic
				st.Msg = "nil pointer dereference (field address) at " + m.P.Pos(x.Pos())
				return nil
			}
			if _, unk := v.(Unknown); unk {
				set(Unknown{Why: "fieldaddr of unknown"})
				return nil
			}
			st.stuck("fieldaddr of %T", v)
			return nil
		}
		set(Ptr{Obj: p.Obj, Path: pathAppend(p.Path, x.Field)})
	case *ssa.Index:
		base := m.get(st, fr, x.X)
		iv := m.get(st, fr, x.Index)
		if sv, isSym := iv.(SymV); isSym && m.Alpha != nil {
			if b, single := m.Alpha.Single(sv.C); single {
				iv = int64(b)
			}
		}
		i, ok := iv.(int64)
		if !ok {
			st.stuck("index with %T", iv)
			return nil
		}
		switch s := base.(type) {
		case string:
			if i < 0 || int(i) >= len(s) {
				st.Status = stPanic
				st.Msg = "index out of range at " + m.P.Pos(x.Pos())
				return nil
			}
			set(int64(s[i]))
		case TapeStr:
			if i < 0 {
				st.Status = stPanic
				st.Msg = "negative index at " + m.P.Pos(x.Pos())
				return nil
			}
			sym, ok := st.symAt(s.T, int(s.Off+i))
			if !ok {
				return nil
			}
			if sym == symEND {
				st.Status = stPanic
				st.Msg = "index out of range (past the end of the input) at " + m.P.Pos(x.Pos())
				return nil
			}
			set(SymV{sym})
		case *ArrayV:
			if i < 0 || int(i) >= len(s.E) {
				st.Status = stPanic
				st.Msg = "index out of range at " + m.P.Pos(x.Pos())
				return nil
			}
			set(cloneVal(s.E[i]))
		case AbsStr:
			if s.Exact {
				if i < 0 || int(i) >= len(s.Syms) {
					st.Status = stPanic
					st.Msg = "index out of range at " + m.P.Pos(x.Pos())
					return nil
				}
				set(SymV{s.Syms[i]})
			} else {
				st.stuck("index into abstract string")
			}
		default:
			st.stuck("index of %T", base)
		}
	case *ssa.IndexAddr:
		base := m.get(st, fr, x.X)
		iv := m.get(st, fr, x.Index)
		if sv, isSym := iv.(SymV); isSym && m.Alpha != nil {
			if b, single := m.Alpha.Single(sv.C); single {
				iv = int64(b) // a table indexed by an input byte whose value is known
			}
		}
		if sv, isSym := iv.(SymV); isSym && m.Alpha != nil && sv.C >= 0 && sv.C < len(m.Alpha.Members) {
			// a table indexed by an input byte of a class: decided when every byte of the class selects the same value
			if bp, isPtr := base.(Ptr); isPtr {
				if lv, ok := st.load(bp); ok {
					if arr, isArr := lv.(*ArrayV); isArr {
						same := true
						var first string
						for k, b := range m.Alpha.Members[sv.C] {
							if int(b) >= len(arr.E) {
								same = false
								break
							}
							r := fmtVal(arr.E[b], func(i int) string { return fmt.Sprint(i) })
							if k == 0 {
								first = r
							} else if r != first {
								same = false
								break
							}
						}
						if same && len(m.Alpha.Members[sv.C]) > 0 {
							set(Ptr{Obj: bp.Obj, Path: pathAppend(bp.Path, int(m.Alpha.Members[sv.C][0])), RO: true})
							return nil
						}
						st.stuck("table lookup by input byte: the bytes of class %s select different entries (or lie outside the table)", m.Alpha.Names[sv.C])
						return nil
					}
				}
			}
		}
		i, ok := iv.(int64)
		if !ok {
			st.stuck("indexaddr with %T", iv)
			return nil
		}
		switch s := base.(type) {
		case Ptr:
			lv, ok := st.load(s)
			arr, isArr := lv.(*ArrayV)
			if !ok || !isArr {
				st.stuck("indexaddr of pointer to %T", lv)
				return nil
			}
			if i < 0 || int(i) >= len(arr.E) {
				st.Status = stPanic
				st.Msg = "index out of range at " + m.P.Pos(x.Pos())
				return nil
			}
			set(Ptr{Obj: s.Obj, Path: pathAppend(s.Path, int(i))})
		case SliceV:
			if s.Abs {
				if !s.Many {
					st.Status = stPanic
					st.Msg = "index out of range (empty slice) at " + m.P.Pos(x.Pos())
					return nil
				}
				st.stuck("element address of abstract slice")
				return nil
			}
			if i < 0 || int(i) >= s.Len_ {
				st.Status = stPanic
				st.Msg = "index out of range at " + m.P.Pos(x.Pos())
				return nil
			}
			set(Ptr{Obj: s.Obj, Path: pathAppend(s.Path, s.Lo+int(i))})
		case nilV:
			st.Status = stPanic
			st.Msg = "index of nil slice at " + m.P.Pos(x.Pos())
		default:
			st.stuck("indexaddr of %T", base)
		}
	case *ssa.Slice:
		m.doSlice(st, fr, x, set)
	case *ssa.MakeSlice:
		lv := m.get(st, fr, x.Len)
		n, ok := lv.(int64)
		if !ok || n < 0 || n > 4096 {
			st.stuck("makeslice with length %v", lv)
			return nil
		}
		et := x.Type().Underlying().(*types.Slice).Elem()
		arr := &ArrayV{E: make([]Val, n)}
		for i := range arr.E {
			arr.E[i] = zeroVal(et)
		}
		id := st.alloc(types.NewArray(et, n), arr)
		set(SliceV{Obj: id, Len_: int(n), Cap: int(n)})
	case *ssa.MakeMap:
		id := st.alloc(x.Type(), &MapObjV{})
		set(MapV{Obj: id})
	case *ssa.MapUpdate:
		mv, ok := m.get(st, fr, x.Map).(MapV)
		if !ok {
			if _, isNil := m.get(st, fr, x.Map).(nilV); isNil {
				st.Status = stPanic
				st.Msg = "assignment to entry in nil map at " + m.P.Pos(x.Pos())
				return nil
			}
			st.stuck("map update on %T", m.get(st, fr, x.Map))
			return nil
		}
		st.own(mv.Obj)
		mo := st.Heap[mv.Obj].V.(*MapObjV)
		st.noteGlobalWrite(mv.Obj)
		k := cloneVal(m.get(st, fr, x.Key))
		v := cloneVal(m.get(st, fr, x.Value))
		ks := fmtVal(k, func(i int) string { return fmt.Sprint(i) })
		found := false
		for i := range mo.K {
			if fmtVal(mo.K[i], func(i int) string { return fmt.Sprint(i) }) == ks {
				mo.V[i] = v
				found = true
			}
		}
		if !found {
			mo.K = append(mo.K, k)
			mo.V = append(mo.V, v)
		}
		fr.PC++
	case *ssa.Lookup:
		base := m.get(st, fr, x.X)
		k := m.get(st, fr, x.Index)
		switch mv := base.(type) {
		case MapV:
			mo := st.Heap[mv.Obj].V.(*MapObjV)
			var val Val
			found := false
			switch k.(type) {
			case string, int64, bool:
				ks := fmtVal(k, func(i int) string { return fmt.Sprint(i) })
				for i := range mo.K {
					if fmtVal(mo.K[i], func(i int) string { return fmt.Sprint(i) }) == ks {
						val, found = cloneVal(mo.V[i]), true
					}
				}
			default:
				// composite keys (arrays / structs of scalars and input bytes): compared component by component
				for i := range mo.K {
					eq, decided := m.keyEqual(k, mo.K[i])
					if !decided {
						st.stuck("map lookup with an abstract key (%T)", k)
						return nil
					}
					if eq {
						val, found = cloneVal(mo.V[i]), true
					}
				}
			}
			if !found {
				val = zeroVal(x.X.Type().Underlying().(*types.Map).Elem())
			}
			if x.CommaOk {
				set(&TupleV{E: []Val{val, found}})
			} else {
				set(val)
			}
		case nilV:
			val := zeroVal(x.X.Type().Underlying().(*types.Map).Elem())
			if x.CommaOk {
				set(&TupleV{E: []Val{val, false}})
			} else {
				set(val)
			}
		default:
			st.stuck("lookup in %T", base)
		}
	case *ssa.Range:
		base := m.get(st, fr, x.X)
		if str, isStr := base.(string); isStr {
			set(&StrIterV{S: str})
			return nil
		}
		mv, ok := base.(MapV)
		if !ok {
			if _, isNil := base.(nilV); isNil {
				set(&MapIterV{Obj: -1})
				return nil
			}
			st.stuck("range over %T", base)
			return nil
		}
		n := len(st.Heap[mv.Obj].V.(*MapObjV).K)
		if n > 6 || (m.SampleOrders && n > 3) {
			// too many orders to enumerate: one order stands for all when the loop provably does not depend on it
			// (unique-match idiom, element-keyed updates and deletes only: the rule behind C18-DET)
			okOrder, known := m.orderFree[x]
			if !known {
				okOrder = false
				for _, ml := range mapOrderLoops(fr.Fn) {
					if ml.Range == x {
						okOrder = ml.OK
					}
				}
				if m.orderFree == nil {
					m.orderFree = map[*ssa.Range]bool{}
				}
				m.orderFree[x] = okOrder
			}
			if !okOrder && m.SampleOrders && st.Notes["map-order-sampled"] {
				// one sampled loop per run: the orders of the first one are enough for a witness, and forking at
				// every large map multiplies the states
				fwd := make([]int, n)
				for i := range fwd {
					fwd[i] = i
				}
				set(&MapIterV{Obj: mv.Obj, Order: fwd})
				return nil
			}
			if !okOrder && m.SampleOrders {
				// three of the n! orders: outcomes that differ are a witness of order dependence, outcomes that
				// agree prove nothing (the caller has to treat a single outcome with this note as undecided)
				fwd, rev, mix := make([]int, n), make([]int, n), make([]int, 0, n)
				for i := 0; i < n; i++ {
					fwd[i], rev[i] = i, n-1-i
				}
				for i := 0; i < n; i += 2 {
					mix = append(mix, i)
				}
				for i := 1; i < n; i += 2 {
					mix = append(mix, i)
				}
				var forks []*State
				for _, ord := range [][]int{rev, mix} {
					o := st.Clone()
					ofr := o.top()
					ofr.Regs[x] = &MapIterV{Obj: mv.Obj, Order: ord}
					ofr.PC++
					o.Notes["map-order"] = true
					o.Notes["map-order-sampled"] = true
					forks = append(forks, o)
				}
				st.Notes["map-order"] = true
				st.Notes["map-order-sampled"] = true
				set(&MapIterV{Obj: mv.Obj, Order: fwd})
				return forks
			}
			if !okOrder {
				st.stuck("range over a map of %d entries (permutation bound)", n)
				return nil
			}
			order := make([]int, n)
			for i := range order {
				order[i] = i
			}
			set(&MapIterV{Obj: mv.Obj, Order: order})
			return nil
		}
		if m.RangeCover != nil && n > m.RangeCover[x] {
			m.RangeCover[x] = n
		}
		if m.MergeAtRange && n > 1 {
			k := m.Key(st.Clone()) + "|E" + strings.Join(st.Effects, ";")
			if m.rangeSeen[k] {
				st.Status = stMerged
				return nil
			}
			m.rangeSeen[k] = true
		}
		// the iteration order of a map is unspecified: fork over every permutation
		perms := permutations(n)
		var forks []*State
		for i := 1; i < len(perms); i++ {
			o := st.Clone()
			ofr := o.top()
			ofr.Regs[x] = &MapIterV{Obj: mv.Obj, Order: perms[i]}
			ofr.PC++
			o.Notes["map-order"] = true
			forks = append(forks, o)
		}
		if len(perms) > 1 {
			st.Notes["map-order"] = true
		}
		set(&MapIterV{Obj: mv.Obj, Order: perms[0]})
		return forks
	case *ssa.Next:
		if sit, isStr := m.get(st, fr, x.Iter).(*StrIterV); isStr && x.IsString {
			if sit.Pos >= len(sit.S) {
				set(&TupleV{E: []Val{false, int64(0), int64(0)}})
				return nil
			}
			r, size := utf8.DecodeRuneInString(sit.S[sit.Pos:])
			at := sit.Pos
			sit.Pos += size
			set(&TupleV{E: []Val{true, int64(at), int64(r)}})
			return nil
		}
		it, ok := m.get(st, fr, x.Iter).(*MapIterV)
		if !ok || x.IsString {
			st.stuck("next on %T", m.get(st, fr, x.Iter))
			return nil
		}
		mt := x.Iter.(*ssa.Range).X.Type().Underlying().(*types.Map)
		if it.Obj < 0 || it.Pos >= len(it.Order) {
			set(&TupleV{E: []Val{false, zeroVal(mt.Key()), zeroVal(mt.Elem())}})
			return nil
		}
		mo := st.Heap[it.Obj].V.(*MapObjV)
		none := func(i int) string { return fmt.Sprint(i) }
		if it.Keys == nil {
			// snapshot of the keys in iteration order, taken at the first step
			it.Keys = []Val{}
			for _, i := range it.Order {
				if i >= len(mo.K) {
					st.stuck("map modified before the iteration started")
					return nil
				}
				it.Keys = append(it.Keys, cloneVal(mo.K[i]))
			}
		}
		// an entry removed during the iteration before it was reached is not produced; its value is the current one
		for it.Pos < len(it.Keys) {
			want := fmtVal(it.Keys[it.Pos], none)
			it.Pos++
			for j := range mo.K {
				if fmtVal(mo.K[j], none) == want {
					set(&TupleV{E: []Val{true, cloneVal(mo.K[j]), cloneVal(mo.V[j])}})
					return nil
				}
			}
		}
		set(&TupleV{E: []Val{false, zeroVal(mt.Key()), zeroVal(mt.Elem())}})
	case *ssa.MakeClosure:
		f := &FuncV{Fn: x.Fn.(*ssa.Function)}
		for _, b := range x.Bindings {
			f.Bind = append(f.Bind, m.get(st, fr, b))
		}
		set(f)
	case *ssa.TypeAssert:
		v := m.get(st, fr, x.X)
		iv, isI := v.(IfaceV)
		okv := isI && types.Identical(iv.T, x.AssertedType)
		if it, toIface := x.AssertedType.Underlying().(*types.Interface); toIface && isI {
			// assertion to an interface type: the dynamic type must implement it; the value stays boxed
			if _, isR := iv.V.(RType); isR {
				st.stuck("type assertion on a reflect.Type")
				return nil
			}
			impl := types.Implements(iv.T, it)
			if x.CommaOk {
				if impl {
					set(&TupleV{E: []Val{iv, true}})
				} else {
					set(&TupleV{E: []Val{nilV{}, false}})
				}
			} else if impl {
				set(iv)
			} else {
				st.Status = stPanic
				st.Msg = "failed type assertion at " + m.P.Pos(x.Pos())
			}
			return nil
		}
		if _, unk := v.(Unknown); unk {
			st.stuck("type assertion on unknown value")
			return nil
		}
		if x.CommaOk {
			if okv {
				set(&TupleV{E: []Val{cloneVal(iv.V), true}})
			} else {
				set(&TupleV{E: []Val{zeroVal(x.AssertedType), false}})
			}
		} else if okv {
			set(cloneVal(iv.V))
		} else {
			st.Status = stPanic
			st.Msg = "failed type assertion at " + m.P.Pos(x.Pos())
		}
	case *ssa.Call:
		return m.doCall(st, fr, x)
	default:
		st.stuck("unmodelled instruction %T (%s) in %s", ins, ins, fname(fr.Fn))
	}
	return nil
}

func (m *Machine) doSlice(st *State, fr *Frame, x *ssa.Slice, set func(Val)) {
	base := m.get(st, fr, x.X)
	geti := func(v ssa.Value, def int) (int, bool) {
		if v == nil {
			return def, true
		}
		iv, ok := m.get(st, fr, v).(int64)
		return int(iv), ok
	}
	switch s := base.(type) {
	case TapeStr:
		// s[lo:] keeps a suffix view; anything else is outside the tape model
		if x.High != nil || x.Max != nil {
			st.stuck("operation outside the tape model: prefix slice of an input string")
			return
		}
		lo, ok := geti(x.Low, 0)
		if !ok || lo < 0 {
			st.stuck("slice of an input string with a non-constant bound")
			return
		}
		if lo > 0 {
			end, ok := st.isEndAt(s.T, int(s.Off)+lo-1)
			if !ok {
				return
			}
			if end {
				st.Status = stPanic
				st.Msg = "slice bounds out of range (past the end of the input) at " + m.P.Pos(x.Pos())
				return
			}
		}
		set(TapeStr{T: s.T, Off: s.Off + int64(lo)})
	case Ptr:
		lv, ok := st.load(s)
		arr, isArr := lv.(*ArrayV)
		if !ok || !isArr {
			st.stuck("slice of pointer to %T", lv)
			return
		}
		lo, ok1 := geti(x.Low, 0)
		hi, ok2 := geti(x.High, len(arr.E))
		if !ok1 || !ok2 || lo < 0 || hi > len(arr.E) || lo > hi {
			st.stuck("slice bounds")
			return
		}
		set(SliceV{Obj: s.Obj, Path: s.Path, Lo: lo, Len_: hi - lo, Cap: len(arr.E) - lo})
	case SliceV:
		if s.Abs {
			st.stuck("reslice of abstract slice")
			return
		}
		lo, ok1 := geti(x.Low, 0)
		hi, ok2 := geti(x.High, s.Len_)
		if !ok1 || !ok2 || lo < 0 || hi > s.Cap || lo > hi {
			st.Status = stPanic
			st.Msg = "slice bounds out of range at " + m.P.Pos(x.Pos())
			return
		}
		set(SliceV{Obj: s.Obj, Path: s.Path, Lo: s.Lo + lo, Len_: hi - lo, Cap: s.Cap - lo})
	case string:
		lo, ok1 := geti(x.Low, 0)
		hi, ok2 := geti(x.High, len(s))
		if !ok1 || !ok2 {
			st.stuck("string slice bounds")
			return
		}
		if lo < 0 || hi > len(s) || lo > hi {
			st.Status = stPanic
			st.Msg = "slice bounds out of range at " + m.P.Pos(x.Pos())
			return
		}
		set(s[lo:hi])
	case nilV:
		set(nilV{})
	default:
		st.stuck("slice of %T", base)
	}
}

// ---- calls -----------------------------------------------------------------

func (m *Machine) doCall(st *State, fr *Frame, x *ssa.Call) []*State {
	cc := &x.Call
	var args []Val
	for _, a := range cc.Args {
		args = append(args, m.get(st, fr, a))
	}
	if st.Status != stRun {
		return nil
	}
	finish := func(alts []Val) []*State {
		if len(alts) == 0 {
			st.stuck("hook returned no alternative for %s", cc.String())
			return nil
		}
		var forks []*State
		for i := 1; i < len(alts); i++ {
			o := st.Clone()
			ofr := o.top()
			v := alts[i]
			if m.AltFilter != nil {
				v = m.AltFilter(o, v)
			}
			ofr.Regs[x] = cloneVal(v)
			ofr.PC++
			forks = append(forks, o)
		}
		v0 := alts[0]
		if m.AltFilter != nil {
			v0 = m.AltFilter(st, v0)
		}
		fr.Regs[x] = v0
		fr.PC++
		return forks
	}
	if cc.IsInvoke() {
		recv := m.get(st, fr, cc.Value)
		// oracles stand in for values of foreign types; a receiver whose dynamic type is the repository's own has its
		// method interpreted (a read-ahead layer in front of the caller's ReaderAt, a hashing reader, ...)
		ownMethod := false
		if iv, isI := recv.(IfaceV); isI {
			if sel := types.NewMethodSet(iv.T).Lookup(cc.Method.Pkg(), cc.Method.Name()); sel != nil {
				if f := m.P.SSA.MethodValue(sel); f != nil && f.Blocks != nil && inRepoOrRef(f) {
					if _, hooked := m.Hooks[f.String()]; !hooked {
						ownMethod = true
					}
				}
			}
		}
		if iv, isI := recv.(IfaceV); isI && !ownMethod {
			// a typed nil pointer of a foreign type inside a non-nil interface (`return gzip.NewReader(r)` as an
			// io.ReadCloser when it failed): the method is called with a nil receiver and, with the exception of
			// *os.File, whose methods test for it, dereferences it
			if _, nilPtr := iv.V.(nilV); nilPtr {
				if pt, isPtr := iv.T.Underlying().(*types.Pointer); isPtr {
					if n, isNamed := pt.Elem().(*types.Named); isNamed && n.Obj().Pkg() != nil && !strings.HasPrefix(n.Obj().Pkg().Path(), repoModule) && n.String() != "os.File" {
						st.Status = stPanic
						st.Msg = fmt.Sprintf("nil pointer dereference: method %s called on a nil *%s held in a non-nil interface at %s", cc.Method.Name(), n.String(), m.P.Pos(x.Pos()))
						return nil
					}
				}
			}
		}
		if m.InvokeHook != nil && !ownMethod {
			alts, handled := m.InvokeHook(m, st, cc, recv, args)
			if st.Status != stRun {
				return nil
			}
			if handled {
				return finish(alts)
			}
		}
		iv, ok := recv.(IfaceV)
		if !ok {
			if _, isnil := recv.(nilV); isnil {
				st.Status = stPanic
				st.Msg = "method call on nil interface at " + m.P.Pos(x.Pos())
				return nil
			}
			st.stuck("invoke on %T", recv)
			return nil
		}
		if msg, isStr := iv.V.(string); isStr && cc.Method.Name() == "Error" && len(cc.Args) == 0 {
			return finish([]Val{msg}) // the stand-in error values of the models
		}
		if types.NewMethodSet(iv.T).Lookup(cc.Method.Pkg(), cc.Method.Name()) == nil {
			// a method of an opaque stand-in object: the call is an opaque effect
			if pp, ok := iv.V.(Ptr); ok {
				if o, ok := st.Heap[pp.Obj]; ok {
					if ov, ok := o.V.(OpaqueV); ok {
						st.Notes["opaque-call:"+ov.Name+"."+cc.Method.Name()] = true
						res := cc.Signature().Results()
						switch res.Len() {
						case 0:
							return finish([]Val{nil})
						case 1:
							return finish([]Val{OpaqueV{ov.Name + "." + cc.Method.Name() + "()"}})
						}
					}
				}
			}
			st.stuck("no method %s on %s", cc.Method.Name(), iv.T)
			return nil
		}
		fn := m.P.SSA.LookupMethod(iv.T, cc.Method.Pkg(), cc.Method.Name())
		if fn == nil {
			st.stuck("no method %s on %s", cc.Method.Name(), iv.T)
			return nil
		}
		return m.callFn(st, fr, x, fn, append([]Val{iv.V}, args...), nil, finish)
	}
	switch callee := cc.Value.(type) {
	case *ssa.Builtin:
		r, ok := m.builtin(st, x, callee.Name(), args)
		if !ok {
			return nil
		}
		fr.Regs[x] = r
		fr.PC++
		return nil
	case *ssa.Function:
		return m.callFn(st, fr, x, callee, args, nil, finish)
	case *ssa.MakeClosure:
		fv := m.get(st, fr, callee).(*FuncV)
		return m.callFn(st, fr, x, fv.Fn.(*ssa.Function), args, fv.Bind, finish)
	default:
		v := m.get(st, fr, cc.Value)
		if fv, ok := v.(*FuncV); ok {
			if f, ok := fv.Fn.(*ssa.Function); ok {
				if fv.Once != nil {
					// sync.OnceValue and friends: the result of the first call is kept in a cell
					cur, _ := st.load(*fv.Once)
					if _, unset := cur.(nilV); !unset {
						if dv, isDone := cur.(*TupleV); isDone && len(dv.E) == 1 {
							return finish([]Val{cloneVal(dv.E[0])})
						}
					}
					if len(st.Frames) > 64 || f.Blocks == nil {
						st.stuck("once-function without a body")
						return nil
					}
					st.push(f, nil, fv.Bind)
					st.top().StoreRet = fv.Once
					if len(fv.Bind) == 0 && st.OnceDepth == 0 {
						st.OnceDepth = len(st.Frames) // a lazily built table: delayed initial state
					}
					return nil
				}
				return m.callFn(st, fr, x, f, args, fv.Bind, finish)
			}
		}
		if _, isNil := v.(nilV); isNil {
			st.Status = stPanic
			st.Msg = "call of a nil function at " + m.P.Pos(x.Pos())
			return nil
		}
		st.stuck("dynamic call through %T", v)
	}
	return nil
}

func (m *Machine) callFn(st *State, fr *Frame, x *ssa.Call, fn *ssa.Function, args []Val, bind []Val, finish func([]Val) []*State) []*State {
	name := fn.String()
	if m.skipInit != nil && m.skipInit(fn) {
		return finish([]Val{nil})
	}
	h, hooked := m.Hooks[name]
	if !hooked {
		if o := fn.Origin(); o != nil && o != fn {
			h, hooked = m.Hooks[o.String()] // an instance of a generic function: the model of the generic one
		}
	}
	if hooked {
		alts, handled := h(m, st, &x.Call, args)
		if st.Status != stRun {
			return nil
		}
		if handled {
			return finish(alts)
		}
	}
	if o := fn.Origin(); o != nil {
		switch o.String() {
		case "sync.OnceValue", "sync.OnceFunc", "sync.OnceValues":
			// the returned function runs f on its first call and hands out that call's result ever after
			if fv, ok := args[0].(*FuncV); ok {
				cell := st.alloc(types.Typ[types.Int], nilV{})
				return finish([]Val{&FuncV{Fn: fv.Fn, Bind: fv.Bind, Once: &Ptr{Obj: cell}}})
			}
		}
	}
	if (name == "(*sync.Pool).Get" || name == "(*sync.Pool).Put") && len(args) >= 1 {
		// a pool that reuses as eagerly as it can: Get hands back the object Put last (so that an object still
		// referenced by an earlier result and recycled too early is seen to change), and calls New when it is empty.
		// The recycled objects hang off the pool's private `local` field.
		if pp, ok := args[0].(Ptr); ok {
			if pv, ok := st.load(pp); ok {
				if sv, isS := pv.(*StructV); isS {
					pt := types.NewPointer(types.Typ[types.Int])
					_ = pt
					sT, _ := fn.Signature.Recv().Type().(*types.Pointer).Elem().Underlying().(*types.Struct)
					li, ni := -1, -1
					if sT != nil {
						li, ni = fieldIndex(sT, "local"), fieldIndex(sT, "New")
					}
					if li >= 0 && ni >= 0 && len(sv.F) == sT.NumFields() {
						var items *ArrayV
						if ip, isPtr := sv.F[li].(Ptr); isPtr {
							if io, has := st.Heap[ip.Obj]; has {
								items, _ = io.V.(*ArrayV)
							}
						}
						if items == nil {
							items = &ArrayV{}
							id := st.alloc(types.NewArray(types.NewInterfaceType(nil, nil), 0), items)
							sv.F[li] = Ptr{Obj: id}
						}
						if name == "(*sync.Pool).Put" {
							if _, isNil := args[1].(nilV); !isNil {
								items.E = append(items.E, cloneVal(args[1]))
							}
							return finish([]Val{nil})
						}
						if n := len(items.E); n > 0 {
							x := items.E[n-1]
							items.E = items.E[:n-1]
							return finish([]Val{x})
						}
						if fv, ok := sv.F[ni].(*FuncV); ok {
							if f, ok := fv.Fn.(*ssa.Function); ok && f.Blocks != nil && inRepoOrRef(f) {
								st.push(f, nil, fv.Bind)
								return nil
							}
						}
						if _, isNil := sv.F[ni].(nilV); isNil {
							return finish([]Val{nilV{}})
						}
					}
				}
			}
		}
	}
	if name == "(*sync.Once).Do" && len(args) == 2 {
		// the first Do on a Once runs f in place of the call, later ones do nothing
		if op, ok := args[0].(Ptr); ok {
			key := fmt.Sprintf("once:%d/%s", op.Obj, op.Path)
			if st.Notes[key] {
				return finish([]Val{nil})
			}
			if fv, ok := args[1].(*FuncV); ok {
				if f, ok := fv.Fn.(*ssa.Function); ok && f.Blocks != nil && inRepoOrRef(f) {
					st.Notes[key] = true
					st.push(f, nil, fv.Bind)
					onGlobal := op.Obj < st.InitMark
					for g, id := range st.Globals {
						if id == op.Obj && g.Pkg != nil && strings.HasPrefix(g.Pkg.Pkg.Path(), repoModule) {
							onGlobal = true
						}
					}
					if len(fv.Bind) == 0 && onGlobal && st.OnceDepth == 0 {
						// lazy initialisation on a package-level Once by a function that takes nothing from its
						// caller: its stores are the (delayed) initial state, not a write by this call
						st.OnceDepth = len(st.Frames)
					}
					return nil
				}
			}
		}
	}
	if fn.Blocks == nil || !inRepoOrRef(fn) {
		st.stuck("call of unmodelled function %s", name)
		return nil
	}
	if len(st.Frames) > 64 {
		st.stuck("call depth exceeded at %s", name)
		return nil
	}
	cargs := make([]Val, len(args))
	for i, a := range args {
		cargs[i] = cloneVal(a)
	}
	st.push(fn, cargs, bind)
	return nil
}

// interpretedDeps: third-party packages small and pure enough to be interpreted like repository code.
var interpretedDeps = map[string]bool{"pault.ag/go/topsort": true, "slices": true, "maps": true, "cmp": true}

func inRepoOrRef(fn *ssa.Function) bool {
	if fn.Pkg == nil {
		// anonymous functions have Pkg via parent
		if fn.Parent() != nil {
			return inRepoOrRef(fn.Parent())
		}
		// method wrappers (pointer receiver / promoted through embedding) belong to the wrapped method
		if o := fn.Object(); o != nil && o.Pkg() != nil && fn.Blocks != nil {
			pp := o.Pkg().Path()
			return strings.HasPrefix(pp, repoModule) || strings.HasPrefix(pp, "gdsa/") || interpretedDeps[pp]
		}
		return false
	}
	p := fn.Pkg.Pkg.Path()
	return strings.HasPrefix(p, repoModule) || strings.HasPrefix(p, "gdsa/") || interpretedDeps[p]
}

func (m *Machine) builtin(st *State, x *ssa.Call, name string, args []Val) (Val, bool) {
	switch name {
	case "len":
		switch s := args[0].(type) {
		case string:
			return int64(len(s)), true
		case TapeStr:
			return TapeLen{T: s.T, Off: s.Off}, true
		case AbsStr:
			if s.Exact {
				return int64(len(s.Syms)), true
			}
			if s.NonE {
				return PosInt{}, true
			}
			return Unknown{Why: "len of abstract string"}, true
		case SliceV:
			if s.Abs {
				if s.Many {
					return PosInt{}, true
				}
				return int64(0), true
			}
			return int64(s.Len_), true
		case nilV:
			return int64(0), true
		case Unknown, OpaqueV:
			return Unknown{Why: "len of unknown"}, true
		case *ArrayV:
			return int64(len(s.E)), true
		case MapV:
			return int64(len(st.Heap[s.Obj].V.(*MapObjV).K)), true
		}
		st.stuck("len of %T", args[0])
		return nil, false
	case "ssa:wrapnilchk":
		// wrapper of a value-receiver method called through a pointer: the pointer must not be nil
		if _, isNil := args[0].(nilV); isNil {
			st.Status = stPanic
			st.Msg = "value method called using nil pointer"
			return nil, false
		}
		return args[0], true
	case "cap":
		if s, ok := args[0].(SliceV); ok && !s.Abs {
			return int64(s.Cap), true
		}
		if _, isNil := args[0].(nilV); isNil {
			return int64(0), true
		}
		if a, ok := args[0].(*ArrayV); ok {
			return int64(len(a.E)), true
		}
		st.stuck("cap of %T", args[0])
		return nil, false
	case "append":
		return m.doAppend(st, x, args)
	case "copy":
		dst, ok := args[0].(SliceV)
		if !ok {
			if _, isNil := args[0].(nilV); isNil {
				return int64(0), true
			}
			st.stuck("copy into %T", args[0])
			return nil, false
		}
		if dst.Abs {
			st.stuck("copy into an abstract slice")
			return nil, false
		}
		var src []Val
		switch s := args[1].(type) {
		case string:
			for i := 0; i < len(s); i++ {
				src = append(src, int64(s[i]))
			}
		case nilV:
		default:
			elems, many, ok := m.sliceElems(st, args[1])
			if !ok || many {
				st.stuck("copy from %T", args[1])
				return nil, false
			}
			// overlapping copies behave like memmove: the source is read first
			for _, e := range elems {
				src = append(src, cloneVal(e))
			}
		}
		n := len(src)
		if dst.Len_ < n {
			n = dst.Len_
		}
		for i := 0; i < n; i++ {
			if !st.store(Ptr{Obj: dst.Obj, Path: pathAppend(dst.Path, dst.Lo+i)}, src[i]) {
				st.stuck("copy: bad destination")
				return nil, false
			}
		}
		return int64(n), true
	case "delete":
		mv, ok := args[0].(MapV)
		if !ok {
			if _, isNil := args[0].(nilV); isNil {
				return nil, true // delete on a nil map is a no-op
			}
			st.stuck("delete on %T", args[0])
			return nil, false
		}
		st.own(mv.Obj)
		st.noteGlobalWrite(mv.Obj)
		mo := st.Heap[mv.Obj].V.(*MapObjV)
		switch args[1].(type) {
		case string, int64, bool:
		default:
			st.stuck("delete with an abstract key (%T)", args[1])
			return nil, false
		}
		ks := fmtVal(args[1], func(i int) string { return fmt.Sprint(i) })
		for i := range mo.K {
			if fmtVal(mo.K[i], func(i int) string { return fmt.Sprint(i) }) == ks {
				mo.K = append(mo.K[:i:i], mo.K[i+1:]...)
				mo.V = append(mo.V[:i:i], mo.V[i+1:]...)
				break
			}
		}
		return nil, true
	case "clear":
		switch x := args[0].(type) {
		case MapV:
			st.own(x.Obj)
			st.noteGlobalWrite(x.Obj)
			mo := st.Heap[x.Obj].V.(*MapObjV)
			mo.K, mo.V = nil, nil
			return nil, true
		}
		st.stuck("clear of %T", args[0])
		return nil, false
	case "min", "max":
		if len(args) > 0 {
			best, ok := args[0].(int64)
			for _, a := range args[1:] {
				v, isInt := a.(int64)
				ok = ok && isInt
				if (name == "min" && v < best) || (name == "max" && v > best) {
					best = v
				}
			}
			if ok {
				return best, true
			}
		}
		st.stuck("builtin %s on non-integers", name)
		return nil, false
	}
	st.stuck("builtin %s", name)
	return nil, false
}

// PosInt is an unknown integer >= 1 (length of something known non-empty).
type PosInt struct{}

func (m *Machine) sliceElems(st *State, v Val) ([]Val, bool, bool) { // elems, many(abstract), ok
	switch s := v.(type) {
	case nilV:
		return nil, false, true
	case SliceV:
		if s.Abs {
			return nil, s.Many, true
		}
		var out []Val
		for i := 0; i < s.Len_; i++ {
			e, ok := st.load(Ptr{Obj: s.Obj, Path: pathAppend(s.Path, s.Lo+i)})
			if !ok {
				return nil, false, false
			}
			out = append(out, e)
		}
		return out, false, true
	}
	return nil, false, false
}

func (m *Machine) doAppend(st *State, x *ssa.Call, args []Val) (Val, bool) {
	base, bMany, ok1 := m.sliceElems(st, args[0])
	var add []Val
	aMany := false
	ok2 := true
	if s, isStr := args[1].(string); isStr { // append([]byte, string...)
		for i := 0; i < len(s); i++ {
			add = append(add, int64(s[i]))
		}
	} else {
		add, aMany, ok2 = m.sliceElems(st, args[1])
	}
	if !ok1 || !ok2 {
		st.stuck("append of %T, %T", args[0], args[1])
		return nil, false
	}
	if m.OnAppend != nil {
		m.OnAppend(st, x, args[0], add)
	}
	if m.AbsAppend {
		if sv, isAbs := args[0].(SliceV); (isAbs && sv.Abs) || true {
			many := bMany || aMany || len(base) > 0 || len(add) > 0
			return SliceV{Abs: true, Many: many}, true
		}
	}
	if bMany || aMany {
		return SliceV{Abs: true, Many: true}, true
	}
	// enough capacity: the elements are written into the backing array (visible through every alias)
	if sv, isSl := args[0].(SliceV); isSl && !sv.Abs && len(add) > 0 && sv.Len_+len(add) <= sv.Cap {
		okAll := true
		for i, e := range add {
			if !st.store(Ptr{Obj: sv.Obj, Path: pathAppend(sv.Path, sv.Lo+sv.Len_+i)}, cloneVal(e)) {
				okAll = false
			}
		}
		if okAll {
			return SliceV{Obj: sv.Obj, Path: sv.Path, Lo: sv.Lo, Len_: sv.Len_ + len(add), Cap: sv.Cap}, true
		}
	}
	et := x.Type().Underlying().(*types.Slice).Elem()
	arr := &ArrayV{}
	for _, e := range base {
		arr.E = append(arr.E, cloneVal(e))
	}
	for _, e := range add {
		arr.E = append(arr.E, cloneVal(e))
	}
	if len(arr.E) == 0 {
		if _, isnil := args[0].(nilV); isnil {
			return nilV{}, true
		}
	}
	id := st.alloc(types.NewArray(et, int64(len(arr.E))), arr)
	return SliceV{Obj: id, Len_: len(arr.E), Cap: len(arr.E)}, true
}

// ---- operators ---------------------------------------------------------------

func (m *Machine) symMembers(c int) []byte { return m.Alpha.Members[c] }

func cmpInt(op token.Token, a, b int64) (bool, bool) {
	switch op {
	case token.EQL:
		return a == b, true
	case token.NEQ:
		return a != b, true
	case token.LSS:
		return a < b, true
	case token.LEQ:
		return a <= b, true
	case token.GTR:
		return a > b, true
	case token.GEQ:
		return a >= b, true
	}
	return false, false
}

func flipOp(op token.Token) token.Token {
	switch op {
	case token.LSS:
		return token.GTR
	case token.LEQ:
		return token.GEQ
	case token.GTR:
		return token.LSS
	case token.GEQ:
		return token.LEQ
	}
	return op
}

// wordBits is the size of int / uint / uintptr of the platform under analysis (32 while a
// GOARCH=386 load is interpreted).
var wordBits = 64

func truncTo(v int64, t types.Type) int64 {
	b, ok := t.Underlying().(*types.Basic)
	if !ok {
		return v
	}
	if wordBits == 32 {
		switch b.Kind() {
		case types.Int:
			return int64(int32(v))
		case types.Uint, types.Uintptr:
			return int64(uint32(v))
		}
	}
	switch b.Kind() {
	case types.Int8:
		return int64(int8(v))
	case types.Int16:
		return int64(int16(v))
	case types.Int32:
		return int64(int32(v))
	case types.Uint8:
		return int64(uint8(v))
	case types.Uint16:
		return int64(uint16(v))
	case types.Uint32:
		return int64(uint32(v))
	}
	return v
}

func (m *Machine) binop(st *State, op token.Token, a, b Val, opType types.Type) (Val, bool) {
	// symbols with singleton classes act as exact integers
	single := func(v Val) (int64, bool) {
		switch x := v.(type) {
		case int64:
			return x, true
		case SymV:
			if by, ok := m.Alpha.Single(x.C); ok {
				return int64(by), true
			}
		}
		return 0, false
	}
	if _, ok := a.(OpaqueV); ok {
		return Unknown{Why: "operation on opaque value", Atom: atomOf(op, a, b)}, true
	}
	if _, ok := b.(OpaqueV); ok {
		return Unknown{Why: "operation on opaque value", Atom: atomOf(op, a, b)}, true
	}
	if _, isLin := a.(LinV); isLin {
		return m.linop(st, op, a, b)
	}
	if _, isLin := b.(LinV); isLin {
		return m.linop(st, op, a, b)
	}
	// tape length against a position
	if tl, ok := b.(TapeLen); ok {
		if pos, ok := a.(int64); ok {
			return m.cmpLen(st, op, int(pos+tl.Off), tl.T)
		}
	}
	if tl, ok := a.(TapeLen); ok {
		if pos, ok := b.(int64); ok {
			return m.cmpLen(st, flipOp(op), int(pos+tl.Off), tl.T)
		}
	}
	if _, ok := a.(TapeLen); ok {
		st.stuck("arithmetic on the length of the input (%s)", op)
		return nil, false
	}
	if _, ok := b.(TapeLen); ok {
		st.stuck("arithmetic on the length of the input (%s)", op)
		return nil, false
	}
	// PosInt against constants
	if _, ok := a.(PosInt); ok {
		if n, ok := b.(int64); ok && n <= 0 {
			if r, ok := cmpInt(op, 1, 0); ok {
				return r, true
			}
		}
		if n, ok := b.(int64); ok && n == 1 {
			switch op {
			case token.GEQ:
				return true, true
			case token.LSS:
				return false, true
			}
		}
		return Unknown{Why: "positive length compared"}, true
	}
	if _, ok := b.(PosInt); ok {
		return m.binop(st, flipOp(op), b, a, opType)
	}
	unsigned := false
	if opType != nil {
		if bt, isBasic := opType.Underlying().(*types.Basic); isBasic && bt.Info()&types.IsUnsigned != 0 {
			unsigned = true
		}
	}
	switch op {
	case token.EQL, token.NEQ, token.LSS, token.LEQ, token.GTR, token.GEQ:
		if xi, isX := a.(int64); isX && unsigned {
			if yi, isY := b.(int64); isY {
				// unsigned operands are kept as their two's complement bit pattern
				ux, uy := uint64(xi), uint64(yi)
				switch op {
				case token.LSS:
					return ux < uy, true
				case token.LEQ:
					return ux <= uy, true
				case token.GTR:
					return ux > uy, true
				case token.GEQ:
					return ux >= uy, true
				}
			}
		}
		r, ok := m.compare(st, op, a, b)
		return r, ok
	}
	// arithmetic / logic
	x, okx := single(a)
	y, oky := single(b)
	if okx && oky && unsigned && y != 0 {
		switch op {
		case token.QUO:
			return truncTo(int64(uint64(x)/uint64(y)), opType), true
		case token.REM:
			return truncTo(int64(uint64(x)%uint64(y)), opType), true
		}
	}
	if okx && oky && unsigned && op == token.SHR {
		return truncTo(int64(uint64(x)>>uint(y)), opType), true
	}
	if okx && oky {
		var r int64
		switch op {
		case token.ADD:
			r = x + y
		case token.SUB:
			r = x - y
		case token.MUL:
			r = x * y
		case token.QUO:
			if y == 0 {
				st.Status = stPanic
				st.Msg = "division by zero"
				return nil, false
			}
			r = x / y
		case token.REM:
			if y == 0 {
				st.Status = stPanic
				st.Msg = "division by zero"
				return nil, false
			}
			r = x % y
		case token.AND:
			r = x & y
		case token.OR:
			r = x | y
		case token.XOR:
			r = x ^ y
		case token.SHL:
			r = x << uint(y)
		case token.SHR:
			r = x >> uint(y)
		case token.AND_NOT:
			r = x &^ y
		default:
			st.stuck("binop %s on ints", op)
			return nil, false
		}
		return truncTo(r, opType), true
	}
	if op == token.ADD {
		if r, ok := m.concat(a, b); ok {
			return r, true
		}
	}
	_, ua := a.(Unknown)
	_, ub := b.(Unknown)
	_, sa := a.(SymV)
	_, sb := b.(SymV)
	if ua || ub || sa || sb {
		return Unknown{Why: "arith on unknown"}, true
	}
	if ba, ok := a.(bool); ok {
		if bb, ok := b.(bool); ok {
			switch op {
			case token.AND, token.LAND:
				return ba && bb, true
			case token.OR, token.LOR:
				return ba || bb, true
			}
		}
	}
	st.stuck("binop %s on %T, %T", op, a, b)
	return nil, false
}

// viewEmpty decides `view == ""` (the view starts at or before the end of its tape by construction).
func (m *Machine) viewEmpty(st *State, op token.Token, ts TapeStr) (Val, bool) {
	end, ok := st.isEndAt(ts.T, int(ts.Off))
	if !ok {
		return nil, false
	}
	return end == (op == token.EQL), true
}

// cmpLen decides `pos op len(tape t)`.
func (m *Machine) cmpLen(st *State, op token.Token, pos int, t int) (Val, bool) {
	switch op {
	case token.LSS, token.GEQ:
		end, ok := st.isEndAt(t, pos)
		if !ok {
			return nil, false
		}
		if op == token.LSS {
			return !end, true
		}
		return end, true
	case token.GTR, token.LEQ: // pos > len  <=>  pos-1 >= len
		if pos == 0 {
			return op == token.LEQ, true
		}
		end, ok := st.isEndAt(t, pos-1)
		if !ok {
			return nil, false
		}
		if op == token.GTR {
			return end, true
		}
		return !end, true
	case token.EQL, token.NEQ: // pos == len <=> end at pos and not end at pos-1
		end, ok := st.isEndAt(t, pos)
		if !ok {
			return nil, false
		}
		eq := end
		if end && pos > 0 {
			e2, ok := st.isEndAt(t, pos-1)
			if !ok {
				return nil, false
			}
			eq = !e2
		}
		if op == token.EQL {
			return eq, true
		}
		return !eq, true
	}
	st.stuck("comparison %s with input length", op)
	return nil, false
}

func (m *Machine) toAbs(v Val) (AbsStr, bool) {
	switch s := v.(type) {
	case AbsStr:
		return s, true
	case string:
		out := AbsStr{Exact: true}
		for i := 0; i < len(s); i++ {
			c := m.Alpha.Class[s[i]]
			if c < 0 {
				return AbsStr{}, false
			}
			out.Syms = append(out.Syms, c)
		}
		return out, true
	}
	return AbsStr{}, false
}

func (m *Machine) concat(a, b Val) (Val, bool) {
	sa, oka := a.(string)
	sb, okb := b.(string)
	if oka && okb {
		return sa + sb, true
	}
	if m.Alpha == nil {
		return nil, false
	}
	x, ok1 := m.toAbs(a)
	y, ok2 := m.toAbs(b)
	if !ok1 || !ok2 {
		// constant text over bytes outside the alphabet: only emptiness survives
		nonE := func(v Val, ok bool, s AbsStr) (bool, bool) {
			if str, isStr := v.(string); isStr {
				return len(str) > 0, true
			}
			if ok {
				return (s.Exact && len(s.Syms) > 0) || (!s.Exact && s.NonE), true
			}
			return false, false
		}
		n1, k1 := nonE(a, ok1, x)
		n2, k2 := nonE(b, ok2, y)
		if k1 && k2 {
			return AbsStr{NonE: n1 || n2}, true
		}
		return nil, false
	}
	if x.Exact && y.Exact && len(x.Syms)+len(y.Syms) <= m.MaxExact && (!m.NoExactConcat || len(x.Syms)+len(y.Syms) == 0) {
		return AbsStr{Exact: true, Syms: append(append([]int(nil), x.Syms...), y.Syms...)}, true
	}
	nonE := (x.Exact && len(x.Syms) > 0) || (!x.Exact && x.NonE) || (y.Exact && len(y.Syms) > 0) || (!y.Exact && y.NonE)
	return AbsStr{NonE: nonE}, true
}

func (m *Machine) compare(st *State, op token.Token, a, b Val) (Val, bool) {
	isNil := func(v Val) bool { _, ok := v.(nilV); return ok }
	if xa, isArr := a.(*ArrayV); isArr && (op == token.EQL || op == token.NEQ) {
		// arrays compare element by element
		if ya, ok := b.(*ArrayV); ok && len(xa.E) == len(ya.E) {
			eq := true
			for i := range xa.E {
				r, ok := m.compare(st, token.EQL, xa.E[i], ya.E[i])
				rb, isBool := r.(bool)
				if !ok || !isBool {
					return Unknown{Why: "array element comparison"}, true
				}
				eq = eq && rb
			}
			return eq == (op == token.EQL), true
		}
	}
	if xa, ok := a.(OpaqueV); ok && m.OpaqueEq != nil && (op == token.EQL || op == token.NEQ) {
		if ya, ok := b.(OpaqueV); ok {
			if eq, known := m.OpaqueEq(xa.Name, ya.Name); known {
				return eq == (op == token.EQL), true
			}
		}
	}
	switch x := a.(type) {
	case int64:
		switch y := b.(type) {
		case int64:
			r, _ := cmpInt(op, x, y)
			return r, true
		case SymV:
			return m.cmpSymInt(flipOp(op), y, x), true
		}
	case SymV:
		switch y := b.(type) {
		case int64:
			return m.cmpSymInt(op, x, y), true
		case SymV:
			bx, okx := m.Alpha.Single(x.C)
			by, oky := m.Alpha.Single(y.C)
			if okx && oky {
				r, _ := cmpInt(op, int64(bx), int64(by))
				return r, true
			}
			if x.C != y.C && (op == token.EQL || op == token.NEQ) {
				return op == token.NEQ, true
			}
			return Unknown{Why: "symbol classes compared"}, true
		}
	case bool:
		if y, ok := b.(bool); ok {
			switch op {
			case token.EQL:
				return x == y, true
			case token.NEQ:
				return x != y, true
			}
		}
	case string:
		if y, ok := b.(string); ok {
			switch op {
			case token.EQL:
				return x == y, true
			case token.NEQ:
				return x != y, true
			case token.LSS:
				return x < y, true
			case token.LEQ:
				return x <= y, true
			case token.GTR:
				return x > y, true
			case token.GEQ:
				return x >= y, true
			}
		}
		if _, ok := b.(AbsStr); ok {
			return m.cmpAbs(op, b, a)
		}
		if ts, ok := b.(TapeStr); ok && x == "" && (op == token.EQL || op == token.NEQ) {
			return m.viewEmpty(st, op, ts)
		}
	case AbsStr:
		return m.cmpAbs(op, a, b)
	case TapeStr:
		if y, ok := b.(string); ok && y == "" && (op == token.EQL || op == token.NEQ) {
			return m.viewEmpty(st, op, x)
		}
	case Ptr:
		if isNil(b) {
			return op == token.NEQ, true
		}
		if y, ok := b.(Ptr); ok {
			eq := x == y
			if op == token.EQL {
				return eq, true
			}
			return !eq, true
		}
	case nilV:
		switch b.(type) {
		case nilV:
			return op == token.EQL, true
		case Ptr, IfaceV, *FuncV, MapV:
			return op == token.NEQ, true
		case SliceV:
			return op == token.NEQ, true // only a nil slice equals nil; non-nil slices (even empty) don't
		case Unknown:
			return Unknown{Why: "nil compared with unknown"}, true
		}
	case IfaceV:
		if isNil(b) {
			return op == token.NEQ, true
		}
		if y, ok := b.(IfaceV); ok {
			// interface equality: same dynamic type and equal value (pointers/ints)
			if !types.Identical(x.T, y.T) {
				return op == token.NEQ, true
			}
			return m.compare(st, op, x.V, y.V)
		}
	case SliceV, *FuncV, MapV:
		if isNil(b) {
			return op == token.NEQ, true
		}
	case Unknown:
		return Unknown{Why: "compare unknown"}, true
	case RType:
		if y, ok := b.(RType); ok && (op == token.EQL || op == token.NEQ) {
			return types.Identical(x.T, y.T) == (op == token.EQL), true
		}
	case *StructV:
		if y, ok := b.(*StructV); ok && (op == token.EQL || op == token.NEQ) {
			eq := true
			for i := range x.F {
				r, ok := m.compare(st, token.EQL, x.F[i], y.F[i])
				if !ok {
					return nil, false
				}
				rb, isB := r.(bool)
				if !isB {
					return Unknown{Why: "struct compare"}, true
				}
				if !rb {
					eq = false
				}
			}
			if op == token.EQL {
				return eq, true
			}
			return !eq, true
		}
	}
	if _, ok := b.(Unknown); ok {
		return Unknown{Why: "compare unknown"}, true
	}
	st.stuck("comparison %s of %T and %T", op, a, b)
	return nil, false
}

func (m *Machine) cmpSymInt(op token.Token, s SymV, n int64) Val {
	var res, first = false, true
	for _, by := range m.Alpha.Members[s.C] {
		r, _ := cmpInt(op, int64(by), n)
		if first {
			res, first = r, false
		} else if r != res {
			return Unknown{Why: "alphabet class too coarse for comparison"}
		}
	}
	return res
}

func (m *Machine) cmpAbs(op token.Token, a, b Val) (Val, bool) {
	if op != token.EQL && op != token.NEQ {
		return Unknown{Why: "ordering of abstract strings"}, true
	}
	x, ok1 := m.toAbs(a)
	y, ok2 := m.toAbs(b)
	ans := func(eq bool) (Val, bool) {
		if op == token.EQL {
			return eq, true
		}
		return !eq, true
	}
	if !ok1 || !ok2 {
		// other side is a constant with bytes outside the alphabet
		if s, ok := b.(string); ok && ok1 {
			if s == "" {
				if x.Exact {
					return ans(len(x.Syms) == 0)
				}
				if x.NonE {
					return ans(false)
				}
			}
		}
		return Unknown{Why: "abstract string compared"}, true
	}
	if x.Exact && y.Exact {
		if len(x.Syms) != len(y.Syms) {
			return ans(false)
		}
		maybe := false
		for i := range x.Syms {
			if x.Syms[i] != y.Syms[i] {
				return ans(false)
			}
			if _, single := m.Alpha.Single(x.Syms[i]); !single {
				maybe = true
			}
		}
		if maybe {
			return Unknown{Why: "strings over coarse classes compared"}, true
		}
		return ans(true)
	}
	// one side abstract
	emptyKnown := func(s AbsStr) (bool, bool) { // (isEmpty, known)
		if s.Exact {
			return len(s.Syms) == 0, true
		}
		if s.NonE {
			return false, true
		}
		return false, false
	}
	ex, kx := emptyKnown(x)
	ey, ky := emptyKnown(y)
	if kx && ky && ex != ey {
		return ans(false)
	}
	if kx && ky && ex && ey {
		return ans(true)
	}
	return Unknown{Why: "abstract string compared"}, true
}

// classHasHighByte: the symbol class contains a byte >= 0x80 (whose code point encodes to two bytes).
func (m *Machine) classHasHighByte(c int) bool {
	if m.Alpha == nil || c < 0 || c >= len(m.Alpha.Members) {
		return true
	}
	for _, b := range m.Alpha.Members[c] {
		if b >= 0x80 {
			return true
		}
	}
	return false
}

func (m *Machine) convert(st *State, v Val, from, to types.Type) (Val, bool) {
	fb, _ := from.Underlying().(*types.Basic)
	tb, _ := to.Underlying().(*types.Basic)
	if _, unk := v.(Unknown); unk {
		return v, true
	}
	switch {
	case fb != nil && tb != nil && fb.Info()&types.IsInteger != 0 && tb.Info()&types.IsInteger != 0:
		switch x := v.(type) {
		case int64:
			return truncTo(x, to), true
		case SymV, PosInt, LinV, OpaqueV:
			return v, true
		}
	case fb != nil && tb != nil && fb.Info()&types.IsInteger != 0 && tb.Info()&types.IsString != 0:
		switch x := v.(type) {
		case SymV:
			if m.classHasHighByte(x.C) {
				st.Notes["int-to-string conversion of an input byte"] = true
			}
			return AbsStr{Exact: true, Syms: []int{x.C}}, true
		case int64:
			return string(rune(x)), true
		}
	case fb != nil && tb != nil && fb.Info()&types.IsString != 0 && tb.Info()&types.IsString != 0:
		return v, true
	case fb != nil && fb.Info()&types.IsString != 0 && tb == nil:
		// string -> []byte / []rune
		if sl, ok := to.Underlying().(*types.Slice); ok {
			if s, ok := v.(string); ok {
				arr := &ArrayV{}
				if eb, _ := sl.Elem().Underlying().(*types.Basic); eb != nil && eb.Kind() == types.Uint8 {
					for i := 0; i < len(s); i++ {
						arr.E = append(arr.E, int64(s[i]))
					}
				} else {
					for _, r := range s {
						arr.E = append(arr.E, int64(r))
					}
				}
				id := st.alloc(types.NewArray(sl.Elem(), int64(len(arr.E))), arr)
				return SliceV{Obj: id, Len_: len(arr.E), Cap: len(arr.E)}, true
			}
			if o, ok := v.(OpaqueV); ok {
				return OpaqueV{"bytes(" + o.Name + ")"}, true
			}
		}
	case tb != nil && tb.Info()&types.IsString != 0:
		// []byte / []rune -> string
		if sl, ok := from.Underlying().(*types.Slice); ok {
			elems, many, ok := m.sliceElems(st, v)
			if !ok {
				break
			}
			if many {
				return AbsStr{NonE: true}, true
			}
			_ = sl
			if name, ok := opaqueRun(elems); ok {
				return OpaqueV{name}, true
			}
			allInt := true
			out := AbsStr{Exact: true}
			var sb strings.Builder
			for _, e := range elems {
				switch y := e.(type) {
				case SymV:
					allInt = false
					out.Syms = append(out.Syms, y.C)
					if eb, _ := sl.Elem().Underlying().(*types.Basic); (eb == nil || eb.Kind() != types.Uint8) && m.classHasHighByte(y.C) {
						st.Notes["int-to-string conversion of an input byte"] = true // string([]rune{rune(b)}) re-encodes too
					}
				case int64:
					if eb, _ := sl.Elem().Underlying().(*types.Basic); eb != nil && eb.Kind() == types.Uint8 {
						sb.WriteByte(byte(y))
					} else {
						sb.WriteRune(rune(y))
					}
					if m.Alpha != nil && y >= 0 && y < 256 && m.Alpha.Class[y] >= 0 {
						out.Syms = append(out.Syms, m.Alpha.Class[y])
					} else {
						out.Syms = append(out.Syms, -2)
					}
				default:
					return Unknown{Why: "string of slice"}, true
				}
			}
			if allInt {
				return sb.String(), true
			}
			for _, c := range out.Syms {
				if c == -2 {
					return AbsStr{NonE: true}, true
				}
			}
			if len(out.Syms) > m.MaxExact {
				return AbsStr{NonE: true}, true
			}
			return out, true
		}
	}
	st.stuck("conversion %s -> %s of %T", from, to, v)
	return nil, false
}

// ---- canonical state key -----------------------------------------------------

// Key renders the state canonically: live registers only, heap renamed in
// reachability order, tape windows and cursors relative to the slowest live
// cursor of each tape. It also trims the windows (normalising the state).
func (m *Machine) Key(st *State) string {
	type curRef struct {
		get func() int64
		set func(int64)
	}
	curs := map[int][]curRef{}
	// 1. live registers per frame
	type regEnt struct {
		idx int
		v   ssa.Value
	}
	frameRegs := make([][]regEnt, len(st.Frames))
	for fi, fr := range st.Frames {
		li := m.liveOf(fr.Fn)
		pc := fr.PC
		var live map[ssa.Value]bool
		if fi == len(st.Frames)-1 {
			live = li.liveBefore(fr.Blk, pc)
		} else {
			live = li.liveBefore(fr.Blk, pc+1)
			if cv, ok := fr.Blk.Instrs[pc].(ssa.Value); ok {
				delete(live, cv)
			}
		}
		for v := range fr.Regs {
			if !live[v] {
				delete(fr.Regs, v) // dead: drop (normalises and saves cloning)
			}
		}
		for v := range fr.Regs {
			frameRegs[fi] = append(frameRegs[fi], regEnt{li.idx[v], v})
		}
		sort.Slice(frameRegs[fi], func(i, j int) bool { return frameRegs[fi][i].idx < frameRegs[fi][j].idx })
		if m.Curs != nil {
			for _, re := range frameRegs[fi] {
				root, isCur := m.Curs.reg[re.v]
				if !isCur {
					continue
				}
				n, isInt := fr.Regs[re.v].(int64)
				if !isInt {
					continue
				}
				_ = n
				ts, ok := fr.Regs[root].(TapeStr)
				if !ok {
					if len(st.Tapes) != 1 {
						continue
					}
					ts = TapeStr{T: 0} // a single input string: every cursor is a position in it
				}
				if ts.Off != 0 {
					continue // an index into a shifted view is not an absolute position
				}
				fr, v := fr, re.v
				curs[ts.T] = append(curs[ts.T], curRef{func() int64 { return fr.Regs[v].(int64) }, func(x int64) { fr.Regs[v] = x }})
			}
		}
	}
	// views of a tape carry their own cursor (the offset)
	if m.Curs != nil {
		for fi, fr := range st.Frames {
			for _, re := range frameRegs[fi] {
				if ts, ok := fr.Regs[re.v].(TapeStr); ok && m.Curs.views[re.v] {
					fr, v, t := fr, re.v, ts.T
					curs[t] = append(curs[t], curRef{func() int64 { return fr.Regs[v].(TapeStr).Off }, func(x int64) { fr.Regs[v] = TapeStr{T: t, Off: x} }})
				}
			}
		}
	}
	// 2. heap reachability / renaming
	order := []int{}
	name := map[int]int{}
	var visit func(id int)
	visit = func(id int) {
		if _, ok := name[id]; ok {
			return
		}
		o := st.Heap[id]
		if o == nil {
			return
		}
		name[id] = len(order)
		order = append(order, id)
		var refs []int
		valRefs(o.V, &refs)
		for _, r := range refs {
			visit(r)
		}
	}
	for fi, fr := range st.Frames {
		for _, re := range frameRegs[fi] {
			var refs []int
			valRefs(fr.Regs[re.v], &refs)
			for _, r := range refs {
				visit(r)
			}
		}
	}
	if st.Globals != nil {
		var gs []*ssa.Global
		for g := range st.Globals {
			gs = append(gs, g)
		}
		sort.Slice(gs, func(i, j int) bool { return gs[i].Pos() < gs[j].Pos() })
		for _, g := range gs {
			visit(st.Globals[g])
		}
	}
	for id := range st.Heap {
		if _, ok := name[id]; !ok {
			delete(st.Heap, id)
		}
	}
	// heap cursors
	if m.Curs != nil {
		// a cursor structure is a heap object of its own or a (nested) struct-valued field of one
		var look func(t types.Type, v Val, depth int)
		look = func(t types.Type, v Val, depth int) {
			s, ok := t.Underlying().(*types.Struct)
			if !ok || depth > 3 {
				return
			}
			sv, ok := v.(*StructV)
			if !ok || len(sv.F) != s.NumFields() {
				return
			}
			if fc, has := m.Curs.fields[s]; has {
				if ts, ok := sv.F[fc.Str].(TapeStr); ok {
					if _, ok := sv.F[fc.Cur].(int64); ok {
						sv, cur := sv, fc.Cur
						curs[ts.T] = append(curs[ts.T], curRef{func() int64 { return sv.F[cur].(int64) }, func(x int64) { sv.F[cur] = x }})
					}
				}
				return
			}
			for i := 0; i < s.NumFields(); i++ {
				if _, isStruct := s.Field(i).Type().Underlying().(*types.Struct); isStruct {
					look(s.Field(i).Type(), sv.F[i], depth+1)
				}
			}
		}
		for _, id := range order {
			o := st.Heap[id]
			look(o.T, o.V, 0)
		}
	}
	// 3. per-tape normalisation
	var b strings.Builder
	for t, tp := range st.Tapes {
		cs := curs[t]
		end, hasEnd := tp.endAbs()
		if m.Curs != nil && m.Curs.forward && hasEnd {
			for _, c := range cs {
				if c.get() > int64(end) {
					c.set(int64(end))
				}
			}
		}
		base := tp.Base
		if len(cs) > 0 && m.Curs.forward {
			min := cs[0].get()
			for _, c := range cs {
				if c.get() < min {
					min = c.get()
				}
			}
			if int(min) > base {
				nb := int(min)
				if nb > tp.Base+len(tp.Syms) {
					nb = tp.Base + len(tp.Syms)
				}
				if hasEnd && nb > end {
					nb = end
				}
				tp.Syms = tp.Syms[nb-tp.Base:]
				tp.Base = nb
				base = nb
			}
		}
		fmt.Fprintf(&b, "T%d[", t)
		for _, s := range tp.Syms {
			fmt.Fprintf(&b, "%d,", s)
		}
		b.WriteString("]")
		// cursors are rendered relative to base
		for _, c := range cs {
			_ = c
		}
		_ = base
	}
	// relative rendering: temporarily shift cursor values
	shifted := []func(){}
	for t, cs := range curs {
		base := int64(st.Tapes[t].Base)
		for _, c := range cs {
			v := c.get()
			c.set(v - base)
			c, v := c, v
			shifted = append(shifted, func() { c.set(v) })
		}
	}
	pn := func(id int) string { return fmt.Sprintf("o%d", name[id]) }
	for fi, fr := range st.Frames {
		li := m.liveOf(fr.Fn)
		_ = li
		fmt.Fprintf(&b, "|F%d.%d.%d:", m.fnIdx[fr.Fn], fr.Blk.Index, fr.PC)
		for _, re := range frameRegs[fi] {
			fmt.Fprintf(&b, "%d=%s;", re.idx, fmtVal(fr.Regs[re.v], pn))
		}
	}
	for _, id := range order {
		o := st.Heap[id]
		if id < st.InitMark && st.GlobalWrite == "" {
			// allocated by the package initialisers and never written since (a store would have set GlobalWrite):
			// the same in every state of this machine, so its identity stands for its content (lookup tables)
			fmt.Fprintf(&b, "|o%d=init#%d", name[id], id)
			continue
		}
		if m.ReadFields != nil {
			if s, ok := o.T.Underlying().(*types.Struct); ok {
				if sv, ok := o.V.(*StructV); ok {
					rf := m.ReadFields[s]
					fmt.Fprintf(&b, "|o%d={", name[id])
					for i, f := range sv.F {
						if rf[i] {
							b.WriteString(fmtVal(f, pn))
						} else if _, isPtr := f.(Ptr); isPtr {
							b.WriteString(fmtVal(f, pn)) // keep the heap shape
						} else {
							b.WriteString("_")
						}
						b.WriteByte(',')
					}
					b.WriteString("}")
					continue
				}
			}
		}
		fmt.Fprintf(&b, "|o%d=%s", name[id], fmtVal(o.V, pn))
	}
	fmt.Fprintf(&b, "|need%d", st.NeedT)
	for _, undo := range shifted {
		undo()
	}
	return b.String()
}

// opaqueRun recognises a run of opaque bytes "x[i]", "x[i+1]", ... and names it "x[i:j]".
func opaqueRun(elems []Val) (string, bool) {
	if len(elems) == 0 {
		return "", false
	}
	base := ""
	lo := 0
	for k, e := range elems {
		o, ok := e.(OpaqueV)
		if !ok {
			return "", false
		}
		var b string
		var i int
		if n, _ := fmt.Sscanf(strings.Replace(o.Name, "[", " [ ", 1), "%s [ %d]", &b, &i); n != 2 {
			return "", false
		}
		if k == 0 {
			base, lo = b, i
		} else if b != base || i != lo+k {
			return "", false
		}
	}
	return fmt.Sprintf("%s[%d:%d]", base, lo, lo+len(elems)), true
}

func atomOf(op token.Token, a, b Val) string {
	r := func(v Val) string {
		switch x := v.(type) {
		case OpaqueV:
			return x.Name
		case LinV:
			return x.String()
		case string:
			return fmt.Sprintf("%q", x)
		case int64:
			return fmt.Sprint(x)
		}
		return fmtVal(v, func(i int) string { return fmt.Sprint(i) })
	}
	return r(a) + " " + op.String() + " " + r(b)
}

// linop: arithmetic and comparisons on symbolic integers.
func (m *Machine) linop(st *State, op token.Token, a, b Val) (Val, bool) {
	x, okx := linOf(a)
	y, oky := linOf(b)
	if !okx || !oky {
		if _, u := a.(Unknown); u {
			return Unknown{Why: "arith on unknown"}, true
		}
		if _, u := b.(Unknown); u {
			return Unknown{Why: "arith on unknown"}, true
		}
		st.stuck("symbolic integer combined with %T / %T", a, b)
		return nil, false
	}
	norm := func(l LinV) Val {
		if l.isConst() {
			return l.C
		}
		return l
	}
	switch op {
	case token.ADD:
		return norm(x.add(y, 1)), true
	case token.SUB:
		return norm(x.add(y, -1)), true
	case token.MUL:
		if y.isConst() {
			return norm(x.scale(y.C)), true
		}
		if x.isConst() {
			return norm(y.scale(x.C)), true
		}
	case token.REM:
		if y.isConst() && y.C != 0 {
			return linSym(fmt.Sprintf("(%s)%%%d", x.String(), y.C)), true
		}
	case token.QUO:
		if y.isConst() && y.C != 0 {
			return linSym(fmt.Sprintf("(%s)/%d", x.String(), y.C)), true
		}
	case token.EQL, token.NEQ, token.LSS, token.LEQ, token.GTR, token.GEQ:
		d := x.add(y, -1)
		if d.isConst() {
			r, _ := cmpInt(op, d.C, 0)
			return r, true
		}
		return Unknown{Why: "symbolic comparison", Atom: x.String() + " " + op.String() + " " + y.String()}, true
	}
	st.stuck("operator %s on symbolic integers", op)
	return nil, false
}

// InitPackages runs the init functions of the given repository packages on st
// (which must have no frames), so that package-level tables have their
// initial values. Init functions of other packages are skipped.
func (m *Machine) InitPackages(st *State, pkgs ...string) string {
	m.inInit = true
	defer func() { m.inInit = false }()
	if st.Globals == nil {
		st.Globals = map[*ssa.Global]int{}
	}
	allowed := map[*ssa.Function]bool{}
	for _, k := range pkgs {
		if sp := m.P.SPkg[k]; sp != nil {
			if f := sp.Func("init"); f != nil {
				allowed[f] = true
			}
		}
	}
	prev := m.Hooks
	m.Hooks = map[string]HookFn{}
	for k, v := range prev {
		m.Hooks[k] = v
	}
	defer func() { m.Hooks = prev }()
	m.skipInit = func(fn *ssa.Function) bool {
		return fn.Name() == "init" && fn.Signature.Params().Len() == 0 && fn.Signature.Recv() == nil && !allowed[fn]
	}
	defer func() { m.skipInit = nil }()
	for _, k := range pkgs {
		sp := m.P.SPkg[k]
		if sp == nil {
			return "package " + k + " not loaded"
		}
		f := sp.Func("init")
		if f == nil {
			continue
		}
		st.Status = stRun
		st.push(f, nil, nil)
		out := m.Run(st)
		if len(out) != 1 || out[0] != st || st.Status != stRet {
			return "package initialiser of " + k + ": " + retDesc(out)
		}
		st.Status = stRun
		st.Ret = nil
	}
	return ""
}

func permutations(n int) [][]int {
	if n == 0 {
		return [][]int{{}}
	}
	var out [][]int
	var rec func(cur []int, used []bool)
	rec = func(cur []int, used []bool) {
		if len(cur) == n {
			out = append(out, append([]int(nil), cur...))
			return
		}
		for i := 0; i < n; i++ {
			if !used[i] {
				used[i] = true
				rec(append(cur, i), used)
				used[i] = false
			}
		}
	}
	rec(nil, make([]bool, n))
	return out
}

// exactDigest renders everything a deterministic run on exact values depends on: every register of every frame
// (rendered through the heap, so that what a pointer leads to is part of it) and the package-level variables.
// Unlike Key it abstracts nothing: two equal digests at the same instruction mean the run repeats itself.
func exactDigest(st *State) string {
	var b strings.Builder
	for _, fr := range st.Frames {
		fmt.Fprintf(&b, "F%p/%d/%d{", fr.Blk, fr.PC, len(fr.Regs))
		keys := make([]string, 0, len(fr.Regs))
		byName := map[string]ssa.Value{}
		for v := range fr.Regs {
			n := fmt.Sprintf("%s@%p", v.Name(), v)
			keys = append(keys, n)
			byName[n] = v
		}
		sort.Strings(keys)
		for _, n := range keys {
			b.WriteString(n + "=" + deepRender(st, fr.Regs[byName[n]], 0) + ";")
		}
		b.WriteString("}")
	}
	b.WriteString(heapDigest(st, nilV{}))
	return b.String()
}
