package main

// Models of pure standard-library string functions for the abstract
// interpreter. They apply only when every argument is an exact value; with an
// abstract argument the call is left unmodelled (-> undecided) unless a rule
// installs its own oracle.

import (
	"os"
	"bytes"
	"encoding/hex"
	"fmt"
	"go/types"
	"path"
	"path/filepath"
	"strconv"
	"strings"
	"unicode"
	"unicode/utf8"

	"golang.org/x/tools/go/ssa"
)

func strSlice(st *State, elems []string) Val {
	arr := &ArrayV{}
	for _, e := range elems {
		arr.E = append(arr.E, e)
	}
	id := st.alloc(types.NewArray(types.Typ[types.String], int64(len(elems))), arr)
	return SliceV{Obj: id, Len_: len(elems), Cap: len(elems)}
}

// byteSliceVal builds an exact []byte.
func byteSliceVal(st *State, b []byte) Val {
	arr := &ArrayV{}
	for _, x := range b {
		arr.E = append(arr.E, int64(x))
	}
	id := st.alloc(types.NewArray(types.Typ[types.Uint8], int64(len(b))), arr)
	return SliceV{Obj: id, Len_: len(b), Cap: len(b)}
}

func exactStrings(args []Val) ([]string, bool) {
	out := make([]string, len(args))
	for i, a := range args {
		s, ok := a.(string)
		if !ok {
			return nil, false
		}
		out[i] = s
	}
	return out, true
}

func installStringModels(m *Machine) {
	installMapModels(m)
	errT := types.Universe.Lookup("error").Type()
	s1 := func(f func(a string) Val) HookFn {
		return func(m *Machine, st *State, call *ssa.CallCommon, args []Val) ([]Val, bool) {
			a, ok := exactStrings(args)
			if !ok || len(a) != 1 {
				return nil, false
			}
			return []Val{f(a[0])}, true
		}
	}
	s2 := func(f func(st *State, a, b string) Val) HookFn {
		return func(m *Machine, st *State, call *ssa.CallCommon, args []Val) ([]Val, bool) {
			a, ok := exactStrings(args)
			if !ok || len(a) != 2 {
				return nil, false
			}
			return []Val{f(st, a[0], a[1])}, true
		}
	}
	m.Hooks["strings.TrimSpace"] = s1(func(a string) Val { return strings.TrimSpace(a) })
	m.Hooks["strings.ToLower"] = s1(func(a string) Val { return strings.ToLower(a) })
	m.Hooks["path.Clean"] = s1(func(a string) Val { return path.Clean(a) })
	m.Hooks["path/filepath.Base"] = s1(func(a string) Val { return filepath.Base(a) })
	m.Hooks["path/filepath.Dir"] = s1(func(a string) Val { return filepath.Dir(a) })
	m.Hooks["path/filepath.Ext"] = s1(func(a string) Val { return filepath.Ext(a) })
	m.Hooks["path/filepath.Clean"] = s1(func(a string) Val { return filepath.Clean(a) })
	m.Hooks["path.Base"] = s1(func(a string) Val { return path.Base(a) })
	m.Hooks["path.Ext"] = s1(func(a string) Val { return path.Ext(a) })
	m.Hooks["strings.Contains"] = s2(func(st *State, a, b string) Val { return strings.Contains(a, b) })
	m.Hooks["strings.HasPrefix"] = s2(func(st *State, a, b string) Val { return strings.HasPrefix(a, b) })
	m.Hooks["strings.HasSuffix"] = s2(func(st *State, a, b string) Val { return strings.HasSuffix(a, b) })
	m.Hooks["strings.TrimSuffix"] = s2(func(st *State, a, b string) Val { return strings.TrimSuffix(a, b) })
	m.Hooks["strings.TrimPrefix"] = s2(func(st *State, a, b string) Val { return strings.TrimPrefix(a, b) })
	m.Hooks["strings.Trim"] = s2(func(st *State, a, b string) Val { return strings.Trim(a, b) })
	m.Hooks["strings.TrimRight"] = s2(func(st *State, a, b string) Val { return strings.TrimRight(a, b) })
	m.Hooks["strings.TrimLeft"] = s2(func(st *State, a, b string) Val { return strings.TrimLeft(a, b) })
	// suffix views of an input tape: trimming from the left moves the view's start
	viewAware := func(name string, f func(m *Machine, st *State, ts TapeStr, arg string) ([]Val, bool)) {
		old := m.Hooks[name]
		m.Hooks[name] = func(m *Machine, st *State, call *ssa.CallCommon, args []Val) ([]Val, bool) {
			if ts, ok := args[0].(TapeStr); ok {
				arg, ok := args[1].(string)
				if !ok {
					return nil, false
				}
				return f(m, st, ts, arg)
			}
			return old(m, st, call, args)
		}
	}
	// classOf: 1 = every byte of the class is in set, 0 = none is, -1 = mixed
	inSet := func(m *Machine, sym int, set string) int {
		all, none := true, true
		for _, b := range m.Alpha.Members[sym] {
			if strings.IndexByte(set, b) >= 0 {
				none = false
			} else {
				all = false
			}
		}
		switch {
		case all:
			return 1
		case none:
			return 0
		}
		return -1
	}
	viewAware("strings.TrimLeft", func(m *Machine, st *State, ts TapeStr, cut string) ([]Val, bool) {
		off := ts.Off
		for {
			sym, ok := st.symAt(ts.T, int(off))
			if !ok {
				// blocked: retried after the next symbol is revealed. Keep the progress made so far when
				// the operand is dead after this call (TrimLeft(s[k:]) continues where TrimLeft(s) stopped).
				if off > ts.Off {
					fr := st.top()
					if call, isCall := fr.Blk.Instrs[fr.PC].(*ssa.Call); isCall && len(call.Call.Args) > 0 {
						arg := call.Call.Args[0]
						if !m.liveOf(fr.Fn).liveBefore(fr.Blk, fr.PC+1)[arg] {
							if cur, isView := fr.Regs[arg].(TapeStr); isView && cur == ts {
								fr.Regs[arg] = TapeStr{T: ts.T, Off: off}
							}
						}
					}
				}
				return nil, true
			}
			if sym == symEND {
				break
			}
			switch inSet(m, sym, cut) {
			case 1:
				off++
				continue
			case -1:
				st.stuck("alphabet class too coarse for strings.TrimLeft(%q)", cut)
				return nil, true
			}
			break
		}
		return []Val{TapeStr{T: ts.T, Off: off}}, true
	})
	prefix := func(m *Machine, st *State, ts TapeStr, pre string) (bool, bool) { // has, decided
		for i := 0; i < len(pre); i++ {
			sym, ok := st.symAt(ts.T, int(ts.Off)+i)
			if !ok {
				return false, false
			}
			if sym == symEND {
				return false, true
			}
			switch inSet(m, sym, pre[i:i+1]) {
			case 0:
				return false, true
			case -1:
				st.stuck("alphabet class too coarse for a prefix test with %q", pre)
				return false, false
			}
		}
		return true, true
	}
	viewAware("strings.HasPrefix", func(m *Machine, st *State, ts TapeStr, pre string) ([]Val, bool) {
		has, ok := prefix(m, st, ts, pre)
		if !ok {
			return nil, true
		}
		return []Val{has}, true
	})
	viewAware("strings.TrimPrefix", func(m *Machine, st *State, ts TapeStr, pre string) ([]Val, bool) {
		has, ok := prefix(m, st, ts, pre)
		if !ok {
			return nil, true
		}
		if has {
			return []Val{TapeStr{T: ts.T, Off: ts.Off + int64(len(pre))}}, true
		}
		return []Val{ts}, true
	})
	m.Hooks["strings.ToUpper"] = s1(func(a string) Val { return strings.ToUpper(a) })
	m.Hooks["strings.ToTitle"] = s1(func(a string) Val { return strings.ToTitle(a) })
	m.Hooks["strings.ToValidUTF8"] = func(m *Machine, st *State, call *ssa.CallCommon, args []Val) ([]Val, bool) {
		a, ok := exactStrings(args)
		if !ok || len(a) != 2 {
			return nil, false
		}
		return []Val{strings.ToValidUTF8(a[0], a[1])}, true
	}
	m.Hooks["strings.Compare"] = s2(func(st *State, a, b string) Val { return int64(strings.Compare(a, b)) })
	m.Hooks["strings.LastIndexAny"] = s2(func(st *State, a, b string) Val { return int64(strings.LastIndexAny(a, b)) })
	m.Hooks["strings.CutPrefix"] = func(m *Machine, st *State, call *ssa.CallCommon, args []Val) ([]Val, bool) {
		a, ok := exactStrings(args)
		if !ok || len(a) != 2 {
			return nil, false
		}
		after, found := strings.CutPrefix(a[0], a[1])
		return []Val{&TupleV{E: []Val{after, found}}}, true
	}
	m.Hooks["strings.CutSuffix"] = func(m *Machine, st *State, call *ssa.CallCommon, args []Val) ([]Val, bool) {
		a, ok := exactStrings(args)
		if !ok || len(a) != 2 {
			return nil, false
		}
		before, found := strings.CutSuffix(a[0], a[1])
		return []Val{&TupleV{E: []Val{before, found}}}, true
	}
	m.Hooks["strings.SplitAfterN"] = func(m *Machine, st *State, call *ssa.CallCommon, args []Val) ([]Val, bool) {
		a, ok1 := args[0].(string)
		b, ok2 := args[1].(string)
		n, ok3 := args[2].(int64)
		if !ok1 || !ok2 || !ok3 {
			return nil, false
		}
		return []Val{strSlice(st, strings.SplitAfterN(a, b, int(n)))}, true
	}
	m.Hooks["unicode/utf8.RuneCountInString"] = func(m *Machine, st *State, call *ssa.CallCommon, args []Val) ([]Val, bool) {
		a, ok := args[0].(string)
		return []Val{int64(utf8.RuneCountInString(a))}, ok
	}
	m.Hooks["unicode/utf8.ValidString"] = func(m *Machine, st *State, call *ssa.CallCommon, args []Val) ([]Val, bool) {
		a, ok := args[0].(string)
		return []Val{utf8.ValidString(a)}, ok
	}
	m.Hooks["strings.Index"] = s2(func(st *State, a, b string) Val { return int64(strings.Index(a, b)) })
	m.Hooks["strings.LastIndex"] = s2(func(st *State, a, b string) Val { return int64(strings.LastIndex(a, b)) })
	m.Hooks["strings.Split"] = s2(func(st *State, a, b string) Val { return strSlice(st, strings.Split(a, b)) })
	m.Hooks["strings.ContainsRune"] = func(m *Machine, st *State, call *ssa.CallCommon, args []Val) ([]Val, bool) {
		s, ok := args[0].(string)
		r, ok2 := args[1].(int64)
		if !ok || !ok2 {
			return nil, false
		}
		return []Val{strings.ContainsRune(s, rune(r))}, true
	}
	m.Hooks["strings.IndexByte"] = func(m *Machine, st *State, call *ssa.CallCommon, args []Val) ([]Val, bool) {
		s, ok := args[0].(string)
		r, ok2 := args[1].(int64)
		if !ok || !ok2 {
			return nil, false
		}
		return []Val{int64(strings.IndexByte(s, byte(r)))}, true
	}
	m.Hooks["strings.IndexRune"] = func(m *Machine, st *State, call *ssa.CallCommon, args []Val) ([]Val, bool) {
		s, ok := args[0].(string)
		r, ok2 := args[1].(int64)
		if !ok || !ok2 {
			return nil, false
		}
		return []Val{int64(strings.IndexRune(s, rune(r)))}, true
	}
	m.Hooks["strings.Cut"] = func(m *Machine, st *State, call *ssa.CallCommon, args []Val) ([]Val, bool) {
		a, ok := exactStrings(args)
		if !ok || len(a) != 2 {
			return nil, false
		}
		x, y, found := strings.Cut(a[0], a[1])
		return []Val{&TupleV{E: []Val{x, y, found}}}, true
	}
	m.Hooks["strings.LastIndexByte"] = func(m *Machine, st *State, call *ssa.CallCommon, args []Val) ([]Val, bool) {
		s, ok := args[0].(string)
		r, ok2 := args[1].(int64)
		if !ok || !ok2 {
			return nil, false
		}
		return []Val{int64(strings.LastIndexByte(s, byte(r)))}, true
	}
	m.Hooks["strings.Count"] = s2(func(st *State, a, b string) Val { return int64(strings.Count(a, b)) })
	m.Hooks["strings.EqualFold"] = s2(func(st *State, a, b string) Val { return strings.EqualFold(a, b) })
	m.Hooks["strings.ContainsAny"] = s2(func(st *State, a, b string) Val { return strings.ContainsAny(a, b) })
	m.Hooks["strings.IndexAny"] = s2(func(st *State, a, b string) Val { return int64(strings.IndexAny(a, b)) })
	m.Hooks["strings.SplitAfter"] = s2(func(st *State, a, b string) Val { return strSlice(st, strings.SplitAfter(a, b)) })
	m.Hooks["strings.ReplaceAll"] = func(m *Machine, st *State, call *ssa.CallCommon, args []Val) ([]Val, bool) {
		a, ok := exactStrings(args)
		if !ok || len(a) != 3 {
			return nil, false
		}
		return []Val{strings.ReplaceAll(a[0], a[1], a[2])}, true
	}
	m.Hooks["strings.Repeat"] = func(m *Machine, st *State, call *ssa.CallCommon, args []Val) ([]Val, bool) {
		s, ok := args[0].(string)
		n, ok2 := args[1].(int64)
		if !ok || !ok2 || n < 0 || n > 1000 {
			return nil, false
		}
		return []Val{strings.Repeat(s, int(n))}, true
	}
	byteSliceOf := func(st *State, v Val) ([]byte, bool) { return exactBytes(m, st, v) }
	_ = func(st *State, v Val) ([]byte, bool) {
		if _, isNil := v.(nilV); isNil {
			return nil, true
		}
		elems, many, ok := m.sliceElems(st, v)
		if !ok || many {
			return nil, false
		}
		out := make([]byte, len(elems))
		for i, e := range elems {
			n, ok := e.(int64)
			if !ok {
				return nil, false
			}
			out[i] = byte(n)
		}
		return out, true
	}
	b2 := func(f func(a, b []byte) Val) HookFn {
		return func(m *Machine, st *State, call *ssa.CallCommon, args []Val) ([]Val, bool) {
			x, ok1 := byteSliceOf(st, args[0])
			y, ok2 := byteSliceOf(st, args[1])
			if !ok1 || !ok2 {
				return nil, false
			}
			return []Val{f(x, y)}, true
		}
	}
	m.Hooks["bytes.Equal"] = b2(func(a, b []byte) Val { return bytes.Equal(a, b) })
	m.Hooks["crypto/subtle.ConstantTimeCompare"] = b2(func(a, b []byte) Val {
		if len(a) == len(b) && bytes.Equal(a, b) {
			return int64(1)
		}
		return int64(0)
	})
	m.Hooks["bytes.HasPrefix"] = b2(func(a, b []byte) Val { return bytes.HasPrefix(a, b) })
	m.Hooks["bytes.HasSuffix"] = b2(func(a, b []byte) Val { return bytes.HasSuffix(a, b) })
	m.Hooks["bytes.Contains"] = b2(func(a, b []byte) Val { return bytes.Contains(a, b) })
	// exact models of further bytes functions
	b1b := func(f func(a []byte) []byte) HookFn {
		return func(m *Machine, st *State, call *ssa.CallCommon, args []Val) ([]Val, bool) {
			x, ok := byteSliceOf(st, args[0])
			if !ok {
				return nil, false
			}
			return []Val{byteSliceVal(st, f(x))}, true
		}
	}
	b2b := func(f func(a, b []byte) []byte) HookFn {
		return func(m *Machine, st *State, call *ssa.CallCommon, args []Val) ([]Val, bool) {
			x, ok1 := byteSliceOf(st, args[0])
			y, ok2 := byteSliceOf(st, args[1])
			if !ok1 || !ok2 {
				return nil, false
			}
			return []Val{byteSliceVal(st, f(x, y))}, true
		}
	}
	bsb := func(f func(a []byte, s string) []byte) HookFn {
		return func(m *Machine, st *State, call *ssa.CallCommon, args []Val) ([]Val, bool) {
			x, ok1 := byteSliceOf(st, args[0])
			y, ok2 := args[1].(string)
			if !ok1 || !ok2 {
				return nil, false
			}
			return []Val{byteSliceVal(st, f(x, y))}, true
		}
	}
	m.Hooks["bytes.TrimSpace"] = b1b(bytes.TrimSpace)
	m.Hooks["bytes.ToLower"] = b1b(bytes.ToLower)
	m.Hooks["bytes.ToUpper"] = b1b(bytes.ToUpper)
	m.Hooks["bytes.TrimSuffix"] = b2b(bytes.TrimSuffix)
	m.Hooks["bytes.TrimPrefix"] = b2b(bytes.TrimPrefix)
	m.Hooks["bytes.Trim"] = bsb(bytes.Trim)
	m.Hooks["bytes.TrimLeft"] = bsb(bytes.TrimLeft)
	m.Hooks["bytes.TrimRight"] = bsb(bytes.TrimRight)
	m.Hooks["bytes.Index"] = b2(func(a, b []byte) Val { return int64(bytes.Index(a, b)) })
	m.Hooks["bytes.LastIndex"] = b2(func(a, b []byte) Val { return int64(bytes.LastIndex(a, b)) })
	m.Hooks["bytes.Compare"] = b2(func(a, b []byte) Val { return int64(bytes.Compare(a, b)) })
	m.Hooks["bytes.IndexByte"] = func(m *Machine, st *State, call *ssa.CallCommon, args []Val) ([]Val, bool) {
		x, ok1 := byteSliceOf(st, args[0])
		c, ok2 := args[1].(int64)
		if !ok1 || !ok2 {
			return nil, false
		}
		return []Val{int64(bytes.IndexByte(x, byte(c)))}, true
	}
	m.Hooks["bytes.LastIndexByte"] = func(m *Machine, st *State, call *ssa.CallCommon, args []Val) ([]Val, bool) {
		x, ok1 := byteSliceOf(st, args[0])
		c, ok2 := args[1].(int64)
		if !ok1 || !ok2 {
			return nil, false
		}
		return []Val{int64(bytes.LastIndexByte(x, byte(c)))}, true
	}
	m.Hooks["bytes.Fields"] = func(m *Machine, st *State, call *ssa.CallCommon, args []Val) ([]Val, bool) {
		x, ok := byteSliceOf(st, args[0])
		if !ok {
			return nil, false
		}
		arr := &ArrayV{}
		for _, f := range bytes.Fields(x) {
			arr.E = append(arr.E, byteSliceVal(st, f))
		}
		id := st.alloc(types.NewArray(types.NewSlice(types.Typ[types.Uint8]), int64(len(arr.E))), arr)
		return []Val{SliceV{Obj: id, Len_: len(arr.E), Cap: len(arr.E)}}, true
	}
	m.Hooks["encoding/hex.DecodedLen"] = func(m *Machine, st *State, call *ssa.CallCommon, args []Val) ([]Val, bool) {
		n, ok := args[0].(int64)
		return []Val{n / 2}, ok
	}
	m.Hooks["encoding/hex.EncodedLen"] = func(m *Machine, st *State, call *ssa.CallCommon, args []Val) ([]Val, bool) {
		n, ok := args[0].(int64)
		return []Val{n * 2}, ok
	}
	m.Hooks["encoding/hex.Decode"] = func(m *Machine, st *State, call *ssa.CallCommon, args []Val) ([]Val, bool) {
		dst, ok0 := args[0].(SliceV)
		src, ok := byteSliceOf(st, args[1])
		if !ok0 || !ok || dst.Abs {
			return nil, false
		}
		out := make([]byte, hex.DecodedLen(len(src)))
		n, err := hex.Decode(out, src)
		if n > dst.Len_ {
			st.Status = stPanic
			st.Msg = "hex.Decode: destination too short"
			return nil, true
		}
		for i := 0; i < n; i++ {
			st.store(Ptr{Obj: dst.Obj, Path: pathAppend(dst.Path, dst.Lo+i)}, int64(out[i]))
		}
		if err != nil {
			return []Val{&TupleV{E: []Val{int64(n), IfaceV{T: errType, V: "bad hex"}}}}, true
		}
		return []Val{&TupleV{E: []Val{int64(n), nilV{}}}}, true
	}
	m.Hooks["encoding/hex.EncodeToString"] = func(m *Machine, st *State, call *ssa.CallCommon, args []Val) ([]Val, bool) {
		if o, ok := args[0].(OpaqueV); ok {
			return []Val{OpaqueV{"hex(" + o.Name + ")"}}, true
		}
		x, ok := byteSliceOf(st, args[0])
		if !ok {
			return nil, false
		}
		return []Val{hex.EncodeToString(x)}, true
	}
	m.Hooks["strconv.FormatUint"] = func(m *Machine, st *State, call *ssa.CallCommon, args []Val) ([]Val, bool) {
		n, ok := args[0].(int64)
		base, ok2 := args[1].(int64)
		if !ok || !ok2 {
			return nil, false
		}
		return []Val{strconv.FormatUint(uint64(n), int(base))}, true
	}
	m.Hooks["strconv.FormatInt"] = func(m *Machine, st *State, call *ssa.CallCommon, args []Val) ([]Val, bool) {
		n, ok := args[0].(int64)
		base, ok2 := args[1].(int64)
		if !ok || !ok2 {
			return nil, false
		}
		return []Val{strconv.FormatInt(n, int(base))}, true
	}
	// strings.Builder: the builder's content lives in an opaque cell keyed by the builder's address
	builderCell := func(st *State, recv Val) (*HObj, bool) {
		p, ok := recv.(Ptr)
		if !ok {
			return nil, false
		}
		key := fmt.Sprintf("builder:%d:%s", p.Obj, p.Path)
		// the cell hangs off the builder value itself (its first field), so that `b = strings.Builder{}` and a
		// builder declared inside a loop start empty again; a builder that cannot be loaded as a struct (an opaque
		// or partially known object) falls back to a cell keyed by its address
		linked := false
		if bv, ok := st.load(p); ok {
			if sv, isS := bv.(*StructV); isS && len(sv.F) > 0 {
				linked = true
				if cp, isPtr := sv.F[0].(Ptr); isPtr {
					if co, has := st.Heap[cp.Obj]; has {
						if cv, isCell := co.V.(*StructV); isCell && len(cv.F) == 2 {
							if k, isStr := cv.F[0].(string); isStr && strings.HasPrefix(k, "builder:") {
								return co, true
							}
						}
					}
				}
			}
		}
		if !linked {
			for _, o := range st.Heap {
				if bv, ok := o.V.(*StructV); ok && len(bv.F) == 2 {
					if k, ok := bv.F[0].(string); ok && k == key {
						return o, true
					}
				}
			}
		}
		id := st.alloc(types.Typ[types.String], &StructV{F: []Val{key, ""}})
		// keep the cell reachable from the builder object so that state normalisation does not drop it
		if bo, ok := st.Heap[p.Obj]; ok {
			if sv, ok := bo.V.(*StructV); ok && p.Path == "" && len(sv.F) > 0 {
				sv.F[0] = Ptr{Obj: id}
			} else if p.Path != "" {
				st.store(Ptr{Obj: p.Obj, Path: pathAppend(p.Path, 0)}, Ptr{Obj: id})
			}
		}
		return st.Heap[id], true
	}
	m.Hooks["(*strings.Builder).WriteString"] = func(m *Machine, st *State, call *ssa.CallCommon, args []Val) ([]Val, bool) {
		c, ok := builderCell(st, args[0])
		s, ok2 := args[1].(string)
		if !ok || !ok2 {
			return nil, false
		}
		sv := c.V.(*StructV)
		sv.F[1] = sv.F[1].(string) + s
		return []Val{&TupleV{E: []Val{int64(len(s)), nilV{}}}}, true
	}
	m.Hooks["(*strings.Builder).WriteByte"] = func(m *Machine, st *State, call *ssa.CallCommon, args []Val) ([]Val, bool) {
		c, ok := builderCell(st, args[0])
		b, ok2 := args[1].(int64)
		if !ok || !ok2 {
			return nil, false
		}
		sv := c.V.(*StructV)
		sv.F[1] = sv.F[1].(string) + string([]byte{byte(b)})
		return []Val{nilV{}}, true
	}
	m.Hooks["(*strings.Builder).WriteRune"] = func(m *Machine, st *State, call *ssa.CallCommon, args []Val) ([]Val, bool) {
		c, ok := builderCell(st, args[0])
		b, ok2 := args[1].(int64)
		if !ok || !ok2 {
			return nil, false
		}
		sv := c.V.(*StructV)
		sv.F[1] = sv.F[1].(string) + string(rune(b))
		return []Val{&TupleV{E: []Val{int64(1), nilV{}}}}, true
	}
	m.Hooks["(*strings.Builder).String"] = func(m *Machine, st *State, call *ssa.CallCommon, args []Val) ([]Val, bool) {
		c, ok := builderCell(st, args[0])
		if !ok {
			return nil, false
		}
		return []Val{c.V.(*StructV).F[1]}, true
	}
	m.Hooks["(*strings.Builder).Len"] = func(m *Machine, st *State, call *ssa.CallCommon, args []Val) ([]Val, bool) {
		c, ok := builderCell(st, args[0])
		if !ok {
			return nil, false
		}
		return []Val{int64(len(c.V.(*StructV).F[1].(string)))}, true
	}
	// bytes.Buffer used as a string builder: same cell model
	for _, n := range []string{"WriteString", "WriteByte", "WriteRune", "String", "Len"} {
		m.Hooks["(*bytes.Buffer)."+n] = m.Hooks["(*strings.Builder)."+n]
	}
	for _, recvT := range []string{"(*strings.Builder)", "(*bytes.Buffer)"} {
		m.Hooks[recvT+".Grow"] = func(m *Machine, st *State, call *ssa.CallCommon, args []Val) ([]Val, bool) {
			if n, ok := args[1].(int64); ok && n < 0 {
				st.Status = stPanic
				st.Msg = "negative count passed to Grow"
				return nil, true
			}
			return []Val{nil}, true
		}
		m.Hooks[recvT+".Reset"] = func(m *Machine, st *State, call *ssa.CallCommon, args []Val) ([]Val, bool) {
			c, ok := builderCell(st, args[0])
			if !ok {
				return nil, false
			}
			c.V.(*StructV).F[1] = ""
			return []Val{nil}, true
		}
		m.Hooks[recvT+".Write"] = func(m *Machine, st *State, call *ssa.CallCommon, args []Val) ([]Val, bool) {
			c, ok := builderCell(st, args[0])
			b, ok2 := byteSliceOf(st, args[1])
			if !ok || !ok2 {
				return nil, false
			}
			sv := c.V.(*StructV)
			sv.F[1] = sv.F[1].(string) + string(b)
			return []Val{&TupleV{E: []Val{int64(len(b)), nilV{}}}}, true
		}
	}
	m.Hooks["(*bytes.Buffer).Bytes"] = func(m *Machine, st *State, call *ssa.CallCommon, args []Val) ([]Val, bool) {
		c, ok := builderCell(st, args[0])
		if !ok {
			return nil, false
		}
		return []Val{byteSliceVal(st, []byte(c.V.(*StructV).F[1].(string)))}, true
	}
	m.Hooks["strings.Fields"] = func(m *Machine, st *State, call *ssa.CallCommon, args []Val) ([]Val, bool) {
		a, ok := exactStrings(args)
		if !ok {
			return nil, false
		}
		return []Val{strSlice(st, strings.Fields(a[0]))}, true
	}
	m.Hooks["path.Join"] = func(m *Machine, st *State, call *ssa.CallCommon, args []Val) ([]Val, bool) {
		elems, many, ok := m.sliceElems(st, args[0])
		if !ok || many {
			return nil, false
		}
		a, ok := exactStrings(elems)
		if !ok {
			return nil, false
		}
		return []Val{path.Join(a...)}, true
	}
	m.Hooks["path/filepath.Join"] = m.Hooks["path.Join"]
	m.Hooks["strings.SplitN"] = func(m *Machine, st *State, call *ssa.CallCommon, args []Val) ([]Val, bool) {
		a, ok := exactStrings(args[:2])
		n, ok2 := args[2].(int64)
		if !ok || !ok2 {
			return nil, false
		}
		return []Val{strSlice(st, strings.SplitN(a[0], a[1], int(n)))}, true
	}
	m.Hooks["strings.Join"] = func(m *Machine, st *State, call *ssa.CallCommon, args []Val) ([]Val, bool) {
		elems, many, ok := m.sliceElems(st, args[0])
		sep, ok2 := args[1].(string)
		if !ok || many || !ok2 {
			return nil, false
		}
		a, ok := exactStrings(elems)
		if !ok {
			return nil, false
		}
		return []Val{strings.Join(a, sep)}, true
	}
	m.Hooks["strings.Replace"] = func(m *Machine, st *State, call *ssa.CallCommon, args []Val) ([]Val, bool) {
		a, ok := exactStrings(args[:3])
		n, ok2 := args[3].(int64)
		if !ok || !ok2 {
			return nil, false
		}
		return []Val{strings.Replace(a[0], a[1], a[2], int(n))}, true
	}
	m.Hooks["strconv.Itoa"] = func(m *Machine, st *State, call *ssa.CallCommon, args []Val) ([]Val, bool) {
		n, ok := args[0].(int64)
		if !ok {
			return nil, false
		}
		return []Val{strconv.Itoa(int(n))}, true
	}
	m.Hooks["strconv.Atoi"] = func(m *Machine, st *State, call *ssa.CallCommon, args []Val) ([]Val, bool) {
		s, ok := args[0].(string)
		if !ok {
			return nil, false
		}
		n, err := strconv.ParseInt(s, 10, wordBits)
		if err != nil {
			return []Val{&TupleV{E: []Val{int64(0), IfaceV{T: errT, V: "syntax"}}}}, true
		}
		return []Val{&TupleV{E: []Val{n, nilV{}}}}, true
	}
	m.Hooks["strconv.ParseInt"] = func(m *Machine, st *State, call *ssa.CallCommon, args []Val) ([]Val, bool) {
		s, ok := args[0].(string)
		base, ok1 := args[1].(int64)
		bits, ok2 := args[2].(int64)
		if !ok || !ok1 || !ok2 {
			return nil, false
		}
		if bits == 0 {
			bits = int64(wordBits)
		}
		n, err := strconv.ParseInt(s, int(base), int(bits))
		if err != nil {
			return []Val{&TupleV{E: []Val{n, IfaceV{T: errT, V: "syntax"}}}}, true
		}
		return []Val{&TupleV{E: []Val{n, nilV{}}}}, true
	}
	m.Hooks["strconv.ParseUint"] = func(m *Machine, st *State, call *ssa.CallCommon, args []Val) ([]Val, bool) {
		s, ok := args[0].(string)
		base, ok1 := args[1].(int64)
		bits, ok2 := args[2].(int64)
		if !ok || !ok1 || !ok2 {
			return nil, false
		}
		if bits == 0 {
			bits = int64(wordBits)
		}
		n, err := strconv.ParseUint(s, int(base), int(bits))
		if err != nil {
			return []Val{&TupleV{E: []Val{int64(n), IfaceV{T: errT, V: "syntax"}}}}, true
		}
		return []Val{&TupleV{E: []Val{int64(n), nilV{}}}}, true
	}
	for _, name := range []string{"AppendInt", "AppendUint"} {
		name := name
		m.Hooks["strconv."+name] = func(m *Machine, st *State, call *ssa.CallCommon, args []Val) ([]Val, bool) {
			dst, ok := byteSliceOf(st, args[0])
			n, ok1 := args[1].(int64)
			base, ok2 := args[2].(int64)
			if !ok || !ok1 || !ok2 {
				return nil, false
			}
			if name == "AppendInt" {
				return []Val{byteSliceVal(st, strconv.AppendInt(dst, n, int(base)))}, true
			}
			return []Val{byteSliceVal(st, strconv.AppendUint(dst, uint64(n), int(base)))}, true
		}
	}
	m.Hooks["strconv.AppendBool"] = func(m *Machine, st *State, call *ssa.CallCommon, args []Val) ([]Val, bool) {
		dst, ok := byteSliceOf(st, args[0])
		b, ok1 := args[1].(bool)
		if !ok || !ok1 {
			return nil, false
		}
		return []Val{byteSliceVal(st, strconv.AppendBool(dst, b))}, true
	}
	m.Hooks["strconv.Quote"] = func(m *Machine, st *State, call *ssa.CallCommon, args []Val) ([]Val, bool) {
		s, ok := args[0].(string)
		if !ok {
			return nil, false
		}
		return []Val{strconv.Quote(s)}, true
	}
	m.Hooks["strconv.ParseBool"] = func(m *Machine, st *State, call *ssa.CallCommon, args []Val) ([]Val, bool) {
		s, ok := args[0].(string)
		if !ok {
			return nil, false
		}
		b, err := strconv.ParseBool(s)
		if err != nil {
			return []Val{&TupleV{E: []Val{false, IfaceV{T: errT, V: "syntax"}}}}, true
		}
		return []Val{&TupleV{E: []Val{b, nilV{}}}}, true
	}
	m.Hooks["strconv.FormatBool"] = func(m *Machine, st *State, call *ssa.CallCommon, args []Val) ([]Val, bool) {
		b, ok := args[0].(bool)
		if !ok {
			return nil, false
		}
		return []Val{strconv.FormatBool(b)}, true
	}
	m.Hooks["fmt.Errorf"] = func(m *Machine, st *State, call *ssa.CallCommon, args []Val) ([]Val, bool) {
		if format, ok := args[0].(string); ok && strings.Contains(format, "%w") && len(args) > 1 {
			// the operand of the first %w verb is wrapped
			k, idx := 0, -1
			for i := 0; i+1 < len(format); i++ {
				if format[i] != '%' {
					continue
				}
				j := i + 1
				for j < len(format) && strings.ContainsRune("+-# 0123456789.[]*", rune(format[j])) {
					j++
				}
				if j < len(format) {
					if format[j] == 'w' && idx < 0 {
						idx = k
					}
					if format[j] != '%' {
						k++
					}
				}
				i = j
			}
			if elems, many, ok := m.sliceElems(st, args[1]); ok && !many && idx >= 0 && idx < len(elems) {
				if inner, isErr := elems[idx].(IfaceV); isErr {
					return []Val{IfaceV{T: errT, V: WrapErrV{Inner: inner}}}, true
				}
			}
		}
		return []Val{IfaceV{T: errT, V: "error"}}, true
	}
	m.Hooks["errors.New"] = func(m *Machine, st *State, call *ssa.CallCommon, args []Val) ([]Val, bool) {
		return []Val{IfaceV{T: errT, V: "error"}}, true
	}
	installErrorsModels(m)
	installRegexpModel(m)
	installSyncMapModel(m)
	installSlicesModels(m)
	m.Hooks["fmt.Appendf"] = func(m *Machine, st *State, call *ssa.CallCommon, args []Val) ([]Val, bool) {
		pre, ok := exactBytes(m, st, args[0])
		if !ok {
			return nil, false
		}
		alts, ok := sprintfModel(m, st, call, args[1:])
		if !ok || len(alts) != 1 {
			return nil, false
		}
		txt, isStr := alts[0].(string)
		if !isStr {
			return nil, false
		}
		return []Val{byteSliceVal(st, append(append([]byte(nil), pre...), txt...))}, true
	}
	if _, has := m.Hooks["bytes.TrimLeftFunc"]; !has {
		installFuncModels(m)
	}
	m.Hooks["unicode/utf8.DecodeRuneInString"] = func(m *Machine, st *State, call *ssa.CallCommon, args []Val) ([]Val, bool) {
		x, ok := args[0].(string)
		if !ok {
			return nil, false
		}
		r, n := utf8.DecodeRuneInString(x)
		return []Val{&TupleV{E: []Val{int64(r), int64(n)}}}, true
	}
	m.Hooks["unicode/utf8.DecodeLastRuneInString"] = func(m *Machine, st *State, call *ssa.CallCommon, args []Val) ([]Val, bool) {
		x, ok := args[0].(string)
		if !ok {
			return nil, false
		}
		r, n := utf8.DecodeLastRuneInString(x)
		return []Val{&TupleV{E: []Val{int64(r), int64(n)}}}, true
	}
	m.Hooks["unicode/utf8.DecodeRune"] = func(m *Machine, st *State, call *ssa.CallCommon, args []Val) ([]Val, bool) {
		x, ok := exactBytes(m, st, args[0])
		if !ok {
			return nil, false
		}
		r, n := utf8.DecodeRune(x)
		return []Val{&TupleV{E: []Val{int64(r), int64(n)}}}, true
	}
	m.Hooks["unicode/utf8.ValidString"] = func(m *Machine, st *State, call *ssa.CallCommon, args []Val) ([]Val, bool) {
		x, ok := args[0].(string)
		return []Val{utf8.ValidString(x)}, ok
	}
	m.Hooks["unicode/utf8.RuneCountInString"] = func(m *Machine, st *State, call *ssa.CallCommon, args []Val) ([]Val, bool) {
		x, ok := args[0].(string)
		return []Val{int64(utf8.RuneCountInString(x))}, ok
	}
	m.Hooks["unicode/utf8.RuneLen"] = func(m *Machine, st *State, call *ssa.CallCommon, args []Val) ([]Val, bool) {
		x, ok := args[0].(int64)
		return []Val{int64(utf8.RuneLen(rune(x)))}, ok
	}
}

// installErrorsModels: errors.Is / errors.Unwrap over the error values of the interpreter (identity of the value, or
// of a value it wraps through fmt.Errorf's %w).
func installErrorsModels(m *Machine) {
	none := func(i int) string { return fmt.Sprint(i) }
	m.Hooks["errors.Is"] = func(m *Machine, st *State, call *ssa.CallCommon, args []Val) ([]Val, bool) {
		if _, isNil := args[1].(nilV); isNil {
			_, errNil := args[0].(nilV)
			return []Val{errNil}, true
		}
		want := fmtVal(args[1], none)
		cur := args[0]
		for i := 0; i < 16; i++ {
			if _, isNil := cur.(nilV); isNil {
				return []Val{false}, true
			}
			iv, ok := cur.(IfaceV)
			if !ok {
				return nil, false
			}
			if fmtVal(iv, none) == want {
				return []Val{true}, true
			}
			if _, isRepo := iv.V.(Ptr); isRepo {
				return nil, false // a repository error type may have its own Is / Unwrap
			}
			w, wraps := iv.V.(WrapErrV)
			if !wraps {
				return []Val{false}, true
			}
			cur = w.Inner
		}
		return nil, false
	}
	m.Hooks["errors.Unwrap"] = func(m *Machine, st *State, call *ssa.CallCommon, args []Val) ([]Val, bool) {
		iv, ok := args[0].(IfaceV)
		if !ok {
			return []Val{nilV{}}, true
		}
		if _, isRepo := iv.V.(Ptr); isRepo {
			return nil, false
		}
		if w, wraps := iv.V.(WrapErrV); wraps {
			return []Val{w.Inner}, true
		}
		return []Val{nilV{}}, true
	}
}

// initState returns a fresh state in which the initialisers of the given
// repository packages have been interpreted (package-level tables exist).
func initState(m *Machine, pkgs ...string) *State {
	if _, has := m.Hooks["reflect.TypeOf"]; !has {
		installReflectModel(m) // package initialisers may compute reflect.TypeOf(...) of a type
	}
	st := &State{Heap: map[int]*HObj{}, Notes: map[string]bool{}, Globals: map[*ssa.Global]int{}}
	if why := m.InitPackages(st, pkgs...); why != "" {
		st.Status = stStuck
		st.Msg = why
	}
	st.InitMark = st.next
	st.GlobalWrite = ""
	return st
}

// eofVal / unexpectedEOFVal stand for io.EOF and io.ErrUnexpectedEOF.
var eofVal = IfaceV{T: types.NewPointer(types.Typ[types.String]), V: "io.EOF"}
var unexpectedEOFVal = IfaceV{T: types.NewPointer(types.Typ[types.String]), V: "io.ErrUnexpectedEOF"}
var errUnknownIssuerVal = IfaceV{T: types.NewPointer(types.Typ[types.String]), V: "openpgp/errors.ErrUnknownIssuer: signature made by unknown entity"}
var errBufferFullVal = IfaceV{T: types.NewPointer(types.Typ[types.String]), V: "bufio.ErrBufferFull"}

func installIOGlobals(m *Machine) {
	if m.ExtGlobals == nil {
		m.ExtGlobals = map[string]Val{}
	}
	m.ExtGlobals["io.EOF"] = eofVal
	m.ExtGlobals["io.ErrUnexpectedEOF"] = unexpectedEOFVal
}

func unicodePred(v Val) func(rune) bool {
	fv, ok := v.(*FuncV)
	if !ok {
		return nil
	}
	f, ok := fv.Fn.(*ssa.Function)
	if !ok {
		return nil
	}
	switch f.String() {
	case "unicode.IsSpace":
		return unicode.IsSpace
	case "unicode.IsDigit":
		return unicode.IsDigit
	case "unicode.IsLetter":
		return unicode.IsLetter
	}
	return nil
}

// repoPred turns a repository function value func(rune) bool into a Go
// predicate evaluated by the abstract interpreter itself.
func repoPred(m *Machine, cur *State, v Val, failed *bool) func(rune) bool {
	fv, ok := v.(*FuncV)
	if !ok {
		return nil
	}
	f, ok := fv.Fn.(*ssa.Function)
	if !ok || f.Blocks == nil || !inRepoOrRef(f) {
		return nil
	}
	var scratch *State
	return func(r rune) bool {
		// the predicate runs on a copy of the caller's state (it may capture variables of the calling function
		// and consult package-level tables); it is a query, so one copy serves every rune
		if scratch == nil {
			scratch = cur.Clone()
		}
		st := scratch
		st.Status = stRun
		st.Frames = nil
		st.push(f, []Val{int64(r)}, fv.Bind)
		out := m.Run(st)
		if len(out) != 1 || out[0].Status != stRet {
			if os.Getenv("GDSA_DEBUG") != "" {
				fmt.Fprintf(os.Stderr, "predicate %s on %q: %s\n", f, string(r), retDesc(out))
			}
			*failed = true
			return false
		}
		b, ok := out[0].Ret.(bool)
		if !ok {
			*failed = true
		}
		return b
	}
}

// repoRuneMap turns a mapping function value of the repository (func(rune) rune) into a Go function that
// interprets it on a copy of the caller's state.
func repoRuneMap(m *Machine, cur *State, v Val, failed *bool) func(rune) rune {
	fv, ok := v.(*FuncV)
	if !ok {
		return nil
	}
	f, ok := fv.Fn.(*ssa.Function)
	if !ok || f.Blocks == nil || !inRepoOrRef(f) {
		return nil
	}
	var scratch *State
	return func(r rune) rune {
		if scratch == nil {
			scratch = cur.Clone()
		}
		st := scratch
		st.Status = stRun
		st.Frames = nil
		st.push(f, []Val{int64(r)}, fv.Bind)
		out := m.Run(st)
		if len(out) != 1 || out[0].Status != stRet {
			*failed = true
			return r
		}
		n, ok := out[0].Ret.(int64)
		if !ok {
			*failed = true
			return r
		}
		return rune(n)
	}
}

// installMapModels: strings.Map and bytes.Map with a mapping function of the repository, on exact inputs. The
// real functions do the work, so that invalid UTF-8 comes out as U+FFFD exactly as it does there.
func installMapModels(m *Machine) {
	m.Hooks["strings.Map"] = func(m *Machine, st *State, call *ssa.CallCommon, args []Val) ([]Val, bool) {
		s, ok := args[1].(string)
		failed := false
		f := repoRuneMap(m, st, args[0], &failed)
		if !ok || f == nil {
			return nil, false
		}
		res := strings.Map(f, s)
		if failed {
			return nil, false
		}
		return []Val{res}, true
	}
	m.Hooks["bytes.Map"] = func(m *Machine, st *State, call *ssa.CallCommon, args []Val) ([]Val, bool) {
		b, ok := exactBytes(m, st, args[1])
		failed := false
		f := repoRuneMap(m, st, args[0], &failed)
		if !ok || f == nil {
			return nil, false
		}
		res := bytes.Map(f, b)
		if failed {
			return nil, false
		}
		return []Val{byteSliceVal(st, res)}, true
	}
}

// exactBytes reads an exact []byte out of the abstract heap.
func exactBytes(m *Machine, st *State, v Val) ([]byte, bool) {
	if _, isNil := v.(nilV); isNil {
		return nil, true
	}
	elems, many, ok := m.sliceElems(st, v)
	if !ok || many {
		return nil, false
	}
	out := make([]byte, len(elems))
	for i, e := range elems {
		n, ok := e.(int64)
		if !ok {
			return nil, false
		}
		out[i] = byte(n)
	}
	return out, true
}

// rawBytes marks a []byte result of a model that still has to be placed in the abstract heap.
type rawBytes []byte

func installFuncModels(m *Machine) {
	mk := func(f func(s string, p func(rune) bool) Val) HookFn {
		return func(m *Machine, st *State, call *ssa.CallCommon, args []Val) ([]Val, bool) {
			s, ok := args[0].(string)
			pr := unicodePred(args[1])
			failed := false
			if pr == nil {
				pr = repoPred(m, st, args[1], &failed)
			}
			if !ok || pr == nil {
				return nil, false
			}
			res := f(s, pr)
			if failed {
				return nil, false
			}
			return []Val{res}, true
		}
	}
	m.Hooks["strings.TrimRightFunc"] = mk(func(s string, p func(rune) bool) Val { return strings.TrimRightFunc(s, p) })
	m.Hooks["strings.TrimLeftFunc"] = mk(func(s string, p func(rune) bool) Val { return strings.TrimLeftFunc(s, p) })
	m.Hooks["strings.TrimFunc"] = mk(func(s string, p func(rune) bool) Val { return strings.TrimFunc(s, p) })
	m.Hooks["strings.IndexFunc"] = mk(func(s string, p func(rune) bool) Val { return int64(strings.IndexFunc(s, p)) })
	m.Hooks["strings.LastIndexFunc"] = mk(func(s string, p func(rune) bool) Val { return int64(strings.LastIndexFunc(s, p)) })
	m.Hooks["strings.ContainsFunc"] = mk(func(s string, p func(rune) bool) Val { return strings.ContainsFunc(s, p) })
	bf := func(f func(b []byte, p func(rune) bool) Val) HookFn {
		return func(m *Machine, st *State, call *ssa.CallCommon, args []Val) ([]Val, bool) {
			x, ok := exactBytes(m, st, args[0])
			pr := unicodePred(args[1])
			failed := false
			if pr == nil {
				pr = repoPred(m, st, args[1], &failed)
			}
			if !ok || pr == nil {
				return nil, false
			}
			res := f(x, pr)
			if failed {
				return nil, false
			}
			if bs, isBytes := res.(rawBytes); isBytes {
				return []Val{byteSliceVal(st, bs)}, true
			}
			return []Val{res}, true
		}
	}
	m.Hooks["bytes.TrimRightFunc"] = bf(func(b []byte, p func(rune) bool) Val { return rawBytes(bytes.TrimRightFunc(b, p)) })
	m.Hooks["bytes.TrimLeftFunc"] = bf(func(b []byte, p func(rune) bool) Val { return rawBytes(bytes.TrimLeftFunc(b, p)) })
	m.Hooks["bytes.TrimFunc"] = bf(func(b []byte, p func(rune) bool) Val { return rawBytes(bytes.TrimFunc(b, p)) })
	m.Hooks["bytes.IndexFunc"] = bf(func(b []byte, p func(rune) bool) Val { return int64(bytes.IndexFunc(b, p)) })
	m.Hooks["bytes.LastIndexFunc"] = bf(func(b []byte, p func(rune) bool) Val { return int64(bytes.LastIndexFunc(b, p)) })
	m.Hooks["bytes.ContainsFunc"] = bf(func(b []byte, p func(rune) bool) Val { return bytes.ContainsFunc(b, p) })
	m.Hooks["strings.FieldsFunc"] = func(m *Machine, st *State, call *ssa.CallCommon, args []Val) ([]Val, bool) {
		s, ok := args[0].(string)
		pr := unicodePred(args[1])
		failed := false
		if pr == nil {
			pr = repoPred(m, st, args[1], &failed)
		}
		if !ok || pr == nil {
			return nil, false
		}
		res := strings.FieldsFunc(s, pr)
		if failed {
			return nil, false
		}
		return []Val{strSlice(st, res)}, true
	}
}

// installLineReader models the line-oriented read methods of *bufio.Reader (ReadString, ReadBytes,
// ReadSlice, ReadLine) on top of next(), which yields the next line of the scripted input (with its
// "\n", unless the input ends without one) and false at the end of the input.
// peekRest, when set by the caller of installLineReader, returns the unread rest of the scripted input
// (for (*bufio.Reader).Peek).
var peekRest func(st *State) string

func installLineReader(m *Machine, next func(st *State) (string, bool)) {
	// One reader state for all methods: the unread rest of a line that ReadLine / ReadSlice handed out only in
	// part (they stop after 4096 bytes, the default buffer) is what any method reads next.
	pending := ""
	havePending := false
	take := func(st *State) (string, bool) {
		if havePending {
			havePending = false
			oracleProgress++
			return pending, true
		}
		l, ok := next(st)
		if ok {
			oracleProgress++
		}
		return l, ok
	}
	if m.ExtGlobals == nil {
		m.ExtGlobals = map[string]Val{}
	}
	m.ExtGlobals["bufio.ErrBufferFull"] = errBufferFullVal
	m.Hooks["(*bufio.Reader).Peek"] = func(m *Machine, st *State, call *ssa.CallCommon, args []Val) ([]Val, bool) {
		n, ok := args[1].(int64)
		pr := peekRest
		if m.PeekRest != nil {
			pr = m.PeekRest
		}
		if !ok || pr == nil {
			return nil, false
		}
		rest := pr(st)
		if havePending {
			rest = pending + rest
		}
		var e Val = nilV{}
		if int(n) > len(rest) {
			n = int64(len(rest))
			e = eofVal
		}
		return []Val{&TupleV{E: []Val{byteSliceVal(st, []byte(rest[:n])), e}}}, true
	}
	// Discard(n) and ReadByte consume bytes from the same stream
	m.Hooks["(*bufio.Reader).Discard"] = func(m *Machine, st *State, call *ssa.CallCommon, args []Val) ([]Val, bool) {
		n, ok := args[1].(int64)
		if !ok || n < 0 {
			return nil, false
		}
		done := int64(0)
		for done < n {
			l, ok := take(st)
			if !ok {
				return []Val{&TupleV{E: []Val{done, eofVal}}}, true
			}
			if int64(len(l)) <= n-done {
				done += int64(len(l))
				continue
			}
			pending, havePending = l[n-done:], true
			done = n
		}
		return []Val{&TupleV{E: []Val{done, nilV{}}}}, true
	}
	m.Hooks["(*bufio.Reader).ReadByte"] = func(m *Machine, st *State, call *ssa.CallCommon, args []Val) ([]Val, bool) {
		for {
			l, ok := take(st)
			if !ok {
				return []Val{&TupleV{E: []Val{int64(0), eofVal}}}, true
			}
			if l == "" {
				continue
			}
			if len(l) > 1 {
				pending, havePending = l[1:], true
			}
			return []Val{&TupleV{E: []Val{int64(l[0]), nilV{}}}}, true
		}
	}
	delimited := func(asBytes bool) HookFn {
		return func(m *Machine, st *State, call *ssa.CallCommon, args []Val) ([]Val, bool) {
			if d, ok := args[1].(int64); !ok || d != '\n' {
				return nil, false
			}
			l, ok := take(st)
			var e Val = nilV{}
			if !ok {
				l, e = "", eofVal
			} else if !strings.HasSuffix(l, "\n") {
				e = eofVal
			}
			if !asBytes {
				return []Val{&TupleV{E: []Val{l, e}}}, true
			}
			var data Val = nilV{}
			if l != "" {
				data = byteSliceVal(st, []byte(l))
			}
			return []Val{&TupleV{E: []Val{data, e}}}, true
		}
	}
	m.Hooks["(*bufio.Reader).ReadString"] = delimited(false)
	m.Hooks["(*bufio.Reader).ReadBytes"] = delimited(true)
	// ReadSlice hands out the first 4096 bytes of a longer line with bufio.ErrBufferFull and the rest on the
	// following calls
	m.Hooks["(*bufio.Reader).ReadSlice"] = func(m *Machine, st *State, call *ssa.CallCommon, args []Val) ([]Val, bool) {
		if d, ok := args[1].(int64); !ok || d != '\n' {
			return nil, false
		}
		l, ok := take(st)
		if !ok {
			return []Val{&TupleV{E: []Val{nilV{}, eofVal}}}, true
		}
		if len(l) > 4096 {
			pending, havePending = l[4096:], true
			return []Val{&TupleV{E: []Val{byteSliceVal(st, []byte(l[:4096])), errBufferFullVal}}}, true
		}
		var e Val = nilV{}
		if !strings.HasSuffix(l, "\n") {
			e = eofVal
		}
		var data Val = nilV{}
		if l != "" {
			data = byteSliceVal(st, []byte(l))
		}
		return []Val{&TupleV{E: []Val{data, e}}}, true
	}
	// ReadLine hands out a line longer than the buffer in pieces of 4096 bytes, isPrefix set on all but the last;
	// the line end ("\n" or "\r\n") is not part of the data
	m.Hooks["(*bufio.Reader).ReadLine"] = func(m *Machine, st *State, call *ssa.CallCommon, args []Val) ([]Val, bool) {
		l, ok := take(st)
		if !ok {
			return []Val{&TupleV{E: []Val{nilV{}, false, eofVal}}}, true
		}
		if len(l) > 4096 {
			pending, havePending = l[4096:], true
			return []Val{&TupleV{E: []Val{byteSliceVal(st, []byte(l[:4096])), true, nilV{}}}}, true
		}
		l = strings.TrimSuffix(l, "\n")
		l = strings.TrimSuffix(l, "\r")
		return []Val{&TupleV{E: []Val{byteSliceVal(st, []byte(l)), false, nilV{}}}}, true
	}
}
