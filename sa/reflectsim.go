package main

// A model of the part of package reflect that the control encoder/decoder use,
// over the abstract heap of the interpreter. A reflect.Value is an RValue (a
// Go type plus either the address of the value in the abstract heap or the
// value itself), a reflect.Type is an interface value holding an RType.
// Operations that package reflect answers with a panic (Elem of a nil
// pointer's Type, Addr of an unaddressable value, Set through an
// unaddressable value, Kind-specific accessors on the wrong kind) put the
// state into stPanic, so "never panics" is decided on the same runs.

import (
	"fmt"
	"go/types"
	"reflect"

	"golang.org/x/tools/go/ssa"
)

type RValue struct {
	T     types.Type
	Valid bool
	Addr  bool
	P     Ptr  // when Addr
	V     Val  // when !Addr
	RO    bool // obtained through an unexported struct field: reading is allowed, Set* / Interface / Addr-to-set panic
}

type RType struct{ T types.Type }

var rtypeMarker = types.NewNamed(types.NewTypeName(0, nil, "reflect.rtype", nil), types.NewStruct(nil, nil), nil)

func rtypeVal(t types.Type) Val { return IfaceV{T: rtypeMarker, V: RType{t}} }

func kindOf(t types.Type) reflect.Kind {
	switch u := t.Underlying().(type) {
	case *types.Basic:
		switch u.Kind() {
		case types.Bool:
			return reflect.Bool
		case types.Int:
			return reflect.Int
		case types.Int8:
			return reflect.Int8
		case types.Int16:
			return reflect.Int16
		case types.Int32:
			return reflect.Int32
		case types.Int64:
			return reflect.Int64
		case types.Uint:
			return reflect.Uint
		case types.Uint8:
			return reflect.Uint8
		case types.Uint16:
			return reflect.Uint16
		case types.Uint32:
			return reflect.Uint32
		case types.Uint64:
			return reflect.Uint64
		case types.Uintptr:
			return reflect.Uintptr
		case types.Float32:
			return reflect.Float32
		case types.Float64:
			return reflect.Float64
		case types.String:
			return reflect.String
		}
	case *types.Pointer:
		return reflect.Ptr
	case *types.Slice:
		return reflect.Slice
	case *types.Struct:
		return reflect.Struct
	case *types.Map:
		return reflect.Map
	case *types.Interface:
		return reflect.Interface
	case *types.Array:
		return reflect.Array
	case *types.Signature:
		return reflect.Func
	case *types.Chan:
		return reflect.Chan
	}
	return reflect.Invalid
}

func installReflectModel(m *Machine) {
	p := m.P
	sfT := extNamed(p, "reflect", "StructField")
	rpanic := func(st *State, format string, a ...interface{}) ([]Val, bool) {
		st.Status = stPanic
		st.Msg = "reflect: " + fmt.Sprintf(format, a...)
		return nil, true
	}
	cur := func(st *State, rv RValue) (Val, bool) {
		if rv.Addr {
			return st.load(rv.P)
		}
		return rv.V, true
	}
	recv := func(st *State, args []Val, method string) (RValue, bool) {
		rv, ok := args[0].(RValue)
		if !ok {
			st.stuck("reflect.Value.%s on %T", method, args[0])
			return RValue{}, false
		}
		if !rv.Valid {
			rpanic(st, "call of reflect.Value.%s on zero Value", method)
			return RValue{}, false
		}
		return rv, true
	}
	rtypeOf := func(v Val) (types.Type, bool) {
		iv, ok := v.(IfaceV)
		if !ok {
			return nil, false
		}
		rt, ok := iv.V.(RType)
		return rt.T, ok
	}
	structField := func(st *State, t *types.Struct, i int) Val {
		f := t.Field(i)
		pkgPath := ""
		if !f.Exported() && f.Pkg() != nil {
			pkgPath = f.Pkg().Path()
		}
		return mkStruct(sfT, map[string]Val{
			"Name": f.Name(), "PkgPath": pkgPath, "Type": rtypeVal(f.Type()),
			"Tag": t.Tag(i), "Anonymous": f.Embedded(),
		})
	}
	H := func(name string, f func(st *State, call *ssa.CallCommon, args []Val) ([]Val, bool)) {
		m.Hooks[name] = func(m *Machine, st *State, call *ssa.CallCommon, args []Val) ([]Val, bool) {
			return f(st, call, args)
		}
	}
	H("reflect.ValueOf", func(st *State, call *ssa.CallCommon, args []Val) ([]Val, bool) {
		switch x := args[0].(type) {
		case nilV:
			return []Val{RValue{}}, true
		case IfaceV:
			return []Val{RValue{T: x.T, Valid: true, V: cloneVal(x.V)}}, true
		}
		return nil, false
	})
	H("reflect.TypeOf", func(st *State, call *ssa.CallCommon, args []Val) ([]Val, bool) {
		switch x := args[0].(type) {
		case nilV:
			return []Val{nilV{}}, true
		case IfaceV:
			return []Val{rtypeVal(x.T)}, true
		}
		return nil, false
	})
	H("reflect.TypeFor", func(st *State, call *ssa.CallCommon, args []Val) ([]Val, bool) {
		if f := call.StaticCallee(); f != nil && len(f.TypeArgs()) == 1 {
			return []Val{rtypeVal(f.TypeArgs()[0])}, true
		}
		return nil, false
	})
	H("(reflect.Value).Type", func(st *State, call *ssa.CallCommon, args []Val) ([]Val, bool) {
		rv, ok := recv(st, args, "Type")
		if !ok {
			return nil, true
		}
		return []Val{rtypeVal(rv.T)}, true
	})
	H("(reflect.Value).Kind", func(st *State, call *ssa.CallCommon, args []Val) ([]Val, bool) {
		rv, ok := args[0].(RValue)
		if !ok {
			return nil, false
		}
		if !rv.Valid {
			return []Val{int64(reflect.Invalid)}, true
		}
		return []Val{int64(kindOf(rv.T))}, true
	})
	H("(reflect.Value).IsValid", func(st *State, call *ssa.CallCommon, args []Val) ([]Val, bool) {
		rv, ok := args[0].(RValue)
		return []Val{rv.Valid}, ok
	})
	H("(reflect.Value).CanAddr", func(st *State, call *ssa.CallCommon, args []Val) ([]Val, bool) {
		rv, ok := args[0].(RValue)
		return []Val{rv.Valid && rv.Addr}, ok
	})
	H("(reflect.Value).CanSet", func(st *State, call *ssa.CallCommon, args []Val) ([]Val, bool) {
		rv, ok := args[0].(RValue)
		return []Val{rv.Valid && rv.Addr && !rv.RO}, ok
	})
	H("(reflect.Value).CanInterface", func(st *State, call *ssa.CallCommon, args []Val) ([]Val, bool) {
		rv, ok := args[0].(RValue)
		return []Val{rv.Valid && !rv.RO}, ok
	})
	H("(reflect.Value).Elem", func(st *State, call *ssa.CallCommon, args []Val) ([]Val, bool) {
		rv, ok := recv(st, args, "Elem")
		if !ok {
			return nil, true
		}
		pt, isPtr := rv.T.Underlying().(*types.Pointer)
		if !isPtr {
			if _, isI := rv.T.Underlying().(*types.Interface); isI {
				v, _ := cur(st, rv)
				if iv, ok := v.(IfaceV); ok {
					return []Val{RValue{T: iv.T, Valid: true, V: cloneVal(iv.V)}}, true
				}
				return []Val{RValue{}}, true
			}
			return rpanic(st, "call of reflect.Value.Elem on %s Value", kindOf(rv.T))
		}
		v, ok := cur(st, rv)
		if !ok {
			return nil, false
		}
		switch x := v.(type) {
		case nilV:
			return []Val{RValue{}}, true
		case Ptr:
			return []Val{RValue{T: pt.Elem(), Valid: true, Addr: true, P: x, RO: rv.RO}}, true
		}
		return nil, false
	})
	H("(reflect.Value).NumField", func(st *State, call *ssa.CallCommon, args []Val) ([]Val, bool) {
		rv, ok := recv(st, args, "NumField")
		if !ok {
			return nil, true
		}
		s, isS := rv.T.Underlying().(*types.Struct)
		if !isS {
			return rpanic(st, "call of reflect.Value.NumField on %s Value", kindOf(rv.T))
		}
		return []Val{int64(s.NumFields())}, true
	})
	H("(reflect.Value).Field", func(st *State, call *ssa.CallCommon, args []Val) ([]Val, bool) {
		rv, ok := recv(st, args, "Field")
		if !ok {
			return nil, true
		}
		s, isS := rv.T.Underlying().(*types.Struct)
		i, isInt := args[1].(int64)
		if !isS {
			return rpanic(st, "call of reflect.Value.Field on %s Value", kindOf(rv.T))
		}
		if !isInt {
			return nil, false
		}
		if i < 0 || int(i) >= s.NumFields() {
			return rpanic(st, "Field index out of range")
		}
		ft := s.Field(int(i)).Type()
		ro := rv.RO || (!s.Field(int(i)).Exported() && !s.Field(int(i)).Embedded())
		if rv.Addr {
			return []Val{RValue{T: ft, Valid: true, Addr: true, P: Ptr{Obj: rv.P.Obj, Path: pathAppend(rv.P.Path, int(i))}, RO: ro}}, true
		}
		sv, isSV := rv.V.(*StructV)
		if !isSV {
			return nil, false
		}
		return []Val{RValue{T: ft, Valid: true, V: cloneVal(sv.F[i]), RO: ro}}, true
	})
	H("(reflect.Value).Interface", func(st *State, call *ssa.CallCommon, args []Val) ([]Val, bool) {
		rv, ok := recv(st, args, "Interface")
		if !ok {
			return nil, true
		}
		if rv.RO {
			return rpanic(st, "reflect.Value.Interface: cannot return value obtained from unexported field or method")
		}
		v, ok := cur(st, rv)
		if !ok {
			return nil, false
		}
		if _, isI := rv.T.Underlying().(*types.Interface); isI {
			return []Val{cloneVal(v)}, true
		}
		return []Val{IfaceV{T: rv.T, V: cloneVal(v)}}, true
	})
	H("(reflect.Value).IsNil", func(st *State, call *ssa.CallCommon, args []Val) ([]Val, bool) {
		rv, ok := recv(st, args, "IsNil")
		if !ok {
			return nil, true
		}
		switch kindOf(rv.T) {
		case reflect.Ptr, reflect.Slice, reflect.Map, reflect.Interface, reflect.Func, reflect.Chan:
		default:
			return rpanic(st, "call of reflect.Value.IsNil on %s Value", kindOf(rv.T))
		}
		v, ok := cur(st, rv)
		if !ok {
			return nil, false
		}
		_, isNil := v.(nilV)
		return []Val{isNil}, true
	})
	scalar := func(method string, kinds ...reflect.Kind) {
		H("(reflect.Value)."+method, func(st *State, call *ssa.CallCommon, args []Val) ([]Val, bool) {
			rv, ok := recv(st, args, method)
			if !ok {
				return nil, true
			}
			k := kindOf(rv.T)
			match := false
			for _, kk := range kinds {
				if k == kk {
					match = true
				}
			}
			if !match {
				if method == "String" {
					return []Val{"<" + rv.T.String() + " Value>"}, true
				}
				return rpanic(st, "call of reflect.Value.%s on %s Value", method, k)
			}
			v, ok := cur(st, rv)
			if !ok {
				return nil, false
			}
			return []Val{cloneVal(v)}, true
		})
	}
	scalar("String", reflect.String)
	scalar("Int", reflect.Int, reflect.Int8, reflect.Int16, reflect.Int32, reflect.Int64)
	scalar("Uint", reflect.Uint, reflect.Uint8, reflect.Uint16, reflect.Uint32, reflect.Uint64, reflect.Uintptr)
	scalar("Bool", reflect.Bool)
	H("(reflect.Value).Len", func(st *State, call *ssa.CallCommon, args []Val) ([]Val, bool) {
		rv, ok := recv(st, args, "Len")
		if !ok {
			return nil, true
		}
		v, ok := cur(st, rv)
		if !ok {
			return nil, false
		}
		switch x := v.(type) {
		case nilV:
			return []Val{int64(0)}, true
		case SliceV:
			if x.Abs {
				return nil, false
			}
			return []Val{int64(x.Len_)}, true
		case string:
			return []Val{int64(len(x))}, true
		case *ArrayV:
			return []Val{int64(len(x.E))}, true
		case MapV:
			return []Val{int64(len(st.Heap[x.Obj].V.(*MapObjV).K))}, true
		}
		return rpanic(st, "call of reflect.Value.Len on %s Value", kindOf(rv.T))
	})
	H("(reflect.Value).Index", func(st *State, call *ssa.CallCommon, args []Val) ([]Val, bool) {
		rv, ok := recv(st, args, "Index")
		if !ok {
			return nil, true
		}
		i, isInt := args[1].(int64)
		sl, isSl := rv.T.Underlying().(*types.Slice)
		if !isInt {
			return nil, false
		}
		if !isSl {
			return rpanic(st, "call of reflect.Value.Index on %s Value", kindOf(rv.T))
		}
		v, ok := cur(st, rv)
		if !ok {
			return nil, false
		}
		sv, isSV := v.(SliceV)
		if _, isNil := v.(nilV); isNil || (isSV && !sv.Abs && (i < 0 || int(i) >= sv.Len_)) {
			return rpanic(st, "slice index out of range")
		}
		if !isSV || sv.Abs {
			return nil, false
		}
		return []Val{RValue{T: sl.Elem(), Valid: true, Addr: true, P: Ptr{Obj: sv.Obj, Path: pathAppend(sv.Path, sv.Lo+int(i))}}}, true
	})
	H("(reflect.Value).Addr", func(st *State, call *ssa.CallCommon, args []Val) ([]Val, bool) {
		rv, ok := recv(st, args, "Addr")
		if !ok {
			return nil, true
		}
		if !rv.Addr {
			return rpanic(st, "reflect.Value.Addr of unaddressable value")
		}
		return []Val{RValue{T: types.NewPointer(rv.T), Valid: true, V: rv.P}}, true
	})
	setter := func(method string, check func(k reflect.Kind) bool) {
		H("(reflect.Value)."+method, func(st *State, call *ssa.CallCommon, args []Val) ([]Val, bool) {
			rv, ok := recv(st, args, method)
			if !ok {
				return nil, true
			}
			if !rv.Addr {
				return rpanic(st, "reflect.Value.%s using unaddressable value", method)
			}
			if rv.RO {
				return rpanic(st, "reflect.Value.%s using value obtained using unexported field", method)
			}
			var nv Val
			if method == "Set" {
				x, isR := args[1].(RValue)
				if !isR {
					return nil, false
				}
				if !x.Valid {
					return rpanic(st, "reflect.Set: value of type nil is not assignable")
				}
				if !types.AssignableTo(x.T, rv.T) {
					return rpanic(st, "reflect.Set: value of type %s is not assignable to type %s", x.T, rv.T)
				}
				v, ok := cur(st, x)
				if !ok {
					return nil, false
				}
				nv = cloneVal(v)
			} else {
				if !check(kindOf(rv.T)) {
					return rpanic(st, "call of reflect.Value.%s on %s Value", method, kindOf(rv.T))
				}
				nv = args[1]
				if iv, isInt := nv.(int64); isInt {
					nv = truncTo(iv, rv.T)
				}
			}
			if !st.store(rv.P, nv) {
				return nil, false
			}
			return []Val{nil}, true
		})
	}
	setter("Set", nil)
	setter("SetString", func(k reflect.Kind) bool { return k == reflect.String })
	setter("SetBool", func(k reflect.Kind) bool { return k == reflect.Bool })
	setter("SetInt", func(k reflect.Kind) bool { return k >= reflect.Int && k <= reflect.Int64 })
	setter("SetUint", func(k reflect.Kind) bool { return k >= reflect.Uint && k <= reflect.Uintptr })
	H("reflect.New", func(st *State, call *ssa.CallCommon, args []Val) ([]Val, bool) {
		t, ok := rtypeOf(args[0])
		if !ok {
			return nil, false
		}
		id := st.alloc(t, zeroVal(t))
		return []Val{RValue{T: types.NewPointer(t), Valid: true, V: Ptr{Obj: id}}}, true
	})
	H("reflect.Zero", func(st *State, call *ssa.CallCommon, args []Val) ([]Val, bool) {
		t, ok := rtypeOf(args[0])
		if !ok {
			return nil, false
		}
		return []Val{RValue{T: t, Valid: true, V: zeroVal(t)}}, true
	})
	H("reflect.MakeSlice", func(st *State, call *ssa.CallCommon, args []Val) ([]Val, bool) {
		t, ok := rtypeOf(args[0])
		n, ok1 := args[1].(int64)
		c, ok2 := args[2].(int64)
		if !ok || !ok1 || !ok2 {
			st.stuck("reflect.MakeSlice(%T, %T, %T) is not modelled", args[0], args[1], args[2])
			return nil, true
		}
		sl, isSl := t.Underlying().(*types.Slice)
		if !isSl {
			return rpanic(st, "reflect.MakeSlice of non-slice type")
		}
		if n < 0 || c < 0 || n > c {
			return rpanic(st, "reflect.MakeSlice: bad len/cap %d/%d", n, c)
		}
		if c > 4096 {
			st.stuck("reflect.MakeSlice with capacity %d", c)
			return nil, true
		}
		arr := &ArrayV{}
		for i := int64(0); i < c; i++ {
			arr.E = append(arr.E, zeroVal(sl.Elem()))
		}
		id := st.alloc(types.NewArray(sl.Elem(), c), arr)
		return []Val{RValue{T: t, Valid: true, V: SliceV{Obj: id, Len_: int(n), Cap: int(c)}}}, true
	})
	H("reflect.Append", func(st *State, call *ssa.CallCommon, args []Val) ([]Val, bool) {
		rv, isR := args[0].(RValue)
		if !isR || !rv.Valid {
			return nil, false
		}
		sl, isSl := rv.T.Underlying().(*types.Slice)
		if !isSl {
			return rpanic(st, "call of reflect.Append on %s Value", kindOf(rv.T))
		}
		v, ok := cur(st, rv)
		if !ok {
			return nil, false
		}
		base, many, ok := m.sliceElems(st, v)
		if !ok || many {
			return nil, false
		}
		adds, many, ok := m.sliceElems(st, args[1])
		if !ok || many {
			return nil, false
		}
		arr := &ArrayV{}
		for _, e := range base {
			arr.E = append(arr.E, cloneVal(e))
		}
		for _, a := range adds {
			x, isR := a.(RValue)
			if !isR || !x.Valid {
				return nil, false
			}
			if !types.AssignableTo(x.T, sl.Elem()) {
				return rpanic(st, "reflect.Append: value of type %s is not assignable to type %s", x.T, sl.Elem())
			}
			xv, ok := cur(st, x)
			if !ok {
				return nil, false
			}
			arr.E = append(arr.E, cloneVal(xv))
		}
		id := st.alloc(types.NewArray(sl.Elem(), int64(len(arr.E))), arr)
		return []Val{RValue{T: rv.T, Valid: true, V: SliceV{Obj: id, Len_: len(arr.E), Cap: len(arr.E)}}}, true
	})
	H("(reflect.StructTag).Get", func(st *State, call *ssa.CallCommon, args []Val) ([]Val, bool) {
		tag, ok1 := args[0].(string)
		key, ok2 := args[1].(string)
		if !ok1 || !ok2 {
			return nil, false
		}
		return []Val{reflect.StructTag(tag).Get(key)}, true
	})
	H("(reflect.StructTag).Lookup", func(st *State, call *ssa.CallCommon, args []Val) ([]Val, bool) {
		tag, ok1 := args[0].(string)
		key, ok2 := args[1].(string)
		if !ok1 || !ok2 {
			return nil, false
		}
		v, found := reflect.StructTag(tag).Lookup(key)
		return []Val{&TupleV{E: []Val{v, found}}}, true
	})
	H("(reflect.Kind).String", func(st *State, call *ssa.CallCommon, args []Val) ([]Val, bool) {
		k, ok := args[0].(int64)
		if !ok {
			return nil, false
		}
		return []Val{reflect.Kind(k).String()}, true
	})
	prev := m.InvokeHook
	m.InvokeHook = func(m *Machine, st *State, call *ssa.CallCommon, rcv Val, args []Val) ([]Val, bool) {
		t, isT := rtypeOf(rcv)
		if !isT {
			if prev != nil {
				return prev(m, st, call, rcv, args)
			}
			return nil, false
		}
		switch call.Method.Name() {
		case "Kind":
			return []Val{int64(kindOf(t))}, true
		case "Name":
			if n, ok := t.(*types.Named); ok {
				return []Val{n.Obj().Name()}, true
			}
			if b, ok := t.(*types.Basic); ok {
				return []Val{b.Name()}, true
			}
			return []Val{""}, true
		case "String":
			return []Val{types.TypeString(t, func(p *types.Package) string { return p.Name() })}, true
		case "PkgPath":
			if n, ok := t.(*types.Named); ok && n.Obj().Pkg() != nil {
				return []Val{n.Obj().Pkg().Path()}, true
			}
			return []Val{""}, true
		case "Elem":
			switch u := t.Underlying().(type) {
			case *types.Pointer:
				return []Val{rtypeVal(u.Elem())}, true
			case *types.Slice:
				return []Val{rtypeVal(u.Elem())}, true
			case *types.Array:
				return []Val{rtypeVal(u.Elem())}, true
			case *types.Map:
				return []Val{rtypeVal(u.Elem())}, true
			}
			return rpanic(st, "Elem of invalid type %s", t)
		case "NumField":
			if s, ok := t.Underlying().(*types.Struct); ok {
				return []Val{int64(s.NumFields())}, true
			}
			return rpanic(st, "NumField of non-struct type %s", t)
		case "Field":
			s, ok := t.Underlying().(*types.Struct)
			if !ok {
				return rpanic(st, "Field of non-struct type %s", t)
			}
			i, isInt := args[0].(int64)
			if !isInt {
				return nil, false
			}
			if i < 0 || int(i) >= s.NumFields() {
				return rpanic(st, "Field index out of bounds")
			}
			return []Val{structField(st, s, int(i))}, true
		case "Bits":
			if b, ok := t.Underlying().(*types.Basic); ok {
				switch b.Kind() {
				case types.Int8, types.Uint8:
					return []Val{int64(8)}, true
				case types.Int16, types.Uint16:
					return []Val{int64(16)}, true
				case types.Int32, types.Uint32, types.Float32:
					return []Val{int64(32)}, true
				case types.Int64, types.Uint64, types.Float64, types.Complex64:
					return []Val{int64(64)}, true
				case types.Complex128:
					return []Val{int64(128)}, true
				case types.Int, types.Uint, types.Uintptr:
					return []Val{int64(wordBits)}, true
				}
			}
			return rpanic(st, "reflect.Type.Bits of non-arithmetic Type %s", t)
		case "AssignableTo":
			ot, ok := rtypeOf(args[0])
			if !ok {
				return nil, false
			}
			return []Val{types.AssignableTo(t, ot)}, true
		case "ConvertibleTo":
			ot, ok := rtypeOf(args[0])
			if !ok {
				return nil, false
			}
			return []Val{types.ConvertibleTo(t, ot)}, true
		case "Comparable":
			return []Val{types.Comparable(t)}, true
		case "Implements":
			it, ok := rtypeOf(args[0])
			if !ok {
				return nil, false
			}
			iface, ok := it.Underlying().(*types.Interface)
			if !ok {
				return rpanic(st, "non-interface type passed to Type.Implements")
			}
			return []Val{types.Implements(t, iface)}, true
		}
		st.stuck("reflect.Type.%s is not modelled", call.Method.Name())
		return nil, true
	}
}
