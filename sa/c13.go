package main

// C13 / C15 (ar part) — the ar reader, decided by abstract interpretation of
// LoadAr / (*Ar).Next / the header parser on a *symbolic* 60 byte header:
// header bytes are opaque tokens hdr[i], numbers parsed from them are symbols,
// offsets are linear terms over those symbols.

import (
	"fmt"
	"go/types"
	"os"
	"regexp"
	"sort"
	"strings"

	"golang.org/x/tools/go/ssa"
)

func init() {
	register("C13", checkC13)
}

type arRun struct {
	st       *State
	entry    map[string]Val // fields of the returned entry (on success)
	err      string         // "", "nonnil", "EOF"
	newOff   Val
	secArgs  []Val // arguments of io.NewSectionReader (off, n)
	nSec     int
	path     []string
	keeps    bool // Ar keeps a reference to the section reader
	probeEOF bool // a read at or past the end of the member's data hit the end of the archive
}

// arScenario describes what ReadAt delivers.
type arScenario struct {
	count  int64
	errNil bool
	b58    Val
	b59    Val
	// sized: the size column parses to the concrete number size and only have bytes of
	// the member's data exist in the input (have < size: the archive is cut short inside
	// the data; have == size: the archive ends right after the data).
	sized      bool
	size, have int64
}

var errType = types.Universe.Lookup("error").Type()

// interpretNext runs (*Ar).Next once from offset symbol "off".
func interpretNext(p *Prog, sc arScenario) ([]arRun, string) {
	next := p.Method("deb", "Ar", "Next")
	arT := p.Named("deb", "Ar")
	entT := p.Named("deb", "ArEntry")
	if next == nil || arT == nil || entT == nil {
		return nil, "deb.Ar.Next / deb.Ar / deb.ArEntry not found"
	}
	m := NewMachine(p, nil)
	installStringModels(m)
	var curRun *arRun
	opaque1 := func(name string) HookFn {
		return func(m *Machine, st *State, call *ssa.CallCommon, args []Val) ([]Val, bool) {
			if o, ok := args[0].(OpaqueV); ok {
				extra := ""
				for _, a := range args[1:] {
					extra += "," + fmtVal(a, nil)
				}
				return []Val{OpaqueV{name + "(" + o.Name + extra + ")"}}, true
			}
			return nil, false
		}
	}
	wrap := func(name string) {
		prev := m.Hooks[name]
		short := name[strings.LastIndex(name, ".")+1:]
		op := opaque1(short)
		m.Hooks[name] = func(m *Machine, st *State, call *ssa.CallCommon, args []Val) ([]Val, bool) {
			if alts, ok := op(m, st, call, args); ok {
				return alts, true
			}
			if prev != nil {
				return prev(m, st, call, args)
			}
			return nil, false
		}
	}
	for _, n := range []string{"strings.TrimSpace", "strings.TrimSuffix", "strings.TrimRight", "strings.Trim", "strings.TrimLeft", "strings.TrimPrefix"} {
		wrap(n)
	}
	numParse := func(fnName string) HookFn {
		prev := m.Hooks["strconv."+fnName]
		return func(m *Machine, st *State, call *ssa.CallCommon, args []Val) ([]Val, bool) {
			o, ok := args[0].(OpaqueV)
			if !ok {
				if prev != nil {
					return prev(m, st, call, args) // a concrete column (sized scenarios)
				}
				return nil, false
			}
			extra := ""
			for _, a := range args[1:] {
				extra += "," + fmtVal(a, nil)
			}
			sym := fnName + "(" + o.Name + extra + ")"
			if sc.sized {
				return []Val{&TupleV{E: []Val{linSym(sym), nilV{}}}}, true // the other columns are numbers
			}
			return []Val{
				&TupleV{E: []Val{linSym(sym), nilV{}}},
				&TupleV{E: []Val{int64(0), IfaceV{T: errType, V: "syntax error in " + o.Name}}},
			}, true
		}
	}
	m.Hooks["strconv.Atoi"] = numParse("Atoi")
	m.Hooks["strconv.ParseInt"] = numParse("ParseInt")
	m.Hooks["strconv.ParseUint"] = numParse("ParseUint")
	nSec := 0
	m.Hooks["io.NewSectionReader"] = func(m *Machine, st *State, call *ssa.CallCommon, args []Val) ([]Val, bool) {
		nSec++
		id := st.alloc(types.Typ[types.Int], OpaqueV{fmt.Sprintf("SectionReader#%d(%s,%s)", nSec, fmtVal(args[1], nil), fmtVal(args[2], nil))})
		st.Notes["sec:"+fmtVal(args[0], func(i int) string { return "obj" })+"|"+fmtVal(args[1], nil)+"|"+fmtVal(args[2], nil)] = true
		return []Val{Ptr{Obj: id}}, true
	}
	m.InvokeHook = func(m *Machine, st *State, call *ssa.CallCommon, recv Val, args []Val) ([]Val, bool) {
		if call.Method.Name() != "ReadAt" {
			return nil, false
		}
		buf, ok := args[0].(SliceV)
		if !ok || buf.Abs {
			return nil, false
		}
		nreads := 0
		for k := range st.Notes {
			if strings.HasPrefix(k, "readat:") {
				nreads++
			}
		}
		st.Notes["readat:"+fmtVal(args[1], nil)+fmt.Sprintf("|len=%d", buf.Len_)] = true
		if nreads > 0 {
			// a further read on the archive (a probe): relate its offset to the end of
			// the member's data, off+60+size. The archive may end exactly there, so a
			// read at or past that point can hit the end of file even in a well-formed
			// archive; a read before it always succeeds.
			st.Notes["extra-read"] = true
			off, ok := linOf(args[1])
			if !ok {
				return nil, false
			}
			if sc.sized {
				// concrete size: the data occupies [off+60, off+60+have)
				rel := off.add(LinV{C: 60, T: map[string]int64{"off": 1}}, -1)
				if !rel.isConst() {
					return nil, false
				}
				n := sc.have - rel.C
				if n > int64(buf.Len_) {
					n = int64(buf.Len_)
				}
				if n < 0 || rel.C < 0 {
					n = 0
				}
				for i := 0; int64(i) < n; i++ {
					st.store(Ptr{Obj: buf.Obj, Path: pathAppend(buf.Path, buf.Lo+i)}, OpaqueV{"data"})
				}
				if rel.C < 0 {
					return []Val{&TupleV{E: []Val{int64(buf.Len_), nilV{}}}}, true // re-reads the header
				}
				if n == int64(buf.Len_) {
					// io.ReaderAt: a full read that ends exactly at the end of the input may report nil or io.EOF
					if rel.C+n == sc.have {
						return []Val{&TupleV{E: []Val{n, nilV{}}}, &TupleV{E: []Val{n, IfaceV{T: errType, V: "EOF"}}}}, true
					}
					return []Val{&TupleV{E: []Val{n, nilV{}}}}, true
				}
				return []Val{&TupleV{E: []Val{n, IfaceV{T: errType, V: "EOF"}}}}, true
			}
			var size LinV
			found := false
			for k := range off.T {
				if strings.HasPrefix(k, "ParseInt(") || strings.HasPrefix(k, "Atoi(") || strings.HasPrefix(k, "ParseUint(") {
					if !strings.Contains(k, ")%") {
						size, found = linSym(k), true
					}
				}
			}
			end := LinV{C: 60, T: map[string]int64{"off": 1}}
			if found {
				end = end.add(size, 1)
			}
			diff := off.add(end, -1)
			full := &TupleV{E: []Val{int64(buf.Len_), nilV{}}}
			eof := &TupleV{E: []Val{int64(0), IfaceV{T: errType, V: "EOF"}}}
			for i := 0; i < buf.Len_; i++ {
				st.store(Ptr{Obj: buf.Obj, Path: pathAppend(buf.Path, buf.Lo+i)}, OpaqueV{"data"})
			}
			if diff.isConst() && diff.C >= 0 {
				st.Notes["probe-past-end"] = true
				return []Val{tagged{full, "probe=ok"}, tagged{eof, "probe=eof-at-end-of-archive"}}, true
			}
			return []Val{full}, true
		}
		if sc.count > 0 {
			for i := 0; i < buf.Len_ && int64(i) < sc.count; i++ {
				var v Val = OpaqueV{fmt.Sprintf("hdr[%d]", i)}
				if i == 58 && sc.b58 != nil {
					v = sc.b58
				}
				if i == 59 && sc.b59 != nil {
					v = sc.b59
				}
				if sc.sized && i >= 48 && i < 58 {
					v = int64(fmt.Sprintf("%-10d", sc.size)[i-48])
				}
				st.store(Ptr{Obj: buf.Obj, Path: pathAppend(buf.Path, buf.Lo+i)}, v)
			}
		}
		var e Val = nilV{}
		if !sc.errNil {
			e = IfaceV{T: errType, V: "read error"}
		}
		return []Val{&TupleV{E: []Val{sc.count, e}}}, true
	}
	_ = curRun
	st := &State{Heap: map[int]*HObj{}, Notes: map[string]bool{}}
	inID := st.alloc(types.Typ[types.Int], OpaqueV{"the-archive"})
	arID := st.alloc(arT, mkStruct(arT, map[string]Val{roleField(arT, "io.ReaderAt", "in"): IfaceV{T: types.NewPointer(types.Typ[types.Int]), V: Ptr{Obj: inID}}, roleField(arT, "int64", "offset"): linSym("off")}))
	st.push(next, []Val{Ptr{Obj: arID}}, nil)
	m.AltFilter = func(st *State, v Val) Val {
		if t, ok := v.(tagged); ok {
			st.Effects = append(st.Effects, t.Tag)
			return t.V
		}
		return v
	}
	outs := m.Run(st)
	var runs []arRun
	for _, o := range outs {
		if o.Status != stRet {
			return nil, fmt.Sprintf("Next did not return: %s", retDesc([]*State{o}))
		}
		tv, ok := o.Ret.(*TupleV)
		if !ok || len(tv.E) != 2 {
			return nil, "Next does not return (entry, error)"
		}
		r := arRun{st: o, path: o.Path}
		for _, e := range o.Effects {
			if e == "probe=eof-at-end-of-archive" {
				r.probeEOF = true
			}
		}
		switch e := tv.E[1].(type) {
		case nilV:
		case IfaceV:
			r.err = "nonnil"
		case Unknown:
			r.err = "maybe"
			_ = e
		default:
			// *io.EOF loaded from a global is Unknown in this model
			r.err = "nonnil"
		}
		if ar, ok := o.Heap[arID]; ok {
			sv := ar.V.(*StructV)
			r.newOff = sv.F[fieldIndex(structOf(arT), roleField(arT, "int64", "offset"))]
			var refs []int
			valRefs(sv, &refs)
			for _, id := range refs {
				if ov, ok := o.Heap[id]; ok {
					if op, ok := ov.V.(OpaqueV); ok && strings.HasPrefix(op.Name, "SectionReader") {
						r.keeps = true
					}
				}
			}
		}
		if r.err == "" {
			ep, ok := tv.E[0].(Ptr)
			if !ok {
				return nil, "success without an entry"
			}
			ev, _ := o.load(ep)
			sv, ok := ev.(*StructV)
			if !ok {
				return nil, "entry is not a struct"
			}
			r.entry = map[string]Val{}
			es := structOf(entT)
			for i := 0; i < es.NumFields(); i++ {
				v := sv.F[i]
				if pp, ok := v.(Ptr); ok {
					if ov, ok := o.Heap[pp.Obj]; ok {
						v = ov.V
					}
				}
				r.entry[es.Field(i).Name()] = v
			}
		}
		for k := range o.Notes {
			if strings.HasPrefix(k, "sec:") {
				r.nSec++
				parts := strings.Split(strings.TrimPrefix(k, "sec:"), "|")
				r.secArgs = []Val{parts[0], parts[1], parts[2]}
			}
		}
		runs = append(runs, r)
	}
	return runs, ""
}

func valStr(v Val) string {
	switch x := v.(type) {
	case OpaqueV:
		return x.Name
	case LinV:
		return x.String()
	case int64:
		return fmt.Sprint(x)
	case string:
		return fmt.Sprintf("%q", x)
	}
	return fmtVal(v, func(i int) string { return fmt.Sprint(i) })
}

var arNumeric = map[string][2]int{"Timestamp": {16, 28}, "OwnerID": {28, 34}, "GroupID": {34, 40}, "Size": {48, 58}}

func checkC13(p *Prog, rp *Report) {
	defer stateRule(p, rp, "C13-STATE", p.Func("deb", "LoadAr"), p.Method("deb", "Ar", "Next"))
	rp.Explanation = "The ar reader is interpreted abstractly on a symbolic member header (bytes = opaque tokens hdr[i], parsed numbers = symbols, offsets = linear terms): C13-COLS each entry field derives from exactly the ar(5) columns (name 0-16, mtime 16-28, uid 28-34, gid 34-40, mode 40-48, size 48-58) and numeric columns are parsed base 10 / 64 bit, blank = 0; C13-NAME blanks trimmed then one trailing '/' removed; C13-OFFSET the member reader is NewSectionReader(archive, off+60, size) and the next offset is off+60+size+size%2; C13-FRESH one new section reader per Next and the iterator keeps no reference to it; C13-MAGIC the global header is the 8 bytes \"!<arch>\\n\" read at offset 0 and iteration starts at 8; C13-EOF/C13-SHORT a failed or short header read ends the iteration with an error (io.EOF at the end)."
	rp.NotDecided = "that the bytes a member's reader delivers equal the member's bytes (contract of io.SectionReader / the caller's io.ReaderAt). Archives cut short inside a member are not well formed; C15-TRUNC covers them."
	rp.Trusted = []string{"go/types, go/ssa", "ar(5) header layout", "contracts of io.ReaderAt, io.NewSectionReader, strings.TrimSpace/TrimSuffix, strconv.ParseInt"}
	arRules(p, rp, true)
}

// arRules fills the rules shared by C13 (all) and C15 (magic, progress).
func arRules(p *Prog, rp *Report, c13 bool) {
	good := arScenario{count: 60, errNil: true, b58: int64(0x60), b59: int64(0x0A)}
	runs, why := interpretNext(p, good)
	next := p.Method("deb", "Ar", "Next")
	pos := ""
	if next != nil {
		pos = p.Pos(next.Pos())
	}
	if os.Getenv("GDSA_FORCE_BOUNDED") != "" {
		why = "forced by GDSA_FORCE_BOUNDED"
	}
	if why != "" {
		arRulesBounded(p, rp, c13, pos, why)
		return
	}
	var succ []arRun
	for _, r := range runs {
		if r.err == "" {
			succ = append(succ, r)
		}
	}
	prefix := "C15"
	if c13 {
		prefix = "C13"
	}
	if c13 {
		wf := rp.Rule("C13-LAST", "a well-formed member is returned even when the archive ends right after its data", 1)
		lost := false
		for _, r := range runs {
			if r.err != "" && r.probeEOF {
				lost = true
			}
		}
		wf.check(!lost && len(succ) > 0, "deb.Ar.Next", pos, "no read at or past the end of the member's data is required to succeed", "Next reads at or past the end of the member's data and fails when that read hits the end of the archive: the last member of a well-formed archive is rejected")
	}
	if c13 {
		cols := rp.Rule("C13-COLS", "entry fields derive from the ar(5) header columns", 6)
		name := rp.Rule("C13-NAME", "name = columns 0-16, blanks trimmed, then one trailing '/' removed", 1)
		if len(succ) == 0 {
			cols.bad("deb.Ar.Next", pos, "no successful path through Next on a well-formed header", nil)
		}
		fieldVals := map[string]map[string]bool{}
		for _, r := range succ {
			for f, v := range r.entry {
				if fieldVals[f] == nil {
					fieldVals[f] = map[string]bool{}
				}
				fieldVals[f][valStr(v)] = true
			}
		}
		for f, cr := range arNumeric {
			vals := keysOf(fieldVals[f])
			okParsed, okBlank := false, false
			bad := ""
			re := regexp.MustCompile(`^(ParseInt|ParseUint|Atoi)\(TrimSpace\(hdr\[(\d+):(\d+)\]\)(,i10,i(\d+))?\)$`)
			for _, v := range vals {
				if v == "0" {
					okBlank = true
					continue
				}
				mm := re.FindStringSubmatch(v)
				if mm == nil {
					bad = "value has the shape " + v
					continue
				}
				if mm[2] != fmt.Sprint(cr[0]) || mm[3] != fmt.Sprint(cr[1]) {
					bad = fmt.Sprintf("parsed from columns %s-%s, ar(5) says %d-%d", mm[2], mm[3], cr[0], cr[1])
					continue
				}
				if (mm[1] == "Atoi" || mm[5] != "64") && cr[1]-cr[0] >= 10 {
					bad = fmt.Sprintf("parsed with %s (%s bits): a %d digit column does not fit 32 bits (sizes >= 2 GiB, timestamps after 2038), the field is int64", mm[1], mm[5], cr[1]-cr[0])
					continue
				}
				okParsed = true
			}
			switch {
			case bad != "":
				cols.bad("deb.ArEntry."+f, pos, bad, vals)
			case !okParsed:
				cols.bad("deb.ArEntry."+f, pos, fmt.Sprintf("never assigned from the header (values: %v)", vals), nil)
			case !okBlank:
				cols.bad("deb.ArEntry."+f, pos, "a blank column is not accepted as 0", nil)
			default:
				cols.ok("deb.ArEntry."+f, pos, fmt.Sprintf("decimal int64 of columns %d-%d, blank = 0", cr[0], cr[1]))
			}
		}
		{
			vals := keysOf(fieldVals["FileMode"])
			cols.check(len(vals) == 1 && vals[0] == "TrimSpace(hdr[40:48])", "deb.ArEntry.FileMode", pos, "columns 40-48, blanks trimmed", fmt.Sprintf("FileMode is %v, want TrimSpace(hdr[40:48])", vals))
			vals = keysOf(fieldVals["Name"])
			okName := len(vals) == 1 && (vals[0] == `TrimSuffix(TrimSpace(hdr[0:16]),"/")`)
			cols.check(len(vals) == 1 && strings.Contains(vals[0], "hdr[0:16]") && !regexp.MustCompile(`hdr\[(?:[^0]|0[^:])`).MatchString(vals[0]), "deb.ArEntry.Name", pos, "from columns 0-16", fmt.Sprintf("Name is %v", vals))
			name.check(okName, "deb.ArEntry.Name", pos, "TrimSuffix(TrimSpace(columns 0-16), \"/\")", fmt.Sprintf("Name is %v: the padding must be trimmed first and then exactly one trailing '/' removed", vals))
		}
	}
	// offsets
	off := rp.Rule(prefix+"-OFFSET", "member data = NewSectionReader(archive, off+60, size); next offset = off+60+size+size%2; at least 60 bytes of progress per member", 1)
	sizeSym := "ParseInt(TrimSpace(hdr[48:58]),i10,i64)"
	okAll := len(succ) > 0
	detail := ""
	for _, r := range succ {
		size := valStr(r.entry["Size"])
		var wantOff, wantSecOff, wantSecN string
		if size == "0" {
			wantOff, wantSecOff, wantSecN = "off + 60", "lin(off + 60)", "i0"
		} else {
			sym := size
			wantOff = LinV{C: 60, T: map[string]int64{"off": 1, sym: 1, "(" + sym + ")%2": 1}}.String()
			wantSecOff, wantSecN = "lin(off + 60)", "lin("+sym+")"
		}
		if valStr(r.newOff) != wantOff {
			okAll, detail = false, fmt.Sprintf("after a member of size %s the offset becomes %s, want %s", size, valStr(r.newOff), wantOff)
		}
		if r.nSec != 1 {
			okAll, detail = false, fmt.Sprintf("%d section readers created for one member", r.nSec)
		} else if fmt.Sprint(r.secArgs[1]) != wantSecOff || fmt.Sprint(r.secArgs[2]) != wantSecN {
			okAll, detail = false, fmt.Sprintf("member reader covers (offset %v, length %v), want (%s, %s)", r.secArgs[1], r.secArgs[2], wantSecOff, wantSecN)
		} else if !strings.Contains(fmt.Sprint(r.secArgs[0]), "obj") {
			okAll, detail = false, "member reader is not built on the archive's ReaderAt"
		}
		// progress needs size >= 0 on this path
		if size != "0" {
			nonneg := false
			for _, a := range r.path {
				if a == size+" < 0=F" || a == size+" >= 0=T" || a == "0 > "+size+"=F" || a == "0 <= "+size+"=T" {
					nonneg = true
				}
			}
			if !nonneg {
				okAll, detail = false, "a member with a negative size is returned: the offset then moves by less than 60 bytes (by 0 for size -60, so iteration never ends)"
			}
		}
		_ = sizeSym
	}
	if okAll {
		off.ok("deb.Ar.Next", pos, fmt.Sprintf("%d success paths: reader = (off+60, size), next offset = off+60+size+size%%2, size >= 0 on every success path", len(succ)))
	} else {
		off.bad("deb.Ar.Next", pos, detail, nil)
	}
	if c13 {
		fresh := rp.Rule("C13-FRESH", "every member gets its own section reader; the iterator keeps no reference to it", 1)
		keeps := false
		for _, r := range succ {
			if r.keeps {
				keeps = true
			}
		}
		fresh.check(!keeps && len(succ) > 0, "deb.Ar.Next", pos, "one io.NewSectionReader per member, not stored in Ar", "the iterator stores the member reader: readers of earlier members do not stay independent")
	}
	// header magic: 4 scenarios
	mg := rp.Rule(prefix+"-HDRMAGIC", "a member is returned only from a header ending in 0x60 0x0A", 1)
	okM := true
	detailM := ""
	for _, sc := range []struct {
		b58, b59 int64
		want     bool
	}{{0x60, 0x0A, true}, {0x60, 0x20, false}, {0x20, 0x0A, false}, {0x20, 0x20, false}} {
		rs, why := interpretNext(p, arScenario{count: 60, errNil: true, b58: sc.b58, b59: sc.b59})
		if why != "" {
			mg.undecided("deb.Ar.Next", pos, why)
			okM = false
			detailM = "-"
			break
		}
		anySucc := false
		for _, r := range rs {
			if r.err == "" {
				anySucc = true
			}
		}
		if anySucc != sc.want {
			okM = false
			detailM = fmt.Sprintf("header ending in 0x%02x 0x%02x: member returned = %v, want %v", sc.b58, sc.b59, anySucc, sc.want)
		}
	}
	if detailM != "-" {
		mg.check(okM, "deb.Ar.Next", pos, "all four combinations of the two magic bytes decided", detailM)
	}
	// short / failed reads
	sh := rp.Rule(prefix+"-SHORT", "a failed or short header read never yields a member", 1)
	okS := true
	detailS := ""
	for _, sc := range []arScenario{{count: 0, errNil: false}, {count: 1, errNil: false}, {count: 30, errNil: false}, {count: 30, errNil: true}, {count: 1, errNil: true}, {count: 0, errNil: true}, {count: 60, errNil: false, b58: int64(0x60), b59: int64(0x0A)}} {
		rs, why := interpretNext(p, sc)
		if why != "" {
			sh.undecided("deb.Ar.Next", pos, why)
			detailS = "-"
			break
		}
		for _, r := range rs {
			if r.err == "" {
				okS = false
				detailS = fmt.Sprintf("ReadAt returning (%d, error=%v) still yields a member", sc.count, !sc.errNil)
			}
			if valStr(r.newOff) != "off" {
				okS = false
				detailS = fmt.Sprintf("the offset moves to %s although no member was returned", valStr(r.newOff))
			}
		}
	}
	if detailS != "-" {
		sh.check(okS, "deb.Ar.Next", pos, "7 read outcomes (errors, short reads with and without error) all end in an error with the offset unchanged", detailS)
	}
	if c13 {
		c13Global(p, rp)
	} else {
		tr := rp.Rule("C15-TRUNC", "a member whose recorded size runs past the end of the input is not returned (its reader would deliver fewer bytes than Size)", 1)
		var problems []string
		undec := ""
		n := 0
		for _, c := range []struct{ size, have int64 }{{1, 0}, {2, 1}, {7, 0}, {7, 3}, {7, 6}, {100000, 99999}, {4294967297, 5}, {0, 0}, {1, 1}, {7, 7}, {8, 8}} {
			rs, why := interpretNext(p, arScenario{count: 60, errNil: true, b58: int64(0x60), b59: int64(0x0A), sized: true, size: c.size, have: c.have})
			if why != "" {
				undec = why
				break
			}
			n++
			member, refused := false, false
			for _, r := range rs {
				if r.err == "" {
					member = true
				} else {
					refused = true
				}
			}
			switch {
			case c.have < c.size && member:
				problems = append(problems, fmt.Sprintf("a header recording %d bytes followed by only %d bytes of data still yields a member: its reader delivers %d bytes, not %d", c.size, c.have, c.have, c.size))
			case c.have == c.size && refused:
				problems = append(problems, fmt.Sprintf("a complete member of %d bytes at the very end of the input is refused (whichever way the ReaderAt reports the end)", c.size))
			}
		}
		if undec != "" {
			tr.undecided("deb.Ar.Next", pos, undec)
		} else {
			fillProblems(tr, "deb.Ar.Next", pos, problems, fmt.Sprintf("%d size/data combinations (1 to 2^32+1 recorded bytes with fewer present: no member; complete members ending the input: returned whether the final read reports nil or io.EOF)", n))
		}
	}
	// cross-check on concrete archives (always run; the fallback when the symbolic model does not apply)
	fam := rp.Rule(prefix+"-FAMILY", "LoadAr / Next agree with an ar(5) reference reader on a family of concrete archives", 1)
	if b := arConcrete(p); b.undecided != "" {
		// the family enters through LoadAr as a caller does (the symbolic rules build the iterator directly), so it
		// is the only place where a layer between the caller's ReaderAt and the iterator is seen: it has to be decided
		fam.undecided("deb.Ar.Next", pos, "the concrete interpretation stopped at: "+clip(b.undecided, 200))
	} else {
		var all []string
		for _, k := range []string{"COLS", "OFFSET", "HDRMAGIC", "MAGIC", "SHORT", "LAST"} {
			all = append(all, b.problems[k]...)
		}
		if !c13 {
			all = append(all, b.problems["TRUNC"]...)
		}
		fillProblems(fam, "deb.Ar.Next", pos, all, fmt.Sprintf("%d archives (well-formed with 1 to 3 members, column variants, header and global magic, truncation): members, data offsets and the end of the iteration equal the reference", b.nArchives))
	}
}

// c13Global: LoadAr / checkAr.
func c13Global(p *Prog, rp *Report) {
	r := rp.Rule("C13-MAGIC", "global header: the 8 bytes \"!<arch>\\n\" at offset 0; iteration starts at offset 8", 1)
	load := p.Func("deb", "LoadAr")
	arT := p.Named("deb", "Ar")
	if load == nil || arT == nil {
		r.bad("deb.LoadAr", "", "function not found", nil)
		return
	}
	pos := p.Pos(load.Pos())
	magic := "!<arch>\n"
	try := func(content string, errNil bool) (string, string) { // returns offset or "error"
		m := NewMachine(p, nil)
		installStringModels(m)
		readOff := ""
		m.InvokeHook = func(m *Machine, st *State, call *ssa.CallCommon, recv Val, args []Val) ([]Val, bool) {
			if call.Method.Name() != "ReadAt" {
				return nil, false
			}
			buf, ok := args[0].(SliceV)
			if !ok || buf.Abs {
				return nil, false
			}
			readOff = fmt.Sprintf("%s,len=%d", valStr(args[1]), buf.Len_)
			n := 0
			for i := 0; i < buf.Len_ && i < len(content); i++ {
				st.store(Ptr{Obj: buf.Obj, Path: pathAppend(buf.Path, buf.Lo+i)}, int64(content[i]))
				n++
			}
			var e Val = nilV{}
			if !errNil || n < buf.Len_ {
				e = IfaceV{T: errType, V: "read error"}
			}
			return []Val{&TupleV{E: []Val{int64(n), e}}}, true
		}
		st := &State{Heap: map[int]*HObj{}, Notes: map[string]bool{}}
		inID := st.alloc(types.Typ[types.Int], OpaqueV{"the-archive"})
		st.push(load, []Val{IfaceV{T: types.NewPointer(types.Typ[types.Int]), V: Ptr{Obj: inID}}}, nil)
		outs := m.Run(st)
		if len(outs) != 1 || outs[0].Status != stRet {
			return "", "undecided: " + retDesc(outs)
		}
		tv := outs[0].Ret.(*TupleV)
		if _, isNil := tv.E[1].(nilV); !isNil {
			return "error", readOff
		}
		ap, ok := tv.E[0].(Ptr)
		if !ok {
			return "error", readOff
		}
		av, _ := outs[0].load(ap)
		return valStr(av.(*StructV).F[fieldIndex(structOf(arT), roleField(arT, "int64", "offset"))]), readOff
	}
	var problems []string
	got, ro := try(magic+"rest", true)
	if strings.HasPrefix(ro, "undecided") {
		r.undecided("deb.LoadAr", pos, ro)
		return
	}
	if got != "8" {
		problems = append(problems, fmt.Sprintf("a correct global header gives offset %s, want 8", got))
	}
	if ro != "0,len=8" {
		problems = append(problems, fmt.Sprintf("the global header is read as (%s), want 8 bytes at offset 0", ro))
	}
	for i := 0; i < len(magic); i++ {
		b := []byte(magic)
		b[i] ^= 0x01
		if got, _ := try(string(b)+"rest", true); got != "error" {
			problems = append(problems, fmt.Sprintf("global header with byte %d altered is accepted", i))
		}
	}
	if got, _ := try(magic[:5], true); got != "error" {
		problems = append(problems, "a 5 byte file is accepted as an archive")
	}
	if got, _ := try(magic, false); got != "error" {
		problems = append(problems, "a read error on the global header is ignored")
	}
	sort.Strings(problems)
	r.check(len(problems) == 0, "deb.LoadAr", pos, "correct magic -> offset 8; each of the 8 bytes altered, a short file and a read error -> error", strings.Join(problems, "; "))
}

// arRulesBounded fills the ar rules from the concrete-archive family (the reader left the symbolic model).
func arRulesBounded(p *Prog, rp *Report, c13 bool, pos, why string) {
	b := arConcrete(p)
	prefix := "C15"
	if c13 {
		prefix = "C13"
	}
	if b.undecided != "" {
		rp.Rule("AR-MODEL", "the ar reader fits the symbolic-header model or the concrete-archive family", 1).undecided("deb.Ar.Next", pos, "symbolic header: "+why+"; concrete archives: "+b.undecided)
		return
	}
	note := fmt.Sprintf("(bounded: the reader left the symbolic-header model: %s) on %d concrete archives compared with an ar(5) reference reader: ", clip(why, 120), b.nArchives)
	if c13 {
		fillProblems(rp.Rule("C13-LAST", "a well-formed member is returned even when the archive ends right after its data", 1), "deb.Ar.Next", pos, b.problems["LAST"], note+"the last member is returned although the archive ends right after its data")
		cols := rp.Rule("C13-COLS", "entry fields derive from the ar(5) header columns", 6)
		for _, c := range []string{"Name", "Timestamp", "OwnerID", "GroupID", "FileMode", "Size"} {
			fillProblems(cols, "deb.ArEntry."+c, pos, b.problems["COLS"], note+"every entry field equals the reference (column variants: blank, zero, large, non-numeric, negative, inner blanks)")
		}
		fillProblems(rp.Rule("C13-NAME", "name = columns 0-16, blanks trimmed, then one trailing '/' removed", 1), "deb.ArEntry.Name", pos, b.problems["COLS"], note+"9 name shapes (GNU '/' terminator, inner blank, 16 bytes, inner and double slashes, blank, a lone slash) (GNU '/' terminator, inner blank, 16 bytes, inner and double slashes)")
		fillProblems(rp.Rule("C13-FRESH", "every member gets its own section reader; the iterator keeps no reference to it", 1), "deb.Ar.Next", pos, b.problems["OFFSET"], note+"every member's Data is its own NewSectionReader(archive, data offset, size)")
		fillProblems(rp.Rule("C13-MAGIC", "global header: the 8 bytes \"!<arch>\\n\" at offset 0; iteration starts at offset 8", 1), "deb.LoadAr", pos, b.problems["MAGIC"], note+"each of the 8 bytes changed and archives shorter than 8 bytes are rejected by LoadAr")
	}
	fillProblems(rp.Rule(prefix+"-OFFSET", "member data = NewSectionReader(archive, off+60, size); next offset = off+60+size+size%2; at least 60 bytes of progress per member", 1), "deb.Ar.Next", pos, append(append([]string(nil), b.problems["OFFSET"]...), b.problems["COLS"]...), note+"data offsets and the following members (sizes 0, 1, 4, 5: padding after odd sizes) equal the reference; negative sizes are rejected")
	fillProblems(rp.Rule(prefix+"-HDRMAGIC", "a member is returned only from a header ending in 0x60 0x0A", 1), "deb.Ar.Next", pos, b.problems["HDRMAGIC"], note+"5 wrong header endings end the iteration with an error")
	fillProblems(rp.Rule(prefix+"-SHORT", "a failed or short header read never yields a member", 1), "deb.Ar.Next", pos, b.problems["SHORT"], note+"archives cut inside a header yield no further member; the clean end gives io.EOF")
	if !c13 {
		fillProblems(rp.Rule("C15-TRUNC", "a member whose recorded size runs past the end of the input is not returned (its reader would deliver fewer bytes than Size)", 1), "deb.Ar.Next", pos, b.problems["TRUNC"], note+"archives cut inside the data of the last member, or recording 9999999999 bytes, yield no such member")
	}
}
