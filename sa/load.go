package main

import (
	"fmt"
	"go/token"
	"go/types"
	"os"
	"sort"
	"strings"

	"golang.org/x/tools/go/callgraph"
	"golang.org/x/tools/go/callgraph/cha"
	"golang.org/x/tools/go/callgraph/vta"
	"golang.org/x/tools/go/packages"
	"golang.org/x/tools/go/ssa"
	"golang.org/x/tools/go/ssa/ssautil"
)

const repoModule = "pault.ag/go/debian"

// Prog is the loaded, type-checked program in SSA form.
type Prog struct {
	Fset  *token.FileSet
	Pkgs  map[string]*packages.Package // keyed by short name: version, dependency, ...
	All   []*packages.Package
	SSA   *ssa.Program
	SPkg  map[string]*ssa.Package
	cg    *callgraph.Graph
	Arch  string
	nfunc int
}

var wantPkgs = []string{"changelog", "control", "deb", "dependency", "hashio", "internal", "version"}

func repoDir() string {
	if d := os.Getenv("GDSA_REPO"); d != "" {
		return d
	}
	return "/repo"
}

// Load type-checks /repo/... (plus extra directories given as patterns relative
// to dir) and builds SSA for the whole program.
func Load(dir string, goarch string, overlay map[string][]byte, patterns ...string) (*Prog, error) {
	env := append(os.Environ(), "GOFLAGS=-mod=mod", "GOPROXY=off", "GOSUMDB=off", "GOTOOLCHAIN=local", "GOWORK=off", "CGO_ENABLED=0")
	if goarch != "" {
		env = append(env, "GOARCH="+goarch)
	}
	fset := token.NewFileSet()
	cfg := &packages.Config{
		Mode:    packages.LoadAllSyntax,
		Dir:     dir,
		Env:     env,
		Fset:    fset,
		Tests:   false,
		Overlay: overlay,
	}
	if len(patterns) == 0 {
		patterns = []string{"./..."}
	}
	pkgs, err := packages.Load(cfg, patterns...)
	if err != nil {
		return nil, fmt.Errorf("load: %v", err)
	}
	if len(pkgs) == 0 {
		return nil, fmt.Errorf("load: no packages matched in %s", dir)
	}
	nerr := 0
	var firstErr string
	packages.Visit(pkgs, nil, func(p *packages.Package) {
		for _, e := range p.Errors {
			nerr++
			if firstErr == "" {
				firstErr = e.Error()
			}
		}
	})
	if nerr > 0 {
		return nil, fmt.Errorf("load: %d type/parse errors, first: %s", nerr, firstErr)
	}
	prog, spkgs := ssautil.AllPackages(pkgs, ssa.InstantiateGenerics)
	prog.Build()
	p := &Prog{Fset: fset, Pkgs: map[string]*packages.Package{}, All: pkgs, SSA: prog, SPkg: map[string]*ssa.Package{}, Arch: goarch}
	for i, pk := range pkgs {
		short := pk.PkgPath
		if strings.HasPrefix(short, repoModule+"/") {
			short = strings.TrimPrefix(short, repoModule+"/")
		}
		p.Pkgs[short] = pk
		p.SPkg[short] = spkgs[i]
	}
	return p, nil
}

// LoadRepo loads the repository and asserts that the expected packages are there.
func LoadRepo(goarch string, overlay map[string][]byte) (*Prog, error) {
	p, err := Load(repoDir(), goarch, overlay)
	if err != nil {
		return nil, err
	}
	for _, w := range wantPkgs {
		if p.Pkgs[w] == nil || p.SPkg[w] == nil {
			return nil, fmt.Errorf("load: package %s/%s not found in %s", repoModule, w, repoDir())
		}
	}
	if len(p.All) < len(wantPkgs) {
		return nil, fmt.Errorf("load: only %d packages", len(p.All))
	}
	return p, nil
}

// CallGraph builds (once) the VTA call graph.
func (p *Prog) CallGraph() *callgraph.Graph {
	if p.cg == nil {
		all := ssautil.AllFunctions(p.SSA)
		p.cg = vta.CallGraph(all, cha.CallGraph(p.SSA))
	}
	return p.cg
}

func (p *Prog) Pos(pos token.Pos) string {
	if !pos.IsValid() {
		return "-"
	}
	ps := p.Fset.Position(pos)
	f := ps.Filename
	if strings.HasPrefix(f, repoDir()+"/") {
		f = strings.TrimPrefix(f, repoDir()+"/")
	}
	return fmt.Sprintf("%s:%d", f, ps.Line)
}

// Func finds a package-level function by short package name and function name.
func (p *Prog) Func(pkg, name string) *ssa.Function {
	sp := p.SPkg[pkg]
	if sp == nil {
		return nil
	}
	return sp.Func(name)
}

// Method finds a method (value or pointer receiver) on a named type.
func (p *Prog) Method(pkg, typ, name string) *ssa.Function {
	sp := p.SPkg[pkg]
	if sp == nil {
		return nil
	}
	t := sp.Type(typ)
	if t == nil {
		return nil
	}
	nt := t.Type()
	for _, rt := range []types.Type{nt, types.NewPointer(nt)} {
		ms := p.SSA.MethodSets.MethodSet(rt)
		for i := 0; i < ms.Len(); i++ {
			sel := ms.At(i)
			if sel.Obj().Name() == name {
				fn := p.SSA.MethodValue(sel)
				if fn != nil {
					// unwrap synthetic pointer wrappers: prefer declared function
					if decl := p.SSA.FuncValue(sel.Obj().(*types.Func)); decl != nil {
						return decl
					}
					return fn
				}
			}
		}
	}
	return nil
}

// Named returns the types.Named for pkg.typ
func (p *Prog) Named(pkg, typ string) *types.Named {
	pk := p.Pkgs[pkg]
	if pk == nil {
		return nil
	}
	o := pk.Types.Scope().Lookup(typ)
	if o == nil {
		return nil
	}
	n, _ := o.Type().(*types.Named)
	return n
}

// SrcFuncs lists every source function (incl. methods and anonymous functions)
// of the given short packages, in a deterministic order.
func (p *Prog) SrcFuncs(pkgs ...string) []*ssa.Function {
	want := map[string]bool{}
	for _, k := range pkgs {
		want[k] = true
	}
	var out []*ssa.Function
	for fn := range ssautil.AllFunctions(p.SSA) {
		if fn.Pkg == nil || fn.Synthetic != "" && fn.Syntax() == nil {
			continue
		}
		if fn.Blocks == nil {
			continue
		}
		short := strings.TrimPrefix(fn.Pkg.Pkg.Path(), repoModule+"/")
		if !want[short] {
			continue
		}
		if fn.Synthetic != "" {
			continue
		}
		out = append(out, fn)
	}
	sort.Slice(out, func(i, j int) bool {
		if out[i].Pos() != out[j].Pos() {
			return out[i].Pos() < out[j].Pos()
		}
		return out[i].String() < out[j].String()
	})
	return out
}

func inRepo(fn *ssa.Function) bool {
	return fn != nil && fn.Pkg != nil && strings.HasPrefix(fn.Pkg.Pkg.Path(), repoModule)
}

func shortPkg(fn *ssa.Function) string {
	if fn == nil || fn.Pkg == nil {
		return ""
	}
	return strings.TrimPrefix(fn.Pkg.Pkg.Path(), repoModule+"/")
}

// fname is a stable human-readable name for a function: pkg.Func or pkg.(T).M
func fname(fn *ssa.Function) string {
	if fn == nil {
		return "<nil>"
	}
	s := fn.String()
	s = strings.ReplaceAll(s, repoModule+"/", "")
	return s
}
