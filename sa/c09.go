package main

// C09 — struct marshal / unmarshal. The reflection walkers are checked
// structurally on their SSA (kind dispatch tables, tag constants, required /
// omit guards, nil safety); Paragraph.Update and Set are interpreted.

import (
	"fmt"
	"go/types"
	"regexp"
	"sort"
	"strings"

	"golang.org/x/tools/go/ssa"
)

func init() { register("C09", checkC09) }

var kindNames = map[int64]string{1: "Bool", 2: "Int", 3: "Int8", 4: "Int16", 5: "Int32", 6: "Int64", 7: "Uint", 8: "Uint8", 9: "Uint16", 10: "Uint32", 11: "Uint64", 22: "Ptr", 23: "Slice", 24: "String", 25: "Struct", 20: "Interface", 21: "Map"}

// kindCases: the reflect.Kind constants a function's dispatch compares against,
// with the block entered for each.
func kindCases(fn *ssa.Function) map[string]*ssa.BasicBlock {
	out := map[string]*ssa.BasicBlock{}
	for _, g := range guardsOf(fn) {
		m := regexp.MustCompile(`^\((?:\(reflect\.Value\)\.Type\(p0\)\.Kind\(\)|\(reflect\.Value\)\.Kind\(p0\)) == (\d+)\)$`).FindStringSubmatch(g.Term)
		if m == nil {
			continue
		}
		var k int64
		fmt.Sscan(m[1], &k)
		name := kindNames[k]
		if name == "" {
			name = "Kind" + m[1]
		}
		out[name] = g.If.Block().Succs[0]
	}
	return out
}

// blockRegionCalls lists the callee names reachable from b without leaving fn
// through another kind case (approximated by: blocks dominated by b).
func regionCalls(fn *ssa.Function, b *ssa.BasicBlock) []string {
	var out []string
	for _, x := range fn.Blocks {
		if !b.Dominates(x) {
			continue
		}
		for _, ins := range x.Instrs {
			if c, ok := ins.(ssa.CallInstruction); ok {
				out = append(out, shortFn(calleeName(c.Common())))
			}
		}
	}
	return out
}

func has(list []string, s string) bool {
	for _, x := range list {
		if x == s {
			return true
		}
	}
	return false
}

func hasAnyPrefix(list []string, s string) bool {
	for _, x := range list {
		if strings.HasPrefix(x, s) {
			return true
		}
	}
	return false
}

func checkC09(p *Prog, rp *Report) {
	rp.Explanation = "C09-KINDS: the kind dispatch of the encoder's and the decoder's value walkers both cover String, Int, Uint, Bool, Slice and Struct, and per kind the conversions pair up (String()/SetString, Int: Itoa|FormatInt / Atoi|ParseInt + SetInt, Uint: FormatUint / ParseUint + SetUint, Bool: the literal written for true is the literal the decoder compares with, Slice/Struct: the slice and struct helpers). C09-TAGS: both walkers resolve the wire name as Tag.Get(\"control\") defaulting to the Go name, skip \"-\", test required against \"true\", default delim to one blank. C09-REQ: the encoder omits a field iff its text is empty and it is not required, deciding BEFORE the multiline prefix is added; the decoder distinguishes absent from empty by the map's comma-ok result and returns an error iff a required key is absent. C09-MERGE: convertToParagraph returns embedded.Update(fields of the struct); Update and Set interpreted abstractly: receiver order first, then new keys in argument order, argument values win; Set replaces in place or appends. C09-NIL: a pointer field is tested with IsNil before Elem(). C09-TYPES: every struct-typed field (or slice element) of the repository's own document types implements Marshallable on the value and Unmarshallable on the pointer, which is how the walkers look them up; every other field kind is in both dispatch tables."
	rp.NotDecided = "the round trip for every probe value (needs package reflect itself); whether writing 0/no for zero integers/booleans contradicts 'optional zero fields are omitted' (a matter of reading the statement; no rule is armed on it)."
	rp.Trusted = []string{"go/types, go/ssa", "package reflect, strconv"}

	enc := p.Func("control", "marshalStructValue")
	dec := p.Func("control", "decodeStructValue")
	kinds := rp.Rule("C09-KINDS", "encoder and decoder dispatch on the same kinds with matching conversions", 7)
	if enc == nil || dec == nil {
		// locate by role: functions in control switching on reflect kinds with (Value, StructField[, string]) parameters
		for _, fn := range p.SrcFuncs("control") {
			if len(kindCases(fn)) >= 4 {
				if fn.Signature.Params().Len() == 2 && enc == nil {
					enc = fn
				}
				if fn.Signature.Params().Len() == 3 && dec == nil {
					dec = fn
				}
			}
		}
	}
	if enc == nil || dec == nil {
		kinds.bad("control.value-walkers", "", "the encoder's / decoder's value dispatch could not be located", nil)
		return
	}
	ek, dk := kindCases(enc), kindCases(dec)
	for _, k := range []string{"String", "Int", "Uint", "Bool", "Slice", "Struct"} {
		key := "kind:" + k
		eb, dbk := ek[k], dk[k]
		switch {
		case eb == nil && dbk == nil:
			kinds.bad(key, p.Pos(enc.Pos()), "neither walker handles reflect."+k, nil)
			continue
		case eb == nil:
			kinds.bad(key, p.Pos(enc.Pos()), "the decoder handles reflect."+k+" but the encoder does not: such a field cannot be marshalled", nil)
			continue
		case dbk == nil:
			kinds.bad(key, p.Pos(dec.Pos()), "the encoder writes reflect."+k+" fields but the decoder has no case for them: the marshalled text does not unmarshal", nil)
			continue
		}
		ec, dc := regionCalls(enc, eb), regionCalls(dec, dbk)
		ok, detail := true, ""
		switch k {
		case "String":
			ok = has(ec, "(reflect.Value).String") && has(dc, "(reflect.Value).SetString")
			detail = "String()/SetString"
		case "Int":
			ok = has(ec, "(reflect.Value).Int") && (has(ec, "strconv.Itoa") || has(ec, "strconv.FormatInt")) && has(dc, "(reflect.Value).SetInt") && (has(dc, "strconv.Atoi") || has(dc, "strconv.ParseInt"))
			detail = "Int()+Itoa|FormatInt / Atoi|ParseInt+SetInt"
		case "Uint":
			ok = has(ec, "(reflect.Value).Uint") && has(ec, "strconv.FormatUint") && has(dc, "(reflect.Value).SetUint") && has(dc, "strconv.ParseUint")
			detail = "Uint()+FormatUint / ParseUint+SetUint"
		case "Bool":
			ok = has(ec, "(reflect.Value).Bool") && has(dc, "(reflect.Value).SetBool")
			detail = "Bool()/SetBool"
		case "Slice":
			ok = hasAnyPrefix(ec, "control.") && hasAnyPrefix(dc, "control.")
			detail = "slice helpers"
		case "Struct":
			ok = hasAnyPrefix(ec, "control.") && hasAnyPrefix(dc, "control.")
			detail = "struct helpers"
		}
		kinds.check(ok, key, p.Pos(enc.Pos()), "both walkers: "+detail, fmt.Sprintf("conversions do not pair up (%s): encoder calls %v, decoder calls %v", detail, ec, dc))
	}
	// boolean literals
	{
		var encTrue, encFalse string
		if b := ek["Bool"]; b != nil {
			for _, x := range enc.Blocks {
				if !b.Dominates(x) {
					continue
				}
				if r, ok := x.Instrs[len(x.Instrs)-1].(*ssa.Return); ok {
					if s, ok := constString(r.Results[0]); ok {
						// which side of Bool()? the block reached when Bool() is true
						for _, g := range guardsOf(enc) {
							if g.Term == "(reflect.Value).Bool(p0)" {
								if g.If.Block().Succs[0] == x {
									encTrue = s
								} else if g.If.Block().Succs[1] == x {
									encFalse = s
								}
							}
						}
					}
				}
			}
		}
		decLit := ""
		if b := dk["Bool"]; b != nil {
			tm := newTermer()
			for _, x := range dec.Blocks {
				if !b.Dominates(x) {
					continue
				}
				for _, ins := range x.Instrs {
					if c, ok := ins.(*ssa.Call); ok && shortFn(calleeName(c.Common())) == "(reflect.Value).SetBool" {
						if m := regexp.MustCompile(`^\("((?:[^"\\]|\\.)*)" == p2\)$`).FindStringSubmatch(tm.term(c.Call.Args[1])); m != nil {
							decLit = m[1]
						}
					}
				}
			}
		}
		kinds.check(encTrue != "" && encTrue == decLit && encFalse != encTrue, "bool-literal", p.Pos(enc.Pos()), fmt.Sprintf("true is written %q and read as value == %q; false is written %q", encTrue, decLit, encFalse), fmt.Sprintf("the encoder writes %q for true (%q for false) but the decoder sets true iff the text equals %q", encTrue, encFalse, decLit))
	}

	// C09-NIL
	nilr := rp.Rule("C09-NIL", "pointer fields are nil-checked before being followed", 1)
	if b := ek["Ptr"]; b != nil {
		okNil := false
		for _, g := range guardsOf(enc) {
			if g.Term == "(reflect.Value).IsNil(p0)" && b.Dominates(g.If.Block()) {
				// Elem() only on the non-nil side
				nonNil := g.If.Block().Succs[1]
				okNil = true
				for _, x := range enc.Blocks {
					for _, ins := range x.Instrs {
						if c, ok := ins.(*ssa.Call); ok && shortFn(calleeName(c.Common())) == "(reflect.Value).Elem" {
							if !nonNil.Dominates(x) {
								okNil = false
							}
						}
					}
				}
			}
		}
		nilr.check(okNil, fname(enc)+":Ptr", p.Pos(enc.Pos()), "IsNil tested; Elem() only on the non-nil side", "a pointer field is followed with Elem() without a nil test: marshalling a struct with a nil pointer field panics")
	} else {
		nilr.ok(fname(enc)+":Ptr", p.Pos(enc.Pos()), "the encoder has no pointer case")
	}

	c09Tags(p, rp)
	c09Req(p, rp)
	c09Merge(p, rp)
	c09Types(p, rp, ek, dk)
}

func tagGets(fns ...*ssa.Function) map[string]bool {
	out := map[string]bool{}
	for _, fn := range fns {
		if fn == nil {
			continue
		}
		for _, c := range allCalls(fn) {
			if calleeName(c.Common()) == "(reflect.StructTag).Get" && len(c.Common().Args) == 2 {
				if s, ok := constString(c.Common().Args[1]); ok {
					out[s] = true
				}
			}
		}
	}
	return out
}

func c09Tags(p *Prog, rp *Report) {
	r := rp.Rule("C09-TAGS", "both walkers read the same tag keys with the same conventions", 4)
	encFns := []*ssa.Function{p.Func("control", "convertToParagraph"), p.Func("control", "marshalStructValueSlice")}
	decFns := []*ssa.Function{p.Func("control", "decodeStruct"), p.Func("control", "decodeStructValueSlice")}
	et, dt := tagGets(encFns...), tagGets(decFns...)
	for _, k := range []string{"control", "required", "delim"} {
		r.check(et[k] && dt[k], "tag:"+k, "", "read by encoder and decoder", fmt.Sprintf("tag %q is read by the encoder: %v, by the decoder: %v", k, et[k], dt[k]))
	}
	// conventions: "-" skip, "true" for required, default delim " ", name default
	for _, side := range []struct {
		name string
		fns  []*ssa.Function
	}{{"encoder", encFns}, {"decoder", decFns}} {
		lits := map[string]bool{}
		nameDefault := false
		for _, fn := range side.fns {
			if fn == nil {
				continue
			}
			for _, s := range stringLiterals([]*ssa.Function{fn}) {
				lits[s] = true
			}
			for _, g := range guardsOf(fn) {
				if regexp.MustCompile(`^\("-" == phi\(\(reflect\.StructTag\)\.Get\(.*,"control"\)\|.*\.Name\)\)$`).MatchString(g.Term) {
					nameDefault = true
				}
			}
		}
		r.check(lits["-"] && lits["true"] && lits[" "] && nameDefault, "conventions:"+side.name, "", "name = control tag or Go name; \"-\" skips; required == \"true\"; default delimiter \" \"", fmt.Sprintf("literals \"-\": %v, \"true\": %v, \" \": %v, wire name defaults to the Go name and is compared with \"-\": %v", lits["-"], lits["true"], lits[" "], nameDefault))
	}
}

func c09Req(p *Prog, rp *Report) {
	r := rp.Rule("C09-REQ", "omission and required handling", 3)
	ctp := p.Func("control", "convertToParagraph")
	if ctp == nil {
		r.bad("control.convertToParagraph", "", "function not found", nil)
	} else {
		tm := newTermer()
		// the skip decision: ("" == marshal#0) then ("true" == Get(required)) ; non-required+empty -> continue
		var emptyG, reqG *guard
		gs := guardsOf(ctp)
		for i, g := range gs {
			if regexp.MustCompile(`^\("" == control\.\w+\(.*\)#0\)$`).MatchString(g.Term) {
				emptyG = &gs[i]
			}
			if regexp.MustCompile(`^\("true" == \(reflect\.StructTag\)\.Get\(.*,"required"\)\)$`).MatchString(g.Term) {
				reqG = &gs[i]
			}
		}
		okOmit := emptyG != nil && reqG != nil
		// the multiline prefix must be added only after the decision to keep the field
		okOrder := true
		for _, b := range ctp.Blocks {
			for _, ins := range b.Instrs {
				if bo, ok := ins.(*ssa.BinOp); ok && isStringT(bo.Type()) {
					if s, ok := constString(bo.X); ok && s == "\n" {
						// this block must be dominated by the empty-check block
						if emptyG == nil || !emptyG.If.Block().Dominates(b) || b == emptyG.If.Block() {
							okOrder = false
						}
						_ = tm
					}
				}
			}
		}
		r.check(okOmit, "control.convertToParagraph:omit", p.Pos(ctp.Pos()), "a field is skipped iff its text is empty and it is not required", "the encoder does not decide omission on (text == \"\" and required != \"true\")")
		r.check(okOrder, "control.convertToParagraph:multiline-order", p.Pos(ctp.Pos()), "the multiline newline is prefixed only after the field was found non-empty or required", "the multiline prefix is added before the emptiness test: an empty optional multiline field is no longer omitted")
	}
	ds := p.Func("control", "decodeStruct")
	if ds == nil {
		r.bad("control.decodeStruct", "", "function not found", nil)
		return
	}
	okPresence := false
	var presence *guard
	gs := guardsOf(ds)
	for i, g := range gs {
		if regexp.MustCompile(`^.*\.Values\[.*\]#1$`).MatchString(g.Term) {
			okPresence = true
			presence = &gs[i]
		}
	}
	okReq := false
	for _, g := range gs {
		if regexp.MustCompile(`^\("true" == \(reflect\.StructTag\)\.Get\(.*,"required"\)\)$`).MatchString(g.Term) && rejectsOn(ds, g, 0) {
			if presence != nil && presence.If.Block().Succs[1].Dominates(g.If.Block()) {
				okReq = true
			}
		}
	}
	r.check(okPresence && okReq, "control.decodeStruct:required", p.Pos(ds.Pos()), "presence is the map's comma-ok result; an absent required key is an error; a present empty value is decoded", "the decoder does not tell an absent key from an empty value by the map's comma-ok result (a required field written as empty would be reported missing), or an absent required key is not an error")
}

func c09Merge(p *Prog, rp *Report) {
	r := rp.Rule("C09-MERGE", "unknown fields pass through: embedded.Update(struct fields); Update / Set tables", 3)
	ctp := p.Func("control", "convertToParagraph")
	upd := p.Method("control", "Paragraph", "Update")
	set := p.Method("control", "Paragraph", "Set")
	pt := p.Named("control", "Paragraph")
	if ctp == nil || upd == nil || set == nil || pt == nil {
		r.bad("control.Paragraph", "", "anchor not found", nil)
		return
	}
	// convertToParagraph: result = found.Update(Paragraph{order, values})
	tm := newTermer()
	okCall := false
	for _, c := range callsNamed(ctp, upd.String()) {
		recv := tm.term(c.Call.Args[0])
		arg := c.Call.Args[1]
		// receiver must be the cell holding the embedded paragraph (assigned from the Anonymous field)
		recvOK := false
		if al, ok := c.Call.Args[0].(*ssa.Alloc); ok {
			for _, ref := range *al.Referrers() {
				if st, ok := ref.(*ssa.Store); ok && st.Addr == al {
					if strings.Contains(tm.term(st.Val), "Interface(") {
						recvOK = true
					}
				}
			}
		}
		// argument must be the paragraph built from order / values
		argOK := false
		if u, ok := arg.(*ssa.UnOp); ok {
			if al, ok := u.X.(*ssa.Alloc); ok {
				fields := map[string]bool{}
				for _, ref := range *al.Referrers() {
					if fa, ok := ref.(*ssa.FieldAddr); ok {
						fields[structOf(pt).Field(fa.Field).Name()] = true
					}
				}
				argOK = fields["Order"] && fields["Values"]
			}
		}
		_ = recv
		okCall = recvOK && argOK
	}
	r.check(okCall, "control.convertToParagraph", p.Pos(ctp.Pos()), "returns embedded.Update(Paragraph{fields of the struct})", "the result is not embeddedParagraph.Update(structFields): unknown fields are lost or known fields do not override")
	// Update table
	mk := func(st *State, order []string, vals map[string]string) *StructV {
		mid := st.alloc(structOf(pt).Field(fieldIndex(structOf(pt), "Values")).Type(), &MapObjV{})
		mo := st.Heap[mid].V.(*MapObjV)
		var ks []string
		for k := range vals {
			ks = append(ks, k)
		}
		sort.Strings(ks)
		for _, k := range ks {
			mo.K = append(mo.K, k)
			mo.V = append(mo.V, vals[k])
		}
		return mkStruct(pt, map[string]Val{"Order": strSlice(st, order), "Values": MapV{Obj: mid}})
	}
	{
		var problems []string
		cases := []struct {
			ro []string
			rv map[string]string
			ao []string
			av map[string]string
		}{
			{[]string{"A", "X-Unknown", "B"}, map[string]string{"A": "old-a", "X-Unknown": "keep", "B": "old-b"}, []string{"B", "C", "A"}, map[string]string{"B": "new-b", "C": "new-c", "A": "new-a"}},
			{nil, map[string]string{}, []string{"P", "Q"}, map[string]string{"P": "1", "Q": "2"}},
			{[]string{"K"}, map[string]string{"K": "v"}, nil, map[string]string{}},
		}
		for _, c := range cases {
			m := NewMachine(p, nil)
			installStringModels(m)
			st := initState(m, "control")
			rid := st.alloc(pt, mk(st, c.ro, c.rv))
			arg := mk(st, c.ao, c.av)
			st.push(upd, []Val{Ptr{Obj: rid}, arg}, nil)
			out := m.Run(st)
			if len(out) != 1 || out[0].Status != stRet {
				problems = append(problems, "undecided: "+retDesc(out))
				continue
			}
			id := st.alloc(pt, st.Ret)
			got, why := paraOf(st, p, Ptr{Obj: id})
			if why != "" {
				problems = append(problems, "undecided: "+why)
				continue
			}
			want := &refPara{values: map[string]string{}}
			for _, k := range c.ro {
				want.order = append(want.order, k)
				want.values[k] = c.rv[k]
			}
			for _, k := range c.ao {
				if _, ok := want.values[k]; !ok {
					want.order = append(want.order, k)
				}
				want.values[k] = c.av[k]
			}
			if got.String() != want.String() {
				problems = append(problems, fmt.Sprintf("%v.Update(%v) = %s, want %s", c.ro, c.ao, got, want))
			}
		}
		fillProblems(r, "control.Paragraph.Update", p.Pos(upd.Pos()), problems, "receiver's fields in their order, then new keys in argument order; argument values override")
	}
	{
		var problems []string
		for _, c := range []struct{ k, v string }{{"A", "new"}, {"Z", "added"}} {
			m := NewMachine(p, nil)
			st := initState(m, "control")
			rid := st.alloc(pt, mk(st, []string{"A", "B"}, map[string]string{"A": "1", "B": "2"}))
			st.push(set, []Val{Ptr{Obj: rid}, c.k, c.v}, nil)
			out := m.Run(st)
			if len(out) != 1 || out[0].Status != stRet {
				problems = append(problems, "undecided: "+retDesc(out))
				continue
			}
			got, why := paraOf(st, p, Ptr{Obj: rid})
			if why != "" {
				problems = append(problems, "undecided: "+why)
				continue
			}
			want := "[A=\"new\" B=\"2\"]"
			if c.k == "Z" {
				want = "[A=\"1\" B=\"2\" Z=\"added\"]"
			}
			if got.String() != want {
				problems = append(problems, fmt.Sprintf("Set(%s) gives %s, want %s", c.k, got, want))
			}
		}
		fillProblems(r, "control.Paragraph.Set", p.Pos(set.Pos()), problems, "existing key: value replaced in place; new key: appended to Order")
	}
}

func fillProblems(r *Rule, key, pos string, problems []string, okMsg string) {
	for _, pr := range problems {
		if strings.HasPrefix(pr, "undecided") {
			r.undecided(key, pos, pr)
			return
		}
	}
	problems = uniq(problems)
	if len(problems) > 3 {
		problems = append(problems[:3], "...")
	}
	r.check(len(problems) == 0, key, pos, okMsg, strings.Join(problems, "; "))
}

func c09Types(p *Prog, rp *Report, ek, dk map[string]*ssa.BasicBlock) {
	r := rp.Rule("C09-TYPES", "every field of the repository's document types is handled by both walkers", 40)
	marsh := p.Named("control", "Marshallable")
	unmarsh := p.Named("control", "Unmarshallable")
	if marsh == nil || unmarsh == nil {
		r.bad("control.Marshallable", "", "interfaces not found", nil)
		return
	}
	mi := marsh.Underlying().(*types.Interface)
	ui := unmarshal(unmarsh)
	var docs []string
	for d := range docTables {
		docs = append(docs, d)
	}
	sort.Strings(docs)
	kindOf := func(t types.Type) string {
		switch u := t.Underlying().(type) {
		case *types.Basic:
			switch {
			case u.Kind() == types.String:
				return "String"
			case u.Kind() == types.Int:
				return "Int"
			case u.Kind() == types.Uint:
				return "Uint"
			case u.Kind() == types.Bool:
				return "Bool"
			}
			return "basic:" + u.Name()
		case *types.Slice:
			return "Slice"
		case *types.Struct:
			return "Struct"
		case *types.Pointer:
			return "Ptr"
		}
		return t.String()
	}
	for _, doc := range docs {
		parts := strings.SplitN(doc, ".", 2)
		n := p.Named(parts[0], parts[1])
		if n == nil {
			continue
		}
		for _, ti := range docFields(structOf(n)) {
			if ti.Skip {
				continue
			}
			key := doc + "." + ti.GoName
			check := func(t types.Type, where string) string {
				k := kindOf(t)
				if k == "Struct" {
					if !types.Implements(t, mi) {
						return fmt.Sprintf("%s %s does not implement control.Marshallable on the value: Marshal of this document fails", where, typeName(t))
					}
					if !types.Implements(types.NewPointer(t), ui) {
						return fmt.Sprintf("%s %s does not implement control.Unmarshallable on the pointer: Unmarshal of this document fails", where, typeName(t))
					}
					return ""
				}
				if ek[k] == nil {
					return fmt.Sprintf("%s kind %s has no case in the encoder", where, k)
				}
				if dk[k] == nil {
					return fmt.Sprintf("%s kind %s has no case in the decoder", where, k)
				}
				return ""
			}
			msg := check(ti.Type, "field type")
			if msg == "" {
				if sl, ok := ti.Type.Underlying().(*types.Slice); ok {
					msg = check(sl.Elem(), "element type")
				}
			}
			r.check(msg == "", key, p.Pos(n.Obj().Pos()), typeName(ti.Type)+" handled by both walkers", msg)
		}
	}
}

func unmarshal(n *types.Named) *types.Interface { return n.Underlying().(*types.Interface) }
