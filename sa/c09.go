package main

// C09 — struct marshal / unmarshal. control.Marshal and (*Decoder).Decode are
// interpreted end to end on probe struct types built for the purpose (every
// supported field kind and tag combination), with package reflect replaced by
// the model of reflectsim.go, the writer by a recording oracle and the
// buffered reader by a scripted oracle that plays back exactly the text
// written. Paragraph.Update and Set are interpreted on tables.

import (
	"fmt"
	"go/types"
	"sort"
	"strings"

	"golang.org/x/tools/go/ssa"
)

func init() { register("C09", checkC09) }

type probeField struct {
	name     string
	typ      types.Type
	tag      string
	embedded bool
}

var probePkg = types.NewPackage("gdsa/probe", "probe")

func mkProbeType(name string, fields []probeField) *types.Named {
	var vars []*types.Var
	var tags []string
	for _, f := range fields {
		vars = append(vars, types.NewField(0, probePkg, f.name, f.typ, f.embedded))
		tags = append(tags, f.tag)
	}
	return types.NewNamed(types.NewTypeName(0, probePkg, name, nil), types.NewStruct(vars, tags), nil)
}

// c09Run is one interpretation context: the state holds the probe values, the
// machine the oracles. Text written by the code under analysis accumulates in
// written; the reader oracle plays the lines of script.
type c09Run struct {
	p       *Prog
	m       *Machine
	st      *State
	written strings.Builder
	script  []string
	nread   int
	impure  []string // Marshal calls that modified their argument
}

func newC09Run(p *Prog) *c09Run {
	r := &c09Run{p: p}
	m := NewMachine(p, nil)
	m.CycleCheck = true
	m.StepLimit = 1200000 // exact documents with fields of several thousand bytes, parsed a byte at a time
	installStringModels(m)
	installFuncModels(m)
	installUnicodeModels(m)
	installIOGlobals(m)
	m.Hooks["fmt.Sprintf"] = sprintfModel
	installLineReader(m, func(st *State) (string, bool) {
		if r.nread >= len(r.script) {
			return "", false
		}
		r.nread++
		return r.script[r.nread-1], true
	})
	m.InvokeHook = func(m *Machine, st *State, call *ssa.CallCommon, recv Val, args []Val) ([]Val, bool) {
		switch call.Method.Name() {
		case "Write":
			elems, many, ok := m.sliceElems(st, args[0])
			if !ok || many {
				return nil, false
			}
			for _, e := range elems {
				b, ok := e.(int64)
				if !ok {
					return nil, false
				}
				r.written.WriteByte(byte(b))
			}
			return []Val{&TupleV{E: []Val{int64(len(elems)), nilV{}}}}, true
		case "WriteString":
			s, ok := args[0].(string)
			if !ok {
				return nil, false
			}
			r.written.WriteString(s)
			return []Val{&TupleV{E: []Val{int64(len(s)), nilV{}}}}, true
		}
		return nil, false
	}
	m.Hooks["io.WriteString"] = func(m *Machine, st *State, call *ssa.CallCommon, args []Val) ([]Val, bool) {
		s, ok := args[1].(string)
		if !ok {
			return nil, false
		}
		r.written.WriteString(s)
		return []Val{&TupleV{E: []Val{int64(len(s)), nilV{}}}}, true
	}
	m.Hooks["fmt.Fprintf"] = func(m *Machine, st *State, call *ssa.CallCommon, args []Val) ([]Val, bool) {
		alts, ok := sprintfModel(m, st, call, args[1:])
		if !ok {
			return nil, false
		}
		s := alts[0].(string)
		r.written.WriteString(s)
		return []Val{&TupleV{E: []Val{int64(len(s)), nilV{}}}}, true
	}
	peekRest = func(st *State) string { return strings.Join(r.script[r.nread:], "") }
	// a bufio.Reader wrapped around the scripted reader is the scripted reader (bufio.NewReader returns its
	// argument when that already is a large enough *bufio.Reader)
	m.Hooks["bufio.NewReader"] = func(m *Machine, st *State, call *ssa.CallCommon, args []Val) ([]Val, bool) {
		if iv, ok := args[0].(IfaceV); ok {
			return []Val{iv.V}, true
		}
		return []Val{args[0]}, true
	}
	installReflectModel(m)
	r.m = m
	r.st = initState(m, "control", "version", "dependency")
	return r
}

// call runs fn to completion in the run's state and returns its result.
func (r *c09Run) call(fn *ssa.Function, args ...Val) (Val, string) {
	if r.st.Status == stStuck {
		return nil, "undecided: " + r.st.Msg
	}
	r.st.Status = stRun
	r.st.Frames = nil
	r.st.push(fn, args, nil)
	out := mergeSame(r.m, r.m.Run(r.st))
	if len(out) != 1 {
		return nil, fmt.Sprintf("undecided: %d paths", len(out))
	}
	r.st = out[0]
	switch out[0].Status {
	case stRet:
		return r.st.Ret, ""
	case stPanic:
		return nil, "PANIC: " + out[0].Msg
	}
	return nil, "undecided: " + out[0].Msg
}

func splitLines(text string) []string {
	var lines []string
	for len(text) > 0 {
		i := strings.Index(text, "\n")
		if i < 0 {
			lines = append(lines, text)
			break
		}
		lines = append(lines, text[:i+1])
		text = text[i+1:]
	}
	return lines
}

// marshal interprets control.Marshal(writer, &obj) and returns the text written and
// whether an error was returned.
func (r *c09Run) marshal(t types.Type, obj int) (text string, isErr bool, why string) {
	fn := r.p.Func("control", "Marshal")
	if fn == nil {
		return "", false, "undecided: control.Marshal not found"
	}
	r.written.Reset()
	wid := r.st.alloc(types.Typ[types.Int], OpaqueV{"writer"})
	before := deepRender(r.st, Ptr{Obj: obj}, 0)
	ret, why := r.call(fn, IfaceV{T: types.NewPointer(types.Typ[types.Int]), V: Ptr{Obj: wid}}, IfaceV{T: types.NewPointer(t), V: Ptr{Obj: obj}})
	if why != "" {
		return "", false, why
	}
	if after := deepRender(r.st, Ptr{Obj: obj}, 0); after != before {
		r.impure = append(r.impure, fmt.Sprintf("Marshal changes the value it is given: %s became %s", clip(before, 300), clip(after, 300)))
	}
	_, isNil := ret.(nilV)
	return r.written.String(), !isNil, ""
}

// unmarshal interprets (*Decoder).Decode(&obj) with the reader playing text.
func (r *c09Run) unmarshal(t types.Type, text string) (obj int, isErr bool, why string) {
	fn := r.p.Method("control", "Decoder", "Decode")
	decT := r.p.Named("control", "Decoder")
	prT := r.p.Named("control", "ParagraphReader")
	if fn == nil || decT == nil || prT == nil {
		return 0, false, "undecided: control.Decoder not found"
	}
	r.script = splitLines(text)
	r.nread = 0
	rid := r.st.alloc(types.Typ[types.Int], OpaqueV{"bufio"})
	did := r.st.alloc(decT, mkStruct(decT, map[string]Val{roleField(decT, repoModule+"/control.ParagraphReader", "paragraphReader"): mkStruct(prT, map[string]Val{roleField(prT, "*bufio.Reader", "reader"): Ptr{Obj: rid}})}))
	obj = r.st.alloc(t, zeroVal(t))
	ret, why := r.call(fn, Ptr{Obj: did}, IfaceV{T: types.NewPointer(t), V: Ptr{Obj: obj}})
	if why != "" {
		return 0, false, why
	}
	_, isNil := ret.(nilV)
	return obj, !isNil, ""
}

// deepRender renders the value structurally (pointers, slices and maps followed).
func deepRender(st *State, v Val, depth int) string {
	if depth > 12 {
		return "..."
	}
	switch x := v.(type) {
	case Ptr:
		lv, ok := st.load(x)
		if !ok {
			return "&?"
		}
		return "&" + deepRender(st, lv, depth+1)
	case SliceV:
		if x.Abs {
			return "slice?"
		}
		var parts []string
		for i := 0; i < x.Len_; i++ {
			e, _ := st.load(Ptr{Obj: x.Obj, Path: pathAppend(x.Path, x.Lo+i)})
			parts = append(parts, deepRender(st, e, depth+1))
		}
		return "[" + strings.Join(parts, " ") + "]"
	case nilV:
		return "nil"
	case MapV:
		mo := st.Heap[x.Obj].V.(*MapObjV)
		var parts []string
		for i := range mo.K {
			parts = append(parts, deepRender(st, mo.K[i], depth+1)+":"+deepRender(st, mo.V[i], depth+1))
		}
		sort.Strings(parts)
		return "map{" + strings.Join(parts, " ") + "}"
	case *StructV:
		var parts []string
		for _, f := range x.F {
			parts = append(parts, deepRender(st, f, depth+1))
		}
		return "{" + strings.Join(parts, " ") + "}"
	case *ArrayV:
		var parts []string
		for _, f := range x.E {
			parts = append(parts, deepRender(st, f, depth+1))
		}
		return "[" + strings.Join(parts, " ") + "]"
	case *TupleV:
		var parts []string
		for _, f := range x.E {
			parts = append(parts, deepRender(st, f, depth+1))
		}
		return "(" + strings.Join(parts, ", ") + ")"
	case IfaceV:
		return "iface(" + deepRender(st, x.V, depth+1) + ")"
	case string:
		return fmt.Sprintf("%q", x)
	}
	return fmtVal(v, func(i int) string { return fmt.Sprint(i) })
}

// fieldsOf renders each field of the struct object separately, keyed by field name.
func fieldsOf(st *State, t *types.Named, obj int, skip map[string]bool) map[string]string {
	out := map[string]string{}
	sv, ok := st.Heap[obj].V.(*StructV)
	if !ok {
		return out
	}
	s := structOf(t)
	for i := 0; i < s.NumFields(); i++ {
		if skip[s.Field(i).Name()] {
			continue
		}
		out[s.Field(i).Name()] = deepRender(st, sv.F[i], 0)
	}
	return out
}

func diffFields(a, b map[string]string) []string {
	var out []string
	var ks []string
	for k := range a {
		ks = append(ks, k)
	}
	sort.Strings(ks)
	for _, k := range ks {
		if a[k] != b[k] {
			out = append(out, fmt.Sprintf("%s: %s became %s", k, a[k], b[k]))
		}
	}
	return out
}

// parseText reads text with the deb822 reference model (one paragraph expected).
func refParagraph(text string) (*refPara, string) {
	para, err, _ := refNext(splitLines(text), 0)
	if err != "" {
		return nil, err
	}
	return para, ""
}

func checkC09(p *Prog, rp *Report) {
	defer stateRule(p, rp, "C09-STATE", p.Func("control", "Marshal"), p.Func("control", "Unmarshal"), p.Func("control", "ConvertToParagraph"), p.Method("control", "Decoder", "Decode"), p.Method("control", "Encoder", "Encode"))
	rp.Explanation = "control.Marshal and (*Decoder).Decode are interpreted abstractly end to end on probe struct types built by the checker (string, renamed, required, skipped and multi-line strings; int, uint, bool; blank- and comma-separated string lists, an integer list; version.Version, dependency.Dependency, dependency.Arch and a list of Arch; a pointer to a version; with and without the embedded raw Paragraph), with package reflect replaced by a model over the abstract heap (DESIGN 3.C09), the writer by a recording oracle and the buffered reader by an oracle playing back exactly the text written. C09-DECODE: a document with every field decodes to the expected field values (custom types are decoded by their own UnmarshalControl, interpreted). C09-ROUND: decode, marshal, decode again: the second value equals the first field by field, the text is a fixpoint, and it lists exactly the expected keys in struct order (wire names, '-' skipped). C09-REQ: a required field is written even when empty and its absence on input is an error; empty optional strings, lists and nil pointers are omitted; field names are matched byte for byte (a key that differs only in case is an unknown field and does not satisfy a requirement). C09-MERGE: with the embedded Paragraph, unknown fields are re-emitted unchanged in their original position and known fields carry the struct's current values; Update / Set tables. C09-NOPANIC: no panic state on any of these runs, including nil pointers, nil slices and the zero struct. C09-KINDS: one single-field probe per supported kind round-trips on its own. C09-TYPES: every struct-typed field (or list element) of the repository's document types implements Marshallable on the value and Unmarshallable on the pointer; every other field kind is one that C09-KINDS found supported by both walkers."
	rp.NotDecided = "probe values other than those of the tables (the walkers are data independent except for emptiness and the delimiter/strip sets, which the tables vary); pointer fields are encode-only in go-debian (the decoder has no pointer case), so they are covered by C09-NOPANIC only; whether writing 0/no for zero integers/booleans contradicts 'optional zero fields are omitted' (a matter of reading the statement; no rule is armed on it)."
	rp.Trusted = []string{"go/types, go/ssa", "the reflect model of /verif/sa/reflectsim.go", "strconv, strings (models)", "deb822 reference model"}

	verT := p.Named("version", "Version")
	depT := p.Named("dependency", "Dependency")
	archT := p.Named("dependency", "Arch")
	paraT := p.Named("control", "Paragraph")
	dec := rp.Rule("C09-DECODE", "a document with every supported field decodes to the expected values", 1)
	round := rp.Rule("C09-ROUND", "decode / marshal / decode is the identity; the text is a fixpoint with the expected keys", 2)
	req := rp.Rule("C09-REQ", "required fields are always written and must be present; empty optional fields are omitted", 3)
	nop := rp.Rule("C09-NOPANIC", "marshalling and unmarshalling the probes never panics", 1)
	kinds := rp.Rule("C09-KINDS", "each supported kind round-trips on its own", 9)
	if verT == nil || depT == nil || archT == nil || paraT == nil {
		dec.bad("control probes", "", "version.Version / dependency.Dependency / dependency.Arch / control.Paragraph not found", nil)
		return
	}
	str, integer, uinteger, boolean := types.Typ[types.String], types.Typ[types.Int], types.Typ[types.Uint], types.Typ[types.Bool]
	fields := []probeField{
		{"Name", str, "", false},
		{"Wire", str, `control:"X-Wire-Name"`, false},
		{"Needed", str, `required:"true"`, false},
		{"Hidden", str, `control:"-"`, false},
		{"Long", str, `control:"Long-Text" multiline:"true"`, false},
		{"Count", integer, "", false},
		{"Size", uinteger, "", false},
		{"Flag", boolean, "", false},
		{"Words", types.NewSlice(str), "", false},
		{"Items", types.NewSlice(str), `delim:"," strip:"\n\r\t "`, false},
		{"Nums", types.NewSlice(integer), `delim:","`, false},
		{"Ver", verT, "", false},
		{"Deps", depT, `control:"Build-Depends"`, false},
		{"Arch", archT, "", false},
		{"Arches", types.NewSlice(archT), `control:"Architecture"`, false},
	}
	full := mkProbeType("Full", fields)
	pos := ""
	if fn := p.Func("control", "Marshal"); fn != nil {
		pos = p.Pos(fn.Pos())
	}
	panics := []string{}
	undecided := ""
	note := func(why string) bool { // true = stop
		if strings.HasPrefix(why, "PANIC") {
			panics = append(panics, why)
			return true
		}
		if why != "" {
			if undecided == "" {
				undecided = why
			}
			return true
		}
		return false
	}
	sfield := func(st *State, t *types.Named, obj int, name string) Val {
		return st.Heap[obj].V.(*StructV).F[fieldIndex(structOf(t), name)]
	}

	// ---- DECODE + ROUND on the full document --------------------------------------------
	doc := "Name: hello citt\u00e0\n" +
		"X-Wire-Name: renamed value\n" +
		"Needed: here\n" +
		"Hidden: must not be decoded\n" +
		"Long-Text:\n first line \u00c5\n second line\n" +
		"Count: -42\n" +
		"Size: 3000000000\n" +
		"Flag: yes\n" +
		"Words: alpha beta gamma\n" +
		"Items: one, two words, three\n" +
		"Nums: 1,20,-3\n" +
		"Ver: 1:2.0-3\n" +
		"Build-Depends: foo (>= 1.0), bar [amd64] | baz\n" +
		"Arch: amd64\n" +
		"Architecture: amd64 linux-any\n"
	wantKeys := []string{"Name", "X-Wire-Name", "Needed", "Long-Text", "Count", "Size", "Flag", "Words", "Items", "Nums", "Ver", "Build-Depends", "Arch", "Architecture"}
	{
		var decP, roundP []string
		r := newC09Run(p)
		s1, isErr, why := r.unmarshal(full, doc)
		if !note(why) {
			if isErr {
				decP = append(decP, "a document with every field in normal form is rejected")
			} else {
				f1 := fieldsOf(r.st, full, s1, nil)
				want := map[string]string{
					"Name": `"hello città"`, "Wire": `"renamed value"`, "Needed": `"here"`, "Hidden": `""`,
					"Count": "i-42", "Size": "i3000000000", "Flag": "T",
					"Words": `["alpha" "beta" "gamma"]`, "Items": `["one" "two words" "three"]`, "Nums": "[i1 i20 i-3]",
				}
				for k, w := range want {
					if f1[k] != w {
						decP = append(decP, fmt.Sprintf("field %s decodes to %s, want %s", k, f1[k], w))
					}
				}
				if l := f1["Long"]; l != `"first line Å\nsecond line\n"` && l != `"first line Å\nsecond line"` && l != `"\nfirst line Å\nsecond line\n"` && l != `"\nfirst line Å\nsecond line"` {
					decP = append(decP, "the multi-line field decodes to "+l)
				}
				for _, k := range []string{"Ver", "Deps", "Arch", "Arches"} {
					if zero := deepRender(r.st, zeroVal(structOf(full).Field(fieldIndex(structOf(full), k)).Type()), 0); f1[k] == zero {
						decP = append(decP, "the custom-typed field "+k+" is left at its zero value")
					}
				}
				if v := f1["Ver"]; v != `{i1 "2.0" "3"}` {
					decP = append(decP, "Ver decodes to "+v+", want epoch 1, upstream 2.0, revision 3")
				}
				sort.Strings(decP)
				r.st.Heap[s1].V.(*StructV).F[fieldIndex(structOf(full), "Hidden")] = "secret"
				delete(f1, "Hidden")
				t1, isErr, why := r.marshal(full, s1)
				if !note(why) {
					if isErr {
						roundP = append(roundP, "the decoded value cannot be marshalled")
					} else {
						para, perr := refParagraph(t1)
						if perr != "" {
							roundP = append(roundP, fmt.Sprintf("the marshalled text %q is not one well-formed paragraph", t1))
						} else if strings.Join(para.order, ",") != strings.Join(wantKeys, ",") {
							roundP = append(roundP, fmt.Sprintf("the marshalled text has the fields %v, want %v", para.order, wantKeys))
						}
						s2, isErr, why := r.unmarshal(full, t1)
						if !note(why) {
							if isErr {
								roundP = append(roundP, fmt.Sprintf("the marshalled text %q does not unmarshal", t1))
							} else {
								f2 := fieldsOf(r.st, full, s2, map[string]bool{"Hidden": true})
								// a multi-line value may gain one trailing newline on the first cycle (reader normal form)
								if strings.TrimSuffix(f1["Long"], `"`)+`\n"` == f2["Long"] {
									f1["Long"] = f2["Long"]
								}
								for _, d := range diffFields(f1, f2) {
									roundP = append(roundP, "after marshal+unmarshal "+d)
								}
								t2, _, why := r.marshal(full, s2)
								if !note(why) && t2 != t1 {
									// allow the same normalisation once
									s3, _, why := r.unmarshal(full, t2)
									if !note(why) {
										t3, _, why := r.marshal(full, s3)
										if !note(why) && t3 != t2 {
											roundP = append(roundP, fmt.Sprintf("the text keeps changing over marshal/unmarshal cycles: %q then %q", t2, t3))
										}
									}
								}
							}
						}
					}
				}
			}
		}
		if undecided != "" {
			dec.undecided("probe.Full", pos, undecided)
			round.undecided("probe.Full", pos, undecided)
		} else {
			fillProblems(dec, "probe.Full", pos, decP, "15 fields of 11 kinds decode to the expected values")
			fillProblems(round, "probe.Full", pos, roundP, "decode/marshal/decode is the identity; text fixpoint with the 14 expected keys in struct order; the skipped field is neither decoded nor written")
		}
	}

	// ---- ROUND on a folded document ----------------------------------------------------------
	undecided = ""
	{
		var problems []string
		folded := "Needed: x\nWords: alpha\n beta  gamma\nItems: one,\n two words,\n three\nBuild-Depends: foo (>= 1.0),\n bar [amd64] | baz\nArchitecture: amd64\n linux-any\n"
		flat := "Needed: x\nWords: alpha beta gamma\nItems: one, two words, three\nBuild-Depends: foo (>= 1.0), bar [amd64] | baz\nArchitecture: amd64 linux-any\n"
		r := newC09Run(p)
		a, e1, why1 := r.unmarshal(full, folded)
		if !note(why1) {
			b, e2, why2 := r.unmarshal(full, flat)
			if !note(why2) {
				if e1 || e2 {
					problems = append(problems, "a document with folded list fields is rejected")
				} else {
					for _, d := range diffFields(fieldsOf(r.st, full, b, nil), fieldsOf(r.st, full, a, nil)) {
						problems = append(problems, "folded over several lines, "+d)
					}
					ta, _, why := r.marshal(full, a)
					if !note(why) {
						c, e3, why := r.unmarshal(full, ta)
						if !note(why) {
							if e3 {
								problems = append(problems, fmt.Sprintf("the marshalled text %q does not unmarshal", ta))
							} else {
								for _, d := range diffFields(fieldsOf(r.st, full, a, nil), fieldsOf(r.st, full, c, nil)) {
									problems = append(problems, "after marshal+unmarshal "+d)
								}
							}
						}
					}
				}
			}
		}
		if undecided != "" {
			round.undecided("probe.Full:folded", pos, undecided)
		} else {
			fillProblems(round, "probe.Full:folded", pos, problems, "list and relationship fields folded over several lines decode like their one-line form and survive marshal+unmarshal")
		}
	}

	// ---- REQ ------------------------------------------------------------------------------
	undecided = ""
	{
		var problems []string
		// (a) zero struct: required written, empty optional strings/lists omitted
		r := newC09Run(p)
		obj := r.st.alloc(full, zeroVal(full))
		t0, isErr, why := r.marshal(full, obj)
		if !note(why) {
			if isErr {
				problems = append(problems, "the zero value of the probe cannot be marshalled")
			} else if para, perr := refParagraph(t0); perr != "" {
				problems = append(problems, fmt.Sprintf("the zero value marshals to %q, not a paragraph", t0))
			} else {
				if _, ok := para.values["Needed"]; !ok {
					problems = append(problems, fmt.Sprintf("a required field that is empty is not written (text %q)", t0))
				}
				for _, k := range []string{"Name", "X-Wire-Name", "Long-Text", "Words", "Items", "Nums", "Hidden", "-"} {
					if _, ok := para.values[k]; ok {
						problems = append(problems, fmt.Sprintf("the empty optional field %s is written (text %q)", k, t0))
					}
				}
				// and it reads back
				if _, isErr, why := r.unmarshal(full, t0); !note(why) && isErr {
					problems = append(problems, fmt.Sprintf("the marshalled zero value %q does not unmarshal", t0))
				}
			}
		}
		if undecided != "" {
			req.undecided("encoder:zero-value", pos, undecided)
		} else {
			fillProblems(req, "encoder:zero-value", pos, problems, "required field written although empty; empty strings and lists omitted; the text reads back")
		}
		// (b) required absent on input
		undecided = ""
		problems = nil
		r = newC09Run(p)
		if _, isErr, why := r.unmarshal(full, "Name: x\nCount: 1\n"); !note(why) && !isErr {
			problems = append(problems, "a document without the required field is accepted")
		}
		r = newC09Run(p)
		if obj, isErr, why := r.unmarshal(full, "Name: x\nNeeded:\n"); !note(why) {
			if isErr {
				problems = append(problems, "a required field that is present but empty is reported missing")
			} else if v := sfield(r.st, full, obj, "Name"); v != "x" {
				problems = append(problems, "fields next to an empty required field are not decoded")
			}
		}
		// field names are matched byte for byte: a field that differs in case is an unknown field
		r = newC09Run(p)
		if obj, isErr, why := r.unmarshal(full, "name: lower\nNeeded: n\nx-wire-name: w\nCOUNT: 9\n"); !note(why) {
			if isErr {
				problems = append(problems, "a document with fields that differ from known ones only in case is rejected")
			} else if f := fieldsOf(r.st, full, obj, nil); f["Name"] != `""` || f["Wire"] != `""` || f["Count"] != "i0" {
				problems = append(problems, fmt.Sprintf("fields that differ in case from the struct's field names are decoded into them (Name=%s Wire=%s Count=%s): unknown fields must stay unknown", f["Name"], f["Wire"], f["Count"]))
			}
		}
		r = newC09Run(p)
		if _, isErr, why := r.unmarshal(full, "Name: x\nneeded: n\n"); !note(why) && !isErr {
			problems = append(problems, "a required field spelled in another case satisfies the requirement")
		}
		if undecided != "" {
			req.undecided("decoder:required", pos, undecided)
		} else {
			fillProblems(req, "decoder:required", pos, problems, "absent required field is an error; present-but-empty is accepted")
		}
		// (c) multiline empty optional omitted, multiline required written
		undecided = ""
		problems = nil
		ml := mkProbeType("Multi", []probeField{{"A", str, `multiline:"true"`, false}, {"B", str, `multiline:"true" required:"true"`, false}, {"C", str, "", false}})
		r = newC09Run(p)
		obj = r.st.alloc(ml, mkStruct(ml, map[string]Val{"C": "c"}))
		if t, isErr, why := r.marshal(ml, obj); !note(why) {
			para, perr := refParagraph(t)
			switch {
			case isErr || perr != "":
				problems = append(problems, fmt.Sprintf("marshal of empty multi-line fields fails or gives %q", t))
			default:
				if _, ok := para.values["A"]; ok {
					problems = append(problems, fmt.Sprintf("an empty optional multi-line field is written (text %q): the newline prefix is added before the emptiness test", t))
				}
				if _, ok := para.values["B"]; !ok {
					problems = append(problems, fmt.Sprintf("an empty required multi-line field is not written (text %q)", t))
				}
			}
		}
		if undecided != "" {
			req.undecided("encoder:multiline", pos, undecided)
		} else {
			fillProblems(req, "encoder:multiline", pos, problems, "emptiness is decided before the multi-line prefix is added")
		}
	}

	// ---- KINDS: one single-field probe per kind ------------------------------------------------
	{
		type kc struct {
			name string
			typ  types.Type
			tag  string
			text string
			want string
		}
		for _, c := range []kc{
			{"String", str, "", "V: some text\n", `"some text"`},
			{"Int", integer, "", "V: -17\n", "i-17"},
			{"Uint", uinteger, "", "V: 17\n", "i17"},
			{"Uint:max", uinteger, "", "V: 18446744073709551615\n", ""},
			{"Uint:2^63", uinteger, "", "V: 9223372036854775808\n", ""},
			{"Int:min", integer, "", "V: -9223372036854775808\n", ""},
			{"Int:max", integer, "", "V: 9223372036854775807\n", ""},
			{"Bool:true", boolean, "", "V: yes\n", "T"},
			{"Bool:false", boolean, "", "V: no\n", "F"},
			{"Slice:blank", types.NewSlice(str), "", "V: a b\n", `["a" "b"]`},
			{"Slice:delim", types.NewSlice(str), `delim:", " strip:" \n"`, "V: a b, c\n", `["a b" "c"]`},
			{"Slice:struct", types.NewSlice(archT), "", "V: amd64 any\n", ""},
			{"Struct", verT, "", "V: 2:1.0~rc1-1\n", `{i2 "1.0~rc1" "1"}`},
		} {
			undecided = ""
			var problems []string
			t := mkProbeType("Kind", []probeField{{"V", c.typ, c.tag, false}})
			r := newC09Run(p)
			o1, isErr, why := r.unmarshal(t, c.text)
			if !note(why) {
				if isErr {
					problems = append(problems, fmt.Sprintf("%q does not unmarshal into a %s field", c.text, c.typ))
				} else {
					f1 := fieldsOf(r.st, t, o1, nil)
					if c.want != "" && f1["V"] != c.want {
						problems = append(problems, fmt.Sprintf("%q unmarshals to %s, want %s", c.text, f1["V"], c.want))
					}
					tx, isErr, why := r.marshal(t, o1)
					if !note(why) {
						if isErr {
							problems = append(problems, fmt.Sprintf("a %s field unmarshals but does not marshal", c.typ))
						} else if tx != c.text {
							problems = append(problems, fmt.Sprintf("%q is marshalled back as %q", c.text, tx))
						} else if o2, isErr, why := r.unmarshal(t, tx); !note(why) {
							if isErr {
								problems = append(problems, fmt.Sprintf("the marshalled text %q does not unmarshal", tx))
							} else if d := diffFields(f1, fieldsOf(r.st, t, o2, nil)); len(d) > 0 {
								problems = append(problems, "after marshal+unmarshal "+d[0])
							}
						}
					}
				}
			}
			if undecided != "" {
				kinds.undecided("kind:"+c.name, pos, undecided)
			} else {
				fillProblems(kinds, "kind:"+c.name, pos, problems, fmt.Sprintf("%q -> value -> same text -> same value", c.text))
			}
		}
	}

	// ---- MERGE ----------------------------------------------------------------------------
	undecided = ""
	merge := c09Merge(p, rp)
	{
		var problems []string
		r := newC09Run(p)
		docM := "X-Before: 1\nName: hello\nX-Middle: two words\nNeeded: n\nCount: 7\nX-After: z\n"
		fullP := mkProbeType("WithParagraph", append([]probeField{{"Paragraph", paraT, "", true}}, fields[:8]...))
		obj, isErr, why := r.unmarshal(fullP, docM)
		if !note(why) {
			if isErr {
				problems = append(problems, "a document with unknown fields does not unmarshal into a struct embedding Paragraph")
			} else {
				sv := r.st.Heap[obj].V.(*StructV)
				sv.F[fieldIndex(structOf(fullP), "Name")] = "changed"
				sv.F[fieldIndex(structOf(fullP), "Wire")] = "added"
				tx, isErr, why := r.marshal(fullP, obj)
				if !note(why) {
					para, perr := refParagraph(tx)
					if isErr || perr != "" {
						problems = append(problems, fmt.Sprintf("marshal fails or gives %q", tx))
					} else {
						wantOrder := "X-Before,Name,X-Middle,Needed,Count,X-After,X-Wire-Name,Size,Flag"
						if got := strings.Join(para.order, ","); got != wantOrder {
							problems = append(problems, fmt.Sprintf("field order %s, want %s (original order, then the struct's new fields)", got, wantOrder))
						}
						for k, w := range map[string]string{"X-Before": "1", "X-Middle": "two words", "X-After": "z", "Name": "changed", "X-Wire-Name": "added", "Count": "7", "Needed": "n"} {
							if g := strings.TrimSuffix(para.values[k], "\n"); g != w {
								problems = append(problems, fmt.Sprintf("field %s is written as %q, want %q", k, g, w))
							}
						}
					}
				}
			}
		}
		// a hand-built value whose embedded Paragraph is the zero value (no map yet) marshals, twice the same
		if undecided == "" {
			wp := mkProbeType("WithParagraph", append([]probeField{{"Paragraph", paraT, "", true}}, fields[:8]...))
			r3 := newC09Run(p)
			obj := r3.st.alloc(wp, mkStruct(wp, map[string]Val{"Name": "hand-built", "Needed": "n", "Count": int64(3)}))
			t1, isErr, why := r3.marshal(wp, obj)
			if !note(why) {
				if isErr {
					problems = append(problems, "a hand-built value with a zero embedded Paragraph cannot be marshalled")
				} else {
					r3.st.Heap[obj].V.(*StructV).F[fieldIndex(structOf(wp), "Name")] = "edited"
					t2, _, why := r3.marshal(wp, obj)
					if !note(why) && (!strings.Contains(t1, "Name: hand-built") || !strings.Contains(t2, "Name: edited") || strings.Contains(t2, "hand-built")) {
						problems = append(problems, fmt.Sprintf("marshalling a value, editing a field and marshalling again gives %q then %q: the second text must carry the edited value only", t1, t2))
					}
				}
			}
			problems = append(problems, r3.impure...)
		}
		problems = append(problems, r.impure...)
		// the embedded Paragraph need not be the first member
		if undecided == "" {
			mid := mkProbeType("ParagraphInTheMiddle", []probeField{{"Package", str, "", false}, {"Section", str, "", false}, {"Paragraph", paraT, "", true}, {"Priority", str, "", false}})
			r2 := newC09Run(p)
			// unknown fields include one without a value and names with every kind of character a field name may have
			doc2 := "X-First: 1\nPackage: old\nX-Empty:\nX-Mid: m\nSection: utils\nDescription-pt_BR.UTF-8: texto\nPriority: optional\nX_a+b/c~d!$%&'()*;<=>?@[]^`{|}: odd\nX-Last: z\n"
			obj, isErr, why := r2.unmarshal(mid, doc2)
			if !note(why) {
				if isErr {
					problems = append(problems, "a struct that embeds Paragraph after other members does not unmarshal")
				} else {
					sv := r2.st.Heap[obj].V.(*StructV)
					sv.F[fieldIndex(structOf(mid), "Package")] = "new"
					sv.F[fieldIndex(structOf(mid), "Priority")] = "extra"
					tx, isErr, why := r2.marshal(mid, obj)
					if !note(why) {
						para, perr := refParagraph(tx)
						if isErr || perr != "" {
							problems = append(problems, fmt.Sprintf("(Paragraph embedded after other members) marshal fails or gives %q", tx))
						} else {
							const wantOrder2 = "X-First,Package,X-Empty,X-Mid,Section,Description-pt_BR.UTF-8,Priority,X_a+b/c~d!$%&'()*;<=>?@[]^`{|},X-Last"
							if got := strings.Join(para.order, ","); got != wantOrder2 {
								problems = append(problems, fmt.Sprintf("(Paragraph embedded after other members) field order %s, want the original order %s", got, wantOrder2))
							}
							for k, w := range map[string]string{"Package": "new", "Priority": "extra", "Section": "utils", "X-First": "1", "X-Mid": "m", "X-Last": "z", "X-Empty": "", "Description-pt_BR.UTF-8": "texto", "X_a+b/c~d!$%&'()*;<=>?@[]^`{|}": "odd"} {
								if g := strings.TrimSuffix(para.values[k], "\n"); g != w {
									problems = append(problems, fmt.Sprintf("(Paragraph embedded after other members) field %s is written as %q, want %q: known fields must carry the struct's current values", k, g, w))
								}
							}
						}
					}
				}
			}
		}
		if undecided != "" {
			merge.undecided("probe.WithParagraph", pos, undecided)
		} else {
			fillProblems(merge, "probe.WithParagraph", pos, problems, "unknown fields unchanged in their original position; known fields carry the struct's current values; new fields appended in struct order")
		}
	}

	// ---- NOPANIC: pointers, nil slices ---------------------------------------------------------
	undecided = ""
	{
		pt := mkProbeType("Pointers", []probeField{{"PV", types.NewPointer(verT), "", false}, {"PS", types.NewPointer(str), "", false}, {"L", types.NewSlice(verT), "", false}, {"Needed", str, `required:"true"`, false}})
		var problems []string
		r := newC09Run(p)
		obj := r.st.alloc(pt, zeroVal(pt))
		if tx, isErr, why := r.marshal(pt, obj); !note(why) {
			if isErr {
				problems = append(problems, "a struct with nil pointer fields cannot be marshalled")
			} else if para, _ := refParagraph(tx); para != nil {
				if _, ok := para.values["PV"]; ok {
					problems = append(problems, "a nil pointer field is written")
				}
			}
		}
		r = newC09Run(p)
		vid := r.st.alloc(verT, mkStruct(verT, map[string]Val{"Epoch": int64(1), "Version": "2.0", "Revision": "3"}))
		sid := r.st.alloc(str, "text")
		obj = r.st.alloc(pt, mkStruct(pt, map[string]Val{"PV": Ptr{Obj: vid}, "PS": Ptr{Obj: sid}}))
		if tx, isErr, why := r.marshal(pt, obj); !note(why) {
			if isErr {
				problems = append(problems, "a struct with non-nil pointer fields cannot be marshalled")
			} else if para, _ := refParagraph(tx); para == nil || strings.TrimSpace(para.values["PV"]) != "1:2.0-3" || strings.TrimSpace(para.values["PS"]) != "text" {
				problems = append(problems, fmt.Sprintf("pointer fields are marshalled as %q, want PV: 1:2.0-3 and PS: text", tx))
			}
		}
		for _, pn := range panics {
			problems = append(problems, pn)
		}
		if undecided != "" {
			nop.undecided("probes", pos, undecided)
		} else {
			fillProblems(nop, "probes", pos, problems, "no panic state on any run of this check; nil pointers are omitted, non-nil pointers are followed")
		}
	}
	supported := map[string]bool{}
	for _, s := range kinds.Instances {
		if s.Status == "ok" {
			supported[strings.SplitN(strings.TrimPrefix(s.Construct, "kind:"), ":", 2)[0]] = true
		}
	}
	c09Types(p, rp, supported)
}

func c09Merge(p *Prog, rp *Report) *Rule {
	r := rp.Rule("C09-MERGE", "unknown fields pass through in their original order; known fields reflect the struct; Update / Set tables", 3)
	upd := p.Method("control", "Paragraph", "Update")
	set := p.Method("control", "Paragraph", "Set")
	pt := p.Named("control", "Paragraph")
	if upd == nil || set == nil || pt == nil {
		r.bad("control.Paragraph", "", "anchor not found", nil)
		return r
	}
	// Update table
	mk := func(st *State, order []string, vals map[string]string) *StructV {
		mid := st.alloc(structOf(pt).Field(fieldIndex(structOf(pt), "Values")).Type(), &MapObjV{})
		mo := st.Heap[mid].V.(*MapObjV)
		var ks []string
		for k := range vals {
			ks = append(ks, k)
		}
		sort.Strings(ks)
		for _, k := range ks {
			mo.K = append(mo.K, k)
			mo.V = append(mo.V, vals[k])
		}
		return mkStruct(pt, map[string]Val{"Order": strSlice(st, order), "Values": MapV{Obj: mid}})
	}
	{
		var problems []string
		cases := []struct {
			ro []string
			rv map[string]string
			ao []string
			av map[string]string
		}{
			{[]string{"A", "X-Unknown", "B"}, map[string]string{"A": "old-a", "X-Unknown": "keep", "B": "old-b"}, []string{"B", "C", "A"}, map[string]string{"B": "new-b", "C": "new-c", "A": "new-a"}},
			{nil, map[string]string{}, []string{"P", "Q"}, map[string]string{"P": "1", "Q": "2"}},
			{[]string{"A", "Empty", "Description-pt_BR.UTF-8", "B"}, map[string]string{"A": "a", "Empty": "", "Description-pt_BR.UTF-8": "t", "B": ""}, []string{"New-Empty", "X_y", "A"}, map[string]string{"New-Empty": "", "X_y": "u", "A": ""}},
			{[]string{"K"}, map[string]string{"K": "v"}, nil, map[string]string{}},
			// keys are matched byte for byte (as the decoder matches them): an unknown field that differs from a
			// known one only in case is another field, and the known one is still added with its value
			{[]string{"source", "Version"}, map[string]string{"source": "legacy", "Version": "1"}, []string{"Source", "Version", "VERSION"}, map[string]string{"Source": "bar", "Version": "2", "VERSION": "3"}},
		}
		for _, c := range cases {
			m := NewMachine(p, nil)
			installStringModels(m)
			st := initState(m, "control")
			rid := st.alloc(pt, mk(st, c.ro, c.rv))
			arg := mk(st, c.ao, c.av)
			st.push(upd, []Val{Ptr{Obj: rid}, arg}, nil)
			out := m.Run(st)
			if len(out) != 1 || out[0].Status != stRet {
				problems = append(problems, "undecided: "+retDesc(out))
				continue
			}
			id := st.alloc(pt, st.Ret)
			got, why := paraOf(st, p, Ptr{Obj: id})
			if why != "" {
				problems = append(problems, "undecided: "+why)
				continue
			}
			want := &refPara{values: map[string]string{}}
			for _, k := range c.ro {
				want.order = append(want.order, k)
				want.values[k] = c.rv[k]
			}
			for _, k := range c.ao {
				if _, ok := want.values[k]; !ok {
					want.order = append(want.order, k)
				}
				want.values[k] = c.av[k]
			}
			if got.String() != want.String() {
				problems = append(problems, fmt.Sprintf("%v.Update(%v) = %s, want %s", c.ro, c.ao, got, want))
			}
		}
		// two updates of one receiver whose Order has spare capacity (as a list grown by append has): the results
		// must not share storage with each other or with the receiver
		{
			m := NewMachine(p, nil)
			installStringModels(m)
			st := initState(m, "control")
			recv := mk(st, []string{"A", "B"}, map[string]string{"A": "1", "B": "2"})
			arr := &ArrayV{E: []Val{"A", "B", "", "", "", ""}}
			aid := st.alloc(types.NewArray(types.Typ[types.String], 6), arr)
			recv.F[fieldIndex(structOf(pt), "Order")] = SliceV{Obj: aid, Len_: 2, Cap: 6}
			rid := st.alloc(pt, recv)
			before := deepRender(st, Ptr{Obj: rid}, 0)
			var ids []int
			var first string
			okRun := true
			for i, arg := range []*StructV{mk(st, []string{"Bar"}, map[string]string{"Bar": "b"}), mk(st, []string{"Baz", "Qux"}, map[string]string{"Baz": "z", "Qux": "q"})} {
				st.Status = stRun
				st.Frames = nil
				st.push(upd, []Val{Ptr{Obj: rid}, arg}, nil)
				out := m.Run(st)
				if len(out) != 1 || out[0].Status != stRet {
					problems = append(problems, "undecided: "+retDesc(out))
					okRun = false
					break
				}
				id := st.alloc(pt, st.Ret)
				ids = append(ids, id)
				if i == 0 {
					if got, why := paraOf(st, p, Ptr{Obj: id}); why == "" {
						first = got.String()
					}
				}
			}
			if okRun {
				if got, why := paraOf(st, p, Ptr{Obj: ids[0]}); why == "" && got.String() != first {
					problems = append(problems, fmt.Sprintf("[A B].Update([Bar]) gave %s; after a second Update([Baz Qux]) of the same receiver that first result reads %s: the results share the receiver's Order array", first, got))
				}
				if after := deepRender(st, Ptr{Obj: rid}, 0); after != before {
					problems = append(problems, fmt.Sprintf("Update changes its receiver: %s became %s", clip(before, 160), clip(after, 160)))
				}
			}
		}
		fillProblems(r, "control.Paragraph.Update", p.Pos(upd.Pos()), problems, "receiver's fields in their order, then new keys in argument order; argument values override; results of two updates share no storage")
	}
	{
		var problems []string
		for _, c := range []struct{ k, v string }{{"A", "new"}, {"Z", "added"}} {
			m := NewMachine(p, nil)
			st := initState(m, "control")
			rid := st.alloc(pt, mk(st, []string{"A", "B"}, map[string]string{"A": "1", "B": "2"}))
			st.push(set, []Val{Ptr{Obj: rid}, c.k, c.v}, nil)
			out := m.Run(st)
			if len(out) != 1 || out[0].Status != stRet {
				problems = append(problems, "undecided: "+retDesc(out))
				continue
			}
			got, why := paraOf(st, p, Ptr{Obj: rid})
			if why != "" {
				problems = append(problems, "undecided: "+why)
				continue
			}
			want := "[A=\"new\" B=\"2\"]"
			if c.k == "Z" {
				want = "[A=\"1\" B=\"2\" Z=\"added\"]"
			}
			if got.String() != want {
				problems = append(problems, fmt.Sprintf("Set(%s) gives %s, want %s", c.k, got, want))
			}
		}
		fillProblems(r, "control.Paragraph.Set", p.Pos(set.Pos()), problems, "existing key: value replaced in place; new key: appended to Order")
	}
	return r
}

func fillProblems(r *Rule, key, pos string, problems []string, okMsg string) {
	for _, pr := range problems {
		if strings.HasPrefix(pr, "undecided") {
			r.undecided(key, pos, pr)
			return
		}
	}
	problems = uniq(problems)
	if len(problems) > 3 {
		problems = append(problems[:3], "...")
	}
	r.check(len(problems) == 0, key, pos, okMsg, strings.Join(problems, "; "))
}

func c09Types(p *Prog, rp *Report, supported map[string]bool) {
	r := rp.Rule("C09-TYPES", "every field of the repository's document types is handled by both walkers", 40)
	marsh := p.Named("control", "Marshallable")
	unmarsh := p.Named("control", "Unmarshallable")
	if marsh == nil || unmarsh == nil {
		r.bad("control.Marshallable", "", "interfaces not found", nil)
		return
	}
	mi := marsh.Underlying().(*types.Interface)
	ui := unmarshal(unmarsh)
	var docs []string
	for d := range docTables {
		docs = append(docs, d)
	}
	sort.Strings(docs)
	kindOf := func(t types.Type) string {
		switch u := t.Underlying().(type) {
		case *types.Basic:
			switch {
			case u.Kind() == types.String:
				return "String"
			case u.Kind() == types.Int:
				return "Int"
			case u.Kind() == types.Uint:
				return "Uint"
			case u.Kind() == types.Bool:
				return "Bool"
			}
			return "basic:" + u.Name()
		case *types.Slice:
			return "Slice"
		case *types.Struct:
			return "Struct"
		case *types.Pointer:
			return "Ptr"
		}
		return t.String()
	}
	for _, doc := range docs {
		parts := strings.SplitN(doc, ".", 2)
		n := p.Named(parts[0], parts[1])
		if n == nil {
			continue
		}
		for _, ti := range docFields(structOf(n)) {
			if ti.Skip {
				continue
			}
			key := doc + "." + ti.GoName
			check := func(t types.Type, where string) string {
				k := kindOf(t)
				if k == "Struct" {
					if !types.Implements(t, mi) {
						return fmt.Sprintf("%s %s does not implement control.Marshallable on the value: Marshal of this document fails", where, typeName(t))
					}
					if !types.Implements(types.NewPointer(t), ui) {
						return fmt.Sprintf("%s %s does not implement control.Unmarshallable on the pointer: Unmarshal of this document fails", where, typeName(t))
					}
					return ""
				}
				if !supported[k] {
					return fmt.Sprintf("%s kind %s does not round-trip through the walkers (see C09-KINDS)", where, k)
				}
				return ""
			}
			msg := check(ti.Type, "field type")
			if msg == "" {
				if sl, ok := ti.Type.Underlying().(*types.Slice); ok {
					msg = check(sl.Elem(), "element type")
				}
			}
			r.check(msg == "", key, p.Pos(n.Obj().Pos()), typeName(ti.Type)+" handled by both walkers", msg)
		}
	}
}

func unmarshal(n *types.Named) *types.Interface { return n.Underlying().(*types.Interface) }

// mergeSame drops final states that are identical to an earlier one (same status, result, effects and
// canonical heap): the iteration orders of a map that the code does not depend on end in the same state.
func mergeSame(m *Machine, outs []*State) []*State {
	if len(outs) < 2 {
		return outs
	}
	none := func(i int) string { return fmt.Sprint(i) }
	seen := map[string]bool{}
	var res []*State
	for _, o := range outs {
		c := o.Clone()
		k := fmt.Sprint(o.Status) + "|" + o.Msg + "|" + strings.Join(o.Effects, ";")
		if o.Status == stRet {
			// the result is kept alive for the key by parking it in a frame-less state's Ret
			k += "|" + fmtVal(o.Ret, none)
		}
		c.Frames = nil
		k += "|" + heapDigest(c, o.Ret)
		if !seen[k] {
			seen[k] = true
			res = append(res, o)
		}
	}
	return res
}

// heapDigest renders everything reachable from the globals and from root, in a canonical order.
func heapDigest(st *State, root Val) string {
	var b strings.Builder
	b.WriteString(deepRender(st, root, 0))
	var gs []*ssa.Global
	for g := range st.Globals {
		gs = append(gs, g)
	}
	sort.Slice(gs, func(i, j int) bool { return gs[i].Pos() < gs[j].Pos() })
	for _, g := range gs {
		if o, ok := st.Heap[st.Globals[g]]; ok {
			b.WriteString("|" + g.Name() + "=" + deepRender(st, o.V, 0))
		}
	}
	return b.String()
}
