package main

// C03 — version parse / render.

import (
	"fmt"
	"go/constant"
	"go/types"
	"regexp"
	"strings"
	"unicode"

	"golang.org/x/tools/go/ssa"
)

func init() { register("C03", checkC03) }

// idxTest normalises "position found" tests: returns the inner term and the
// successor index (0 = then, 1 = else) taken when the thing WAS found.
func idxTest(term string) (string, int, bool) {
	for _, f := range []struct {
		re   string
		side int
	}{
		{`^\(-1 != (.*)\)$`, 0},
		{`^\(-1 == (.*)\)$`, 1},
		{`^\((.*) < 0\)$`, 1},
		{`^\(0 <= (.*)\)$`, 0},
		{`^\(-1 < (.*)\)$`, 0},
	} {
		if m := regexp.MustCompile(f.re).FindStringSubmatch(term); m != nil {
			return m[1], f.side, true
		}
	}
	// boolean containment predicates
	if strings.HasPrefix(term, "strings.Contains") {
		return term, 0, true
	}
	if strings.HasPrefix(term, "!strings.Contains") {
		return term[1:], 1, true
	}
	return "", 0, false
}

// emptyTest: `x == ""` / `len(x) == 0` forms; returns x and the side taken when empty.
func emptyTest(term string) (string, int, bool) {
	for _, f := range []struct {
		re   string
		side int
	}{
		{`^\("" == (.*)\)$`, 0},
		{`^\("" != (.*)\)$`, 1},
		{`^\(0 == len\((.*)\)\)$`, 0},
		{`^\(0 != len\((.*)\)\)$`, 1},
		{`^\(0 < len\((.*)\)\)$`, 1},
		{`^\(len\((.*)\) <= 0\)$`, 0},
		{`^\(len\((.*)\) < 1\)$`, 0},
		{`^\(1 <= len\((.*)\)\)$`, 1},
	} {
		if m := regexp.MustCompile(f.re).FindStringSubmatch(term); m != nil {
			return m[1], f.side, true
		}
	}
	return "", 0, false
}

// predicateTable evaluates a rune predicate (func(rune) bool) abstractly on
// every byte value and on probe runes beyond Latin-1.
func predicateTable(p *Prog, fn *ssa.Function, bind []Val) (map[rune]bool, string) {
	m := NewMachine(p, nil)
	installStringModels(m)
	installUnicodeModels(m)
	probes := map[rune]bool{}
	for c := rune(0); c < 256; c++ {
		probes[c] = true
	}
	for _, c := range []rune{0x100, 0x17F, 0x391, 0x660, 0x663, 0x4E00, 0xFF10, 0xFF21, 0x10FFFF} {
		probes[c] = true
	}
	for _, f := range reachableRepoFuncs(fn) {
		for _, b := range f.Blocks {
			for _, ins := range b.Instrs {
				for _, op := range ins.Operands(nil) {
					if c, ok := (*op).(*ssa.Const); ok && c.Value != nil && c.Value.Kind() == constant.Int {
						if n, exact := constant.Int64Val(c.Value); exact && n >= 0 && n < 0x110000 {
							for _, d := range []int64{-1, 0, 1} {
								if n+d >= 0 {
									probes[rune(n+d)] = true
								}
							}
						}
					}
				}
			}
		}
	}
	out := map[rune]bool{}
	for c := range probes {
		st := &State{Heap: map[int]*HObj{}, Notes: map[string]bool{}}
		st.push(fn, []Val{int64(c)}, bind)
		res := m.Run(st)
		if len(res) != 1 || res[0].Status != stRet {
			return nil, fmt.Sprintf("predicate %s on rune %U: %s", fname(fn), c, retDesc(res))
		}
		b, ok := res[0].Ret.(bool)
		if !ok {
			return nil, "predicate result is not boolean"
		}
		out[c] = b
	}
	return out, ""
}

func installUnicodeModels(m *Machine) {
	u1 := func(f func(r rune) bool) HookFn {
		return func(m *Machine, st *State, call *ssa.CallCommon, args []Val) ([]Val, bool) {
			if sv, ok := args[0].(SymV); ok && m.Alpha != nil {
				// a byte converted to a rune: decide on every member of the class
				res, first := false, true
				for _, by := range m.Alpha.Members[sv.C] {
					r := f(rune(by))
					if first {
						res, first = r, false
					} else if r != res {
						return []Val{Unknown{Why: "alphabet class too coarse for a unicode predicate"}}, true
					}
				}
				return []Val{res}, true
			}
			n, ok := args[0].(int64)
			if !ok {
				return nil, false
			}
			return []Val{f(rune(n))}, true
		}
	}
	m.Hooks["unicode.IsDigit"] = u1(unicode.IsDigit)
	m.Hooks["unicode.IsLetter"] = u1(unicode.IsLetter)
	m.Hooks["unicode.IsSpace"] = u1(unicode.IsSpace)
	m.Hooks["unicode.IsNumber"] = u1(unicode.IsNumber)
	m.Hooks["unicode.IsUpper"] = u1(unicode.IsUpper)
	m.Hooks["unicode.IsLower"] = u1(unicode.IsLower)
	m.Hooks["unicode.IsPunct"] = u1(unicode.IsPunct)
}

func inUpstreamAlphabet(c rune) bool {
	return (c >= '0' && c <= '9') || (c >= 'a' && c <= 'z') || (c >= 'A' && c <= 'Z') || strings.ContainsRune(".+~:-", c)
}
func inRevisionAlphabet(c rune) bool {
	return (c >= '0' && c <= '9') || (c >= 'a' && c <= 'z') || (c >= 'A' && c <= 'Z') || strings.ContainsRune(".+~", c)
}

// findParseFunction: the common repo callee of Parse, UnmarshalText and
// UnmarshalControl that takes (*Version, string) and returns error.
func findVersionParser(p *Prog) (*ssa.Function, map[string]bool, string) {
	reach := map[string]map[*ssa.Function]bool{}
	entries := map[string]*ssa.Function{
		"Parse":            p.Func("version", "Parse"),
		"UnmarshalText":    p.Method("version", "Version", "UnmarshalText"),
		"UnmarshalControl": p.Method("version", "Version", "UnmarshalControl"),
	}
	vt := p.Named("version", "Version")
	var cands []*ssa.Function
	for name, e := range entries {
		if e == nil {
			return nil, nil, "version." + name + " not found"
		}
		reach[name] = map[*ssa.Function]bool{}
		for _, f := range reachableRepoFuncs(e) {
			reach[name][f] = true
		}
	}
	for f := range reach["Parse"] {
		sig := f.Signature
		if sig.Params().Len() == 2 && errResultIndex(sig) == 0 && isStringT(sig.Params().At(1).Type()) {
			if pt, ok := sig.Params().At(0).Type().(*types.Pointer); ok && types.Identical(pt.Elem(), vt) {
				cands = append(cands, f)
			}
		}
	}
	if len(cands) != 1 {
		return nil, nil, fmt.Sprintf("expected one func(*Version, string) error reachable from Parse, found %d", len(cands))
	}
	who := map[string]bool{}
	for name := range entries {
		who[name] = reach[name][cands[0]]
	}
	return cands[0], who, ""
}

func checkC03(p *Prog, rp *Report) {
	defer stateRule(p, rp, "C03-STATE", p.Func("version", "Parse"), p.Method("version", "Version", "UnmarshalText"), p.Method("version", "Version", "UnmarshalControl"), p.Method("version", "Version", "String"), p.Method("version", "Version", "MarshalText"))
	rp.Explanation = "C03-ONE: Parse, UnmarshalText and UnmarshalControl all reach one parse function (call graph). C03-TABLE: that function is interpreted abstractly on a generated family of strings (every combination of 20 epoch shapes, 14 upstream shapes and 8 revision shapes, plus surrounding white space) and compared with a Policy 5.6.12 reference: accept/reject and, on acceptance, epoch, upstream and revision. C03-ALPHA: every byte value and six multi-byte runes probed inside the upstream and the revision part are accepted iff they are in the Policy alphabets. C03-RESET: parsing into a Version that already holds a value overwrites epoch, upstream and revision. C03-CODEC: MarshalText / MarshalControl return String(); UnmarshalText / UnmarshalControl accept exactly what Parse accepts, with the same result. C03-RENDER: decision table of String / StringWithoutEpoch (epoch iff > 0 or ':' in upstream; '-' and the revision iff the revision is non-empty or the upstream contains '-'). C03-ROUNDTRIP: Parse(String(Parse(s))) = Parse(s) for every accepted member of the family. C03-EPOCHWIDTH: Parse of the GOARCH=386 load, interpreted with 32 bit int/uint on epochs around 2^31 and 2^32, accepts an epoch only with its exact value."
	rp.NotDecided = "strings outside the generated family (the family is built from the grammar's token classes and the positions the parser distinguishes: first colon, last hyphen, first byte of the upstream part)."
	rp.Trusted = []string{"go/types, go/ssa", "contracts of strings.*, strconv.ParseInt, unicode.IsSpace/IsDigit, fmt.Sprintf(%d:%s)", "Policy §5.6.12 alphabets as written in c03.go"}

	one := rp.Rule("C03-ONE", "all parsing entry points reach one parse function", 3)
	parser, who, why := findVersionParser(p)
	if parser == nil {
		one.undecided("version.parse-function", "", why)
		return
	}
	for _, e := range []string{"Parse", "UnmarshalControl", "UnmarshalText"} {
		one.check(who[e], "version."+e, p.Pos(parser.Pos()), "reaches "+fname(parser), "does not reach the parse function "+fname(parser)+": this entry point parses differently")
	}
	c03Table(p, rp, parser)
	c03Render(p, rp)
	c03Width(p, rp)
}

func c03Render(p *Prog, rp *Report) {
	r := rp.Rule("C03-RENDER", "String prints the epoch iff >0 or the upstream contains ':', and '-'+revision iff non-empty or the upstream contains '-'", 2)
	vt := p.Named("version", "Version")
	for _, name := range []string{"String", "StringWithoutEpoch"} {
		fn := p.Method("version", "Version", name)
		key := "version.Version." + name
		if fn == nil {
			r.bad(key, "", "method not found", nil)
			continue
		}
		bad := ""
		rows := 0
		for _, ep := range []int64{0, 1, 17, 4294967295} {
			for _, up := range []string{"1.0", "1:2", "1-2", "1:2-3", "0", "1.0~rc1+b2", "09a:b~1"} {
				for _, rev := range []string{"", "r1", "0", "1.2~a+b"} {
					m := NewMachine(p, nil)
					installStringModels(m)
					m.Hooks["fmt.Sprintf"] = sprintfModel
					st := &State{Heap: map[int]*HObj{}, Notes: map[string]bool{}}
					st.push(fn, []Val{mkStruct(vt, map[string]Val{"Epoch": ep, "Version": up, "Revision": rev})}, nil)
					out := m.Run(st)
					rows++
					if len(out) != 1 || out[0].Status != stRet {
						bad = "undecided: " + retDesc(out)
						continue
					}
					want := up
					if rev != "" || strings.Contains(up, "-") {
						want += "-" + rev
					}
					if name == "String" && (ep > 0 || strings.Contains(up, ":")) {
						want = fmt.Sprintf("%d:%s", ep, want)
					}
					if out[0].Ret != want && bad == "" {
						bad = fmt.Sprintf("{Epoch:%d Version:%q Revision:%q} renders as %v, want %q (the rendering must parse back to the same value)", ep, up, rev, out[0].Ret, want)
					}
				}
			}
		}
		if strings.HasPrefix(bad, "undecided") {
			r.undecided(key, p.Pos(fn.Pos()), bad)
		} else {
			r.check(bad == "", key, p.Pos(fn.Pos()), fmt.Sprintf("%d rows (4 epochs x 7 upstream parts with and without ':' and '-' x 4 revisions)", rows), bad)
		}
	}
}

// sprintfModel handles the verbs %d %s %v %q on exact arguments.
func sprintfModel(m *Machine, st *State, call *ssa.CallCommon, args []Val) ([]Val, bool) {
	format, ok := args[0].(string)
	if !ok {
		return nil, false
	}
	elems, many, ok := m.sliceElems(st, args[1])
	if !ok || many {
		return nil, false
	}
	var goArgs []interface{}
	for _, e := range elems {
		if iv, isI := e.(IfaceV); isI {
			e = iv.V
		}
		switch x := e.(type) {
		case int64:
			goArgs = append(goArgs, x)
		case string:
			goArgs = append(goArgs, x)
		case bool:
			goArgs = append(goArgs, x)
		default:
			return nil, false
		}
	}
	return []Val{fmt.Sprintf(format, goArgs...)}, true
}

func c03Codec(p *Prog, rp *Report, parser *ssa.Function) {
	r := rp.Rule("C03-CODEC", "Marshal* = String() through conversions only; Unmarshal* pass their argument to the parser through conversions only", 4)
	tm := newTermer()
	for _, name := range []string{"MarshalText", "MarshalControl"} {
		fn := p.Method("version", "Version", name)
		key := "version.Version." + name
		if fn == nil {
			r.bad(key, "", "method not found", nil)
			continue
		}
		ok := true
		detail := ""
		for _, ret := range returnsReachable(fn.Blocks[0]) {
			t := tm.term(ret.Results[0])
			if !regexp.MustCompile(`^\(version\.Version\)\.String\((\*?p0|p0)\)$`).MatchString(t) {
				ok, detail = false, "returns "+t+" instead of the text String() renders"
			}
			if !isNilConst(ret.Results[1]) {
				ok, detail = false, "returns a non-nil error"
			}
		}
		r.check(ok, key, p.Pos(fn.Pos()), "returns exactly String()", detail)
	}
	for _, name := range []string{"UnmarshalText", "UnmarshalControl"} {
		fn := p.Method("version", "Version", name)
		key := "version.Version." + name
		if fn == nil {
			r.bad(key, "", "method not found", nil)
			continue
		}
		// find the call chain to the parser; the string argument must be p1 (converted)
		ok := false
		detail := "the parse function is not called with the method's argument"
		var visit func(f *ssa.Function, argTerm string, depth int)
		visit = func(f *ssa.Function, argIs string, depth int) {
			if depth > 3 {
				return
			}
			t := newTermer()
			for _, c := range allCalls(f) {
				callee := c.Common().StaticCallee()
				if callee == nil || !inRepo(callee) {
					continue
				}
				for ai, a := range c.Common().Args {
					if isStringT(a.Type()) && t.term(a) == argIs {
						if callee == parser {
							ok = true
						} else {
							visit(callee, fmt.Sprintf("p%d", ai), depth+1)
						}
					}
				}
			}
		}
		visit(fn, "p1", 0)
		// the receiver must be what is filled: either parser(p0, ...) or *p0 = Parse(...)
		r.check(ok, key, p.Pos(fn.Pos()), "hands its argument (through conversions only) to the parse function", detail)
	}
}

// c03Width: load package version for GOARCH=386 and check that the integer
// parse of the epoch is limited to the width of the Epoch field.
func c03Width(p *Prog, rp *Report) {
	r := rp.Rule("C03-EPOCHWIDTH", "the parsed epoch fits the Epoch field on 32 bit platforms", 1)
	p386, err := Load(repoDir(), "386", activeOverlay, "./version/")
	if err != nil {
		rp.Errorf("386 load: %v", err)
		return
	}
	parse := p386.Func("version", "Parse")
	vt := p386.Named("version", "Version")
	if parse == nil || vt == nil {
		r.undecided("version.Parse(386)", "", "version.Parse not found in the 386 load")
		return
	}
	wordBits = 32
	defer func() { wordBits = 64 }()
	var problems []string
	rows := 0
	for _, ep := range []uint64{0, 1, 65536, 2147483647, 2147483648, 4294967295, 4294967296, 4294967297, 8589934593, 1 << 40, 9223372036854775807} {
		text := fmt.Sprintf("%d:1.0-1", ep)
		m := NewMachine(p386, nil)
		installStringModels(m)
		installFuncModels(m)
		installUnicodeModels(m)
		m.Hooks["fmt.Sprintf"] = sprintfModel
		st := initState(m, "version")
		st.push(parse, []Val{text}, nil)
		out := m.Run(st)
		rows++
		if len(out) != 1 || out[0].Status != stRet {
			problems = append(problems, "undecided: "+retDesc(out))
			break
		}
		tv, ok := st.Ret.(*TupleV)
		if !ok || len(tv.E) != 2 {
			problems = append(problems, "undecided: unexpected result shape")
			break
		}
		if _, isNil := tv.E[1].(nilV); !isNil {
			if ep <= 2147483647 {
				problems = append(problems, fmt.Sprintf("on a 32 bit platform %q is rejected although the epoch fits", text))
			}
			continue // rejecting an epoch that does not fit is fine
		}
		sv, ok := tv.E[0].(*StructV)
		if !ok {
			problems = append(problems, "undecided: Parse does not return a Version")
			break
		}
		got, _ := sv.F[fieldIndex(structOf(vt), "Epoch")].(int64)
		if uint64(got) != ep {
			problems = append(problems, fmt.Sprintf("on a 32 bit platform %q is accepted with epoch %d: the epoch is truncated instead of rejected", text, uint64(got)))
		}
	}
	fillProblems(r, "version.Parse(386)", p386.Pos(parse.Pos()), problems, fmt.Sprintf("%d epochs around 2^31 and 2^32 interpreted on the GOARCH=386 load with 32 bit int/uint: accepted only with the exact value", rows))
}

// versionFamily: strings built from every combination of epoch part, upstream
// part and revision part shapes, with and without surrounding white space.
func versionFamily() []string {
	epochs := []string{"", "0:", "1:", "12:", "01:", "010:", "08:", "0x10:", "0b1:", "1_0:", "-1:", "-0:", "+0:", "+1:", "a:", "1a:", "1.0:", ":", "99999999999999999999:", "1 :"}
	ups := []string{"1.0", "1", "0", "a1", "", ".1", "1:2", "1-2", "1-2-3", "1.0~rc1+b2", "1 0", "1_0", "1.0:", "1.A-z"}
	revs := []string{"", "-1", "-", "-1.2~a+b", "-1:2", "-1_", "-0", "-1 "}
	var out []string
	for _, e := range epochs {
		for _, u := range ups {
			for _, r := range revs {
				v := e + u + r
				out = append(out, v)
			}
		}
	}
	for _, v := range []string{"1.0-1", "2:3.4-5", "0:1:2", "1-2-"} {
		out = append(out, " "+v, v+"\n", "\t "+v+" \r\n")
	}
	out = append(out, "", " ", "\t\n")
	return out
}

type verResult struct {
	ok                 bool
	epoch              int64
	upstream, revision string
}

func (v verResult) String() string {
	if !v.ok {
		return "rejected"
	}
	return fmt.Sprintf("{epoch %d, upstream %q, revision %q}", v.epoch, v.upstream, v.revision)
}

func refVersionStrict(s string) verResult {
	// refVersion plus the epoch range (an epoch must fit an int)
	t := strings.TrimSpace(s)
	if i := strings.Index(t, ":"); i > 18 {
		return verResult{}
	}
	e, u, r, ok := refVersion(s)
	return verResult{ok, e, u, r}
}

func c03Table(p *Prog, rp *Report, parser *ssa.Function) {
	tbl := rp.Rule("C03-TABLE", "Parse accepts exactly the Policy grammar and splits epoch (first colon), upstream, revision (last hyphen)", 1)
	alpha := rp.Rule("C03-ALPHA", "characters outside [A-Za-z0-9.+~:-] (upstream) / [A-Za-z0-9.+~] (revision) are rejected, all others accepted", 2)
	reset := rp.Rule("C03-RESET", "parsing into a used Version gives the same value as parsing into a fresh one", 1)
	codec := rp.Rule("C03-CODEC", "MarshalText / MarshalControl render String(); UnmarshalText / UnmarshalControl parse like Parse", 4)
	round := rp.Rule("C03-ROUNDTRIP", "for every accepted string: parse, render, parse gives the same value", 1)
	parse := p.Func("version", "Parse")
	verT := p.Named("version", "Version")
	strFn := p.Method("version", "Version", "String")
	pos := p.Pos(parser.Pos())
	if parse == nil || verT == nil || strFn == nil {
		tbl.bad("version.Parse", "", "anchor not found", nil)
		return
	}
	vs := structOf(verT)
	fromStruct := func(sv *StructV) verResult {
		e, _ := sv.F[fieldIndex(vs, "Epoch")].(int64)
		u, _ := sv.F[fieldIndex(vs, "Version")].(string)
		r, _ := sv.F[fieldIndex(vs, "Revision")].(string)
		return verResult{true, e, u, r}
	}
	newM := func() *Machine {
		m := NewMachine(p, nil)
		installStringModels(m)
		installFuncModels(m)
		installUnicodeModels(m)
		m.Hooks["fmt.Sprintf"] = sprintfModel
		return m
	}
	m := newM()
	run := func(fn *ssa.Function, args ...Val) (*State, string) {
		st := initState(m, "version")
		st.push(fn, args, nil)
		out := m.Run(st)
		if len(out) == 1 && out[0].Status == stPanic {
			return nil, "PANIC: " + out[0].Msg
		}
		if len(out) != 1 || out[0].Status != stRet {
			return nil, "undecided: " + retDesc(out)
		}
		return st, ""
	}
	doParse := func(s string) (verResult, string) {
		st, why := run(parse, s)
		if why != "" {
			return verResult{}, why
		}
		tv := st.Ret.(*TupleV)
		if _, ok := tv.E[1].(nilV); !ok {
			return verResult{}, ""
		}
		sv, ok := tv.E[0].(*StructV)
		if !ok {
			return verResult{}, "undecided: Parse does not return a Version"
		}
		return fromStruct(sv), ""
	}
	mkVer := func(v verResult) *StructV {
		return mkStruct(verT, map[string]Val{"Epoch": v.epoch, "Version": v.upstream, "Revision": v.revision})
	}
	render := func(v verResult) (string, string) {
		st, why := run(strFn, mkVer(v))
		if why != "" {
			return "", why
		}
		s, ok := st.Ret.(string)
		if !ok {
			return "", "undecided: String does not return a string"
		}
		return s, ""
	}
	// ---- TABLE + ROUNDTRIP
	fam := versionFamily()
	var tp, rtp []string
	accepted := 0
	var acceptedVals []verResult
	for _, s := range fam {
		got, why := doParse(s)
		if strings.HasPrefix(why, "PANIC") {
			tp = append(tp, fmt.Sprintf("Parse(%q) panics: %s", s, why))
			continue
		}
		if why != "" {
			tp = append(tp, why)
			break
		}
		want := refVersionStrict(s)
		if got.String() != want.String() {
			tp = append(tp, fmt.Sprintf("Parse(%q) = %s, Policy 5.6.12 says %s", s, got, want))
			continue
		}
		if !got.ok {
			continue
		}
		accepted++
		acceptedVals = append(acceptedVals, got)
		r, why := render(got)
		if why != "" {
			rtp = append(rtp, why)
			break
		}
		back, why := doParse(r)
		if why != "" {
			rtp = append(rtp, why)
			break
		}
		if back.String() != got.String() {
			rtp = append(rtp, fmt.Sprintf("%q parses to %s, renders as %q, which parses to %s", s, got, r, back))
		}
	}
	fillProblems(tbl, "version.Parse", pos, tp, fmt.Sprintf("%d strings (every combination of 20 epoch shapes x 14 upstream shapes x 8 revision shapes, plus surrounding white space): %d accepted, verdict and parts equal the reference", len(fam), accepted))
	fillProblems(round, "version.Version.String", p.Pos(strFn.Pos()), rtp, fmt.Sprintf("%d accepted strings: Parse(String(Parse(s))) = Parse(s)", accepted))
	// ---- ALPHA: one probe per byte value and a few multi-byte runes, in the upstream and in the revision
	var probes []string
	for c := 0; c < 256; c++ {
		probes = append(probes, string([]byte{byte(c)}))
	}
	probes = append(probes, "é", "٣", "１", "ü", "\u00a0", "\u2028")
	for _, part := range []struct {
		name string
		mk   func(c string) string
		in   func(rune) bool
	}{
		{"upstream", func(c string) string { return "1" + c + "2" }, inUpstreamAlphabet},
		{"revision", func(c string) string { return "1-3" + c + "4" }, inRevisionAlphabet},
	} {
		var ap []string
		for _, c := range probes {
			s := part.mk(c)
			got, why := doParse(s)
			if why != "" {
				ap = append(ap, why)
				break
			}
			want := refVersionStrict(s)
			if got.ok != want.ok {
				verb := "accepted"
				if !got.ok {
					verb = "rejected"
				}
				ap = append(ap, fmt.Sprintf("%q (the character %q in the %s part) is %s", s, c, part.name, verb))
			}
		}
		fillProblems(alpha, "alphabet-"+part.name, pos, ap, fmt.Sprintf("%d characters probed inside the %s part: accepted iff in the Policy alphabet", len(probes), part.name))
	}
	// ---- RESET and CODEC
	uc := p.Method("version", "Version", "UnmarshalControl")
	ut := p.Method("version", "Version", "UnmarshalText")
	mt := p.Method("version", "Version", "MarshalText")
	mc := p.Method("version", "Version", "MarshalControl")
	samples := []string{"1.0", "2:3.4-5", "0:1:2", "1-2-", "7-1", "3:1", "1.0~rc1+b2-0ubuntu1"}
	var rsp []string
	unmarshalInto := func(fn *ssa.Function, dirty verResult, arg Val) (verResult, string) {
		st := initState(m, "version")
		id := st.alloc(verT, mkVer(dirty))
		st.push(fn, []Val{Ptr{Obj: id}, arg}, nil)
		out := m.Run(st)
		if len(out) != 1 || out[0].Status != stRet {
			return verResult{}, "undecided: " + retDesc(out)
		}
		if _, ok := st.Ret.(nilV); !ok {
			return verResult{}, ""
		}
		return fromStruct(st.Heap[id].V.(*StructV)), ""
	}
	if uc != nil {
		for _, s := range samples {
			want, _ := doParse(s)
			got, why := unmarshalInto(uc, verResult{true, 9, "8.old", "7old"}, s)
			if why != "" {
				rsp = append(rsp, why)
				break
			}
			if got.String() != want.String() {
				rsp = append(rsp, fmt.Sprintf("UnmarshalControl(%q) into the used value 9:8.old-7old gives %s, a fresh parse gives %s", s, got, want))
			}
		}
		fillProblems(reset, "version.Version.UnmarshalControl", p.Pos(uc.Pos()), rsp, "7 strings parsed into a used Version equal the fresh parse")
	} else {
		reset.bad("version.Version.UnmarshalControl", "", "method not found", nil)
	}
	for _, e := range []struct {
		name string
		fn   *ssa.Function
	}{{"MarshalText", mt}, {"MarshalControl", mc}} {
		key := "version.Version." + e.name
		if e.fn == nil {
			codec.bad(key, "", "method not found", nil)
			continue
		}
		var cp []string
		for _, v := range acceptedVals {
			want, why := render(v)
			if why != "" {
				cp = append(cp, why)
				break
			}
			st := initState(m, "version")
			var recv Val = mkVer(v)
			if _, isPtr := e.fn.Signature.Recv().Type().(*types.Pointer); isPtr {
				recv = Ptr{Obj: st.alloc(verT, mkVer(v))}
			}
			st.push(e.fn, []Val{recv}, nil)
			out := m.Run(st)
			if len(out) != 1 || out[0].Status != stRet {
				cp = append(cp, "undecided: "+retDesc(out))
				break
			}
			tv := st.Ret.(*TupleV)
			got := ""
			switch x := tv.E[0].(type) {
			case string:
				got = x
			default:
				elems, _, ok := m.sliceElems(st, x)
				if !ok {
					cp = append(cp, "undecided: result is neither a string nor a byte slice")
					continue
				}
				var b strings.Builder
				for _, el := range elems {
					n, _ := el.(int64)
					b.WriteByte(byte(n))
				}
				got = b.String()
			}
			if _, errNil := tv.E[1].(nilV); !errNil || got != want {
				cp = append(cp, fmt.Sprintf("%s of %s gives %q, String() gives %q", e.name, v, got, want))
			}
		}
		fillProblems(codec, key, p.Pos(e.fn.Pos()), cp, fmt.Sprintf("%d values: the marshalled text is exactly String()", len(acceptedVals)))
	}
	for _, e := range []struct {
		name string
		fn   *ssa.Function
		text bool
	}{{"UnmarshalText", ut, true}, {"UnmarshalControl", uc, false}} {
		key := "version.Version." + e.name
		if e.fn == nil {
			codec.bad(key, "", "method not found", nil)
			continue
		}
		var cp []string
		for _, s := range append(append([]string{}, samples...), "a1", "1 0", "-1", "1:", "") {
			want, _ := doParse(s)
			var arg Val = s
			st0 := initState(m, "version")
			_ = st0
			var got verResult
			var why string
			if e.text {
				// []byte argument
				st := initState(m, "version")
				arr := &ArrayV{}
				for i := 0; i < len(s); i++ {
					arr.E = append(arr.E, int64(s[i]))
				}
				aid := st.alloc(types.NewArray(types.Typ[types.Uint8], int64(len(s))), arr)
				id := st.alloc(verT, mkVer(verResult{}))
				st.push(e.fn, []Val{Ptr{Obj: id}, SliceV{Obj: aid, Len_: len(s), Cap: len(s)}}, nil)
				out := m.Run(st)
				if len(out) != 1 || out[0].Status != stRet {
					why = "undecided: " + retDesc(out)
				} else if _, ok := st.Ret.(nilV); ok {
					got = fromStruct(st.Heap[id].V.(*StructV))
				}
			} else {
				got, why = unmarshalInto(e.fn, verResult{}, arg)
			}
			if why != "" {
				cp = append(cp, why)
				break
			}
			if got.String() != want.String() {
				cp = append(cp, fmt.Sprintf("%s(%q) gives %s, Parse gives %s", e.name, s, got, want))
			}
		}
		fillProblems(codec, key, p.Pos(e.fn.Pos()), cp, "12 strings: same verdict and value as Parse")
	}
}
