package main

// C03 — version parse / render.

import (
	"fmt"
	"go/constant"
	"go/types"
	"regexp"
	"sort"
	"strings"
	"unicode"

	"golang.org/x/tools/go/ssa"
)

func init() { register("C03", checkC03) }

// idxTest normalises "position found" tests: returns the inner term and the
// successor index (0 = then, 1 = else) taken when the thing WAS found.
func idxTest(term string) (string, int, bool) {
	for _, f := range []struct {
		re   string
		side int
	}{
		{`^\(-1 != (.*)\)$`, 0},
		{`^\(-1 == (.*)\)$`, 1},
		{`^\((.*) < 0\)$`, 1},
		{`^\(0 <= (.*)\)$`, 0},
		{`^\(-1 < (.*)\)$`, 0},
	} {
		if m := regexp.MustCompile(f.re).FindStringSubmatch(term); m != nil {
			return m[1], f.side, true
		}
	}
	// boolean containment predicates
	if strings.HasPrefix(term, "strings.Contains") {
		return term, 0, true
	}
	if strings.HasPrefix(term, "!strings.Contains") {
		return term[1:], 1, true
	}
	return "", 0, false
}

// emptyTest: `x == ""` / `len(x) == 0` forms; returns x and the side taken when empty.
func emptyTest(term string) (string, int, bool) {
	for _, f := range []struct {
		re   string
		side int
	}{
		{`^\("" == (.*)\)$`, 0},
		{`^\("" != (.*)\)$`, 1},
		{`^\(0 == len\((.*)\)\)$`, 0},
		{`^\(0 != len\((.*)\)\)$`, 1},
		{`^\(0 < len\((.*)\)\)$`, 1},
		{`^\(len\((.*)\) <= 0\)$`, 0},
		{`^\(len\((.*)\) < 1\)$`, 0},
		{`^\(1 <= len\((.*)\)\)$`, 1},
	} {
		if m := regexp.MustCompile(f.re).FindStringSubmatch(term); m != nil {
			return m[1], f.side, true
		}
	}
	return "", 0, false
}

// predicateTable evaluates a rune predicate (func(rune) bool) abstractly on
// every byte value and on probe runes beyond Latin-1.
func predicateTable(p *Prog, fn *ssa.Function, bind []Val) (map[rune]bool, string) {
	m := NewMachine(p, nil)
	installStringModels(m)
	installUnicodeModels(m)
	probes := map[rune]bool{}
	for c := rune(0); c < 256; c++ {
		probes[c] = true
	}
	for _, c := range []rune{0x100, 0x17F, 0x391, 0x660, 0x663, 0x4E00, 0xFF10, 0xFF21, 0x10FFFF} {
		probes[c] = true
	}
	for _, f := range reachableRepoFuncs(fn) {
		for _, b := range f.Blocks {
			for _, ins := range b.Instrs {
				for _, op := range ins.Operands(nil) {
					if c, ok := (*op).(*ssa.Const); ok && c.Value != nil && c.Value.Kind() == constant.Int {
						if n, exact := constant.Int64Val(c.Value); exact && n >= 0 && n < 0x110000 {
							for _, d := range []int64{-1, 0, 1} {
								if n+d >= 0 {
									probes[rune(n+d)] = true
								}
							}
						}
					}
				}
			}
		}
	}
	out := map[rune]bool{}
	for c := range probes {
		st := &State{Heap: map[int]*HObj{}, Notes: map[string]bool{}}
		st.push(fn, []Val{int64(c)}, bind)
		res := m.Run(st)
		if len(res) != 1 || res[0].Status != stRet {
			return nil, fmt.Sprintf("predicate %s on rune %U: %s", fname(fn), c, retDesc(res))
		}
		b, ok := res[0].Ret.(bool)
		if !ok {
			return nil, "predicate result is not boolean"
		}
		out[c] = b
	}
	return out, ""
}

func installUnicodeModels(m *Machine) {
	u1 := func(f func(r rune) bool) HookFn {
		return func(m *Machine, st *State, call *ssa.CallCommon, args []Val) ([]Val, bool) {
			if sv, ok := args[0].(SymV); ok && m.Alpha != nil {
				// a byte converted to a rune: decide on every member of the class
				res, first := false, true
				for _, by := range m.Alpha.Members[sv.C] {
					r := f(rune(by))
					if first {
						res, first = r, false
					} else if r != res {
						return []Val{Unknown{Why: "alphabet class too coarse for a unicode predicate"}}, true
					}
				}
				return []Val{res}, true
			}
			n, ok := args[0].(int64)
			if !ok {
				return nil, false
			}
			return []Val{f(rune(n))}, true
		}
	}
	m.Hooks["unicode.IsDigit"] = u1(unicode.IsDigit)
	m.Hooks["unicode.IsLetter"] = u1(unicode.IsLetter)
	m.Hooks["unicode.IsSpace"] = u1(unicode.IsSpace)
	m.Hooks["unicode.IsNumber"] = u1(unicode.IsNumber)
	m.Hooks["unicode.IsUpper"] = u1(unicode.IsUpper)
	m.Hooks["unicode.IsLower"] = u1(unicode.IsLower)
	m.Hooks["unicode.IsPunct"] = u1(unicode.IsPunct)
}

func inUpstreamAlphabet(c rune) bool {
	return (c >= '0' && c <= '9') || (c >= 'a' && c <= 'z') || (c >= 'A' && c <= 'Z') || strings.ContainsRune(".+~:-", c)
}
func inRevisionAlphabet(c rune) bool {
	return (c >= '0' && c <= '9') || (c >= 'a' && c <= 'z') || (c >= 'A' && c <= 'Z') || strings.ContainsRune(".+~", c)
}

// findParseFunction: the common repo callee of Parse, UnmarshalText and
// UnmarshalControl that takes (*Version, string) and returns error.
func findVersionParser(p *Prog) (*ssa.Function, map[string]bool, string) {
	reach := map[string]map[*ssa.Function]bool{}
	entries := map[string]*ssa.Function{
		"Parse":            p.Func("version", "Parse"),
		"UnmarshalText":    p.Method("version", "Version", "UnmarshalText"),
		"UnmarshalControl": p.Method("version", "Version", "UnmarshalControl"),
	}
	vt := p.Named("version", "Version")
	var cands []*ssa.Function
	for name, e := range entries {
		if e == nil {
			return nil, nil, "version." + name + " not found"
		}
		reach[name] = map[*ssa.Function]bool{}
		for _, f := range reachableRepoFuncs(e) {
			reach[name][f] = true
		}
	}
	for f := range reach["Parse"] {
		sig := f.Signature
		if sig.Params().Len() == 2 && errResultIndex(sig) == 0 && isStringT(sig.Params().At(1).Type()) {
			if pt, ok := sig.Params().At(0).Type().(*types.Pointer); ok && types.Identical(pt.Elem(), vt) {
				cands = append(cands, f)
			}
		}
	}
	if len(cands) != 1 {
		return nil, nil, fmt.Sprintf("expected one func(*Version, string) error reachable from Parse, found %d", len(cands))
	}
	who := map[string]bool{}
	for name := range entries {
		who[name] = reach[name][cands[0]]
	}
	return cands[0], who, ""
}

func checkC03(p *Prog, rp *Report) {
	rp.Explanation = "C03-ONE: Parse, UnmarshalText and UnmarshalControl all reach one parse function. C03-GUARDS: on that function's SSA every rejection the property names is a branch that returns an error and dominates every success return (trimmed first; empty; embedded white space; epoch located by the FIRST colon and parsed base 10, parse error and negative rejected; upstream non-empty after the revision split at the LAST hyphen; first upstream byte a digit). C03-ALPHA: the two character predicates evaluated abstractly on every byte and on probe runes equal the Policy alphabets. C03-RESET: every success path assigns Epoch, Version and Revision. C03-RENDER: decision table of String/StringWithoutEpoch (epoch iff >0 or ':' in upstream; '-' revision iff non-empty or '-' in upstream). C03-CODEC: Marshal* return String() through conversions only; Unmarshal* hand their argument to the parse function through conversions only. C03-EPOCHWIDTH: the integer parse cannot exceed the Epoch field on a 32 bit platform (GOARCH=386 load). Together (DESIGN §3 C03) ALPHA+GUARDS+RENDER imply render->parse is the identity on accepted values: the revision alphabet excludes ':' and '-', so the first colon / last hyphen of a rendering are the ones the renderer wrote."
	rp.NotDecided = "that the library calls used (strings.Index, LastIndex, IndexFunc, TrimSpace, strconv.ParseInt, fmt.Sprintf) behave as documented; acceptance of every string of the Policy grammar is implied by the guard table only under those contracts."
	rp.Trusted = []string{"go/types, go/ssa", "contracts of strings.*, strconv.ParseInt, unicode.IsSpace/IsDigit, fmt.Sprintf(%d:%s)", "Policy §5.6.12 alphabets as written in c03.go"}

	one := rp.Rule("C03-ONE", "all parsing entry points reach one parse function", 3)
	parser, who, why := findVersionParser(p)
	if parser == nil {
		one.undecided("version.parse-function", "", why)
		return
	}
	for _, e := range []string{"Parse", "UnmarshalControl", "UnmarshalText"} {
		one.check(who[e], "version."+e, p.Pos(parser.Pos()), "reaches "+fname(parser), "does not reach the parse function "+fname(parser)+": this entry point parses differently")
	}
	pos := p.Pos(parser.Pos())
	gs := guardsOf(parser)
	tm := newTermer()
	T := ""
	// the trimmed input: the only use of the input parameter must be TrimSpace
	g := rp.Rule("C03-GUARDS", "rejections named by the property are error-returning branches that dominate every success return", 9)
	{
		in := parser.Params[1]
		ok := true
		var trimmed ssa.Value
		for _, ref := range *in.Referrers() {
			c, isCall := ref.(*ssa.Call)
			if isCall && calleeName(c.Common()) == "strings.TrimSpace" {
				trimmed = c
				continue
			}
			if _, dbg := ref.(*ssa.DebugRef); dbg {
				continue
			}
			ok = false
		}
		if trimmed != nil {
			T = tm.term(trimmed)
		}
		g.check(ok && trimmed != nil, "trim-first", pos, "the input is only used through strings.TrimSpace", "the raw input is used other than through strings.TrimSpace: surrounding white space is not ignored uniformly")
	}
	find := func(match func(gd guard) (badSide int, ok bool), mustDominate bool) (guard, bool, string) {
		var why string
		for _, gd := range gs {
			side, ok := match(gd)
			if !ok {
				continue
			}
			if !rejectsOn(parser, gd, side) {
				why = "the test exists (" + gd.Term + ") but its failing side does not always return an error"
				continue
			}
			if mustDominate && !dominatesAllSuccess(parser, gd) {
				why = "the test exists (" + gd.Term + ") but a success return is reachable without passing it"
				continue
			}
			return gd, true, ""
		}
		if why == "" {
			why = "no such test in " + fname(parser)
		}
		return guard{}, false, why
	}
	// empty after trim
	{
		_, ok, why := find(func(gd guard) (int, bool) {
			x, side, ok := emptyTest(gd.Term)
			return side, ok && x == T
		}, true)
		g.check(ok, "empty", pos, "empty input rejected", "empty (or all-blank) input is not rejected: "+why)
	}
	// embedded white space
	{
		_, ok, why := find(func(gd guard) (int, bool) {
			x, side, ok := idxTest(gd.Term)
			if !ok {
				return 0, false
			}
			if x == "strings.IndexFunc("+T+",unicode.IsSpace)" || x == "strings.ContainsFunc("+T+",unicode.IsSpace)" || x == "strings.IndexAny("+T+",\" \\t\\n\\v\\f\\r\")" {
				return side, true
			}
			return 0, false
		}, true)
		g.check(ok, "embedded-space", pos, "embedded white space rejected", "embedded white space is not rejected: "+why)
	}
	// epoch: located by the first colon, parsed base 10, error and negative rejected
	epochStore := (*ssa.Store)(nil)
	var versionStores, revisionStores []*ssa.Store
	for _, b := range parser.Blocks {
		for _, ins := range b.Instrs {
			s, ok := ins.(*ssa.Store)
			if !ok {
				continue
			}
			switch tm.term(s.Addr) {
			case "&p0.Epoch":
				if _, isConst := s.Val.(*ssa.Const); !isConst {
					epochStore = s
				}
			case "&p0.Version":
				versionStores = append(versionStores, s)
			case "&p0.Revision":
				revisionStores = append(revisionStores, s)
			}
		}
	}
	colonIdx := regexp.QuoteMeta(T)
	firstColon := `(strings\.Index\(` + colonIdx + `,":"\)|strings\.IndexByte\(` + colonIdx + `,58\)|strings\.IndexRune\(` + colonIdx + `,58\))`
	parseRe := regexp.MustCompile(`^strconv\.(ParseInt|ParseUint)\(` + colonIdx + `\[:` + firstColon + `\],10,(\d+)\)#0$`)
	unsigned := false
	if epochStore == nil {
		g.bad("epoch-parse", pos, "no assignment of a parsed value to Epoch found", nil)
	} else {
		et := tm.term(epochStore.Val)
		mm := parseRe.FindStringSubmatch(et)
		if mm == nil {
			if strings.Contains(et, "LastIndex") {
				g.bad("epoch-parse", p.Pos(epochStore.Pos()), "the epoch is split off at the LAST colon: "+et, nil)
			} else {
				g.undecided("epoch-parse", p.Pos(epochStore.Pos()), "epoch value has an unrecognised shape: "+et)
			}
		} else {
			unsigned = mm[1] == "ParseUint"
			g.ok("epoch-parse", p.Pos(epochStore.Pos()), "epoch = base-10 integer parse of the text before the first colon")
			call := strings.TrimSuffix(et, "#0")
			_, ok, why := find(func(gd guard) (int, bool) {
				if gd.Term == "(nil != "+call+"#1)" {
					return 0, true
				}
				if gd.Term == "(nil == "+call+"#1)" {
					return 1, true
				}
				return 0, false
			}, false)
			dom := false
			for _, gd := range gs {
				if strings.Contains(gd.Term, call+"#1") && gd.If.Block().Dominates(epochStore.Block()) {
					dom = true
				}
			}
			g.check(ok && dom, "epoch-error", pos, "a non-numeric or oversized epoch is rejected before Epoch is assigned", "the integer parser's error is not checked before the epoch is stored: "+why)
			if unsigned {
				g.ok("epoch-negative", pos, "unsigned parse: a sign is a syntax error")
			} else {
				_, ok, why := find(func(gd guard) (int, bool) {
					if gd.Term == "("+call+"#0 < 0)" {
						return 0, true
					}
					if gd.Term == "(0 <= "+call+"#0)" {
						return 1, true
					}
					return 0, false
				}, false)
				dom := false
				for _, gd := range gs {
					if strings.Contains(gd.Term, call+"#0") && gd.If.Block().Dominates(epochStore.Block()) {
						dom = true
					}
				}
				g.check(ok && dom, "epoch-negative", pos, "a negative epoch is rejected before Epoch is assigned", "a negative epoch is not rejected: "+why)
			}
		}
	}
	// splits
	{
		okV, okR, okU := false, false, false
		wantV := regexp.MustCompile(`^` + colonIdx + `\[\(1 \+ ` + firstColon + `\):\]$`)
		for _, s := range versionStores {
			t := tm.term(s.Val)
			if wantV.MatchString(t) {
				okV = true
			}
			if t == `p0.Version[:strings.LastIndex(p0.Version,"-")]` || t == `p0.Version[:strings.LastIndexByte(p0.Version,45)]` {
				okU = true
			}
		}
		for _, s := range revisionStores {
			t := tm.term(s.Val)
			if t == `p0.Version[(1 + strings.LastIndex(p0.Version,"-")):]` || t == `p0.Version[(1 + strings.LastIndexByte(p0.Version,45)):]` {
				okR = true
			}
		}
		g.check(okV, "upstream-after-first-colon", pos, "upstream+revision = text after the first colon (the whole text without a colon)", "the text after the FIRST colon is not what is stored as upstream version")
		g.check(okR && okU, "revision-after-last-hyphen", pos, "revision = text after the LAST hyphen, upstream = text before it", "the revision is not split off at the LAST hyphen")
	}
	// upstream non-empty, checked after the revision split
	{
		var trunc *ssa.Store
		for _, s := range versionStores {
			if strings.Contains(tm.term(s.Val), "LastIndex") {
				trunc = s
			}
		}
		_, ok, why := find(func(gd guard) (int, bool) {
			x, side, ok := emptyTest(gd.Term)
			if !ok || x != "p0.Version" {
				return 0, false
			}
			if trunc != nil && !reachableFrom(trunc.Block())[gd.If.Block()] {
				return 0, false
			}
			return side, true
		}, true)
		g.check(ok, "upstream-non-empty", pos, "an empty upstream part (nothing after the colon, or nothing before the last hyphen) is rejected", "an empty upstream part is accepted (e.g. \"-1\" or \"1:\"): "+why)
	}
	// first character a digit
	{
		_, ok, why := find(func(gd guard) (int, bool) {
			t := gd.Term
			side := 1
			if strings.HasPrefix(t, "!") {
				t, side = t[1:], 0
			}
			if t == "unicode.IsDigit(p0.Version[0])" {
				return side, true
			}
			if mm := regexp.MustCompile(`^(version\.\w+)\(p0\.Version\[0\]\)$`).FindStringSubmatch(t); mm != nil {
				if f := p.Func("version", strings.TrimPrefix(mm[1], "version.")); f != nil {
					if tab, why := predicateTable(p, f, nil); why == "" {
						for c, v := range tab {
							if v != (c >= '0' && c <= '9') {
								return 0, false
							}
						}
						return side, true
					}
				}
			}
			return 0, false
		}, true)
		g.check(ok, "first-digit", pos, "an upstream part not starting with a digit is rejected", "an upstream part that does not start with a digit is accepted: "+why)
	}

	// C03-ALPHA
	al := rp.Rule("C03-ALPHA", "character predicates equal the Policy alphabets", 2)
	for _, part := range []struct {
		field string
		in    func(rune) bool
		name  string
	}{{"Version", inUpstreamAlphabet, "[A-Za-z0-9.+~:-]"}, {"Revision", inRevisionAlphabet, "[A-Za-z0-9.+~]"}} {
		found := false
		for _, gd := range gs {
			x, side, ok := idxTest(gd.Term)
			if !ok {
				continue
			}
			mm := regexp.MustCompile(`^strings\.(IndexFunc|ContainsFunc)\(p0\.` + part.field + `,(?:closure:)?(version\.[\w$]+)\)$`).FindStringSubmatch(x)
			if mm == nil {
				continue
			}
			found = true
			var pf *ssa.Function
			for _, f := range reachableRepoFuncs(parser) {
				if shortFn(f.String()) == mm[2] {
					pf = f
				}
			}
			key := "alphabet-" + strings.ToLower(part.field)
			if pf == nil {
				al.undecided(key, pos, "predicate "+mm[2]+" not found")
				continue
			}
			if len(pf.FreeVars) > 0 {
				al.undecided(key, p.Pos(pf.Pos()), "predicate captures variables")
				continue
			}
			tab, why := predicateTable(p, pf, nil)
			if why != "" {
				al.undecided(key, p.Pos(pf.Pos()), why)
				continue
			}
			var wrong []string
			var cs []rune
			for c := range tab {
				cs = append(cs, c)
			}
			sort.Slice(cs, func(i, j int) bool { return cs[i] < cs[j] })
			for _, c := range cs {
				if tab[c] == part.in(c) { // predicate true means "invalid"
					if tab[c] {
						wrong = append(wrong, fmt.Sprintf("%q rejected", c))
					} else {
						wrong = append(wrong, fmt.Sprintf("%q (%U) admitted", c, c))
					}
				}
			}
			ok2 := rejectsOn(parser, gd, side) && dominatesAllSuccess(parser, gd)
			if len(wrong) > 0 {
				if len(wrong) > 6 {
					wrong = append(wrong[:6], fmt.Sprintf("... %d in all", len(wrong)))
				}
				al.bad(key, p.Pos(pf.Pos()), fmt.Sprintf("the %s predicate differs from %s: %s", part.field, part.name, strings.Join(wrong, ", ")), nil)
			} else if !ok2 {
				al.bad(key, p.Pos(pf.Pos()), "the alphabet test does not reject on every path", nil)
			} else {
				al.ok(key, p.Pos(pf.Pos()), fmt.Sprintf("%d runes probed (all bytes, neighbours of every constant, Unicode probes): admits exactly %s", len(tab), part.name))
			}
		}
		if !found {
			al.bad("alphabet-"+strings.ToLower(part.field), pos, "no character test on "+part.field+" found", nil)
		}
	}

	// C03-RESET
	rs := rp.Rule("C03-RESET", "every success path assigns Epoch, Version and Revision", 3)
	for _, f := range []string{"Epoch", "Version", "Revision"} {
		through := map[*ssa.BasicBlock]bool{}
		for _, b := range parser.Blocks {
			for _, ins := range b.Instrs {
				if s, isS := ins.(*ssa.Store); isS {
					if t := tm.term(s.Addr); t == "&p0."+f || t == "p0" { // field store or whole-struct reset
						through[b] = true
					}
				}
			}
		}
		ok := len(through) > 0
		for _, r := range successReturns(parser) {
			if !everyPathPasses(parser, through, r.Block()) {
				ok = false
			}
		}
		rs.check(ok, "version.Version."+f, pos, "assigned on every success path", "not assigned on every success path: parsing into a used Version keeps the old "+f)
	}

	c03Render(p, rp)
	c03Codec(p, rp, parser)
	c03Width(p, rp)
}

func c03Render(p *Prog, rp *Report) {
	r := rp.Rule("C03-RENDER", "String prints the epoch iff >0 or the upstream contains ':', and '-'+revision iff non-empty or the upstream contains '-'", 2)
	vt := p.Named("version", "Version")
	for _, name := range []string{"String", "StringWithoutEpoch"} {
		fn := p.Method("version", "Version", name)
		key := "version.Version." + name
		if fn == nil {
			r.bad(key, "", "method not found", nil)
			continue
		}
		// the renderer may only look at its strings through Contains(':'/'-'), len, == ""
		okOps := true
		badOp := ""
		for _, f := range reachableRepoFuncs(fn) {
			for _, c := range allCalls(f) {
				n := calleeName(c.Common())
				switch {
				case n == "fmt.Sprintf", n == "strconv.Itoa", n == "strconv.FormatUint", n == "strconv.FormatInt", n == "builtin:len", strings.HasPrefix(n, "(pault.ag/go/debian/version.Version)"):
				case n == "strings.Contains" || n == "strings.ContainsRune" || n == "strings.IndexByte" || n == "strings.Index" || n == "strings.ContainsAny":
					if s, ok := constString(c.Common().Args[1]); ok && (s == ":" || s == "-") {
						continue
					}
					if v, ok := constInt(c.Common().Args[1]); ok && (v == ':' || v == '-') {
						continue
					}
					okOps, badOp = false, n+" with an unexpected needle"
				default:
					okOps, badOp = false, "call of "+n
				}
			}
		}
		if !okOps {
			r.undecided(key, p.Pos(fn.Pos()), "renderer uses an operation outside the table model: "+badOp)
			continue
		}
		bad := ""
		rows := 0
		for _, ep := range []int64{0, 1, 17} {
			for _, up := range []string{"1.0", "1:2", "1-2", "1:2-3"} {
				for _, rev := range []string{"", "r1"} {
					m := NewMachine(p, nil)
					installStringModels(m)
					m.Hooks["fmt.Sprintf"] = sprintfModel
					st := &State{Heap: map[int]*HObj{}, Notes: map[string]bool{}}
					st.push(fn, []Val{mkStruct(vt, map[string]Val{"Epoch": ep, "Version": up, "Revision": rev})}, nil)
					out := m.Run(st)
					rows++
					if len(out) != 1 || out[0].Status != stRet {
						bad = "undecided: " + retDesc(out)
						continue
					}
					want := up
					if rev != "" || strings.Contains(up, "-") {
						want += "-" + rev
					}
					if name == "String" && (ep > 0 || strings.Contains(up, ":")) {
						want = fmt.Sprintf("%d:%s", ep, want)
					}
					if out[0].Ret != want && bad == "" {
						bad = fmt.Sprintf("{Epoch:%d Version:%q Revision:%q} renders as %v, want %q (the rendering must parse back to the same value)", ep, up, rev, out[0].Ret, want)
					}
				}
			}
		}
		if strings.HasPrefix(bad, "undecided") {
			r.undecided(key, p.Pos(fn.Pos()), bad)
		} else {
			r.check(bad == "", key, p.Pos(fn.Pos()), fmt.Sprintf("%d rows: one representative per combination of (epoch zero?, ':' in upstream?, '-' in upstream?, revision empty?)", rows), bad)
		}
	}
}

// sprintfModel handles the verbs %d %s %v %q on exact arguments.
func sprintfModel(m *Machine, st *State, call *ssa.CallCommon, args []Val) ([]Val, bool) {
	format, ok := args[0].(string)
	if !ok {
		return nil, false
	}
	elems, many, ok := m.sliceElems(st, args[1])
	if !ok || many {
		return nil, false
	}
	var goArgs []interface{}
	for _, e := range elems {
		if iv, isI := e.(IfaceV); isI {
			e = iv.V
		}
		switch x := e.(type) {
		case int64:
			goArgs = append(goArgs, x)
		case string:
			goArgs = append(goArgs, x)
		case bool:
			goArgs = append(goArgs, x)
		default:
			return nil, false
		}
	}
	return []Val{fmt.Sprintf(format, goArgs...)}, true
}

func c03Codec(p *Prog, rp *Report, parser *ssa.Function) {
	r := rp.Rule("C03-CODEC", "Marshal* = String() through conversions only; Unmarshal* pass their argument to the parser through conversions only", 4)
	tm := newTermer()
	for _, name := range []string{"MarshalText", "MarshalControl"} {
		fn := p.Method("version", "Version", name)
		key := "version.Version." + name
		if fn == nil {
			r.bad(key, "", "method not found", nil)
			continue
		}
		ok := true
		detail := ""
		for _, ret := range returnsReachable(fn.Blocks[0]) {
			t := tm.term(ret.Results[0])
			if !regexp.MustCompile(`^\(version\.Version\)\.String\((\*?p0|p0)\)$`).MatchString(t) {
				ok, detail = false, "returns "+t+" instead of the text String() renders"
			}
			if !isNilConst(ret.Results[1]) {
				ok, detail = false, "returns a non-nil error"
			}
		}
		r.check(ok, key, p.Pos(fn.Pos()), "returns exactly String()", detail)
	}
	for _, name := range []string{"UnmarshalText", "UnmarshalControl"} {
		fn := p.Method("version", "Version", name)
		key := "version.Version." + name
		if fn == nil {
			r.bad(key, "", "method not found", nil)
			continue
		}
		// find the call chain to the parser; the string argument must be p1 (converted)
		ok := false
		detail := "the parse function is not called with the method's argument"
		var visit func(f *ssa.Function, argTerm string, depth int)
		visit = func(f *ssa.Function, argIs string, depth int) {
			if depth > 3 {
				return
			}
			t := newTermer()
			for _, c := range allCalls(f) {
				callee := c.Common().StaticCallee()
				if callee == nil || !inRepo(callee) {
					continue
				}
				for ai, a := range c.Common().Args {
					if isStringT(a.Type()) && t.term(a) == argIs {
						if callee == parser {
							ok = true
						} else {
							visit(callee, fmt.Sprintf("p%d", ai), depth+1)
						}
					}
				}
			}
		}
		visit(fn, "p1", 0)
		// the receiver must be what is filled: either parser(p0, ...) or *p0 = Parse(...)
		r.check(ok, key, p.Pos(fn.Pos()), "hands its argument (through conversions only) to the parse function", detail)
	}
}

// c03Width: load package version for GOARCH=386 and check that the integer
// parse of the epoch is limited to the width of the Epoch field.
func c03Width(p *Prog, rp *Report) {
	r := rp.Rule("C03-EPOCHWIDTH", "the parsed epoch fits the Epoch field on 32 bit platforms", 1)
	p386, err := Load(repoDir(), "386", activeOverlay, "./version/")
	if err != nil {
		rp.Errorf("386 load: %v", err)
		return
	}
	var parser *ssa.Function
	for _, f := range p386.SrcFuncs("version") {
		sig := f.Signature
		if sig.Params().Len() == 2 && errResultIndex(sig) == 0 && isStringT(sig.Params().At(1).Type()) {
			if _, ok := sig.Params().At(0).Type().(*types.Pointer); ok {
				parser = f
			}
		}
	}
	if parser == nil {
		r.undecided("version.parse-function(386)", "", "parse function not found in the 386 load")
		return
	}
	vt := p386.Named("version", "Version")
	fi := fieldIndex(structOf(vt), "Epoch")
	sizes := types.SizesFor("gc", "386")
	fieldBits := sizes.Sizeof(structOf(vt).Field(fi).Type()) * 8
	found := false
	for _, c := range allCalls(parser) {
		n := calleeName(c.Common())
		if n != "strconv.ParseInt" && n != "strconv.ParseUint" && n != "strconv.Atoi" {
			continue
		}
		found = true
		bits := int64(32) // Atoi: int
		if n != "strconv.Atoi" {
			b, ok := constInt(c.Common().Args[2])
			if !ok {
				r.undecided("version.epoch-parse(386)", p386.Pos(c.Pos()), "bit size is not a constant")
				return
			}
			bits = b
			if bits == 0 {
				bits = 32
			}
		}
		// signed parse of `bits` bits yields < 2^(bits-1); unsigned field of fieldBits holds < 2^fieldBits
		limit := bits
		if n != "strconv.ParseUint" {
			limit = bits - 1
		}
		r.check(limit <= fieldBits, "version.epoch-parse(386)", p386.Pos(c.Pos()),
			fmt.Sprintf("%s with %d bits fits the %d bit Epoch field", n, bits, fieldBits),
			fmt.Sprintf("%s accepts %d bit values but Epoch has %d bits on 386: an oversized epoch is truncated instead of rejected", n, bits, fieldBits))
	}
	if !found {
		r.undecided("version.epoch-parse(386)", p386.Pos(parser.Pos()), "no integer parse found")
	}
}
