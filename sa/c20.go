package main

// C20 — upload Copy / Move / Remove. The six methods and internal.Copy are
// interpreted abstractly with every filesystem call replaced by an oracle that
// records the effect and forks into success and failure.

import (
	"fmt"
	"go/types"
	"path/filepath"
	"sort"
	"strings"

	"golang.org/x/tools/go/ssa"
)

func init() { register("C20", checkC20) }

type fsRun struct {
	effects []string
	errNil  bool
	st      *State
}

// fsMachine installs oracles for the filesystem calls. copyAtomic: treat
// internal.Copy as one effect (method level) instead of interpreting it.
func fsMachine(p *Prog, copyAtomic bool) *Machine {
	m := NewMachine(p, nil)
	installStringModels(m)
	ifT := types.NewPointer(types.Typ[types.Int])
	eff := func(st *State, s string) { st.Effects = append(st.Effects, s) }
	okFail := func(name string, nres int) HookFn {
		return func(m *Machine, st *State, call *ssa.CallCommon, args []Val) ([]Val, bool) {
			var as []string
			for _, a := range args {
				as = append(as, valStr(a))
			}
			desc := name + "(" + strings.Join(as, ",") + ")"
			// the effect is recorded by the branch taken: encode via alternatives + OnResume trick:
			// we record "try" now and the outcome when the error is inspected is implicit in errNil of alternatives.
			eff(st, desc)
			e := IfaceV{T: errType, V: "failed " + desc}
			switch nres {
			case 1:
				return []Val{tagged{nilV{}, desc + "=ok"}, tagged{e, desc + "=fail"}}, true
			default:
				id := st.alloc(types.Typ[types.Int], OpaqueV{"handle:" + desc})
				return []Val{tagged{&TupleV{E: []Val{Ptr{Obj: id}, nilV{}}}, desc + "=ok"}, tagged{&TupleV{E: []Val{nilV{}, e}}, desc + "=fail"}}, true
			}
		}
	}
	m.Hooks["os.SameFile"] = func(m *Machine, st *State, call *ssa.CallCommon, args []Val) ([]Val, bool) {
		return []Val{false}, true
	}
	m.Hooks["os.Link"] = okFail("link", 1)
	m.Hooks["os.Symlink"] = okFail("symlink", 1)
	m.Hooks["os.Remove"] = okFail("remove", 1)
	m.Hooks["os.Rename"] = okFail("rename", 1)
	m.Hooks["os.Open"] = okFail("open", 2)
	m.Hooks["os.Create"] = okFail("create", 2)
	m.Hooks["os.OpenFile"] = okFail("openfile", 2)
	m.Hooks["(*os.File).Close"] = func(m *Machine, st *State, call *ssa.CallCommon, args []Val) ([]Val, bool) {
		name := "?"
		if pp, ok := args[0].(Ptr); ok {
			if o, ok := st.Heap[pp.Obj]; ok {
				name = valStr(o.V)
			}
		}
		desc := "close(" + name + ")"
		// a second close of the same handle is harmless and not an effect of interest
		for _, e := range st.Effects {
			if e == desc {
				return []Val{nilV{}}, true
			}
		}
		eff(st, desc)
		return []Val{tagged{nilV{}, desc + "=ok"}, tagged{IfaceV{T: errType, V: "failed " + desc}, desc + "=fail"}}, true
	}
	for _, meth := range []string{"Sync", "Chmod", "Truncate"} {
		meth := meth
		m.Hooks["(*os.File)."+meth] = func(m *Machine, st *State, call *ssa.CallCommon, args []Val) ([]Val, bool) {
			name := "?"
			if pp, ok := args[0].(Ptr); ok {
				if o, ok := st.Heap[pp.Obj]; ok {
					name = valStr(o.V)
				}
			}
			desc := strings.ToLower(meth) + "(" + name + ")"
			eff(st, desc)
			return []Val{tagged{nilV{}, desc + "=ok"}, tagged{IfaceV{T: errType, V: "failed " + desc}, desc + "=fail"}}, true
		}
	}
	m.Hooks["(*os.File).Stat"] = func(m *Machine, st *State, call *ssa.CallCommon, args []Val) ([]Val, bool) {
		id := st.alloc(types.Typ[types.Int], OpaqueV{"fileinfo:src"})
		return []Val{&TupleV{E: []Val{IfaceV{T: ifT, V: Ptr{Obj: id}}, nilV{}}}}, true
	}
	m.Hooks["(io/fs.FileMode).Perm"] = func(m *Machine, st *State, call *ssa.CallCommon, args []Val) ([]Val, bool) {
		return []Val{args[0]}, true
	}
	m.Hooks["(io/fs.FileMode).IsDir"] = func(m *Machine, st *State, call *ssa.CallCommon, args []Val) ([]Val, bool) {
		mode, ok := args[0].(int64)
		return []Val{mode&(1<<31) != 0}, ok
	}
	m.Hooks["(io/fs.FileMode).IsRegular"] = func(m *Machine, st *State, call *ssa.CallCommon, args []Val) ([]Val, bool) {
		mode, ok := args[0].(int64)
		return []Val{mode&(1<<31) == 0}, ok
	}
	m.Hooks["io.Copy"] = func(m *Machine, st *State, call *ssa.CallCommon, args []Val) ([]Val, bool) {
		eff(st, "iocopy")
		return []Val{tagged{&TupleV{E: []Val{int64(10), nilV{}}}, "iocopy=ok"}, tagged{&TupleV{E: []Val{int64(3), IfaceV{T: errType, V: "failed iocopy"}}}, "iocopy=fail"}}, true
	}
	m.Hooks["os.Stat"] = func(m *Machine, st *State, call *ssa.CallCommon, args []Val) ([]Val, bool) {
		mk := func(kind string) Val {
			id := st.alloc(types.Typ[types.Int], OpaqueV{"fileinfo:" + kind})
			return IfaceV{T: ifT, V: Ptr{Obj: id}}
		}
		return []Val{
			tagged{&TupleV{E: []Val{mk("dir"), nilV{}}}, "stat=dir"},
			tagged{&TupleV{E: []Val{mk("file"), nilV{}}}, "stat=file"},
			tagged{&TupleV{E: []Val{nilV{}, IfaceV{T: errType, V: "stat failed"}}}, "stat=missing"},
		}, true
	}
	// Lstat answers like Stat; sizes and modification times of files are the environment's: the comparisons on them
	// go both ways (two sizes, any order of two times), so a path that depends on them is explored under each answer
	m.Hooks["os.Lstat"] = m.Hooks["os.Stat"]
	for _, cmp := range []string{"Before", "After", "Equal"} {
		m.Hooks["(time.Time)."+cmp] = func(m *Machine, st *State, call *ssa.CallCommon, args []Val) ([]Val, bool) {
			return []Val{true, false}, true
		}
	}
	m.Hooks["(time.Time).Compare"] = func(m *Machine, st *State, call *ssa.CallCommon, args []Val) ([]Val, bool) {
		return []Val{int64(-1), int64(0), int64(1)}, true
	}
	m.Hooks["(time.Time).IsZero"] = func(m *Machine, st *State, call *ssa.CallCommon, args []Val) ([]Val, bool) {
		return []Val{false}, true
	}
	m.InvokeHook = func(m *Machine, st *State, call *ssa.CallCommon, recv Val, args []Val) ([]Val, bool) {
		if call.Method.Name() == "Size" && len(args) == 0 {
			if iv, ok := recv.(IfaceV); ok {
				if pp, ok := iv.V.(Ptr); ok {
					if o, ok := st.Heap[pp.Obj].V.(OpaqueV); ok && strings.HasPrefix(o.Name, "fileinfo:") {
						return []Val{int64(10), int64(11)}, true
					}
				}
			}
		}
		if call.Method.Name() == "ModTime" && len(args) == 0 {
			if iv, ok := recv.(IfaceV); ok {
				if pp, ok := iv.V.(Ptr); ok {
					if o, ok := st.Heap[pp.Obj].V.(OpaqueV); ok && strings.HasPrefix(o.Name, "fileinfo:") {
						return []Val{OpaqueV{"mtime:" + o.Name}}, true
					}
				}
			}
		}
		if call.Method.Name() == "IsDir" {
			if iv, ok := recv.(IfaceV); ok {
				if pp, ok := iv.V.(Ptr); ok {
					if o, ok := st.Heap[pp.Obj].V.(OpaqueV); ok {
						return []Val{o.Name == "fileinfo:dir"}, true
					}
				}
			}
		}
		if call.Method.Name() == "Mode" {
			if iv, ok := recv.(IfaceV); ok {
				if pp, ok := iv.V.(Ptr); ok {
					if o, ok := st.Heap[pp.Obj].V.(OpaqueV); ok {
						if o.Name == "fileinfo:dir" {
							return []Val{int64(1) << 31}, true // fs.ModeDir
						}
						return []Val{int64(0644)}, true
					}
				}
			}
		}
		if call.Method.Name() == "Close" {
			return m.Hooks["(*os.File).Close"](m, st, call, append([]Val{recvPtr(recv)}, args...))
		}
		return nil, false
	}
	if copyAtomic {
		m.Hooks[repoModule+"/internal.Copy"] = okFail("copy", 1)
	}
	return m
}

func recvPtr(v Val) Val {
	if iv, ok := v.(IfaceV); ok {
		return iv.V
	}
	return v
}

// tagged wraps an alternative with the effect outcome to record when it is taken.
type tagged struct {
	V   Val
	Tag string
}

// untag is applied by the driver: alternatives are recorded in Effects when chosen.
func runFS(m *Machine, st *State) []fsRun {
	// the machine's fork mechanism clones per alternative; we post-process by
	// unwrapping `tagged` values at the point they are assigned.
	m.AltFilter = func(st *State, v Val) Val {
		if t, ok := v.(tagged); ok {
			st.Effects = append(st.Effects, t.Tag)
			return t.V
		}
		return v
	}
	defer func() { m.AltFilter = nil }()
	var out []fsRun
	for _, o := range m.Run(st) {
		r := fsRun{effects: o.Effects, st: o}
		if o.Status == stRet {
			switch rv := o.Ret.(type) {
			case nilV:
				r.errNil = true
			case *TupleV:
				_, r.errNil = rv.E[len(rv.E)-1].(nilV)
			}
		}
		out = append(out, r)
	}
	return out
}

func checkC20(p *Prog, rp *Report) {
	defer stateRule(p, rp, "C20-STATE", p.Method("control", "DSC", "Copy"), p.Method("control", "DSC", "Move"), p.Method("control", "DSC", "Remove"), p.Method("control", "Changes", "Copy"), p.Method("control", "Changes", "Move"), p.Method("control", "Changes", "Remove"), p.Func("internal", "Copy"))
	rp.Explanation = "DSC/Changes Copy, Move, Remove and internal.Copy are interpreted abstractly with os.Stat/Open/Create/Rename/Remove, io.Copy, Close and internal.Copy replaced by oracles that record the effect and fork into success and failure, on handles listing two referenced files. For every path: C20-LAST the control file is touched only after every referenced-file operation succeeded and nothing is touched after it; any failing step returns an error; C20-DEST destinations are dest+\"/\"+Base(source); C20-MOVE the control file of Move is transferred with one rename; C20-HANDLE on success the handle's Filename is the destination path; after a successful Copy or Move a following Remove acts on the new location; C20-SRC before any filesystem effect every listed name is validated and \"\", \".\", \"..\", names with '/', absolute paths and '..' components are refused (table over listed names); C20-HANDLEFIELD the Filename of a DSC/Changes handle is excluded from decoding (control:\"-\"), so a 'Filename:' field in the document cannot redirect the operations; C20-CLEAN in internal.Copy every failure after the destination was created removes it, the destination's close error is returned, the source is closed on every path."
	rp.NotDecided = "what the kernel does under real faults; that rename/copy preserve bytes; the order in which an inotify watcher observes the calls (follows from C20-LAST only under sequential execution of the calls)."
	rp.Trusted = []string{"go/types, go/ssa", "os, io, path, path/filepath contracts as modelled in models.go / c20.go"}

	last := rp.Rule("C20-LAST", "control file last; every failure is returned; nothing after a failure", 6)
	dest := rp.Rule("C20-DEST", "destination paths are dest + \"/\" + Base(source)", 4)
	mv := rp.Rule("C20-MOVE", "Move transfers the control file with a single rename", 2)
	hd := rp.Rule("C20-HANDLE", "after a successful Copy/Move the handle points at the new location", 4)
	src := rp.Rule("C20-SRC", "listed file names cannot leave the control file's directory", 6)

	for _, typ := range []string{"DSC", "Changes"} {
		nt := p.Named("control", typ)
		if nt == nil {
			last.bad("control."+typ, "", "type not found", nil)
			continue
		}
		filesFI := fieldIndex(structOf(nt), "Files")
		elemT := structOf(nt).Field(filesFI).Type().Underlying().(*types.Slice).Elem().(*types.Named)
		fhT := p.Named("control", "FileHash")
		mkHandle := func(st *State, names []string) int {
			arr := &ArrayV{}
			for _, n := range names {
				e := zeroVal(elemT).(*StructV)
				// embedded FileHash is field 0 of MD5FileHash / FileListChangesFileHash
				e.F[0] = mkStruct(fhT, map[string]Val{"Filename": n, "Hash": "h", "Algorithm": "md5"})
				arr.E = append(arr.E, e)
			}
			aid := st.alloc(types.NewArray(elemT, int64(len(names))), arr)
			return st.alloc(nt, mkStruct(nt, map[string]Val{"Filename": "/srv/incoming/pkg_1.0.ctl", "Files": SliceV{Obj: aid, Len_: len(names), Cap: len(names)}}))
		}
		ctl := "/srv/incoming/pkg_1.0.ctl"
		refs := []string{"/srv/incoming/a.tar.gz", "/srv/incoming/b.tar.xz"}
		for _, op := range []string{"Copy", "Move", "Remove"} {
			fn := p.Method("control", typ, op)
			key := "control." + typ + "." + op
			if fn == nil {
				last.bad(key, "", "method not found", nil)
				continue
			}
			pos := p.Pos(fn.Pos())
			m := fsMachine(p, true)
			st := initState(m, "control")
			id := mkHandle(st, []string{"a.tar.gz", "b.tar.xz"})
			args := []Val{Ptr{Obj: id}}
			if op != "Remove" {
				args = append(args, "/srv/queue")
			}
			st.push(fn, args, nil)
			runs := runFS(m, st)
			var problems, destProblems, moveProblems, handleProblems []string
			nsucc := 0
			for _, r := range runs {
				if r.st.Status != stRet {
					problems = append(problems, "undecided: "+retDesc([]*State{r.st}))
					continue
				}
				// parse effects: "<op>(args)" followed by "<op>(args)=ok|fail"
				type step struct {
					op, a, b string
					ok       bool
				}
				var steps []step
				statKind := ""
				for _, e := range r.effects {
					if strings.HasPrefix(e, "stat=") {
						statKind = strings.TrimPrefix(e, "stat=")
						continue
					}
					i := strings.LastIndex(e, "=")
					if i < 0 || !strings.HasSuffix(e[:i], ")") {
						continue
					}
					body := e[:i]
					opn := body[:strings.Index(body, "(")]
					as := strings.Split(strings.Trim(body[len(opn):], "()"), ",")
					s := step{op: opn, ok: e[i+1:] == "ok"}
					if len(as) > 0 {
						s.a = strings.Trim(as[0], `"`)
					}
					if len(as) > 1 {
						s.b = strings.Trim(as[1], `"`)
					}
					steps = append(steps, s)
				}
				failed := false
				ctlSeen := false
				done := map[string]bool{}
				for _, s := range steps {
					if failed {
						problems = append(problems, fmt.Sprintf("%s(%s) is still performed after an earlier step failed", s.op, s.a))
					}
					if ctlSeen {
						problems = append(problems, fmt.Sprintf("%s(%s) happens after the control file was touched", s.op, s.a))
					}
					if s.a == ctl {
						ctlSeen = true
						for _, rf := range refs {
							if !done[rf] {
								problems = append(problems, fmt.Sprintf("the control file is %sd before the referenced file %s was (an incoming-queue watcher would see an incomplete upload)", s.op, filepath.Base(rf)))
							}
						}
						if op == "Move" && s.op != "rename" {
							moveProblems = append(moveProblems, "the control file of Move is transferred by "+s.op+", not by one atomic rename: on failure it may be at both or neither place")
						}
					} else if s.ok {
						done[s.a] = true
					}
					if !s.ok {
						failed = true
					}
					if op != "Remove" {
						want := "/srv/queue/" + filepath.Base(s.a)
						if s.b != want {
							destProblems = append(destProblems, fmt.Sprintf("%s of %s goes to %q, want %q", s.op, s.a, s.b, want))
						}
					}
					switch op {
					case "Copy":
						if s.op != "copy" {
							problems = append(problems, "Copy performs "+s.op+" on "+s.a)
						}
					case "Move":
						if s.op != "rename" && s.a != ctl {
							problems = append(problems, "Move performs "+s.op+" on "+s.a)
						}
					case "Remove":
						if s.op != "remove" {
							problems = append(problems, "Remove performs "+s.op+" on "+s.a)
						}
					}
					if s.a != ctl && s.a != refs[0] && s.a != refs[1] {
						problems = append(problems, fmt.Sprintf("%s touches %q, which is neither the control file nor a referenced file in its directory", op, s.a))
					}
				}
				if failed && r.errNil {
					problems = append(problems, "a failing step is not reported: the method returns nil")
				}
				if statKind == "file" && (r.errNil || len(steps) > 0) {
					problems = append(problems, "a destination that is not a directory is not refused before anything is touched")
				}
				if !failed && r.errNil && statKind != "file" {
					nsucc++
					if !ctlSeen || len(done) != 2 {
						problems = append(problems, fmt.Sprintf("success without transferring everything (steps %v)", steps))
					}
					if op != "Remove" {
						hv, _ := r.st.load(Ptr{Obj: id})
						got := valStr(hv.(*StructV).F[fieldIndex(structOf(nt), "Filename")])
						if got != `"/srv/queue/pkg_1.0.ctl"` {
							handleProblems = append(handleProblems, "after a successful "+op+" the handle's Filename is "+got)
						}
					}
				}
			}
			if nsucc == 0 {
				problems = append(problems, "no fully successful path")
			}
			fill := func(r *Rule, probs []string, okMsg string) {
				for _, pr := range probs {
					if strings.HasPrefix(pr, "undecided") {
						r.undecided(key, pos, pr)
						return
					}
				}
				probs = uniq(probs)
				if len(probs) > 3 {
					probs = append(probs[:3], "...")
				}
				r.check(len(probs) == 0, key, pos, okMsg, strings.Join(probs, "; "))
			}
			fill(last, problems, fmt.Sprintf("%d paths (stat outcome x success/failure at each step): referenced files first, control file last, first failure returned", len(runs)))
			if op != "Remove" {
				fill(dest, destProblems, "every destination is dest + \"/\" + Base(source)")
				fill(hd, handleProblems, "Filename = dest + \"/\" + Base(old Filename) on success")
			}
			if op == "Move" {
				fill(mv, moveProblems, "control file renamed")
			}

			// after a successful Copy / Move the handle lives in the destination: a following Remove acts there
			if op != "Remove" {
				var seqProblems []string
				rm := p.Method("control", typ, "Remove")
				for _, r0 := range runs {
					if rm == nil || r0.st.Status != stRet || !r0.errNil {
						continue
					}
					st3 := r0.st
					nBefore := len(st3.Effects)
					st3.Status = stRun
					st3.Frames = nil
					st3.push(rm, []Val{Ptr{Obj: id}}, nil)
					for _, r2 := range runFS(m, st3) {
						if r2.st.Status != stRet {
							seqProblems = append(seqProblems, "undecided: "+retDesc([]*State{r2.st}))
							continue
						}
						for _, e := range r2.effects[nBefore:] {
							if strings.HasPrefix(e, "remove(") && !strings.Contains(e, ")=") && !strings.Contains(e, `"/srv/queue/`) {
								seqProblems = append(seqProblems, fmt.Sprintf("after a successful %s to /srv/queue, Remove deletes %s: it acts on the files left behind in the source directory, not on the handle's new location", op, e))
							}
						}
					}
					break // one successful path is enough: the handle's state is the same on all of them
				}
				fill(hd, uniq(seqProblems), "Remove after a successful "+op+" deletes the files at the new location")
			}

			// C20-SRC: validation table — any refused name means NO filesystem effect at all
			var srcProblems []string
			plainOK := false
			for _, name := range []string{"", ".", "..", "../secret", "/etc/passwd", "sub/x.tar", "x/../../y", "../incoming-private/key", "ok.tar.gz"} {
				m2 := fsMachine(p, true)
				st2 := initState(m2, "control")
				id2 := mkHandle(st2, []string{"a.tar.gz", name})
				args2 := []Val{Ptr{Obj: id2}}
				if op != "Remove" {
					args2 = append(args2, "/srv/queue")
				}
				st2.push(fn, args2, nil)
				for _, r := range runFS(m2, st2) {
					if r.st.Status != stRet {
						srcProblems = append(srcProblems, "undecided: "+retDesc([]*State{r.st}))
						continue
					}
					plain := name == "ok.tar.gz"
					outside := ""
					for _, e := range r.effects {
						i := strings.Index(e, "(")
						if strings.HasPrefix(e, "stat") || i < 0 || strings.Contains(e, ")=") {
							continue
						}
						for _, a := range strings.Split(strings.Trim(e[i:], "()"), ",") {
							a = strings.Trim(a, `"`)
							if !strings.HasPrefix(a, "/") {
								continue
							}
							c := filepath.Clean(a)
							if !strings.HasPrefix(c, "/srv/incoming/") && !strings.HasPrefix(c, "/srv/queue/") {
								outside = e
							}
						}
					}
					if outside != "" {
						srcProblems = append(srcProblems, fmt.Sprintf("with the listed name %q the operation %s acts outside the control file's directory (/srv/incoming) and the destination", name, outside))
						break
					}
					if plain && r.errNil {
						plainOK = true
					}
				}
			}
			// the same names placed in the other checksum lists of the handle (Checksums-Sha1, -Sha256, ...), the
			// Files list being clean: whatever the operation does with those lists, it must not leave the directories
			nst := structOf(nt)
			for fi := 0; fi < nst.NumFields(); fi++ {
				f := nst.Field(fi)
				sl, isSl := f.Type().Underlying().(*types.Slice)
				if !isSl || f.Name() == "Files" {
					continue
				}
				en, isNamed := sl.Elem().(*types.Named)
				if !isNamed {
					continue
				}
				es, isStruct := en.Underlying().(*types.Struct)
				if !isStruct || es.NumFields() == 0 || es.Field(0).Type() != types.Type(fhT) {
					continue
				}
				for _, name := range []string{"../secret", "/etc/passwd", "sub/x.tar", "../secret|no Files", "/etc/passwd|no Files"} {
					m2 := fsMachine(p, true)
					st2 := initState(m2, "control")
					files := []string{"a.tar.gz", "b.tar.xz"}
					if strings.HasSuffix(name, "|no Files") {
						// a document without a Files field: the other lists are all there is
						name, files = strings.TrimSuffix(name, "|no Files"), nil
					}
					id2 := mkHandle(st2, files)
					arr := &ArrayV{}
					for _, n := range []string{"a.tar.gz", name} {
						e := zeroVal(en).(*StructV)
						e.F[0] = mkStruct(fhT, map[string]Val{"Filename": n, "Hash": "h", "Algorithm": "sha"})
						arr.E = append(arr.E, e)
					}
					aid := st2.alloc(types.NewArray(en, 2), arr)
					st2.Heap[id2].V.(*StructV).F[fi] = SliceV{Obj: aid, Len_: 2, Cap: 2}
					args2 := []Val{Ptr{Obj: id2}}
					if op != "Remove" {
						args2 = append(args2, "/srv/queue")
					}
					st2.push(fn, args2, nil)
					for _, r := range runFS(m2, st2) {
						if r.st.Status != stRet {
							srcProblems = append(srcProblems, "undecided: "+retDesc([]*State{r.st}))
							continue
						}
						for _, e := range r.effects {
							i := strings.Index(e, "(")
							if strings.HasPrefix(e, "stat") || i < 0 || strings.Contains(e, ")=") {
								continue
							}
							for _, a := range strings.Split(strings.Trim(e[i:], "()"), ",") {
								a = strings.Trim(a, `"`)
								if !strings.HasPrefix(a, "/") {
									continue
								}
								c := filepath.Clean(a)
								if !strings.HasPrefix(c, "/srv/incoming/") && !strings.HasPrefix(c, "/srv/queue/") {
									srcProblems = append(srcProblems, fmt.Sprintf("with the name %q listed in %s (not in Files) the operation %s acts outside the control file's directory and the destination", name, f.Name(), e))
								}
							}
						}
					}
				}
			}
			srcProblems = uniq(srcProblems)
			if !plainOK {
				srcProblems = append(srcProblems, "an upload listing only plain file names cannot succeed")
			}
			fill(src, srcProblems, "9 listed names (empty, ., .., ../x, absolute, sub/x, x/../../y, sibling-directory prefix, plain): no filesystem call ever names a path outside the control file's directory and the destination")
		}
	}
	c20Path(p, rp)
	hf := rp.Rule("C20-HANDLEFIELD", "the handle's path cannot be set from inside the document", 2)
	tagRule(p, hf, func(doc string, ti tagInfo, kind string) bool { return kind == "go-only" })
	c20Clean(p, rp)
}

func uniq(in []string) []string {
	seen := map[string]bool{}
	var out []string
	for _, s := range in {
		if !seen[s] {
			seen[s] = true
			out = append(out, s)
		}
	}
	sort.Strings(out)
	return out
}

func c20Clean(p *Prog, rp *Report) {
	r := rp.Rule("C20-CLEAN", "internal.Copy: failure after creating the destination removes it; close error returned; source closed", 1)
	fn := p.Func("internal", "Copy")
	if fn == nil {
		r.bad("internal.Copy", "", "function not found", nil)
		return
	}
	pos := p.Pos(fn.Pos())
	m := fsMachine(p, false)
	st := initState(m, "internal")
	st.push(fn, []Val{"SRC", "DST"}, nil)
	runs := runFS(m, st)
	var problems []string
	for _, run := range runs {
		if run.st.Status != stRet {
			problems = append(problems, "undecided: "+retDesc([]*State{run.st}))
			continue
		}
		ef := run.effects
		has := func(s string) bool {
			for _, e := range ef {
				if e == s {
					return true
				}
			}
			return false
		}
		idx := func(s string) int {
			for i, e := range ef {
				if e == s {
					return i
				}
			}
			return -1
		}
		if hasPrefix(ef, "link(", "") || hasPrefix(ef, "symlink(", "") {
			problems = append(problems, "the destination is made with a link instead of being written: a hard link to a symbolic link is that link again (it dangles in the destination), and the two names share one file afterwards")
			continue
		}
		opened := has(`open("SRC")=ok`)
		created := has(`create("DST")=ok`) || hasPrefix(ef, `openfile("DST"`, "=ok")
		copyFail := has("iocopy=fail")
		closeFail := false
		for _, e := range ef {
			if strings.HasPrefix(e, "close(handle:create") && strings.HasSuffix(e, "=fail") || strings.HasPrefix(e, "close(handle:openfile") && strings.HasSuffix(e, "=fail") {
				closeFail = true
			}
		}
		removed := hasPrefix(ef, `remove("DST")`, "")
		if run.errNil && !created && !has(`open("SRC")=fail`) {
			problems = append(problems, fmt.Sprintf("success is returned without the destination having been created and written (effects %v): whatever is at the destination stays as it was, which need not be the source's bytes", ef))
			continue
		}
		anyFail := !opened || !created || copyFail || closeFail
		if anyFail && run.errNil {
			problems = append(problems, fmt.Sprintf("a failing step is not reported (effects %v)", ef))
		}
		if !anyFail && !run.errNil {
			problems = append(problems, fmt.Sprintf("error returned although every step succeeded (effects %v)", ef))
		}
		if created && (copyFail || closeFail) && !removed {
			problems = append(problems, "the destination is created and then left behind when copying or closing fails: a partial file stays in the destination directory")
		}
		if !anyFail && removed {
			problems = append(problems, "the destination is removed although the copy succeeded")
		}
		if created && !hasPrefix(ef, "close(handle:create", "") && !hasPrefix(ef, "close(handle:openfile", "") {
			problems = append(problems, "the destination file is never closed")
		}
		if opened && !hasPrefix(ef, "close(handle:open(", "") {
			problems = append(problems, "the source file is not closed on every path")
		}
		if created && !has("iocopy") {
			problems = append(problems, "nothing is copied")
		}
		if i, j := idx("iocopy"), idx(`create("DST")`); i >= 0 && j >= 0 && i < j {
			problems = append(problems, "copies before creating the destination")
		}
		// the destination must be created truncating (os.Create) - an open without O_TRUNC keeps stale bytes
		for _, e := range ef {
			if strings.HasPrefix(e, `openfile("DST"`) && !strings.HasSuffix(e, "=ok") && !strings.HasSuffix(e, "=fail") {
				// flags are argument 2: O_WRONLY|O_CREATE|O_TRUNC = 1|64|512 on linux
				parts := strings.Split(strings.Trim(e[len("openfile"):], "()"), ",")
				if len(parts) >= 2 {
					var flags int
					fmt.Sscan(parts[1], &flags)
					if flags&512 == 0 {
						problems = append(problems, "the destination is opened without O_TRUNC: copying over a longer existing file leaves its tail in place")
					}
				}
			}
		}
	}
	for _, pr := range problems {
		if strings.HasPrefix(pr, "undecided") {
			r.undecided("internal.Copy", pos, pr)
			return
		}
	}
	problems = uniq(problems)
	r.check(len(problems) == 0, "internal.Copy", pos, fmt.Sprintf("%d paths over open/create/copy/close outcomes", len(runs)), strings.Join(problems, "; "))
}

func hasPrefix(list []string, prefix, suffix string) bool {
	for _, e := range list {
		if strings.HasPrefix(e, prefix) && strings.HasSuffix(e, suffix) {
			return true
		}
	}
	return false
}

// c20Path: the handle made by ParseDscFile / ParseChangesFile names the file the caller named: its Filename is the
// absolute form of the given path and nothing else (a symbolic link is not resolved: "the control file's own
// directory" is the directory of the path the caller gave, and Remove deletes that path, not what it points to),
// and the file opened for parsing is that path.
func c20Path(p *Prog, rp *Report) {
	r := rp.Rule("C20-PATH", "the handle records the absolute form of the path the caller gave, and that file is the one parsed", 2)
	for _, c := range []struct{ ctor, typ string }{{"ParseDscFile", "DSC"}, {"ParseChangesFile", "Changes"}} {
		fn := p.Func("control", c.ctor)
		t := p.Named("control", c.typ)
		key := "control." + c.ctor
		if fn == nil || t == nil {
			r.bad(key, "", "function not found", nil)
			continue
		}
		pos := p.Pos(fn.Pos())
		m := NewMachine(p, nil)
		installStringModels(m)
		installIOGlobals(m)
		var opened []string
		str := func(v Val) string { s, _ := v.(string); return s }
		m.Hooks["path/filepath.Abs"] = func(m *Machine, st *State, call *ssa.CallCommon, args []Val) ([]Val, bool) {
			return []Val{&TupleV{E: []Val{"/abs/" + str(args[0]), nilV{}}}}, true
		}
		m.Hooks["path/filepath.EvalSymlinks"] = func(m *Machine, st *State, call *ssa.CallCommon, args []Val) ([]Val, bool) {
			return []Val{&TupleV{E: []Val{"/elsewhere/pool/hello_1.0.dsc", nilV{}}}}, true
		}
		m.Hooks["os.Readlink"] = func(m *Machine, st *State, call *ssa.CallCommon, args []Val) ([]Val, bool) {
			return []Val{&TupleV{E: []Val{"../pool/hello_1.0.dsc", nilV{}}}}, true
		}
		m.Hooks["os.Open"] = func(m *Machine, st *State, call *ssa.CallCommon, args []Val) ([]Val, bool) {
			opened = append(opened, str(args[0]))
			id := st.alloc(types.Typ[types.Int], OpaqueV{"file:" + str(args[0])})
			return []Val{&TupleV{E: []Val{Ptr{Obj: id}, nilV{}}}}, true
		}
		m.Hooks["(*os.File).Close"] = func(m *Machine, st *State, call *ssa.CallCommon, args []Val) ([]Val, bool) {
			return []Val{nilV{}}, true
		}
		m.Hooks["bufio.NewReader"] = func(m *Machine, st *State, call *ssa.CallCommon, args []Val) ([]Val, bool) {
			id := st.alloc(types.Typ[types.Int], OpaqueV{"bufio"})
			return []Val{Ptr{Obj: id}}, true
		}
		// the content of the document does not matter here
		okNil := func(m *Machine, st *State, call *ssa.CallCommon, args []Val) ([]Val, bool) { return []Val{nilV{}}, true }
		m.Hooks[repoModule+"/control.Unmarshal"] = okNil
		m.Hooks["(*"+repoModule+"/control.Decoder).Decode"] = okNil
		st := initState(m, "control")
		if st.Status == stStuck {
			r.undecided(key, pos, st.Msg)
			continue
		}
		st.Status = stRun
		st.push(fn, []Val{"queue/hello_1.0.dsc"}, nil)
		out := m.Run(st)
		if len(out) != 1 || out[0].Status != stRet {
			r.undecided(key, pos, retDesc(out))
			continue
		}
		tv, ok := st.Ret.(*TupleV)
		if !ok || len(tv.E) != 2 {
			r.undecided(key, pos, "unexpected result shape")
			continue
		}
		var problems []string
		if _, errNil := tv.E[1].(nilV); !errNil {
			problems = append(problems, "a readable file is refused")
		} else if hp, isPtr := tv.E[0].(Ptr); !isPtr {
			problems = append(problems, "no handle is returned")
		} else {
			hv, _ := st.load(hp)
			sv, _ := hv.(*StructV)
			fi := fieldIndex(structOf(t), "Filename")
			if sv == nil || fi < 0 {
				r.undecided(key, pos, "the handle has no Filename")
				continue
			}
			if got, _ := sv.F[fi].(string); got != "/abs/queue/hello_1.0.dsc" {
				problems = append(problems, fmt.Sprintf("given queue/hello_1.0.dsc (a symbolic link into another directory), the handle's Filename is %q, want the absolute form of the path given, /abs/queue/hello_1.0.dsc: Copy, Move and Remove take the directory of Filename for the control file's own directory and act on Filename itself", got))
			}
			if len(opened) != 1 || (opened[0] != "/abs/queue/hello_1.0.dsc" && opened[0] != "queue/hello_1.0.dsc") {
				problems = append(problems, fmt.Sprintf("the file(s) opened for parsing are %q, want the path given", opened))
			}
		}
		fillProblems(r, key, pos, problems, "Filename = filepath.Abs(path), the file parsed is that path; a symbolic link is not resolved")
	}
}
