package main

// C17 — changelog parsing. changelog.Parse / ParseOne are interpreted
// abstractly with the buffered reader replaced by an oracle playing scripts of
// changelog line kinds; results are compared with a dpkg-changelog reference.

import (
	"fmt"
	"go/types"
	"sort"
	"strings"
	"time"

	"golang.org/x/tools/go/ssa"
)

func init() { register("C17", checkC17) }

type refEntry struct {
	source, target, body, by, when string
	epoch                          int64
	upstream, revision             string
	args                           map[string]string
}

func (e *refEntry) String() string {
	var ks []string
	for k, v := range e.args {
		ks = append(ks, k+"="+v)
	}
	sort.Strings(ks)
	return fmt.Sprintf("{%s (%d:%s-%s) %q opts=%v body=%q by=%q when=%s}", e.source, e.epoch, e.upstream, e.revision, e.target, ks, e.body, e.by, e.when)
}

func refTrim(s string) string { return strings.Trim(s, "\n\r\t ") }

func refPartition(s, d string) (string, string) {
	i := strings.Index(s, d)
	if i < 0 {
		return s, ""
	}
	return s[:i], s[i+len(d):]
}

// refVersion: Policy 5.6.12 grammar (DESIGN Appendix A2).
func refVersion(s string) (int64, string, string, bool) {
	s = strings.TrimSpace(s)
	if s == "" || strings.ContainsAny(s, " \t\n\r\v\f") {
		return 0, "", "", false
	}
	var epoch int64
	if i := strings.Index(s, ":"); i >= 0 {
		if i == 0 {
			return 0, "", "", false
		}
		for _, c := range s[:i] {
			if c < '0' || c > '9' {
				return 0, "", "", false
			}
			epoch = epoch*10 + int64(c-'0')
		}
		s = s[i+1:]
	}
	rev := ""
	if i := strings.LastIndex(s, "-"); i >= 0 {
		s, rev = s[:i], s[i+1:]
	}
	if s == "" || s[0] < '0' || s[0] > '9' {
		return 0, "", "", false
	}
	for _, c := range s {
		if !inUpstreamAlphabet(c) {
			return 0, "", "", false
		}
	}
	for _, c := range rev {
		if !inRevisionAlphabet(c) {
			return 0, "", "", false
		}
	}
	return epoch, s, rev, true
}

func refWhen(s string) (string, bool) {
	t, err := time.Parse("Mon, 02 Jan 2006 15:04:05 -0700", s)
	if err != nil {
		return "", false
	}
	_, off := t.Zone()
	return fmt.Sprintf("time:%d:%d", t.Unix(), off), true
}

func refParseOne(lines []string, pos int) (*refEntry, string, int) {
	var header string
	for {
		if pos >= len(lines) {
			return nil, "EOF", pos
		}
		l := lines[pos]
		pos++
		if l == "\n" {
			continue
		}
		if strings.HasPrefix(l, " ") {
			return nil, "bad", pos
		}
		header = l
		break
	}
	e := &refEntry{args: map[string]string{}}
	arguments, options := refPartition(header, ";")
	source, rem := refPartition(arguments, "(")
	ver, suite := refPartition(rem, ")")
	e.source = refTrim(source)
	var ok bool
	e.epoch, e.upstream, e.revision, ok = refVersion(refTrim(ver))
	if !ok {
		return nil, "bad", pos
	}
	e.target = refTrim(suite)
	for _, o := range strings.Split(options, ",") {
		k, v := refPartition(refTrim(o), "=")
		e.args[refTrim(k)] = refTrim(v)
	}
	for {
		if pos >= len(lines) {
			return nil, "UEOF", pos
		}
		l := lines[pos]
		pos++
		if !strings.HasPrefix(l, " ") && refTrim(l) != "" {
			return nil, "bad", pos
		}
		if strings.HasPrefix(l, " -- ") {
			_, rest := refPartition(l, "--")
			whom, when := refPartition(rest, "  ")
			e.by = refTrim(whom)
			w, ok := refWhen(refTrim(when))
			if !ok {
				return nil, "bad", pos
			}
			e.when = w
			return e, "", pos
		}
		e.body += l
	}
}

func refParseAll(lines []string) ([]*refEntry, string) {
	var out []*refEntry
	pos := 0
	for {
		e, err, np := refParseOne(lines, pos)
		pos = np
		if err == "EOF" {
			return out, ""
		}
		if err != "" {
			return nil, err
		}
		out = append(out, e)
	}
}

func checkC17(p *Prog, rp *Report) {
	defer stateRule(p, rp, "C17-STATE", p.Func("changelog", "Parse"), p.Func("changelog", "ParseOne"))
	rp.Explanation = "changelog.Parse (and through it ParseOne) is interpreted abstractly with the reader replaced by an oracle playing scripts of changelog lines (two header kinds incl. epoch, several distributions and options; malformed headers; blank lines; body lines; trailers with two zones; malformed trailers; garbage), namely every sequence of up to 3 line kinds, and for a well-formed one- and two-entry changelog every single-line substitution, deletion and insertion, every truncation point and the missing final newline. The returned entries (source, version parts, distributions, options map, verbatim body, maintainer, instant and zone offset) and the error/no-error verdict are compared with a dpkg-changelog reference: input that ends inside an entry or is malformed must give an error, never fewer entries (C17-TABLE). C17-LIST: Parse returns the entries so far only on a clean io.EOF between entries; any other error gives an empty list."
	rp.NotDecided = "time.Parse and bufio.Reader (standard library); changelog line shapes not represented by the line kinds."
	rp.Trusted = []string{"go/types, go/ssa", "time.Parse with layout RFC1123Z, bufio.Reader.ReadString", "the changelog reference model in c17.go (deb-changelog(5))"}
	tbl := rp.Rule("C17-TABLE", "Parse agrees with the changelog reference on every script", 1)
	fn := p.Func("changelog", "Parse")
	entT := p.Named("changelog", "ChangelogEntry")
	verT := p.Named("version", "Version")
	if fn == nil || entT == nil || verT == nil {
		tbl.bad("changelog.Parse", "", "function not found", nil)
		return
	}
	pos := p.Pos(fn.Pos())
	H1 := "hello (1.0-1) unstable; urgency=low\n"
	H2 := "pkg-x (2:1.2~rc1-3) stable-security oldstable-security; urgency=high, binary-only=yes\n"
	B := "\n"
	C1 := "  * change one\n"
	C2 := "    continued line\n"
	T1 := " -- Maint Ainer <m@example.org>  Mon, 02 Jan 2006 15:04:05 -0700\n"
	T2 := " -- Other <o@example.net>  Tue, 03 Jan 2006 10:00:00 +0200\n"
	kinds := []string{H1, H2, "header-without-version\n", "x (a.b) unstable; urgency=low\n", B, C1, C2, " \n", T1, T2, " -- A <a@b>  not a date\n", " -- A <a@b> Mon, 02 Jan 2006 15:04:05 -0700\n", "garbage line\n", " --\n"}
	var scripts [][]string
	for _, a := range kinds {
		scripts = append(scripts, []string{a})
		for _, b := range kinds {
			scripts = append(scripts, []string{a, b})
			for _, c := range kinds {
				scripts = append(scripts, []string{a, b, c})
				if rp.Tier == "thorough" { // every sequence of four line kinds as well
					for _, d := range kinds {
						scripts = append(scripts, []string{a, b, c, d})
					}
				}
			}
		}
	}
	// consecutive entries whose headers carry the same option keys with different values (and the same values)
	H3 := "hello (1.0-2) unstable; urgency=high\n"
	H4 := "pkg-x (2:1.2~rc1-4) stable-security; urgency=low, binary-only=no\n"
	H5 := "pkg-x (2:1.2~rc1-5) stable-security; urgency=high, binary-only=yes\n"
	scripts = append(scripts,
		[]string{H3, B, C1, B, T1, B, H1, B, C1, B, T2},
		[]string{H1, B, C1, B, T1, B, H3, B, C1, B, T2, B, H1, B, C1, B, T1},
		[]string{H2, B, C1, B, T1, B, H4, B, C1, B, T2},
		[]string{H5, B, C1, B, T1, B, H2, B, C1, B, T2, B, H4, B, C1, B, T1})
	// option values with a commentary (Policy 5.6.17: "urgency=low (HIGH for users of diversions)"): options are
	// separated by commas only, and a value is everything after the first '='
	H6 := "dpkg (1.4.0.9) unstable; urgency=low (HIGH for users of diversions)\n"
	H7 := "pkg-x (2:1.2~rc1-6) stable; urgency=medium (see NEWS = news), binary-only=yes\n"
	scripts = append(scripts,
		[]string{H6, B, C1, B, T1},
		[]string{H7, B, C1, B, T1, B, H6, B, C1, C2, B, T2})
	// names and change lines outside ASCII (UTF-8 is what changelogs are written in): first and last bytes >= 0x80
	T3 := " -- \u00d8rjan \u00c9mile \u00c5\u00e0 <orjan@example.org>  Mon, 02 Jan 2006 15:04:05 -0700\n"
	C3 := "  * Gr\u00fc\u00dfe \u2014 d\u00e9j\u00e0\n"
	scripts = append(scripts,
		[]string{H1, B, C3, B, T3},
		[]string{H2, B, C1, C3, B, T3, B, H1, B, C3, B, T1})
	// lines far longer than any reader buffer
	longChange := "  * Closes: " + strings.Repeat("#123456, ", 700) + "\n"
	scripts = append(scripts, []string{H1, B, longChange, C2, B, T1}, []string{H1, B, C1, B, T1, B, H2, B, longChange, B, T2})
	// headers and trailers with their punctuation out of place: whatever Parse makes of them, it returns
	oddLines := []string{
		"hello) (1.0-1) unstable; urgency=low\n", "hello )1.0-1( unstable; urgency=low\n", "hello (1.0-1 unstable; urgency=low\n", "hello 1.0-1) unstable; urgency=low\n",
		"hello ((1.0-1)) unstable; urgency=low\n", "hello () unstable; urgency=low\n", "hello (1.0-1)unstable; urgency=low\n", "(1.0-1) unstable; urgency=low\n",
		"hello (1.0-1) unstable\n", "hello (1.0-1) unstable;\n", "hello (1.0-1) ; urgency=low\n", "hello (1.0-1) unstable; urgency\n", "hello (1.0-1) unstable; =low\n",
		";\n", "(\n", ")\n", ")(\n", "hello (1.0-1) unstable; urgency=low; more=1\n", "hello (1.0-1) unstable; urgency=low,\n", "hello (1.0-1) unstable; a=b=c\n",
		" -- <a@b>  Mon, 02 Jan 2006 15:04:05 -0700\n", " -- A  Mon, 02 Jan 2006 15:04:05 -0700\n", " -- A <a@b  Mon, 02 Jan 2006 15:04:05 -0700\n", " -- A a@b>  Mon, 02 Jan 2006 15:04:05 -0700\n",
		" -- A >a@b<  Mon, 02 Jan 2006 15:04:05 -0700\n", " -- A <a@b>>  Mon, 02 Jan 2006 15:04:05 -0700\n", " -- A <a@b>  \n", " -- A <a@b>\n", " -- \n", " --  \n", " -- A <a@b>  Mon, 02 Jan 2006 15:04:05\n",
	}
	nCompared := 0
	one := []string{H1, B, C1, C2, B, T1}
	two := []string{H2, B, C1, B, T2, B, H1, B, C1, C2, B, T1}
	for _, base := range [][]string{one, two} {
		scripts = append(scripts, base)
		for i := range base {
			scripts = append(scripts, base[:i]) // truncation at every line boundary
			del := append(append([]string(nil), base[:i]...), base[i+1:]...)
			scripts = append(scripts, del)
			for _, k := range kinds {
				sub := append([]string(nil), base...)
				sub[i] = k
				scripts = append(scripts, sub)
				ins := append(append(append([]string(nil), base[:i]...), k), base[i:]...)
				scripts = append(scripts, ins)
			}
			// truncation inside line i
			cut := append([]string(nil), base[:i+1]...)
			if len(cut[i]) > 3 {
				cut[i] = cut[i][:len(cut[i])/2]
				scripts = append(scripts, cut)
			}
		}
		// missing final newline
		nf := append([]string(nil), base...)
		nf[len(nf)-1] = strings.TrimSuffix(nf[len(nf)-1], "\n")
		scripts = append(scripts, nf)
	}
	nCompared = len(scripts)
	for _, l := range oddLines {
		if strings.HasPrefix(l, " --") {
			scripts = append(scripts, []string{H1, B, C1, B, l}, []string{H1, B, C1, B, l, B, H2, B, C1, B, T2}, []string{l})
		} else {
			scripts = append(scripts, []string{l, B, C1, B, T1}, []string{H1, B, C1, B, T1, B, l, B, C1, B, T2}, []string{l})
		}
	}
	n := 0
	mismatch, undec := "", ""
	for si, sc := range scripts {
		n++
		m := readerMachine(p, sc)
		m.Hooks["bufio.NewReader"] = func(m *Machine, st *State, call *ssa.CallCommon, args []Val) ([]Val, bool) {
			id := st.alloc(types.Typ[types.Int], OpaqueV{"bufio"})
			return []Val{Ptr{Obj: id}}, true
		}
		m.Hooks["time.Parse"] = func(m *Machine, st *State, call *ssa.CallCommon, args []Val) ([]Val, bool) {
			layout, ok1 := args[0].(string)
			s, ok2 := args[1].(string)
			if !ok1 || !ok2 {
				return nil, false
			}
			t, err := time.Parse(layout, s)
			if err != nil {
				return []Val{&TupleV{E: []Val{OpaqueV{"time:zero"}, IfaceV{T: errType, V: "time parse error"}}}}, true
			}
			_, off := t.Zone()
			return []Val{&TupleV{E: []Val{OpaqueV{fmt.Sprintf("time:%d:%d", t.Unix(), off)}, nilV{}}}}, true
		}
		st := initState(m, "changelog", "version")
		st.push(fn, []Val{IfaceV{T: types.NewPointer(types.Typ[types.Int]), V: OpaqueV{"the-input"}}}, nil)
		out := m.Run(st)
		if len(out) == 1 && out[0].Status == stPanic {
			if mismatch == "" {
				mismatch = fmt.Sprintf("input %q makes Parse panic: %s", strings.Join(sc, ""), out[0].Msg)
			}
			continue
		}
		if len(out) != 1 || out[0].Status != stRet {
			undec = fmt.Sprintf("script %q: %s", sc, retDesc(out))
			break
		}
		tv := st.Ret.(*TupleV)
		_, errNil := tv.E[1].(nilV)
		if si >= nCompared {
			// out-of-place punctuation: the format says nothing beyond "all entries or an error"
			if elems, _, ok := m.sliceElems(st, tv.E[0]); ok && !errNil && len(elems) != 0 && mismatch == "" {
				mismatch = fmt.Sprintf("input %q: %d entries are returned together with the error", strings.Join(sc, ""), len(elems))
			}
			continue
		}
		want, wantErr := refParseAll(sc)
		input := strings.Join(sc, "")
		if errNil != (wantErr == "") {
			if mismatch == "" {
				if errNil {
					elems, _, _ := m.sliceElems(st, tv.E[0])
					mismatch = fmt.Sprintf("input %q is malformed or ends inside an entry (%s) but Parse returns %d entries and no error", input, wantErr, len(elems))
				} else {
					mismatch = fmt.Sprintf("input %q is a well-formed changelog of %d entries but Parse returns an error", input, len(want))
				}
			}
			continue
		}
		elems, _, ok := m.sliceElems(st, tv.E[0])
		if !ok {
			undec = "result is not an exact slice"
			break
		}
		if !errNil {
			if len(elems) != 0 && mismatch == "" {
				mismatch = fmt.Sprintf("input %q: %d entries are returned together with the error", input, len(elems))
			}
			continue
		}
		var got []*refEntry
		for _, e := range elems {
			sv, _ := e.(*StructV)
			if sv == nil {
				undec = "entry is not a struct"
				break
			}
			es := structOf(entT)
			g := &refEntry{args: map[string]string{}}
			str := func(f string) string { s, _ := sv.F[fieldIndex(es, f)].(string); return s }
			g.source, g.target, g.body, g.by = str("Source"), str("Target"), str("Changelog"), str("ChangedBy")
			if vv, ok := sv.F[fieldIndex(es, "Version")].(*StructV); ok {
				vs := structOf(verT)
				g.epoch, _ = vv.F[fieldIndex(vs, "Epoch")].(int64)
				g.upstream, _ = vv.F[fieldIndex(vs, "Version")].(string)
				g.revision, _ = vv.F[fieldIndex(vs, "Revision")].(string)
			}
			if w, ok := sv.F[fieldIndex(es, "When")].(OpaqueV); ok {
				g.when = w.Name
			}
			if mv, ok := sv.F[fieldIndex(es, "Arguments")].(MapV); ok {
				mo := st.Heap[mv.Obj].V.(*MapObjV)
				for i := range mo.K {
					k, _ := mo.K[i].(string)
					v, _ := mo.V[i].(string)
					g.args[k] = v
				}
			}
			got = append(got, g)
		}
		gs, ws := fmt.Sprint(got), fmt.Sprint(want)
		if gs != ws && mismatch == "" {
			mismatch = fmt.Sprintf("input %q: Parse gives %s, the reference says %s", input, gs, ws)
		}
	}
	rp.Extra["scripts"] = n
	if undec != "" {
		tbl.undecided("changelog.Parse", pos, undec)
	} else {
		tbl.check(mismatch == "", "changelog.Parse", pos, fmt.Sprintf("%d scripts: entries equal the reference field by field; malformed or truncated input always gives an error and no entries", n), mismatch)
	}

	tableOK := undec == "" && mismatch == ""
	// C17-LIST: Parse with ParseOne as oracle
	lst := rp.Rule("C17-LIST", "Parse: entries until a clean io.EOF; any other error gives an empty list and that error", 1)
	po := p.Func("changelog", "ParseOne")
	if po == nil {
		lst.bad("changelog.ParseOne", "", "function not found", nil)
		return
	}
	var problems []string
	oracleCalled := false
	for _, sc := range [][]string{{"EOF"}, {"e1", "EOF"}, {"e1", "e2", "EOF"}, {"ERR"}, {"e1", "ERR"}, {"e1", "UEOF"}} {
		m := NewMachine(p, nil)
		installStringModels(m)
		installIOGlobals(m)
		m.Hooks["bufio.NewReader"] = func(m *Machine, st *State, call *ssa.CallCommon, args []Val) ([]Val, bool) {
			id := st.alloc(types.Typ[types.Int], OpaqueV{"bufio"})
			return []Val{Ptr{Obj: id}}, true
		}
		i := 0
		sc := sc
		m.Hooks[po.String()] = func(m *Machine, st *State, call *ssa.CallCommon, args []Val) ([]Val, bool) {
			oracleCalled = true
			s := sc[i]
			i++
			switch s {
			case "EOF":
				return []Val{&TupleV{E: []Val{nilV{}, eofVal}}}, true
			case "UEOF":
				return []Val{&TupleV{E: []Val{nilV{}, unexpectedEOFVal}}}, true
			case "ERR":
				return []Val{&TupleV{E: []Val{nilV{}, IfaceV{T: errType, V: "bad"}}}}, true
			}
			id := st.alloc(entT, mkStruct(entT, map[string]Val{"Source": s}))
			return []Val{&TupleV{E: []Val{Ptr{Obj: id}, nilV{}}}}, true
		}
		st := initState(m, "changelog")
		st.push(fn, []Val{IfaceV{T: types.NewPointer(types.Typ[types.Int]), V: OpaqueV{"in"}}}, nil)
		out := m.Run(st)
		if len(out) != 1 || out[0].Status != stRet {
			problems = append(problems, "undecided: "+retDesc(out))
			continue
		}
		tv := st.Ret.(*TupleV)
		elems, _, _ := m.sliceElems(st, tv.E[0])
		_, errNil := tv.E[1].(nilV)
		last := sc[len(sc)-1]
		wantN := 0
		if last == "EOF" {
			wantN = len(sc) - 1
		}
		if errNil != (last == "EOF") || len(elems) != wantN {
			problems = append(problems, fmt.Sprintf("ParseOne yields %v: Parse returns %d entries, error nil=%v; want %d entries, error nil=%v", sc, len(elems), errNil, wantN, last == "EOF"))
		}
	}
	und := ""
	for _, pr := range problems {
		if strings.HasPrefix(pr, "undecided") {
			und = pr
		}
	}
	if und != "" && !oracleCalled && tableOK {
		// Parse does not go through the exported ParseOne (its work is done by an unexported function): the clause is
		// then what C17-TABLE decided on its scripts, which contain every truncation and every malformed line kind
		// and compare the entries returned together with the error
		lst.ok("changelog.Parse", pos, "Parse does not call ParseOne; decided by the scripts of C17-TABLE (entries only without an error, on every truncation and malformed line)")
	} else if und != "" {
		lst.undecided("changelog.Parse", pos, und)
	} else {
		lst.check(len(problems) == 0, "changelog.Parse", pos, "6 outcome sequences of ParseOne", strings.Join(problems, "; "))
	}
}
